"""The real parser's node tree (ckl.nodes) -> a Gallina term of type Eval.expr.
Fails (raises Unknown) on a node class or field it does not know, so a new node class or field
cannot be silently ignored; constructs outside the modelled fragment become EUnmodelled."""
from vlib import gal


class Unknown(Exception):
    pass


def s(x):
    return "[" + "; ".join(str(ord(c)) for c in x) + "]"


def opt(x, f):
    return "None" if x is None else "(Some %s)" % f(x)


WHAT = {None: 9, "values": 0, "keys": 1, "entries": 2}

FIELDS = {
    "NodeAnd": {"expressions", "pos"}, "NodeOr": {"expressions", "pos"}, "NodeNot": {"expression", "pos"},
    "NodeAssign": {"identifier", "expression", "pos"}, "NodeAssignDestructuring": {"identifiers", "expression", "pos"},
    "NodeBlock": {"expressions", "catchexprs", "finallyexprs", "pos", "toplevel"}, "NodeBreak": {"pos"}, "NodeContinue": {"pos"},
    "NodeReturn": {"expression", "pos"}, "NodeError": {"expression", "pos"}, "NodeDef": {"identifier", "expression", "info", "pos"},
    "NodeDefDestructuring": {"identifiers", "expression", "info", "pos"}, "NodeDeref": {"expression", "index", "default_value", "pos"},
    "NodeDerefAssign": {"expression", "value", "index", "pos"}, "NodeDerefSlice": {"expression", "start", "end", "pos"},
    "NodeFor": {"identifiers", "expression", "block", "pos", "what"}, "NodeWhile": {"expression", "block", "pos"},
    "NodeFuncall": {"func", "names", "args", "pos"}, "NodeDerefInvoke": {"objectExpr", "member", "names", "args", "pos"},
    "NodeIf": {"conditions", "expressions", "elseExpression", "pos"}, "NodeIn": {"expression", "list", "pos"},
    "NodeLambda": {"args", "defs", "pos", "body"}, "NodeList": {"items", "pos"}, "NodeSet": {"items", "pos"},
    "NodeMap": {"keys", "values", "pos"}, "NodeObject": {"keys", "values", "pos"}, "NodeIdentifier": {"value", "pos"},
    "NodeLiteral": {"value", "pos"}, "NodeNull": {"pos"}, "NodeSpread": {"expression", "pos"},
    "NodeListComprehension": {"valueExpr", "identifier", "listExpr", "what", "conditionExpr", "pos"},
    "NodeSetComprehension": {"valueExpr", "identifier", "listExpr", "what", "conditionExpr", "pos"},
    "NodeMapComprehension": {"keyExpr", "valueExpr", "identifier", "listExpr", "what", "conditionExpr", "pos"},
}
for _k in ("NodeListComprehensionParallel", "NodeListComprehensionProduct", "NodeSetComprehensionParallel", "NodeSetComprehensionProduct"):
    FIELDS[_k] = {"valueExpr", "identifier1", "listExpr1", "what1", "identifier2", "listExpr2", "what2", "conditionExpr", "pos"}


def lit(v):
    from ckl import values as V
    if isinstance(v, V.ValueNull):
        return "(ELit LNull)"
    if isinstance(v, V.ValueBoolean):
        return "(ELit (LBool %s))" % ("true" if v.value else "false")
    if isinstance(v, V.ValueInt) and isinstance(v.value, int) and not isinstance(v.value, bool):
        return "(ELit (LInt %s))" % gal.zlit(v.value)
    if isinstance(v, V.ValueDecimal) and isinstance(v.value, float):
        return "(ELit (LDec %s))" % gal.flit(v.value)
    if isinstance(v, V.ValueString):
        return "(ELit (LStr %s))" % s(v.value)
    if isinstance(v, V.ValuePattern):
        return "(ELit (LPat %s))" % s(v.value)
    return "EUnmodelled"


def conv(n):
    cls = type(n).__name__
    if cls in FIELDS:
        extra = set(vars(n)) - FIELDS[cls]
        if extra:
            raise Unknown("%s has unknown fields %s" % (cls, sorted(extra)))
    c = conv
    if cls == "NodeNull":
        return "(ELit LNull)"
    if cls == "NodeLiteral":
        return lit(n.value)
    if cls == "NodeIdentifier":
        return "(EId %s)" % s(n.value)
    if cls == "NodeAnd":
        return "(EAnd [%s])" % "; ".join(c(e) for e in n.expressions)
    if cls == "NodeOr":
        return "(EOr [%s])" % "; ".join(c(e) for e in n.expressions)
    if cls == "NodeNot":
        return "(ENot %s)" % c(n.expression)
    if cls == "NodeAssign":
        return "(EAssign %s %s)" % (s(n.identifier), c(n.expression))
    if cls == "NodeAssignDestructuring":
        return "(EAssignD [%s] %s)" % ("; ".join(s(x) for x in n.identifiers), c(n.expression))
    if cls == "NodeBlock":
        return "(EBlock [%s] [%s] [%s])" % ("; ".join(c(e) for e in n.expressions),
                                           "; ".join("(%s, %s)" % (opt(err, c), c(h)) for err, h in n.catchexprs),
                                           "; ".join(c(e) for e in n.finallyexprs))
    if cls == "NodeBreak":
        return "EBreak"
    if cls == "NodeContinue":
        return "EContinue"
    if cls == "NodeReturn":
        return "(EReturn %s)" % opt(n.expression, c)
    if cls == "NodeError":
        return "(EError %s)" % c(n.expression)
    if cls == "NodeDef":
        return "(EDef %s %s)" % (s(n.identifier), c(n.expression))
    if cls == "NodeDefDestructuring":
        return "(EDefD [%s] %s)" % ("; ".join(s(x) for x in n.identifiers), c(n.expression))
    if cls == "NodeDeref":
        return "(EDeref %s %s %s)" % (c(n.expression), c(n.index), opt(n.default_value, c))
    if cls == "NodeDerefAssign":
        return "(EDerefAssign %s %s %s)" % (c(n.expression), c(n.index), c(n.value))
    if cls == "NodeDerefSlice":
        return "(ESlice %s %s %s)" % (c(n.expression), c(n.start), opt(n.end, c))
    if cls == "NodeFor":
        return "(EFor [%s] %s %s %d)" % ("; ".join(s(x) for x in n.identifiers), c(n.expression), c(n.block), WHAT[n.what])
    if cls == "NodeWhile":
        return "(EWhile %s %s)" % (c(n.expression), c(n.block))
    if cls == "NodeFuncall":
        return "(ECall %s [%s])" % (c(n.func), "; ".join("(%s, %s)" % (opt(nm, s), c(a)) for nm, a in zip(n.names, n.args)))
    if cls == "NodeDerefInvoke":
        return "(EInvoke %s %s [%s])" % (c(n.objectExpr), s(n.member),
                                        "; ".join("(%s, %s)" % (opt(nm, s), c(a)) for nm, a in zip(n.names, n.args)))
    if cls == "NodeIf":
        return "(EIf [%s] %s)" % ("; ".join("(%s, %s)" % (c(a), c(b)) for a, b in zip(n.conditions, n.expressions)), c(n.elseExpression))
    if cls == "NodeIn":
        return "(EIn %s %s)" % (c(n.expression), c(n.list))
    if cls == "NodeLambda":
        return "(ELambda [%s] %s)" % ("; ".join("(%s, %s)" % (s(a), opt(d, c)) for a, d in zip(n.args, n.defs)), c(n.body))
    if cls == "NodeList":
        return "(EList [%s])" % "; ".join(c(e) for e in n.items)
    if cls == "NodeSet":
        return "(ESet [%s])" % "; ".join(c(e) for e in n.items)
    if cls == "NodeMap":
        return "(EMap [%s])" % "; ".join("(%s, %s)" % (c(k), c(v)) for k, v in zip(n.keys, n.values))
    if cls == "NodeObject":
        return "(EObject [%s])" % "; ".join("(%s, %s)" % (s(k), c(v)) for k, v in zip(n.keys, n.values))
    if cls == "NodeSpread":
        return "(ESpread %s)" % c(n.expression)
    if cls in ("NodeListComprehension", "NodeSetComprehension"):
        return "(EComp %d %s %s %s %d %s)" % (0 if "List" in cls else 1, c(n.valueExpr), s(n.identifier), c(n.listExpr),
                                              WHAT[n.what], opt(n.conditionExpr, c))
    if cls == "NodeMapComprehension":
        return "(EMapComp %s %s %s %s %d %s)" % (c(n.keyExpr), c(n.valueExpr), s(n.identifier), c(n.listExpr), WHAT[n.what],
                                                 opt(n.conditionExpr, c))
    if cls in ("NodeListComprehensionParallel", "NodeListComprehensionProduct", "NodeSetComprehensionParallel", "NodeSetComprehensionProduct"):
        return "(EComp2 %d %s %s %s %s %d %s %s %d %s)" % (
            0 if "List" in cls else 1, "true" if "Parallel" in cls else "false", c(n.valueExpr), s(n.identifier1), c(n.listExpr1),
            WHAT[n.what1], s(n.identifier2), c(n.listExpr2), WHAT[n.what2], opt(n.conditionExpr, c))
    if cls in ("NodeClass", "NodeRequire"):
        return "EUnmodelled"
    raise Unknown("unknown node class %s" % cls)


def program(src, name="t"):
    from ckl.parser import parse_script
    return conv(parse_script(src, name))
