#!/venv/bin/python
"""show.py Class[.method] ... : print the source of methods in /repo/src/ckl/functions.py (default execute)"""
import ast, sys
src = open('/repo/src/ckl/functions.py').read()
tree = ast.parse(src)
for name in sys.argv[1:]:
    cls, _, meth = name.partition('.')
    meth = meth or 'execute'
    for n in tree.body:
        if isinstance(n, ast.ClassDef) and n.name == cls:
            for m in n.body:
                if isinstance(m, ast.FunctionDef) and m.name == meth:
                    print("# %s.%s (line %d)" % (cls, meth, m.lineno))
                    print(ast.get_source_segment(src, m))
