"""Worker: run programs (JSON list on stdin) on the implementation in this process (whose PYTHONHASHSEED
was chosen by the caller) and print the canonical outcomes plus captured output as JSON."""
import io
import json
import sys

sys.path.insert(0, "/verif/lib")
from vlib import core  # noqa
core.setup_impl_path()
from vlib import impl  # noqa
from ckl.values import ValueOutput  # noqa

progs = json.load(sys.stdin)
I = impl.new_interpreter(False, True if len(sys.argv) > 1 and sys.argv[1] == "legacy" else False)
out = []
for p in progs:
    I.environment = I.base_environment.newEnv()
    buf = io.StringIO()
    I.setStandardOutput(buf)
    r = impl.run_src(I, p, seconds=3.0)
    out.append([list(r[:2]) if r[0] != "host" else list(r[:2]), buf.getvalue()])
json.dump(out, sys.stdout)
