import glob, json, os, subprocess, sys
ids=sys.argv[1:]
prev={}
for m in glob.glob('/verif/seeded/*/meta.json'):
    d=json.load(open(m)); prev.setdefault(d['property'],[]).append(d['breaks'])
for pid in ids:
    wt='/tmp/wt-%s'%pid
    subprocess.run(['git','-C','/repo','worktree','remove','--force',wt],capture_output=True)
    subprocess.run(['git','-C','/repo','worktree','add','--detach',wt,'HEAD','-q'],check=True)
    extra="Changes of the following kinds have ALREADY been made by others for this property - do NOT repeat them or close variants of them, find a different place and mechanism: " + " || ".join("(%d) %s" % (i+1,b) for i,b in enumerate(prev.get(pid,[]))) + " Look for places nobody has touched yet: other functions, other syntactic forms, other value kinds, the bundled .ckl modules, less obvious interactions of two features."
    out=subprocess.run(['/verif/tools/agent_prompt.py',pid,wt,extra],capture_output=True,text=True).stdout
    open('/tmp/prompt-%s.txt'%pid,'w').write(out)
    print(pid,len(out))
