"""Worker for the C13 enumeration: evaluates programs (with a per-program wall-clock bound) in a throw-away
working directory and classifies the outcome: val / err (language runtime error) / syntax / host:<class> / timeout."""
import io
import os
import sys
import tempfile


def run_chunk(args):
    progs, legacy = args
    sys.path.insert(0, "/verif/lib")
    from vlib import core
    core.setup_impl_path()
    from vlib import impl
    from ckl.values import ValueInput, StringInput
    d = tempfile.mkdtemp(prefix="c13_", dir="/verif/.work")
    old = os.getcwd()
    os.chdir(d)
    os.environ["HOME"] = d
    out = []
    try:
        I = impl.new_interpreter(False, legacy)
        for p in progs:
            I.environment = I.base_environment.newEnv()
            I.setStandardOutput(io.StringIO())
            I.setStandardInput(StringInput(""))
            try:
                r = impl.run_src(I, p, seconds=2.0)
            except BaseException as e:   # SystemExit and friends
                r = ("host", type(e).__name__, str(e)[:100])
            if r[0] == "host":
                out.append("host:" + r[1])
            elif r[0] == "err":
                out.append("err" if r[1] != "(uncanon)" else "err-uncanon")
            else:
                out.append(r[0])
            if r[0] == "timeout":
                I = impl.new_interpreter(False, legacy)
    finally:
        os.chdir(old)
        import shutil
        shutil.rmtree(d, ignore_errors=True)
    return out
