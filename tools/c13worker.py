"""Worker for the C13 enumeration: evaluates programs (with a per-program wall-clock bound) in a throw-away
working directory and classifies the outcome: val / err (language runtime error) / syntax / host:<class> / timeout."""
import io
import os
import sys
import tempfile


def run_chunk(args):
    progs, legacy = args
    sys.path.insert(0, "/verif/lib")
    from vlib import core
    core.setup_impl_path()
    from vlib import impl
    from ckl.values import ValueInput, StringInput
    d = tempfile.mkdtemp(prefix="c13_", dir="/verif/.work")
    old = os.getcwd()
    os.chdir(d)
    os.environ["HOME"] = d
    out = []
    try:
        I = impl.new_interpreter(False, legacy)
        for p in progs:
            I.environment = I.base_environment.newEnv()
            I.setStandardOutput(io.StringIO())
            I.setStandardInput(StringInput(""))
            try:
                r = impl.run_src(I, p, seconds=2.0)
            except BaseException as e:   # SystemExit and friends
                r = ("host", type(e).__name__, str(e)[:100])
            if r[0] == "host":
                out.append("host:" + r[1])
            elif r[0] == "err":
                out.append("err" if r[1] != "(uncanon)" else "err-uncanon")
            else:
                out.append(r[0])
            if r[0] == "timeout":
                I = impl.new_interpreter(False, legacy)
    finally:
        os.chdir(old)
        import shutil
        shutil.rmtree(d, ignore_errors=True)
    return out


def main():
    """script mode: {"progs": [...], "legacy": bool} on stdin; one outcome per line on stdout, flushed"""
    import json
    job = json.load(sys.stdin)
    sys.path.insert(0, "/verif/lib")
    from vlib import core
    core.setup_impl_path()
    from vlib import impl
    from ckl.values import StringInput
    d = tempfile.mkdtemp(prefix="c13_", dir="/verif/.work")
    os.chdir(d)
    os.environ["HOME"] = d
    real_out = os.fdopen(os.dup(1), "w")
    I = impl.new_interpreter(False, job["legacy"])
    try:
        for p in job["progs"]:
            I.environment = I.base_environment.newEnv()
            I.setStandardOutput(io.StringIO())
            I.setStandardInput(StringInput(""))
            try:
                r = impl.run_src(I, p, seconds=2.0)
            except BaseException as e:
                r = ("host", type(e).__name__, str(e)[:100])
            if r[0] == "host":
                o = "host:" + r[1]
            elif r[0] == "err":
                o = "err" if r[1] != "(uncanon)" else "err-uncanon"
            else:
                o = r[0]
            real_out.write(o + "\n")
            real_out.flush()
            if r[0] == "timeout":
                I = impl.new_interpreter(False, job["legacy"])
    finally:
        os.chdir("/verif")
        import shutil
        shutil.rmtree(d, ignore_errors=True)


def run_robust(progs, legacy, hard_timeout=None):
    """parent side: run the programs in worker subprocesses; a worker that dies or hangs identifies the
    program it was running (outcome 'crash' / 'hang') and the rest continues in a new worker"""
    import json
    import subprocess
    out = []
    rest = list(progs)
    while rest:
        budget = hard_timeout or (30 + 0.05 * len(rest))
        try:
            p = subprocess.run([sys.executable, os.path.abspath(__file__)], input=json.dumps({"progs": rest, "legacy": legacy}),
                               capture_output=True, text=True, timeout=budget)
            lines = p.stdout.split("\n")[:-1] if p.stdout.endswith("\n") else p.stdout.split("\n")
            lines = [l for l in lines if l]
            died = p.returncode != 0 or len(lines) < len(rest)
            tag = "crash"
        except subprocess.TimeoutExpired as e:
            so = e.stdout.decode() if isinstance(e.stdout, bytes) else (e.stdout or "")
            lines = [l for l in so.split("\n") if l]
            died = True
            tag = "hang"
        out += lines[:len(rest)]
        if died and len(lines) < len(rest):
            out.append(tag)
            rest = rest[len(lines) + 1:]
        else:
            rest = []
    return out


if __name__ == "__main__":
    main()
