"""T for C01/C14/C20: src/ckl/lexer.py (KEYWORDS and the body of Lexer.scan's character loop) ->
coq/Gen/LexGen.v, regenerated on every run.

The loop body is executed symbolically: each mutable variable of scan (state, token, tempbuf, line,
column, startline, startcolumn, updatepos and the read position) is a Gallina expression; assignments
update the symbolic environment, `if` chains become Gallina `if`s whose branches carry the rest of the
block, `self.tokens.append(Token(..))` appends to the emitted list, `raise CklSyntaxError` ends the step
with a lexical error.  Fail-closed: any statement or expression outside this shape raises Unsupported."""
import ast
import os

from . import pykernel as pk

VARS = ["state", "token", "tempbuf", "line", "column", "startline", "startcolumn", "updatepos"]
FIELD = {"state": "l_state", "token": "l_token", "tempbuf": "l_tempbuf", "line": "l_line", "column": "l_col",
         "startline": "l_sline", "startcolumn": "l_scol", "updatepos": "l_upd"}
TYPES = {"interpunction": 0, "operator": 1, "string": 2, "int": 3, "decimal": 4, "boolean": 5, "keyword": 6, "identifier": 7, "pattern": 8}


def cps(s):
    return "[" + "; ".join(str(ord(c)) for c in s) + "]"


class Sym:
    def __init__(self, env, toks, consumed):
        self.env = dict(env)
        self.toks = list(toks)
        self.consumed = consumed   # Gallina bool expression: was the character consumed


class LexTranslator:
    def __init__(self):
        self.here = None

    def fail(self, node, msg):
        raise pk.Unsupported("lexer.py line %s: %s: %s" % (getattr(node, "lineno", "?"), msg, ast.unparse(node)[:80]))

    # ---- expressions ----
    def sexpr(self, n, sym):
        """string valued expression -> Gallina str"""
        if isinstance(n, ast.Constant) and isinstance(n.value, str):
            return cps(n.value)
        if isinstance(n, ast.Name):
            if n.id == "ch":
                return "[ch]"
            if n.id in ("token", "tempbuf"):
                return sym.env[n.id]
        if isinstance(n, ast.BinOp) and isinstance(n.op, ast.Add):
            return "(%s ++ %s)" % (self.sexpr(n.left, sym), self.sexpr(n.right, sym))
        if isinstance(n, ast.Call):
            f = ast.unparse(n.func)
            if f.endswith(".replace") and len(n.args) == 2 and all(isinstance(a, ast.Constant) for a in n.args) \
                    and n.args[0].value == "_" and n.args[1].value == "":
                return "(remove_underscores %s)" % self.sexpr(n.func.value, sym)
            if f == "str" and len(n.args) == 1 and isinstance(n.args[0], ast.Call) and ast.unparse(n.args[0].func) == "int":
                inner = n.args[0]
                if len(inner.args) == 2 and isinstance(inner.args[1], ast.Constant) and inner.args[1].value in (16, 2):
                    import math
                    bound = sym.env.get("__maxlen")
                    if not (bound and bound[1] == sym.env["token"] and bound[0] * math.log10(inner.args[1].value) < 4290):
                        self.fail(n, "str(int(..)) of a token whose length is not bounded below Python's 4300-digit conversion limit")
                    return "(int_str (digits_value %d %s))" % (inner.args[1].value, self.sexpr(inner.args[0], sym))
            if f == "chr" and len(n.args) == 1 and isinstance(n.args[0], ast.Call) and ast.unparse(n.args[0].func) == "int":
                inner = n.args[0]
                if len(inner.args) == 2 and isinstance(inner.args[1], ast.Constant) and inner.args[1].value == 16:
                    return "[digits_value 16 %s]" % self.sexpr(inner.args[0], sym)
        self.fail(n, "string expression")

    def iexpr(self, n, sym):
        if isinstance(n, ast.Constant) and isinstance(n.value, int) and not isinstance(n.value, bool):
            return pk.zlit(n.value)
        if isinstance(n, ast.Name) and n.id in ("line", "column", "startline", "startcolumn", "state"):
            return sym.env[n.id]
        if isinstance(n, ast.BinOp) and isinstance(n.op, (ast.Add, ast.Sub)):
            return "(%s %s %s)" % (self.iexpr(n.left, sym), "+" if isinstance(n.op, ast.Add) else "-", self.iexpr(n.right, sym))
        self.fail(n, "integer expression")

    def bexpr(self, n, sym):
        if isinstance(n, ast.BoolOp):
            op = "&&" if isinstance(n.op, ast.And) else "||"
            return "(" + (" %s " % op).join(self.bexpr(v, sym) for v in n.values) + ")"
        if isinstance(n, ast.UnaryOp) and isinstance(n.op, ast.Not):
            inner = n.operand
            # `not <string>`: emptiness
            try:
                return "(is_empty %s)" % self.sexpr(inner, sym)
            except pk.Unsupported:
                return "(negb %s)" % self.bexpr(inner, sym)
        if isinstance(n, ast.Name):
            if n.id == "updatepos":
                return sym.env["updatepos"]
            if n.id in ("token", "tempbuf"):
                return "(negb (is_empty %s))" % sym.env[n.id]
        if isinstance(n, ast.Compare) and len(n.ops) == 1:
            l, op, r = n.left, n.ops[0], n.comparators[0]
            if isinstance(l, ast.Name) and l.id == "state" and isinstance(op, ast.Eq):
                return "(%s =? %s)" % (sym.env["state"], self.iexpr(r, sym))
            if isinstance(l, ast.Name) and l.id == "ch" and isinstance(r, ast.Constant) and isinstance(r.value, str):
                if isinstance(op, ast.Eq) and len(r.value) == 1:
                    return "(ch =? %d)" % ord(r.value)
                if isinstance(op, ast.In):
                    return "(mem_z ch %s)" % cps(r.value)
                if isinstance(op, ast.NotIn):
                    return "(negb (mem_z ch %s))" % cps(r.value)
            if isinstance(l, ast.Call) and ast.unparse(l) == "len(token)" and isinstance(op, ast.Gt) and isinstance(r, ast.Constant) \
                    and isinstance(r.value, int):
                return "(%s <? Z.of_nat (length %s))" % (pk.zlit(r.value), sym.env["token"])
            if isinstance(l, ast.Name) and l.id in ("token", "tempbuf"):
                if isinstance(op, ast.Eq) and isinstance(r, ast.Constant) and isinstance(r.value, str):
                    return "(str_eqb %s %s)" % (sym.env[l.id], cps(r.value))
                if isinstance(op, ast.NotEq) and isinstance(r, ast.Constant) and isinstance(r.value, str):
                    return "(negb (str_eqb %s %s))" % (sym.env[l.id], cps(r.value))
                if isinstance(op, ast.In) and isinstance(r, ast.Name) and r.id == "KEYWORDS":
                    return "(existsb (str_eqb %s) KEYWORDS)" % sym.env[l.id]
        if isinstance(n, ast.Call):
            f = ast.unparse(n.func)
            if f == "token.endswith" and len(n.args) == 1 and isinstance(n.args[0], ast.Constant):
                return "(str_endswith %s %s)" % (sym.env["token"], cps(n.args[0].value))
            if f == "any" and len(n.args) == 1 and isinstance(n.args[0], ast.GeneratorExp):
                g = n.args[0]
                src = ast.unparse(g)
                want = 'c not in "0123456789abcdefABCDEF" for c in tempbuf'
                if src.replace("'", '"').strip("()") == want.strip("()") or src.replace("'", '"') == "(" + want + ")":
                    return "(negb (forallb is_hex_digit %s))" % sym.env["tempbuf"]
        self.fail(n, "boolean expression")

    # ---- statements ----
    def block(self, stmts, sym):
        """-> Gallina expression of type lres for the statement list executed from sym"""
        if not stmts:
            return self.finish(sym)
        s, rest = stmts[0], stmts[1:]
        if isinstance(s, ast.If):
            c = self.bexpr(s.test, sym)
            a = self.block(list(s.body) + rest, Sym(sym.env, sym.toks, sym.consumed))
            selse = Sym(sym.env, sym.toks, sym.consumed)
            t = s.test
            if isinstance(t, ast.Compare) and ast.unparse(t.left) == "len(token)" and isinstance(t.ops[0], ast.Gt) and not s.orelse \
                    and len(s.body) == 1 and isinstance(s.body[0], ast.Raise):
                # "if len(token) > K: raise": below, the token has at most K characters
                selse.env["__maxlen"] = (t.comparators[0].value, sym.env["token"])
            b = self.block(list(s.orelse) + rest, selse)
            return "(if %s\n then %s\n else %s)" % (c, a, b)
        if isinstance(s, ast.Raise):
            call = s.exc
            if isinstance(call, ast.Call) and ast.unparse(call.func) == "CklSyntaxError":
                return "(LexError %d)" % s.lineno
            self.fail(s, "raise")
        if isinstance(s, ast.Assign) and len(s.targets) == 1 and isinstance(s.targets[0], ast.Name):
            v = s.targets[0].id
            if v == "ch":
                if ast.unparse(s.value) != "self.script[pos]":
                    self.fail(s, "ch assignment")
                return self.block(rest, sym)
            if v == "here":
                call = s.value
                if not (isinstance(call, ast.Call) and ast.unparse(call.func) == "SourcePos" and len(call.args) == 3
                        and ast.unparse(call.args[0]) == "fname"):
                    self.fail(s, "here assignment")
                sym = Sym(sym.env, sym.toks, sym.consumed)
                sym.env["here"] = (self.iexpr(call.args[1], sym), self.iexpr(call.args[2], sym))
                return self.block(rest, sym)
            sym = Sym(sym.env, sym.toks, sym.consumed)
            if v in ("token", "tempbuf"):
                sym.env[v] = self.sexpr(s.value, sym)
            elif v in ("state", "line", "column", "startline", "startcolumn"):
                sym.env[v] = self.iexpr(s.value, sym)
            elif v == "updatepos":
                if not (isinstance(s.value, ast.Constant) and isinstance(s.value.value, bool)):
                    self.fail(s, "updatepos assignment")
                sym.env[v] = "true" if s.value.value else "false"
            else:
                self.fail(s, "assignment to %s" % v)
            return self.block(rest, sym)
        if isinstance(s, ast.AugAssign) and isinstance(s.target, ast.Name):
            v = s.target.id
            sym = Sym(sym.env, sym.toks, sym.consumed)
            if v == "pos":
                if isinstance(s.op, ast.Add) and ast.unparse(s.value) == "1":
                    sym.consumed = "true"
                elif isinstance(s.op, ast.Sub) and ast.unparse(s.value) == "1":
                    sym.consumed = "false"
                else:
                    self.fail(s, "pos update")
                return self.block(rest, sym)
            if v in ("token", "tempbuf") and isinstance(s.op, ast.Add):
                sym.env[v] = "(%s ++ %s)" % (sym.env[v], self.sexpr(s.value, sym))
                return self.block(rest, sym)
            if v in ("line", "column") and isinstance(s.op, (ast.Add, ast.Sub)):
                sym.env[v] = "(%s %s %s)" % (sym.env[v], "+" if isinstance(s.op, ast.Add) else "-", self.iexpr(s.value, sym))
                return self.block(rest, sym)
            self.fail(s, "augmented assignment")
        if isinstance(s, ast.Expr) and isinstance(s.value, ast.Call) and ast.unparse(s.value.func) == "self.tokens.append":
            tk = s.value.args[0]
            if not (isinstance(tk, ast.Call) and ast.unparse(tk.func) == "Token" and len(tk.args) == 3 and ast.unparse(tk.args[2]) == "here"
                    and isinstance(tk.args[1], ast.Constant) and tk.args[1].value in TYPES):
                self.fail(s, "token emission")
            if "here" not in sym.env:
                self.fail(s, "token emitted before `here` is set")
            sym = Sym(sym.env, sym.toks, sym.consumed)
            ln, col = sym.env["here"]
            sym.toks.append("(mk_tok %s %d %s %s)" % (self.sexpr(tk.args[0], sym), TYPES[tk.args[1].value], ln, col))
            return self.block(rest, sym)
        self.fail(s, "statement")

    def finish(self, sym):
        e = sym.env
        return "(Step (mk_lstate %s %s %s %s %s %s %s %s) [%s] %s)" % (
            e["state"], e["token"], e["tempbuf"], e["line"], e["column"], e["startline"], e["startcolumn"], e["updatepos"],
            "; ".join(sym.toks), sym.consumed)


HEADER = """(* GENERATED by tools/translate/lexer_gen.py from src/ckl/lexer.py (sha256/16 %(digest)s).
   Do not edit: regenerated on every check run.  [lex_step s ch] is the body of the character loop of
   Lexer.scan: the new scanner state, the tokens emitted while reading [ch], and whether [ch] was consumed
   (false: the loop reads the same character again, `pos -= 1`). *)
From Coq Require Import ZArith List Bool.
From Ckl Require Import Prelude.PyPrelude Model.Arith Prelude.LexPrelude.
Import ListNotations.
Open Scope Z_scope.

"""


def generate(repo_src):
    path = os.path.join(repo_src, "ckl", "lexer.py")
    text = open(path).read()
    tree = ast.parse(text)
    out = [HEADER % {"digest": pk.source_digest(text)}]
    kw = ops = None
    for s in tree.body:
        if isinstance(s, ast.Assign) and isinstance(s.targets[0], ast.Name) and s.targets[0].id == "KEYWORDS":
            kw = [e.value for e in s.value.elts]
        if isinstance(s, ast.Assign) and isinstance(s.targets[0], ast.Name) and s.targets[0].id == "OPERATORS":
            ops = [e.value for e in s.value.elts]
    if kw is None or ops is None:
        raise pk.Unsupported("KEYWORDS / OPERATORS not found")
    out.append("Definition KEYWORDS : list str := [%s].\n" % "; ".join(cps(k) for k in kw))
    out.append("Definition OPERATORS : list str := [%s].\n" % "; ".join(cps(k) for k in ops))
    scan = pk.find_function(tree, "Lexer.scan")
    # the expected prologue: initial values of the scanner variables
    init = {}
    loop = None
    for s in scan.body:
        if isinstance(s, ast.While):
            loop = s
        elif isinstance(s, ast.Assign) and isinstance(s.targets[0], ast.Name) and isinstance(s.value, ast.Constant):
            init[s.targets[0].id] = s.value.value
    want = {"tempbuf": "", "token": "", "state": 0, "pos": 0, "line": 1, "column": 0, "startline": 1, "startcolumn": 1, "updatepos": True}
    for k, v in want.items():
        if init.get(k) != v:
            raise pk.Unsupported("scan prologue: %s = %r (expected %r)" % (k, init.get(k), v))
    if loop is None or ast.unparse(loop.test) != "pos < len(self.script)":
        raise pk.Unsupported("scan loop shape changed")
    ctor = pk.find_function(tree, "Lexer.__init__")
    if 'self.script = script + " "' not in [ast.unparse(x).replace("'", '"') for x in ctor.body]:
        raise pk.Unsupported("Lexer.__init__ no longer appends a blank")
    tr = LexTranslator()
    env = {v: "(%s s)" % FIELD[v] for v in VARS}
    body = tr.block(list(loop.body), Sym(env, [], "false"))
    out.append("Definition lex_step (s : lstate) (ch : Z) : lres :=\n%s.\n" % body)
    out.append("Definition lex_init : lstate := mk_lstate 0 [] [] 1 0 1 1 true.\n")
    return "\n".join(out)


if __name__ == "__main__":
    import sys
    sys.stdout.write(generate(sys.argv[1] if len(sys.argv) > 1 else "/repo/src"))
