"""Translator for C09: reads src/ckl/functions.py, values.py and interpreter.py and emits coq/Gen/SecureTable.v:
 - the dispatch table of bind_native: native name -> the built-in classes it instantiates and passes to bind_native_fun
 - per built-in class: its secure flag (ValueFunc default, cleared by `self.secure = False` in __init__) and whether any
   of its methods calls a host facility that touches files, directories, processes or script files
 - the shape of the binder itself (bind_native_fun) and of the `run` registration in Interpreter.__init__
Fails closed (pykernel.Unsupported) on any statement shape it does not know."""
import ast
import hashlib
import os

from tools.translate import pykernel as pk

# host facilities that read, write, delete, move or list files or directories, create directories, spawn processes or load scripts
DANGEROUS_PREFIXES = ("open", "os.rmdir", "os.remove", "os.unlink", "os.rename", "os.replace", "os.listdir", "os.scandir", "os.walk", "os.mkdir", "os.makedirs",
                      "os.lstat", "os.stat", "os.path.exists", "os.path.isdir", "os.path.isfile", "os.path.getsize", "os.path.getmtime", "os.system", "os.popen",
                      "os.exec", "os.spawn", "os.chdir", "os.chmod", "os.truncate", "os.symlink", "os.link", "subprocess.", "shutil.", "FileInput", "FileOutput",
                      "pathlib.", "Path", "io.open", "codecs.open", "tempfile.", "glob.", "self.interpreter.loadFile", "interpreter.loadFile", "importlib.", "__import__",
                      "exec", "compile", "pkgutil.", "socket.", "urllib.", "ctypes.")
HARMLESS = ("os.path.sep", "os.linesep", "os.path.pathsep", "os.environ.get", "os.path.join", "os.path.basename", "os.getcwd")


def _call_name(n):
    try:
        return ast.unparse(n.func)
    except Exception:
        return "?"


def class_info(tree):
    """{class name: (secure, dangerous, [dangerous calls])} for every class deriving from ValueFunc"""
    out = {}
    for c in tree.body:
        if not isinstance(c, ast.ClassDef):
            continue
        if not any(ast.unparse(b) == "ValueFunc" for b in c.bases):
            continue
        secure = True
        for n in ast.walk(c):
            if isinstance(n, ast.Assign) and any(ast.unparse(t) == "self.secure" for t in n.targets):
                if not isinstance(n.value, ast.Constant) or not isinstance(n.value.value, bool):
                    raise pk.Unsupported("class %s: self.secure assigned a non-constant" % c.name)
                secure = n.value.value
            if isinstance(n, ast.Attribute) and n.attr == "secure" and isinstance(n.ctx, ast.Store) and ast.unparse(n.value) != "self":
                raise pk.Unsupported("class %s: secure flag of another object written" % c.name)
        calls = []
        for n in ast.walk(c):
            if isinstance(n, ast.Call):
                f = _call_name(n)
                if f.startswith(HARMLESS):
                    continue
                if f in DANGEROUS_PREFIXES or any(f.startswith(p) for p in DANGEROUS_PREFIXES if p.endswith(".")) or f in ("open", "exec", "compile", "__import__", "Path") \
                        or any(f == p or f.startswith(p + ".") or (p.startswith("os.") and f.startswith(p)) for p in DANGEROUS_PREFIXES):
                    calls.append(f)
            if isinstance(n, (ast.With, ast.AsyncWith)):
                for it in n.items:
                    if isinstance(it.context_expr, ast.Call) and _call_name(it.context_expr) == "open":
                        calls.append("open")
        out[c.name] = (secure, bool(calls), sorted(set(calls)))
    return out


def dispatch(tree):
    """[(native name, [class names bound through bind_native_fun], binds_constant)] from the if/elif chain of bind_native"""
    fn = [n for n in tree.body if isinstance(n, ast.FunctionDef) and n.name == "bind_native"]
    if len(fn) != 1:
        raise pk.Unsupported("bind_native not found")
    fn = fn[0]
    if [a.arg for a in fn.args.args] != ["environment", "native", "alias"]:
        raise pk.Unsupported("bind_native signature")
    if len(fn.body) != 1 or not isinstance(fn.body[0], ast.If):
        raise pk.Unsupported("bind_native body is not one if/elif chain")
    out = []
    node = fn.body[0]
    while True:
        t = node.test
        if not (isinstance(t, ast.Compare) and ast.unparse(t.left) == "native" and len(t.ops) == 1 and isinstance(t.ops[0], ast.Eq)
                and isinstance(t.comparators[0], ast.Constant) and isinstance(t.comparators[0].value, str)):
            raise pk.Unsupported("bind_native test: %s" % ast.unparse(t))
        name = t.comparators[0].value
        classes = []
        const = False
        for s in node.body:
            if isinstance(s, ast.Expr) and isinstance(s.value, ast.Call):
                f = _call_name(s.value)
                if f == "bind_native_fun":
                    a = s.value.args
                    if len(a) not in (2, 3) or ast.unparse(a[0]) != "environment" or not (isinstance(a[1], ast.Call) and isinstance(a[1].func, ast.Name) and not a[1].args):
                        raise pk.Unsupported("bind_native_fun call: %s" % ast.unparse(s))
                    if len(a) == 3 and ast.unparse(a[2]) != "alias":
                        raise pk.Unsupported("bind_native_fun alias: %s" % ast.unparse(s))
                    classes.append(a[1].func.id)
                    continue
                if f == "environment.put":
                    # a constant: the value must not construct a function object
                    for n in ast.walk(s.value):
                        if isinstance(n, ast.Call) and isinstance(n.func, ast.Name) and n.func.id.startswith("Func"):
                            raise pk.Unsupported("native %s puts a function object directly" % name)
                    const = True
                    continue
            raise pk.Unsupported("bind_native branch %s: %s" % (name, ast.unparse(s)[:80]))
        out.append((name, classes, const))
        if len(node.orelse) == 1 and isinstance(node.orelse[0], ast.If):
            node = node.orelse[0]
            continue
        # final else: must raise
        if not (len(node.orelse) == 1 and isinstance(node.orelse[0], ast.Raise)):
            raise pk.Unsupported("bind_native: final else does not raise")
        break
    return out


def binder_shape(tree):
    """bind_native_fun must be: if <base flag> and not func.secure: return; add(environment, func, alias)"""
    fn = [n for n in tree.body if isinstance(n, ast.FunctionDef) and n.name == "bind_native_fun"]
    if len(fn) != 1:
        raise pk.Unsupported("bind_native_fun not found")
    src = ast.unparse(fn[0])
    want = ("def bind_native_fun(environment, func, alias=None):\n"
            "    if environment.getBase().get('checkerlang_secure_mode').value and (not func.secure):\n"
            "        return\n"
            "    add(environment, func, alias)")
    if src != want:
        raise pk.Unsupported("bind_native_fun has an unknown shape:\n" + src)
    fn = [n for n in tree.body if isinstance(n, ast.FunctionDef) and n.name == "add"]
    src = ast.unparse(fn[0]) if fn else ""
    want = ("def add(env, func, alias=None):\n    if alias is not None:\n        env.put(alias, func)\n    env.put(func.name, func)")
    if src != want:
        raise pk.Unsupported("add has an unknown shape:\n" + src)
    # where else are function objects put into an environment, or bind_native_fun / add bypassed?
    others = []
    for n in ast.walk(tree):
        if isinstance(n, ast.Call) and _call_name(n).endswith(".put"):
            for a in n.args[1:]:
                for m in ast.walk(a):
                    if isinstance(m, ast.Call) and isinstance(m.func, ast.Name) and m.func.id.startswith("Func"):
                        others.append(ast.unparse(n)[:80])
    if others:
        raise pk.Unsupported("function objects put into an environment outside the binder: %s" % others)


def run_registration(src_dir):
    tree = ast.parse(open(os.path.join(src_dir, "ckl", "interpreter.py")).read())
    puts = []
    for n in ast.walk(tree):
        if isinstance(n, ast.Call) and _call_name(n).endswith(".put"):
            for a in n.args[1:]:
                for m in ast.walk(a):
                    if isinstance(m, ast.Call) and isinstance(m.func, ast.Name) and m.func.id.startswith("Func"):
                        puts.append(n)
    init = [f for c in tree.body if isinstance(c, ast.ClassDef) and c.name == "Interpreter" for f in c.body if isinstance(f, ast.FunctionDef) and f.name == "__init__"]
    guarded = []
    if init:
        for s in init[0].body:
            if isinstance(s, ast.If) and ast.unparse(s.test) == "not secure" and not s.orelse:
                for t in s.body:
                    guarded.append(ast.unparse(t))
    for n in puts:
        if ast.unparse(n) not in guarded or ast.unparse(n) != "self.base_environment.put('run', FuncRun(self))":
            raise pk.Unsupported("interpreter.py registers a function object outside `if not secure`: %s" % ast.unparse(n))
    # the base flag is written once, from the constructor argument
    ftree = ast.parse(open(os.path.join(src_dir, "ckl", "functions.py")).read())
    writes = [ast.unparse(n) for n in ast.walk(ftree) if isinstance(n, ast.Call) and _call_name(n).endswith((".put", ".set")) and n.args
              and isinstance(n.args[0], ast.Constant) and n.args[0].value == "checkerlang_secure_mode"]
    if writes != ["result.put('checkerlang_secure_mode', ValueBoolean.fromval(secure))"]:
        raise pk.Unsupported("checkerlang_secure_mode is written at: %s" % writes)
    return True


def generate(src_dir):
    path = os.path.join(src_dir, "ckl", "functions.py")
    text = open(path).read()
    tree = ast.parse(text)
    binder_shape(tree)
    run_registration(src_dir)
    classes = class_info(tree)
    table = dispatch(tree)
    # ValueFunc default
    vtree = ast.parse(open(os.path.join(src_dir, "ckl", "values.py")).read())
    vf = [c for c in vtree.body if isinstance(c, ast.ClassDef) and c.name == "ValueFunc"]
    dflt = [ast.unparse(n) for n in ast.walk(vf[0]) if isinstance(n, ast.Assign) and any(ast.unparse(t) == "self.secure" for t in n.targets)] if vf else []
    if dflt != ["self.secure = True"]:
        raise pk.Unsupported("ValueFunc secure default: %s" % dflt)
    names = sorted(classes)
    cid = {c: i for i, c in enumerate(names)}
    for name, cls, const in table:
        for c in cls:
            if c not in cid:
                raise pk.Unsupported("native %s binds unknown class %s" % (name, c))
    h = hashlib.sha256(text.encode()).hexdigest()[:16]
    out = ["(* GENERATED by tools/translate/secure_gen.py from src/ckl/functions.py (sha256/16 %s), values.py, interpreter.py." % h,
           "   Do not edit: regenerated on every check run.",
           "   classes: (id, secure flag, calls a file / directory / process / script facility of the host)",
           "   natives: (id, ids of the built-in classes bind_native hands to bind_native_fun for that name) *)",
           "From Coq Require Import ZArith List Bool.", "Import ListNotations.", "Open Scope Z_scope.", "",
           "Definition classes : list (Z * bool * bool) := ["]
    rows = []
    for c in names:
        s, d, calls = classes[c]
        rows.append("  (%d, %s, %s)  (* %s%s *)" % (cid[c], "true" if s else "false", "true" if d else "false", c, (": " + ", ".join(calls)) if calls else ""))
    out.append(";\n".join(rows))
    out.append("].\n")
    out.append("Definition natives : list (Z * list Z) := [")
    rows = []
    for i, (name, cls, const) in enumerate(table):
        rows.append("  (%d, [%s])  (* %s *)" % (i, "; ".join(str(cid[c]) for c in cls), name))
    out.append(";\n".join(rows))
    out.append("].\n")
    meta = {"classes": {c: {"id": cid[c], "secure": classes[c][0], "dangerous": classes[c][1], "calls": classes[c][2]} for c in names},
            "natives": [{"id": i, "name": n, "classes": cls} for i, (n, cls, const) in enumerate(table)]}
    return "\n".join(out), meta


if __name__ == "__main__":
    import sys
    t, m = generate(sys.argv[1] if len(sys.argv) > 1 else "/repo/src")
    sys.stdout.write(t)
