"""Fail-closed translator from a small, statically typed subset of Python
(the arithmetic / sequence kernels of checkerlang-py) to Gallina.

The translator is type directed: every parameter gets a declared type, every
expression a static type; operations that are partial in CPython (indexing,
division by a non-constant, int() of a string, math.trunc of inf ...) produce
code of type [res T] (see coq/Prelude/PyPrelude.v) so that "no host exception"
is a statement with content.  A statically ill-typed operation (e.g. int() of
a list) is translated to the host exception CPython raises for it
([Host TypeError]).  Anything outside the subset raises Unsupported: the
caller must then fail closed.

Types: 'int' 'float' 'bool' 'str' 'none', ('list', T), ('tuple', [T...]),
('rec', name) for records declared by the spec, ('res'...) never appears as a
static type (monadic code is tracked by the `pure` flag)."""
import ast
import hashlib
import textwrap


class Unsupported(Exception):
    pass


class Code:
    __slots__ = ("text", "ty", "pure")

    def __init__(self, text, ty, pure=True):
        self.text = text
        self.ty = ty
        self.pure = pure

    def lifted(self):
        return self.text if not self.pure else "Ok (%s)" % self.text


def zlit(n):
    return "(%d)" % n if n < 0 else "%d" % n


def flit(x):
    import math
    if x != x:
        return "PrimFloat.nan"
    if x in (float("inf"), float("-inf")):
        return "PrimFloat.infinity" if x > 0 else "PrimFloat.neg_infinity"
    return "(%s)%%float" % float(x).hex()


def strlit(s):
    return "[" + "; ".join(str(ord(c)) for c in s) + "]"


def coqstr(s):
    return '"' + s.replace('"', '""') + '"%string'


def ty_coq(t):
    if t == "int":
        return "Z"
    if t == "float":
        return "float"
    if t == "bool":
        return "bool"
    if t == "str":
        return "str"
    if t == "none":
        return "unit"
    if isinstance(t, tuple) and t[0] == "list":
        return "(list %s)" % ty_coq(t[1])
    if isinstance(t, tuple) and t[0] == "tuple":
        return "(" + " * ".join(ty_coq(x) for x in t[1]) + ")"
    if isinstance(t, tuple) and t[0] == "rec":
        return t[1]
    if isinstance(t, tuple) and t[0] == "opt":
        return "(option %s)" % ty_coq(t[1])
    raise Unsupported("type %r" % (t,))


def terminates(stmts):
    """True when every path through stmts ends in return / raise."""
    for s in stmts:
        if isinstance(s, (ast.Return, ast.Raise)):
            return True
        if isinstance(s, ast.If) and s.orelse and terminates(s.body) and terminates(s.orelse):
            return True
    return False


def has_exit(stmts):
    for s in stmts:
        for n in ast.walk(s):
            if isinstance(n, (ast.Return, ast.Raise, ast.Break, ast.Continue)):
                return True
    return False


def assigned(stmts):
    out = []

    def add(t):
        if isinstance(t, ast.Name):
            if t.id not in out:
                out.append(t.id)
        elif isinstance(t, (ast.Tuple, ast.List)):
            for e in t.elts:
                add(e)

    for s in stmts:
        for n in ast.walk(s):
            if isinstance(n, ast.Assign):
                for t in n.targets:
                    add(t)
            elif isinstance(n, ast.AugAssign):
                add(n.target)
            elif isinstance(n, ast.For):
                add(n.target)
    return out


class FuncSig:
    def __init__(self, coqname, params, ret, pure, fuel):
        self.coqname = coqname
        self.params = params      # list of (name, type)
        self.ret = ret
        self.pure = pure
        self.fuel = fuel


class Translator:
    def __init__(self, consts=None, records=None, externs=None):
        self.funcs = {}           # python name -> FuncSig
        self.consts = consts or {}   # name -> Code
        self.records = records or {}  # rec name -> {field: type}
        self.externs = externs or []  # callables (tr, node, env) -> Code | None
        self.monadic = False
        self.uses_fuel = False
        self.fresh = 0
        self.cur_name = "?"
        self.ret_ty = None

    # ------------------------------------------------------------ helpers
    def fail(self, node, msg):
        raise Unsupported("%s: line %s: %s" % (self.cur_name, getattr(node, "lineno", "?"), msg))

    def tmp(self, base="t"):
        self.fresh += 1
        return "%s_%d" % (base, self.fresh)

    def bind_all(self, codes, build):
        """codes: list of Code; build: fn(list of texts) -> Code.  Sequences the
        impure ones left to right with >>=."""
        texts = []
        binds = []
        for c in codes:
            if c.pure:
                texts.append(c.text)
            else:
                v = self.tmp()
                binds.append((v, c.text))
                texts.append(v)
        inner = build(texts)
        if not binds:
            return inner
        text = inner.lifted()
        for v, t in reversed(binds):
            text = "(%s >>= fun %s => %s)" % (t, v, text)
        return Code(text, inner.ty, False)

    def to_float(self, c):
        if c.ty == "float":
            return c
        if c.ty == "int":
            return Code("(Z2F %s)" % c.text, "float", True) if c.pure else \
                self.bind_all([c], lambda ts: Code("(Z2F %s)" % ts[0], "float"))
        if c.ty == "bool":
            return self.to_float(Code("(if %s then 1 else 0)" % c.text, "int", c.pure))
        self.fail(None, "cannot coerce %r to float" % (c.ty,))

    def nonzero_const(self, node):
        return isinstance(node, ast.Constant) and isinstance(node.value, (int, float)) \
            and not isinstance(node.value, bool) and node.value != 0

    # ------------------------------------------------------------ expressions
    def expr(self, n, env):
        for ex in self.externs:
            r = ex(self, n, env)
            if r is not None:
                return r
        m = getattr(self, "e_" + type(n).__name__, None)
        if m is None:
            self.fail(n, "expression %s" % type(n).__name__)
        return m(n, env)

    def e_Constant(self, n, env):
        v = n.value
        if isinstance(v, bool):
            return Code("true" if v else "false", "bool")
        if isinstance(v, int):
            return Code(zlit(v), "int")
        if isinstance(v, float):
            return Code(flit(v), "float")
        if isinstance(v, str):
            return Code(strlit(v), "str")
        if v is None:
            return Code("tt", "none")
        self.fail(n, "constant %r" % (v,))

    def e_Name(self, n, env):
        if n.id in env:
            return Code(env[n.id][0], env[n.id][1])
        if n.id in self.consts:
            return self.consts[n.id]
        self.fail(n, "unbound name %s" % n.id)

    def e_Attribute(self, n, env):
        base = self.expr(n.value, env)
        if isinstance(base.ty, tuple) and base.ty[0] == "rec":
            fields = self.records[base.ty[1]]
            if n.attr not in fields:
                return Code("(Host AttributeError)", "int", False)
            return self.bind_all([base], lambda ts: Code("(%s_%s %s)" % (base.ty[1], n.attr, ts[0]), fields[n.attr]))
        self.fail(n, "attribute %s on %r" % (n.attr, base.ty))

    def e_UnaryOp(self, n, env):
        a = self.expr(n.operand, env)
        if isinstance(n.op, ast.Not):
            if a.ty != "bool":
                a = self.truthy(a, n)
            return self.bind_all([a], lambda ts: Code("(negb %s)" % ts[0], "bool"))
        if isinstance(n.op, ast.USub):
            if a.ty == "int":
                return self.bind_all([a], lambda ts: Code("(- %s)" % ts[0], "int"))
            if a.ty == "float":
                return self.bind_all([a], lambda ts: Code("(PrimFloat.opp %s)" % ts[0], "float"))
        if isinstance(n.op, ast.UAdd) and a.ty in ("int", "float"):
            return a
        self.fail(n, "unary %s on %r" % (type(n.op).__name__, a.ty))

    def truthy(self, a, n):
        if a.ty == "bool":
            return a
        if a.ty == "int":
            return self.bind_all([a], lambda ts: Code("(negb (%s =? 0))" % ts[0], "bool"))
        if a.ty == "str" or (isinstance(a.ty, tuple) and a.ty[0] == "list"):
            return self.bind_all([a], lambda ts: Code("(negb (zlen %s =? 0))" % ts[0], "bool"))
        if isinstance(a.ty, tuple) and a.ty[0] == "opt":
            return self.bind_all([a], lambda ts: Code("(match %s with Some _ => true | None => false end)" % ts[0], "bool"))
        self.fail(n, "truthiness of %r" % (a.ty,))

    def e_BinOp(self, n, env):
        a = self.expr(n.left, env)
        b = self.expr(n.right, env)
        op = n.op
        num = ("int", "float", "bool")
        if a.ty == "bool" and b.ty in num:
            a = Code("(if %s then 1 else 0)" % a.text, "int", a.pure) if a.pure else self.fail(n, "impure bool arith")
        if b.ty == "bool" and a.ty in num:
            b = Code("(if %s then 1 else 0)" % b.text, "int", b.pure) if b.pure else self.fail(n, "impure bool arith")
        if isinstance(op, (ast.Add, ast.Sub, ast.Mult)):
            if a.ty == "int" and b.ty == "int":
                sym = {ast.Add: "+", ast.Sub: "-", ast.Mult: "*"}[type(op)]
                return self.bind_all([a, b], lambda ts: Code("(%s %s %s)" % (ts[0], sym, ts[1]), "int"))
            if a.ty in num and b.ty in num:
                fn = {ast.Add: "PrimFloat.add", ast.Sub: "PrimFloat.sub", ast.Mult: "PrimFloat.mul"}[type(op)]
                a, b = self.to_float(a), self.to_float(b)
                return self.bind_all([a, b], lambda ts: Code("(%s %s %s)" % (fn, ts[0], ts[1]), "float"))
            if isinstance(op, ast.Add) and a.ty == b.ty and (a.ty == "str" or (isinstance(a.ty, tuple) and a.ty[0] == "list")):
                return self.bind_all([a, b], lambda ts: Code("(%s ++ %s)" % (ts[0], ts[1]), a.ty))
            if isinstance(op, ast.Add) and isinstance(a.ty, tuple) and a.ty[0] == "list" and isinstance(b.ty, tuple) and b.ty[0] == "list":
                return self.bind_all([a, b], lambda ts: Code("(%s ++ %s)" % (ts[0], ts[1]), a.ty))
            return Code("(Host TypeError)", a.ty, False)
        if isinstance(op, ast.Div):
            if a.ty in num and b.ty in num:
                a, b = self.to_float(a), self.to_float(b)
                if self.nonzero_const(n.right):
                    return self.bind_all([a, b], lambda ts: Code("(PrimFloat.div %s %s)" % (ts[0], ts[1]), "float"))
                return self.bind_all([a, b], lambda ts: Code("(f_div %s %s)" % (ts[0], ts[1]), "float", False))
            return Code("(Host TypeError)", "float", False)
        if isinstance(op, (ast.FloorDiv, ast.Mod)):
            if a.ty == "int" and b.ty == "int":
                if self.nonzero_const(n.right):
                    sym = "/" if isinstance(op, ast.FloorDiv) else "mod"
                    return self.bind_all([a, b], lambda ts: Code("(%s %s %s)" % (ts[0], sym, ts[1]), "int"))
                fn = "py_floordiv" if isinstance(op, ast.FloorDiv) else "py_mod"
                return self.bind_all([a, b], lambda ts: Code("(%s %s %s)" % (fn, ts[0], ts[1]), "int", False))
            self.fail(n, "// or %% on %r %r" % (a.ty, b.ty))
        if isinstance(op, ast.Pow) and a.ty == "int" and b.ty == "int" and isinstance(n.right, ast.Constant) and n.right.value >= 0:
            return self.bind_all([a, b], lambda ts: Code("(%s ^ %s)" % (ts[0], ts[1]), "int"))
        if isinstance(op, (ast.BitAnd, ast.BitOr, ast.BitXor, ast.LShift, ast.RShift)) and a.ty == "int" and b.ty == "int":
            fn = {ast.BitAnd: "Z.land", ast.BitOr: "Z.lor", ast.BitXor: "Z.lxor", ast.LShift: "py_shl", ast.RShift: "py_shr"}[type(op)]
            if isinstance(op, (ast.LShift, ast.RShift)):
                return self.bind_all([a, b], lambda ts: Code("(%s %s %s)" % (fn, ts[0], ts[1]), "int", False))
            return self.bind_all([a, b], lambda ts: Code("(%s %s %s)" % (fn, ts[0], ts[1]), "int"))
        self.fail(n, "binop %s on %r %r" % (type(op).__name__, a.ty, b.ty))

    def cmp(self, op, a, b, n):
        num = ("int", "float")
        if a.ty == "bool" and b.ty == "bool" and isinstance(op, (ast.Eq, ast.NotEq)):
            t = "(Bool.eqb %s %s)"
            return self.bind_all([a, b], lambda ts: Code(t % (ts[0], ts[1]) if isinstance(op, ast.Eq) else "(negb %s)" % (t % (ts[0], ts[1])), "bool"))
        if a.ty == "int" and b.ty == "int":
            sym = {ast.Eq: "%s =? %s", ast.NotEq: "negb (%s =? %s)", ast.Lt: "%s <? %s", ast.LtE: "%s <=? %s",
                   ast.Gt: "%s >? %s", ast.GtE: "%s >=? %s"}.get(type(op))
            if sym is None:
                self.fail(n, "int comparison %s" % type(op).__name__)
            return self.bind_all([a, b], lambda ts: Code("(" + sym % (ts[0], ts[1]) + ")", "bool"))
        if a.ty in num and b.ty in num:
            # Python compares int with float exactly; the Prelude's fz_* do so too
            if a.ty == "float" and b.ty == "float":
                sym = {ast.Eq: "PrimFloat.eqb %s %s", ast.NotEq: "negb (PrimFloat.eqb %s %s)", ast.Lt: "PrimFloat.ltb %s %s",
                       ast.LtE: "PrimFloat.leb %s %s", ast.Gt: "PrimFloat.ltb %[1]s %[0]s", ast.GtE: "PrimFloat.leb %[1]s %[0]s"}
                k = type(op)
                if k in (ast.Gt, ast.GtE):
                    f = "PrimFloat.ltb %s %s" if k is ast.Gt else "PrimFloat.leb %s %s"
                    return self.bind_all([a, b], lambda ts: Code("(" + f % (ts[1], ts[0]) + ")", "bool"))
                return self.bind_all([a, b], lambda ts: Code("(" + sym[k] % (ts[0], ts[1]) + ")", "bool"))
            if a.ty == "float":
                fn = {ast.Eq: "fz_eqb", ast.NotEq: "fz_neqb", ast.Lt: "fz_ltb", ast.LtE: "fz_leb", ast.Gt: "fz_gtb", ast.GtE: "fz_geb"}[type(op)]
                return self.bind_all([a, b], lambda ts: Code("(%s %s %s)" % (fn, ts[0], ts[1]), "bool"))
            fn = {ast.Eq: "fz_eqb", ast.NotEq: "fz_neqb", ast.Lt: "fz_gtb", ast.LtE: "fz_geb", ast.Gt: "fz_ltb", ast.GtE: "fz_leb"}[type(op)]
            return self.bind_all([a, b], lambda ts: Code("(%s %s %s)" % (fn, ts[1], ts[0]), "bool"))
        if a.ty == "str" and b.ty == "str":
            if isinstance(op, ast.Eq):
                return self.bind_all([a, b], lambda ts: Code("(str_eqb %s %s)" % (ts[0], ts[1]), "bool"))
            if isinstance(op, ast.NotEq):
                return self.bind_all([a, b], lambda ts: Code("(negb (str_eqb %s %s))" % (ts[0], ts[1]), "bool"))
            if isinstance(op, ast.In):
                if len(a.text) and isinstance(n, ast.Compare):
                    pass
                return self.bind_all([a, b], lambda ts: Code("(negb (str_find %s %s =? -1))" % (ts[1], ts[0]), "bool"))
            if isinstance(op, ast.NotIn):
                return self.bind_all([a, b], lambda ts: Code("(str_find %s %s =? -1)" % (ts[1], ts[0]), "bool"))
            if isinstance(op, ast.Lt):
                return self.bind_all([a, b], lambda ts: Code("(str_ltb %s %s)" % (ts[0], ts[1]), "bool"))
        if a.ty == "char" and b.ty == "char":
            if isinstance(op, ast.Eq):
                return self.bind_all([a, b], lambda ts: Code("(%s =? %s)" % (ts[0], ts[1]), "bool"))
            if isinstance(op, ast.NotEq):
                return self.bind_all([a, b], lambda ts: Code("(negb (%s =? %s))" % (ts[0], ts[1]), "bool"))
        if a.ty == "char" and b.ty == "str":
            if isinstance(op, ast.In):
                return self.bind_all([a, b], lambda ts: Code("(mem_z %s %s)" % (ts[0], ts[1]), "bool"))
            if isinstance(op, ast.NotIn):
                return self.bind_all([a, b], lambda ts: Code("(negb (mem_z %s %s))" % (ts[0], ts[1]), "bool"))
        if isinstance(op, (ast.Eq, ast.NotEq)) and a.ty != b.ty:
            # values of unrelated static types are never equal in Python
            return Code("false" if isinstance(op, ast.Eq) else "true", "bool")
        self.fail(n, "comparison %s on %r %r" % (type(op).__name__, a.ty, b.ty))

    def coerce_char(self, a, b):
        """a single-character string constant compared with a char becomes a char"""
        def as_char(c, node):
            if isinstance(node, ast.Constant) and isinstance(node.value, str) and len(node.value) == 1:
                return Code(str(ord(node.value)), "char")
            return c
        return as_char

    def e_Compare(self, n, env):
        operands = [n.left] + list(n.comparators)
        codes = [self.expr(x, env) for x in operands]
        # char coercions
        for i in range(len(n.ops)):
            l, r = codes[i], codes[i + 1]
            ln, rn = operands[i], operands[i + 1]
            if l.ty == "char" and isinstance(rn, ast.Constant) and isinstance(rn.value, str) and len(rn.value) == 1 \
                    and isinstance(n.ops[i], (ast.Eq, ast.NotEq)):
                codes[i + 1] = Code(str(ord(rn.value)), "char")
            if r.ty == "char" and isinstance(ln, ast.Constant) and isinstance(ln.value, str) and len(ln.value) == 1 \
                    and isinstance(n.ops[i], (ast.Eq, ast.NotEq)):
                codes[i] = Code(str(ord(ln.value)), "char")
        if len(n.ops) == 1:
            return self.cmp(n.ops[0], codes[0], codes[1], n)
        if not all(c.pure for c in codes):
            self.fail(n, "impure chained comparison")
        parts = [self.cmp(n.ops[i], codes[i], codes[i + 1], n) for i in range(len(n.ops))]
        return Code("(" + " && ".join(p.text for p in parts) + ")", "bool")

    def e_BoolOp(self, n, env):
        vals = [self.expr(v, env) for v in n.values]
        vals = [self.truthy(v, n) if v.ty != "bool" else v for v in vals]
        is_and = isinstance(n.op, ast.And)
        acc = vals[-1]
        for v in reversed(vals[:-1]):
            if acc.pure and v.pure:
                acc = Code("(%s %s %s)" % (v.text, "&&" if is_and else "||", acc.text), "bool")
            else:
                # short circuit: the right operand is evaluated only when needed
                if is_and:
                    body = "if %%s then %s else Ok false" % acc.lifted()
                else:
                    body = "if %%s then Ok true else %s" % acc.lifted()
                if v.pure:
                    acc = Code("(" + body % v.text + ")", "bool", False)
                else:
                    t = self.tmp()
                    acc = Code("(%s >>= fun %s => %s)" % (v.text, t, body % t), "bool", False)
        return acc

    def e_IfExp(self, n, env):
        c = self.expr(n.test, env)
        if c.ty != "bool":
            c = self.truthy(c, n)
        a = self.expr(n.body, env)
        b = self.expr(n.orelse, env)
        if a.ty != b.ty:
            if a.ty in ("int", "float") and b.ty in ("int", "float"):
                a, b = self.to_float(a), self.to_float(b)
            else:
                self.fail(n, "if-expression branches of types %r %r" % (a.ty, b.ty))
        if a.pure and b.pure:
            return self.bind_all([c], lambda ts: Code("(if %s then %s else %s)" % (ts[0], a.text, b.text), a.ty))
        inner = lambda ts: Code("(if %s then %s else %s)" % (ts[0], a.lifted(), b.lifted()), a.ty, False)
        return self.bind_all([c], inner)

    def e_Tuple(self, n, env):
        cs = [self.expr(e, env) for e in n.elts]
        return self.bind_all(cs, lambda ts: Code("(" + ", ".join(ts) + ")", ("tuple", [c.ty for c in cs])))

    def e_List(self, n, env):
        cs = [self.expr(e, env) for e in n.elts]
        if not cs:
            self.fail(n, "empty list literal needs a type")
        return self.bind_all(cs, lambda ts: Code("[" + "; ".join(ts) + "]", ("list", cs[0].ty)))

    def e_Subscript(self, n, env):
        base = self.expr(n.value, env)
        seq = base.ty == "str" or (isinstance(base.ty, tuple) and base.ty[0] == "list")
        if not seq:
            return Code("(Host TypeError)", "int", False)
        elem = "str" if base.ty == "str" else base.ty[1]
        if isinstance(n.slice, ast.Slice):
            if n.slice.step is not None:
                self.fail(n, "slice step")
            lo = self.expr(n.slice.lower, env) if n.slice.lower is not None else Code("0", "int")
            if n.slice.upper is not None:
                hi = self.expr(n.slice.upper, env)
                if lo.ty != "int" or hi.ty != "int":
                    return Code("(Host TypeError)", base.ty, False)
                return self.bind_all([base, lo, hi], lambda ts: Code("(py_slice %s %s %s)" % tuple(ts), base.ty))
            if lo.ty != "int":
                return Code("(Host TypeError)", base.ty, False)
            return self.bind_all([base, lo], lambda ts: Code("(py_slice %s %s (zlen %s))" % (ts[0], ts[1], ts[0]), base.ty))
        i = self.expr(n.slice, env)
        if i.ty != "int":
            return Code("(Host TypeError)", elem, False)
        if base.ty == "str":
            return self.bind_all([base, i], lambda ts: Code("(py_getitem %s %s >>= fun c_ => Ok [c_])" % (ts[0], ts[1]), "str", False))
        return self.bind_all([base, i], lambda ts: Code("(py_getitem %s %s)" % (ts[0], ts[1]), elem, False))

    def e_Call(self, n, env):
        f = n.func
        if n.keywords:
            self.fail(n, "keyword arguments")
        # math.xxx / builtins
        name = None
        if isinstance(f, ast.Name):
            name = f.id
        elif isinstance(f, ast.Attribute) and isinstance(f.value, ast.Name) and f.value.id == "math":
            name = "math." + f.attr
        if name in self.funcs:
            sig = self.funcs[name]
            args = [self.expr(a, env) for a in n.args]
            if len(args) != len(sig.params):
                self.fail(n, "arity of %s" % name)
            for a, (pn, pt) in zip(args, sig.params):
                if a.ty != pt:
                    if pt == "float" and a.ty == "int":
                        continue
                    self.fail(n, "argument %s of %s: %r vs %r" % (pn, name, a.ty, pt))
            args = [self.to_float(a) if pt == "float" else a for a, (pn, pt) in zip(args, sig.params)]
            if sig.fuel:
                self.uses_fuel = True
            pre = (sig.coqname + " fuel") if sig.fuel else sig.coqname
            return self.bind_all(args, lambda ts: Code("(%s %s)" % (pre, " ".join(ts)) if ts else pre, sig.ret, sig.pure))
        if name == "len" and len(n.args) == 1:
            a = self.expr(n.args[0], env)
            if a.ty == "str" or (isinstance(a.ty, tuple) and a.ty[0] == "list"):
                return self.bind_all([a], lambda ts: Code("(zlen %s)" % ts[0], "int"))
            return Code("(Host TypeError)", "int", False)
        if name in ("math.trunc", "int", "math.floor", "round", "math.ceil") and len(n.args) == 1:
            a = self.expr(n.args[0], env)
            if a.ty == "int":
                return a
            if a.ty == "bool":
                return Code("(if %s then 1 else 0)" % a.text, "int", a.pure)
            if a.ty == "float":
                fn = {"math.trunc": "f_trunc", "int": "f_trunc", "math.floor": "f_floor", "round": "f_round", "math.ceil": "f_ceil"}[name]
                return self.bind_all([a], lambda ts: Code("(%s %s)" % (fn, ts[0]), "int", False))
            if a.ty == "str" and name == "int":
                return self.bind_all([a], lambda ts: Code("(py_int_of_str %s)" % ts[0], "int", False))
            return Code("(Host TypeError)", "int", False)
        if name == "float" and len(n.args) == 1:
            a = self.expr(n.args[0], env)
            if a.ty in ("int", "float", "bool"):
                return self.to_float(a)
            self.fail(n, "float() of %r" % (a.ty,))
        if name == "abs" and len(n.args) == 1:
            a = self.expr(n.args[0], env)
            if a.ty == "int":
                return self.bind_all([a], lambda ts: Code("(Z.abs %s)" % ts[0], "int"))
            if a.ty == "float":
                return self.bind_all([a], lambda ts: Code("(PrimFloat.abs %s)" % ts[0], "float"))
        if name in ("min", "max") and len(n.args) == 2:
            a, b = self.expr(n.args[0], env), self.expr(n.args[1], env)
            if a.ty == "int" and b.ty == "int":
                return self.bind_all([a, b], lambda ts: Code("(Z.%s %s %s)" % (name, ts[0], ts[1]), "int"))
        if name == "str" and len(n.args) == 1:
            a = self.expr(n.args[0], env)
            if a.ty == "int":
                return self.bind_all([a], lambda ts: Code("(str_of_Z %s)" % ts[0], "str"))
            if a.ty == "str":
                return a
        if name == "chr" and len(n.args) == 1:
            a = self.expr(n.args[0], env)
            if a.ty == "int":
                return self.bind_all([a], lambda ts: Code("(py_chr %s)" % ts[0], "str", False))
        if name == "ord" and len(n.args) == 1:
            a = self.expr(n.args[0], env)
            if a.ty == "str":
                return self.bind_all([a], lambda ts: Code("(py_ord %s)" % ts[0], "int", False))
        if name == "int" and len(n.args) == 2:
            a, b = self.expr(n.args[0], env), self.expr(n.args[1], env)
            if a.ty == "str" and b.ty == "int":
                return self.bind_all([a, b], lambda ts: Code("(py_int_base %s %s)" % (ts[0], ts[1]), "int", False))
        # string methods
        if isinstance(f, ast.Attribute):
            recv = self.expr(f.value, env)
            args = [self.expr(a, env) for a in n.args]
            if recv.ty == "str":
                m = f.attr
                tys = [a.ty for a in args]
                table = {
                    ("find", ("str",)): ("str_find %s %s", "int"),
                    ("find", ("str", "int")): ("str_find_at %s %s %s", "int"),
                    ("rfind", ("str",)): ("str_rfind %s %s", "int"),
                    ("rfind", ("str", "int", "int")): None,
                    ("startswith", ("str",)): ("str_startswith %s %s", "bool"),
                    ("endswith", ("str",)): ("str_endswith %s %s", "bool"),
                    ("replace", ("str", "str")): ("str_replace %s %s %s", "str"),
                    ("upper", ()): ("str_upper %s", "str"),
                    ("lower", ()): ("str_lower %s", "str"),
                    ("strip", ()): ("str_strip %s", "str"),
                }
                key = (m, tuple(tys))
                if m == "rfind" and tuple(tys) == ("str", "int", "int"):
                    # only the form s.rfind(p, 0, end) is supported
                    if not (isinstance(n.args[1], ast.Constant) and n.args[1].value == 0):
                        self.fail(n, "rfind with non-zero start")
                    return self.bind_all([recv, args[0], args[2]],
                                         lambda ts: Code("(str_rfind_end %s %s %s)" % tuple(ts), "int"))
                if key in table and table[key]:
                    fmt, rty = table[key]
                    return self.bind_all([recv] + args, lambda ts: Code("(" + fmt % tuple(ts) + ")", rty))
        self.fail(n, "call %s" % ast.dump(f)[:80])

    # ------------------------------------------------------------ statements
    def tuple_pat(self, names):
        if len(names) == 1:
            return names[0]
        return "'(" + ", ".join(names) + ")"

    def tuple_val(self, names, env):
        if len(names) == 1:
            return env[names[0]][0]
        return "(" + ", ".join(env[x][0] for x in names) + ")"

    def stmts(self, ss, env, k):
        """Translate statement list ss in environment env (name -> (coqvar, type));
        k(env) yields the Code of what follows.  Returns Code of the whole."""
        if not ss:
            return k(env)
        s, rest = ss[0], ss[1:]
        cont = lambda e: self.stmts(rest, e, k)
        m = getattr(self, "s_" + type(s).__name__, None)
        if m is None:
            self.fail(s, "statement %s" % type(s).__name__)
        return m(s, env, cont)

    def let(self, var, c, body):
        """let var := c in body  /  c >>= fun var => body"""
        if c.pure:
            return Code("let %s := %s in\n%s" % (var, c.text, body.text), body.ty, body.pure)
        return Code("%s >>= fun %s =>\n%s" % (c.text, var, body.lifted()), body.ty, False)

    def s_Assign(self, s, env, cont):
        if len(s.targets) != 1:
            self.fail(s, "multiple assignment targets")
        t = s.targets[0]
        c = self.expr(s.value, env)
        if isinstance(t, ast.Name):
            env2 = dict(env)
            env2[t.id] = (t.id, c.ty)
            return self.let(t.id, c, cont(env2))
        if isinstance(t, ast.Tuple) and all(isinstance(e, ast.Name) for e in t.elts) and isinstance(c.ty, tuple) and c.ty[0] == "tuple":
            env2 = dict(env)
            names = [e.id for e in t.elts]
            for nm, ty in zip(names, c.ty[1]):
                env2[nm] = (nm, ty)
            return self.let("'(" + ", ".join(names) + ")", c, cont(env2))
        self.fail(s, "assignment target")

    def s_AugAssign(self, s, env, cont):
        if not isinstance(s.target, ast.Name):
            self.fail(s, "augmented assignment target")
        fake = ast.BinOp(left=ast.Name(id=s.target.id, ctx=ast.Load()), op=s.op, right=s.value)
        ast.copy_location(fake, s)
        c = self.expr(fake, env)
        env2 = dict(env)
        env2[s.target.id] = (s.target.id, c.ty)
        return self.let(s.target.id, c, cont(env2))

    def s_Return(self, s, env, cont):
        if s.value is None:
            c = Code("tt", "none")
        else:
            c = self.expr(s.value, env)
        self.note_ret(c.ty, s)
        return c

    def note_ret(self, ty, node):
        if self.ret_ty is None:
            self.ret_ty = ty
        elif self.ret_ty != ty:
            self.fail(node, "return types differ: %r vs %r" % (self.ret_ty, ty))

    def s_Raise(self, s, env, cont):
        tag = "error"
        e = s.exc
        if isinstance(e, ast.Call) and isinstance(e.func, ast.Name) and e.func.id == "CklRuntimeError":
            tag = "L%d" % s.lineno
            return Code("(LangErr %s)" % coqstr(tag), None, False)
        if isinstance(e, ast.Call) and isinstance(e.func, ast.Name) and e.func.id == "CklSyntaxError":
            return Code("(LangErr %s)" % coqstr("syntax L%d" % s.lineno), None, False)
        host = {"ValueError", "IndexError", "TypeError", "ZeroDivisionError", "KeyError", "OverflowError"}
        if isinstance(e, ast.Call) and isinstance(e.func, ast.Name) and e.func.id in host:
            return Code("(Host %s)" % e.func.id, None, False)
        self.fail(s, "raise of %s" % ast.dump(e)[:60])

    def s_Expr(self, s, env, cont):
        if isinstance(s.value, ast.Constant):
            return cont(env)  # docstring
        self.fail(s, "expression statement")

    def s_Pass(self, s, env, cont):
        return cont(env)

    def s_If(self, s, env, cont):
        c = self.expr(s.test, env)
        if c.ty != "bool":
            c = self.truthy(c, s)
        body, orelse = s.body, s.orelse
        if terminates(body) or terminates(orelse) or has_exit(body) or has_exit(orelse):
            a = self.stmts(body, env, cont)
            b = self.stmts(orelse, env, cont)
            return self.ite(c, a, b, s)
        # join: both branches fall through
        ab, ao = assigned(body), assigned(orelse)
        names = [x for x in ab + [y for y in ao if y not in ab] if x in env or (x in ab and x in ao)]
        if not names:
            return cont(env)
        tys = {}

        def fin(which):
            def f(e):
                for x in names:
                    if x not in e:
                        self.fail(s, "variable %s not defined on a path" % x)
                    if x in tys and tys[x] != e[x][1]:
                        if {tys[x], e[x][1]} == {"int", "float"}:
                            tys[x] = "float"
                        else:
                            self.fail(s, "variable %s has types %r and %r" % (x, tys[x], e[x][1]))
                    tys.setdefault(x, e[x][1])
                return Code(self.tuple_val(names, e), None)
            return f
        a = self.stmts(body, env, fin("a"))
        b = self.stmts(orelse, env, fin("b"))
        # int/float joins need explicit coercion; redo with coercion if they differ
        joined = self.ite(c, a, b, s)
        env2 = dict(env)
        for x in names:
            env2[x] = (x, tys[x])
        return self.let(self.tuple_pat(names), joined, cont(env2))

    def ite(self, c, a, b, node):
        if a.ty is not None and b.ty is not None and a.ty != b.ty:
            if not (a.ty is None or b.ty is None):
                self.fail(node, "branch types %r %r" % (a.ty, b.ty))
        ty = a.ty if a.ty is not None else b.ty
        if a.pure and b.pure:
            return self.bind_all([c], lambda ts: Code("(if %s then\n%s\nelse\n%s)" % (ts[0], a.text, b.text), ty))
        return self.bind_all([c], lambda ts: Code("(if %s then\n%s\nelse\n%s)" % (ts[0], a.lifted(), b.lifted()), ty, False))

    def loop_state(self, body_stmts, env, extra=()):
        names = [x for x in assigned(body_stmts) if x in env and x not in extra]
        return names

    def s_For(self, s, env, cont):
        if s.orelse or has_exit(s.body):
            self.fail(s, "for with else/break/continue/return")
        if not isinstance(s.target, ast.Name):
            self.fail(s, "for target")
        it = s.iter
        x = s.target.id
        if isinstance(it, ast.Call) and isinstance(it.func, ast.Name) and it.func.id == "range":
            args = [self.expr(a, env) for a in it.args]
            if any(a.ty != "int" for a in args):
                return Code("(Host TypeError)", self.ret_ty or "int", False)
            if len(args) == 1:
                args = [Code("0", "int")] + args
            if len(args) != 2:
                self.fail(s, "range with step")
            xs = self.bind_all(args, lambda ts: Code("(zrange %s %s)" % (ts[0], ts[1]), ("list", "int")))
            xty = "int"
        else:
            xs = self.expr(it, env)
            if xs.ty == "str":
                xty = "char"
            elif isinstance(xs.ty, tuple) and xs.ty[0] == "list":
                xty = xs.ty[1]
            else:
                return Code("(Host TypeError)", self.ret_ty or "int", False)
        names = self.loop_state(s.body, env, extra=(x,))
        if not names:
            return cont(env)
        env_b = dict(env)
        env_b[x] = (x, xty)
        body = self.stmts(s.body, env_b, lambda e: self.check_state(names, env, e, s))
        pat = self.tuple_pat(names)
        init = self.tuple_val(names, env)
        xsv = self.tmp("xs")
        if body.pure:
            loop = Code("(fold_left (fun %s %s =>\n%s) %s %s)" % (
                pat if len(names) > 1 else names[0], x, body.text, xsv, init), None)
        else:
            loop = Code("(for_res %s (fun %s %s =>\n%s) %s)" % (
                xsv, x, pat if len(names) > 1 else names[0], body.text, init), None, False)
        inner = self.let(pat, loop, cont(env))
        return self.let(xsv, xs, inner)

    def check_state(self, names, env0, e, node):
        for x in names:
            if e[x][1] != env0[x][1]:
                self.fail(node, "loop variable %s changes type %r -> %r" % (x, env0[x][1], e[x][1]))
        return Code(self.tuple_val(names, e), None)

    def s_While(self, s, env, cont):
        if s.orelse or has_exit(s.body):
            self.fail(s, "while with else/break/continue/return")
        names = self.loop_state(s.body, env)
        if not names:
            self.fail(s, "while loop without state")
        self.uses_fuel = True
        c = self.expr(s.test, env)
        if c.ty != "bool":
            c = self.truthy(c, s)
        body = self.stmts(s.body, env, lambda e: self.check_state(names, env, e, s))
        pat = self.tuple_pat(names)
        if len(names) > 1:
            pat = pat  # 'fun '(a, b) => ...' is accepted by Coq
        init = self.tuple_val(names, env)
        if c.pure and body.pure:
            loop = "(while_pure fuel (fun %s =>\n%s) (fun %s =>\n%s) %s)" % (pat, c.text, pat, body.text, init)
        else:
            loop = "(while_res fuel (fun %s =>\n%s) (fun %s =>\n%s) %s)" % (pat, c.lifted(), pat, body.lifted(), init)
        return self.let(pat, Code(loop, None, False), cont(env))

    # ------------------------------------------------------------ functions
    def function(self, fdef, coqname, params, src_info="", skip=0, upto=None, ret=None):
        """fdef: ast.FunctionDef; params: list of (name, type) for its arguments
        (self excluded by the caller).  Returns the Gallina text and registers
        the signature under fdef.name (or the given key)."""
        self.cur_name = coqname
        self.fresh = 0
        self.ret_ty = None
        self.uses_fuel = False
        env = {n: (n, t) for n, t in params}

        def end(e):
            self.fail(fdef, "control reaches the end of the function without return")
        if upto is not None:
            def end(e):
                self.note_ret(e[ret][1], fdef)
                return Code(e[ret][0], e[ret][1])
        body = self.stmts(fdef.body[skip:upto], env, end)
        ret = self.ret_ty
        fuel = self.uses_fuel
        ps = "".join(" (%s : %s)" % (n, ty_coq(t)) for n, t in params)
        head = "Definition %s%s%s :=" % (coqname, " (fuel : nat)" if fuel else "", ps)
        text = "%s\n%s.\n" % (head, textwrap.indent(body.text, "  "))
        sig = FuncSig(coqname, list(params), ret, body.pure, fuel)
        return text, sig


def source_digest(src_text):
    return hashlib.sha256(src_text.encode()).hexdigest()[:16]


def find_function(tree, qualname):
    """qualname: 'f' or 'Class.method'"""
    parts = qualname.split(".")
    body = tree.body
    node = None
    for p in parts:
        node = None
        for s in body:
            if isinstance(s, (ast.FunctionDef, ast.ClassDef)) and s.name == p:
                node = s
                break
        if node is None:
            raise Unsupported("cannot find %s" % qualname)
        body = node.body
    return node
