"""Regenerate every translated Gallina file from the current sources (bin/setup, and the start of every check run: a
check regenerates the files of its own group strictly afterwards; here a translator failure keeps the file on disk,
so that only the checks that depend on that file are affected)."""
import os
import sys

from vlib import core


def generate_all(src, coq, strict=True):
    from . import date_gen, pred_gen, lexer_gen, secure_gen
    jobs = [("Gen/Date.v", date_gen.generate), ("Gen/PredTable.v", pred_gen.generate), ("Gen/LexGen.v", lexer_gen.generate),
            ("Gen/SecureTable.v", lambda s: secure_gen.generate(s)[0])]
    failed = []
    for rel, fn in jobs:
        try:
            text = fn(src)
        except Exception as e:
            if strict:
                raise
            failed.append(rel)
            sys.stderr.write("translation of %s failed (%r); keeping the file on disk\n" % (rel, e))
            continue
        core.write_if_changed(os.path.join(coq, rel), text)
    return failed
