"""Regenerate every translated Gallina file (used by bin/setup; each check
regenerates its own files again on every run)."""
import os
import sys

from vlib import core


def generate_all(src, coq, strict=True):
    from . import date_gen, pykernel
    jobs = [("Gen/Date.v", date_gen.generate)]
    for rel, fn in jobs:
        try:
            text = fn(src)
        except Exception as e:
            if strict:
                raise
            sys.stderr.write("translation of %s failed (%r); keeping the committed snapshot\n" % (rel, e))
            continue
        core.write_if_changed(os.path.join(coq, rel), text)
