#!/bin/bash
# tools/take_seeded.sh <ID> <name> <checks...>: take patch.diff + demo.py from /tmp/wt-<ID>, remove the worktree, run try_seeded
id=$1; name=$2; shift 2
mkdir -p /verif/seeded/$name
cp /tmp/wt-$id/patch.diff /tmp/wt-$id/demo.py /verif/seeded/$name/ || exit 1
git -C /repo worktree remove --force /tmp/wt-$id
echo "== $name $@"
/verif/tools/try_seeded.sh $name "$@" 2>&1 | grep -v KNOWN | cut -c1-150 | tail -$((3 + $#))
