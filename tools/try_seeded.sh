#!/bin/bash
# tools/try_seeded.sh <seeded dir name> <property id> [more property ids]
# applies the seeded change to /repo, runs the test suite, the demonstration and the quick checks, then reverts.
d=/verif/seeded/$1; shift
cd /verif
git -C /repo diff --quiet || { echo "repo not clean"; exit 2; }
git -C /repo apply "$d/patch.diff" || exit 2
trap 'git -C /repo checkout -- . ' EXIT
echo "tests: $(cd /repo && /venv/bin/python -m pytest -q -p no:cacheprovider 2>&1 | tail -1)"
PYTHONPATH=/repo/src timeout 300 /venv/bin/python "$d/demo.py" > /tmp/demo.out 2>&1; echo "demo with change: exit $?"
for p in "$@"; do
  # the evidence and replay files of the unchanged tree are kept: a run against a seeded change must not overwrite them
  cp -f evidence/$p.json /tmp/evidence_$p.bak 2>/dev/null
  timeout 3000 bin/check $p --tier quick 2>&1 | grep -E "^(VIOLATION|OK|FAIL|KNOWN)" | head -5
  mkdir -p seeded/_runs; cp -f replays/$p-quick-1.json "$d/replay-found.json" 2>/dev/null
  cp -f /tmp/evidence_$p.bak evidence/$p.json 2>/dev/null; rm -f /tmp/evidence_$p.bak
done
git -C /repo checkout -- .
trap - EXIT
PYTHONPATH=/repo/src timeout 300 /venv/bin/python "$d/demo.py" > /tmp/demo.out 2>&1; echo "demo without change: exit $?"
