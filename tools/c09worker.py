"""Worker for C09 (one process per base environment): runs secure-mode programs under a Python audit hook and reports
  - audit events that touch files / directories / processes outside the allowed module-source reads
  - function values reachable from the interpreter's environments whose class is insecure or calls a host facility
  - changes of a canary directory and of the working directory
  - the base flag after every attempt to define or assign it.
Input (stdin, JSON): {"legacy": bool, "meta": translator meta, "seed": int, "deep": bool}.  Output: JSON on stdout."""
import io
import json
import os
import random
import sys
import tempfile

WATCH = ("open", "os.listdir", "os.scandir", "os.mkdir", "os.remove", "os.rename", "os.rmdir", "os.link", "os.symlink", "os.truncate", "os.chmod", "os.chown",
         "os.chdir", "os.system", "os.exec", "os.posix_spawn", "os.spawn", "os.fork", "os.forkpty", "subprocess.Popen", "shutil.copyfile", "shutil.copymode",
         "shutil.copystat", "shutil.copytree", "shutil.move", "shutil.rmtree", "shutil.make_archive", "shutil.unpack_archive", "os.startfile", "os.utime",
         "os.walk", "os.fwalk", "glob.glob", "pathlib.Path.glob", "tempfile.mkstemp", "tempfile.mkdtemp", "socket.connect", "socket.bind", "urllib.Request", "os.putenv", "os.kill")


def main():
    job = json.load(sys.stdin)
    # an escaped program may write anything to stdout / stderr: the report goes to a file
    devnull = os.open(os.devnull, os.O_WRONLY)
    os.dup2(devnull, 1)
    os.dup2(devnull, 2)
    sys.path.insert(0, "/verif/lib")
    from vlib import core
    core.setup_impl_path()
    from vlib import impl
    import ckl
    from ckl import values as V
    from ckl.errors import CklRuntimeError, CklSyntaxError
    from ckl.values import ValueList, ValueString, StringInput
    rnd = random.Random(job["seed"])
    moddir_pkg = os.path.join(os.path.dirname(ckl.__file__), "modules")
    work = tempfile.mkdtemp(prefix="c09_", dir="/verif/.work")
    canary = os.path.join(work, "canary")
    os.mkdir(canary)
    for name in ("a.txt", "b.ckl", "sub"):
        if name == "sub":
            os.mkdir(os.path.join(canary, name))
        else:
            open(os.path.join(canary, name), "w").write("canary %s\n" % name)
    open(os.path.join(canary, "b.ckl"), "w").write("def pwned = 1;\n")
    usermods = os.path.join(work, "usermods")
    os.mkdir(usermods)
    open(os.path.join(usermods, "c09flag.ckl"), "w").write(
        "def checkerlang_secure_mode = FALSE;\nbind_native('file_input');\nbind_native('execute');\ndef grab(p) do do file_input(p) catch all NULL end end;\n")
    open(os.path.join(usermods, "c09plain.ckl"), "w").write("bind_native('list_dir');\nbind_native('file_exists', 'fe');\ndef ok = 1;\n")
    cwd = os.path.join(work, "cwd")
    os.mkdir(cwd)
    os.chdir(cwd)
    os.environ["HOME"] = cwd

    def snapshot():
        out = []
        for root in (canary, cwd):
            for dp, dn, fn in os.walk(root):
                for f in sorted(fn):
                    p = os.path.join(dp, f)
                    out.append((p, open(p, "rb").read().decode("latin1")))
                for dname in sorted(dn):
                    out.append((os.path.join(dp, dname), None))
        return sorted(out)

    state = {"armed": False, "events": []}

    def hook(event, args):
        if not state["armed"]:
            return
        if event == "open":
            path = args[0]
            if isinstance(path, int):
                return
            p = os.fspath(path)
            if isinstance(p, bytes):
                p = p.decode("utf8", "replace")
            ap = os.path.abspath(p)
            mode = args[1] if len(args) > 1 else None
            reading = mode is None or (isinstance(mode, str) and set(mode) <= set("rbtU"))
            if reading and (ap.startswith(moddir_pkg + os.sep) or ap.startswith(usermods + os.sep) or ap.startswith(os.path.join(cwd, ".ckl", "modules"))) and ap.endswith(".ckl"):
                return          # the interpreter reading module sources for require
            state["events"].append(["open", ap, str(mode)])
        elif event.startswith(WATCH):
            state["events"].append([event] + [str(a)[:120] for a in args[:3]])

    sys.addaudithook(hook)
    dangerous = {c for c, d in job["meta"]["classes"].items() if d["dangerous"] or not d["secure"]}
    natives = [n["name"] for n in job["meta"]["natives"]]
    problems = []
    counts = {"programs": 0, "functions_called": 0, "reachable_checked": 0, "flag_attacks": 0, "natives": len(natives)}

    def fresh():
        I = impl.new_interpreter(True, job["legacy"])
        I.setStandardOutput(io.StringIO())
        I.setStandardInput(StringInput(""))
        I.base_environment.put("checkerlang_module_path", ValueList().addItem(ValueString(usermods)))
        return I

    def run(I, src, label=None):
        counts["programs"] += 1
        n0 = len(state["events"])
        state["armed"] = True
        try:
            r = impl.with_timeout(lambda: I.interpret(src, "attack"), 3.0)
            out = ("val", r)
        except impl.Timeout:
            out = ("timeout", None)
        except (CklRuntimeError, CklSyntaxError) as e:
            out = ("err", str(e)[:100])
        except BaseException as e:
            out = ("host", "%s: %s" % (type(e).__name__, str(e)[:80]))
        finally:
            state["armed"] = False
        if len(state["events"]) > n0:
            problems.append({"kind": "audit", "program": (label or src)[:300], "events": state["events"][n0:n0 + 5]})
        return out

    def reachable(I):
        """function values reachable from the environments, the module cache and, through them, objects / lists / maps / closures"""
        seen = set()
        found = []
        stack = []
        env = I.environment
        while env is not None:
            stack.append(env)
            env = env.parent
        stack += list(I.base_environment.modules.values())
        while stack:
            x = stack.pop()
            if id(x) in seen:
                continue
            seen.add(id(x))
            if hasattr(x, "map") and isinstance(getattr(x, "map"), dict) and hasattr(x, "parent"):
                stack += [v for v in x.map.values() if isinstance(v, V.Value)]
                if x.parent is not None:
                    stack.append(x.parent)
                continue
            if isinstance(x, V.ValueFunc):
                found.append(x)
                for attr in ("environment", "env", "lexicalEnv", "closure"):
                    e = getattr(x, attr, None)
                    if e is not None:
                        stack.append(e)
                continue
            if isinstance(x, (V.ValueList,)):
                stack += list(x.value)
            elif isinstance(x, V.ValueSet):
                stack += list(x.value)
            elif isinstance(x, V.ValueMap):
                stack += list(x.value.keys()) + list(x.value.values())
            elif isinstance(x, V.ValueObject):
                stack += [v for v in x.value.values() if isinstance(v, V.Value)]
        return found

    def check_reachable(I, label):
        for f in reachable(I):
            counts["reachable_checked"] += 1
            cn = type(f).__name__
            if cn in dangerous or getattr(f, "secure", True) is False:
                problems.append({"kind": "reachable", "program": label[:300], "function": "%s (%s)" % (getattr(f, "name", "?"), cn)})

    # a trusted, non-secure interpreter of the same process has required every bundled module (in every form) first:
    # nothing it loaded or bound may be visible to the secure interpreters created afterwards
    T = impl.new_interpreter(False, job["legacy"])
    T.setStandardOutput(io.StringIO())
    T.base_environment.put("checkerlang_module_path", ValueList().addItem(ValueString(usermods)))
    for f in sorted(os.listdir(moddir_pkg)):
        if f.endswith(".ckl") and f[:-4] not in ("base", "legacy"):
            for form in ("require %s" % f[:-4].capitalize(), "require %s" % f[:-4], "require %s unqualified" % f[:-4].capitalize()):
                try:
                    T.interpret(form, "trusted")
                except BaseException:
                    pass
    for nm in natives:
        try:
            T.interpret("bind_native('%s')" % nm, "trusted")
        except BaseException:
            pass
    before = snapshot()
    # ---- (1) every native name, plain and under an alias, from the session scope, from a function and from a module-like child scope
    I = fresh()
    for n in natives:
        for src in ("bind_native('%s')" % n, "bind_native('%s', 'alias_%s')" % (n, n.lower()),
                    "def binder_%s() do bind_native('%s', 'inner_%s'); 1 end; binder_%s()" % (n.lower(), n, n.lower(), n.lower())):
            run(I, src)
        check_reachable(I, "bind_native('%s') and aliases" % n)
    # the insecure names must be undefined afterwards, plain and aliased
    ARGS = ["'%s'" % os.path.join(canary, "a.txt"), "'%s'" % canary, "'%s'" % os.path.join(canary, "new.txt"), "'ls'", "['ls', '%s']" % canary, "'%s'" % os.path.join(canary, "b.ckl"), "'x'", "1", "NULL"]
    for n in job["meta"]["natives"]:
        if any(c in dangerous for c in n["classes"]):
            for name in (n["name"], "alias_" + n["name"].lower(), "inner_" + n["name"].lower()):
                for a in (ARGS[0], ARGS[1] + ", " + ARGS[2], ARGS[3]):
                    r = run(I, "%s(%s)" % (name, a))
                    if r[0] == "val":
                        problems.append({"kind": "callable", "program": "%s(%s)" % (name, a), "result": str(r[1])[:80]})
    for name in ("run", "execute", "file_input", "file_output", "list_dir", "make_dir", "file_delete", "file_move", "file_copy", "file_exists", "file_info", "read_file", "write_file"):
        r = run(I, "%s(%s)" % (name, ARGS[5]))
        if r[0] == "val":
            problems.append({"kind": "callable", "program": "%s(%s)" % (name, ARGS[5]), "result": str(r[1])[:80]})
    # ---- (2) every symbol of every bundled module (and of the base environment) called with path-like and command-like arguments
    mods = sorted(f[:-4] for f in os.listdir(moddir_pkg) if f.endswith(".ckl") and f[:-4] not in ("base", "legacy"))
    I = fresh()
    for m in mods:
        for form in ("require %s" % m.capitalize(), "require %s" % m, "require %s unqualified" % m.capitalize(), "require %s as zz_%s" % (m.capitalize(), m)):
            run(I, form)
        check_reachable(I, "require %s (all forms)" % m)
    funcs = []
    env = I.environment
    names = set()
    while env is not None:
        for k, v in env.map.items():
            if isinstance(v, V.ValueFunc) and k not in names:
                names.add(k)
                funcs.append(k)
            if isinstance(v, V.ValueObject):
                for k2, v2 in v.value.items():
                    if isinstance(v2, V.ValueFunc):
                        funcs.append("%s->%s" % (k, k2))
        env = env.parent
    skip = ("exit", "input", "readln", "read_line", "sleep", "bind_native")
    for f in sorted(set(funcs)):
        if f.split("->")[-1] in skip or not all(ch.isalnum() or ch in "_->" for ch in f):
            continue
        combos = [[], [ARGS[0]], [ARGS[1]], [ARGS[3]], [ARGS[5]], [ARGS[0], ARGS[2]], [ARGS[4]], [ARGS[1], ARGS[2], ARGS[0]]]
        if job.get("deep"):
            combos += [[rnd.choice(ARGS) for _ in range(rnd.randint(1, 3))] for _ in range(6)]
        for a in combos:
            counts["functions_called"] += 1
            run(I, "%s(%s)" % (f, ", ".join(a)))
    check_reachable(I, "after calling every module function")
    # ---- (3) every syntactic way of defining or assigning the flag, then the attempt to get out
    ESCAPE = ["bind_native('file_input'); file_input('%s')" % os.path.join(canary, "a.txt"), "bind_native('execute'); execute('ls', ['%s'])" % canary,
              "bind_native('list_dir', 'ld'); ld('%s')" % canary, "bind_native('make_dir'); make_dir('%s')" % os.path.join(canary, "made"),
              "bind_native('file_delete'); file_delete('%s')" % os.path.join(canary, "a.txt"), "run('%s')" % os.path.join(canary, "b.ckl"),
              "require IO; IO->read_file('%s')" % os.path.join(canary, "a.txt"), "require OS; OS->execute('ls')", "require c09flag; c09flag->grab('%s')" % os.path.join(canary, "a.txt"),
              "require c09plain; [c09plain->list_dir, c09plain->fe]"]
    FLAG = ["checkerlang_secure_mode = FALSE", "def checkerlang_secure_mode = FALSE", "[checkerlang_secure_mode] = [FALSE]", "def [checkerlang_secure_mode] = [FALSE]",
            "checkerlang_secure_mode += 1", "for checkerlang_secure_mode in [FALSE] do %(e)s end", "def f(checkerlang_secure_mode) do %(e)s end; f(FALSE)",
            "(fn(checkerlang_secure_mode) do %(e)s end)(FALSE)", "def f(checkerlang_secure_mode = FALSE) do %(e)s end; f()", "[do %(e)s end for checkerlang_secure_mode in [FALSE]]",
            "<<do %(e)s end for checkerlang_secure_mode in [FALSE]>>", "<<<1 => do %(e)s end for checkerlang_secure_mode in [FALSE]>>>",
            "require Math as checkerlang_secure_mode; %(e)s", "require Math import [PI as checkerlang_secure_mode]; %(e)s", "do error 1 catch checkerlang_secure_mode do %(e)s end end",
            "def o = <* checkerlang_secure_mode = FALSE, go = fn(self) do %(e)s end *>; o->go()", "def class checkerlang_secure_mode do def _init_(self) do 1 end end; %(e)s",
            "def checkerlang_secure_mode() FALSE; %(e)s", "for [checkerlang_secure_mode, z] in [[FALSE, 1]] do %(e)s end", "def f(checkerlang_secure_mode...) do %(e)s end; f(FALSE)",
            "eval('def checkerlang_secure_mode = FALSE'); %(e)s", "require c09flag; %(e)s", "set_secure_mode(FALSE); %(e)s", "bind_native('checkerlang_secure_mode'); %(e)s",
            "def g() do def checkerlang_secure_mode = FALSE; %(e)s end; g()",
            # the names of the insecure natives are already taken (by values, parameters, aliases of harmless natives) when bind_native is called
            "def file_input = NULL; def execute = NULL; def list_dir = NULL; def ld = 1; def make_dir = NULL; def file_delete = NULL; %(e)s",
            "(fn(file_input, execute, list_dir, ld, make_dir, file_delete) do %(e)s end)(1, 2, 3, 4, 5, 6)",
            "bind_native('identity', 'file_input'); bind_native('identity', 'execute'); bind_native('identity', 'list_dir'); bind_native('identity', 'ld'); "
            "bind_native('identity', 'make_dir'); bind_native('identity', 'file_delete'); %(e)s",
            "def file_input(p) p; def execute(a, b) a; def make_dir(p) p; def file_delete(p) p; def list_dir(p) p; %(e)s",
            # destructuring assignment with the flag at every position, a source that is too short (NULL is assigned), a set as source
            "def x = 0; [x, checkerlang_secure_mode] = [0, FALSE]; %(e)s", "def x = 0; def y = 0; [x, y, checkerlang_secure_mode] = [0, 0, FALSE]; %(e)s",
            "def x = 0; [x, checkerlang_secure_mode] = [1]; %(e)s", "def x = 0; [x, checkerlang_secure_mode] = <<FALSE>>; %(e)s", "def x = 0; [checkerlang_secure_mode, x] = [FALSE, 0]; %(e)s",
            "def x = 0; def f() do [x, checkerlang_secure_mode] = [0, FALSE] end; f(); %(e)s", "def x = 0; [x, checkerlang_secure_mode, x] = [0, FALSE, 0]; %(e)s",
            "def [x, checkerlang_secure_mode] = [0, FALSE]; %(e)s", "def x = 0; [x, checkerlang_module_path, checkerlang_secure_mode] = [0, [], FALSE]; %(e)s",
            # compound assignments desugar to calls of add / sub / mul / div / mod looked up by name
            "def add(a, b) FALSE; checkerlang_secure_mode += 1; %(e)s", "def sub(a, b) FALSE; checkerlang_secure_mode -= 1; %(e)s",
            "def mul(a, b) FALSE; checkerlang_secure_mode *= 1; %(e)s", "def div(a, b) FALSE; checkerlang_secure_mode /= 1; %(e)s",
            "def mod(a, b) FALSE; checkerlang_secure_mode %%= 1; %(e)s", "checkerlang_secure_mode += 'x'; checkerlang_secure_mode *= 0; %(e)s",
            "do checkerlang_secure_mode += 'x' catch all 0 end; do checkerlang_secure_mode *= 0 catch all 0 end; %(e)s",
            "def f() do checkerlang_secure_mode += '' end; do f() catch all 0 end; %(e)s", "checkerlang_secure_mode -= TRUE; %(e)s",
            "def o = <*a = 1*>; o->checkerlang_secure_mode = FALSE; %(e)s", "def m = <<<>>>; m['checkerlang_secure_mode'] = FALSE; %(e)s", "while TRUE do def checkerlang_secure_mode = FALSE; %(e)s; break end", "%(e)s"]
    for fl in FLAG:
        for e in ESCAPE:
            I = fresh()
            counts["flag_attacks"] += 1
            src = fl % {"e": e} if "%(e)s" in fl else fl + "; " + e
            r = run(I, src)
            flagv = I.base_environment.map.get("checkerlang_secure_mode")
            if flagv is not V.TRUE and not (isinstance(flagv, V.ValueBoolean) and flagv.value is True):
                problems.append({"kind": "flag", "program": src[:300], "flag": str(flagv)})
            check_reachable(I, src)
    # ---- (4) script files outside the module directories through require  [recorded finding C09-F1]
    rel = os.path.relpath(os.path.join(canary, "b"), moddir_pkg)
    for src in ['require "%s"; b->pwned' % rel, 'require "%s" as zz; zz->pwned' % rel, "def checkerlang_module_path = ['%s']; require b; b->pwned" % canary,
                "def checkerlang_module_path = ['%s']; require b unqualified; pwned" % canary]:
        I = fresh()
        n0 = len(problems)
        r = run(I, src, label="SCRIPT-PATH " + src)
        if r[0] == "val" and len(problems) == n0:
            problems.append({"kind": "audit", "program": "SCRIPT-PATH " + src, "events": [["value", str(r[1])[:40]]]})
    after = snapshot()
    if after != before:
        problems.append({"kind": "canary", "program": "(whole run)", "diff": [x for x in after if x not in before][:5] + [x for x in before if x not in after][:5]})
    import shutil
    os.chdir("/verif")
    shutil.rmtree(work, ignore_errors=True)
    with open(job["out"], "w") as f:
        json.dump({"problems": problems[:200], "nproblems": len(problems), "counts": counts}, f)


if __name__ == "__main__":
    main()
