#!/venv/bin/python
"""Prints the prompt for a mutation-author sub-agent: property text + worktree only."""
import json, sys
pid, wt = sys.argv[1], sys.argv[2]
extra = sys.argv[3] if len(sys.argv) > 3 else ""
p = [json.loads(l) for l in open('/verif/properties.jsonl') if json.loads(l)['id'] == pid][0]
print(f"""You are helping test a verification effort for the open-source project damianbrunold/checkerlang-py (a pure-Python tree-walking interpreter for the Checkerlang scripting language: lexer, parser, AST evaluator, value model, builtin library). You have your own scratch git worktree of the repository at {wt} . Work ONLY inside {wt} (never touch /repo or /verif, never read /verif).

Here is a semantic property the project is supposed to satisfy:

  Title: {p['title']}
  Statement: {p['statement']}
  Quantified over: {p['quantifier']['text']}

Your task: write ONE small, realistic source change (a plausible bug a developer could introduce: a refactoring slip, an off-by-one, a wrong boundary, a dropped case, a misplaced statement, two cooperating sites that each look fine alone) to the Python/ckl sources under {wt}/src/ckl that BREAKS this property, while
  (a) the code still imports/compiles, and
  (b) the project's existing test suite still passes completely (854 tests):  cd {wt} && PYTHONPATH={wt}/src /venv/bin/python -m pytest -q -p no:cacheprovider   (the PYTHONPATH matters: without it python imports the package from /repo instead of your worktree; check with PYTHONPATH={wt}/src /venv/bin/python -c "import ckl; print(ckl.__file__)").
The change must need something specific to manifest — an unusual input, a particular multi-step sequence of operations, a boundary value, a specific combination of features — NOT something ordinary use would expose at once. Do not add new features, do not touch tests, keep the diff small (ideally < 15 changed lines). Do not make it depend on environment variables, time or randomness. {extra}

Also write a demonstration: a small standalone Python script {wt}/demo.py that uses the package (e.g. `from ckl.interpreter import Interpreter; Interpreter(False, False).interpret(src, 'demo')`, or `from ckl.parser import parse_script`, `from ckl.lexer import Lexer`, `ckl.values`, `ckl.date` ...) and exits 0 when the property holds on its input and exits 1 (printing what went wrong) when it is violated. It must exit 1 WITH your change and exit 0 WITHOUT it (verify both: `git stash` / `git stash pop`, or `git diff > /tmp/x.diff; git checkout -- src; ...; git apply`), always run with PYTHONPATH={wt}/src.

When done: leave the change applied (uncommitted) in the worktree, write the unified diff of the source change (src only, not demo.py) to {wt}/patch.diff (`git -C {wt} diff -- src > {wt}/patch.diff`), and reply with: a one-paragraph description of the change, what it needs in order to manifest, the exact commands you ran and their results (test suite summary line, demo exit codes with and without the change). If the current code ALREADY violates the property on some input you stumble upon, mention that input separately, but your demo must be about the behaviour your change introduces.""")
