#!/venv/bin/python
"""Assembles DESIGN.md from docs/design_head.md and tables generated from known_findings.json and seeded/*/meta.json."""
import glob
import json
import os

V = "/verif"
head = open(os.path.join(V, "docs", "design_head.md")).read()
k = json.load(open(os.path.join(V, "known_findings.json")))["findings"]
fixed = [f for f in k if f["status"] == "fixed"]
known = [f for f in k if f["status"] == "known"]
rows = ["**Fixed (%d)** — property, `fix:` commit in /repo, what failed:" % len(fixed), "", "| id | commit | what failed |", "|---|---|---|"]
for f in sorted(fixed, key=lambda f: (f["property"], f["id"])):
    rows.append("| %s | `%s` | %s |" % (f["id"], f.get("commit", ""), f["what"].replace("|", "\\|").replace("\n", " ")))
rows += ["", "**Known (%d)** — recorded, not repaired:" % len(known), "", "| id | what fails, and why it is not repaired |", "|---|---|"]
for f in sorted(known, key=lambda f: f["id"]):
    rows.append("| %s | %s |" % (f["id"], f["what"].replace("|", "\\|")))
srows = ["| seeded change | property | what it breaks | needs | detected by |", "|---|---|---|---|---|"]
for m in sorted(glob.glob(os.path.join(V, "seeded", "*", "meta.json"))):
    d = json.load(open(m))
    srows.append("| %s | %s | %s | %s | %s |" % (os.path.basename(os.path.dirname(m)), d.get("property", ""), d.get("breaks", "").replace("|", "\\|"),
                                               d.get("needs", "").replace("|", "\\|"), "; ".join(d.get("detected_by", [])).replace("|", "\\|")))
text = head.replace("@@FINDINGS@@", "\n".join(rows)).replace("@@SEEDED@@", "\n".join(srows))
text = text.replace("exposed 75 genuine defects", "exposed %d genuine defects" % len(k)).replace("all but six repaired", "all but %d repaired" % len(known))
open(os.path.join(V, "DESIGN.md"), "w").write(text)
print("DESIGN.md: %d lines, %d fixed, %d known, %d seeded" % (text.count("\n"), len(fixed), len(known), len(srows) - 2))
