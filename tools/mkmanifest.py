#!/venv/bin/python
"""Regenerates MANIFEST.json from tools/manifest_src.py (kept valid at all times)."""
import json, os, sys
HERE = os.path.dirname(os.path.dirname(os.path.abspath(__file__)))
sys.path.insert(0, HERE)
from tools import manifest_src as M

checks = []
for pid in sorted(M.CLAIMED):
    c = M.CLAIMED[pid]
    checks.append({
        "property_id": pid,
        "quick_cmd": "bin/check %s --tier quick" % pid,
        "thorough_cmd": "bin/check %s --tier thorough" % pid,
        "evidence_file": "evidence/%s.json" % pid,
        "replay_cmd_template": "bin/check %s --replay {path}" % pid,
        "engine": "coq",
        "level_claimed": {"category": "proof", "text": c["text"], "design_ref": c.get("design_ref", "DESIGN.md section 5, " + pid)},
        "level_note": c["note"],
        "technique": c["technique"],
    })
props = [json.loads(l)["id"] for l in open(os.path.join(HERE, "properties.jsonl"))]
na = [{"property_id": p, "reason": M.NOT_APPLICABLE.get(p, "check not built yet in this development; no claim is made for this property")}
      for p in props if p not in M.CLAIMED]
man = {
    "version": 1,
    "setup_cmd": "bin/setup",
    "hooks": {
        "guard": "CKL_VERIF",
        "enable": "no source hooks are needed: checks import /repo/src directly (PYTHONPATH=/repo/src); CKL_VERIF is unused by the source",
        "baseline_off_cmd": "cd /repo && /venv/bin/python -m pytest -ra -q -p no:cacheprovider --timeout=900 --continue-on-collection-errors",
        "source_commits": [],
        "add_only": True,
    },
    "engines": [{"name": "coq", "path": "coq/", "serves_properties": sorted(M.CLAIMED),
                 "kind_free_text": "Coq 8.16.1 development: Gallina kernels regenerated from /repo/src by tools/translate (T), hand models tied by vm_compute correspondence (C), property theorems in coq/Props"}],
    "checks": checks,
    "notes": M.NOTES,
    "not_applicable": na,
}
with open(os.path.join(HERE, "MANIFEST.json"), "w") as f:
    json.dump(man, f, indent=1)
print("MANIFEST.json: %d claimed, %d not claimed" % (len(checks), len(na)))
