"""Worker for the C01 enumeration: parses texts under a wall-clock bound and classifies the outcome:
("node", text of the tree) / ("syntax", message, position) / ("badsyntax", why) / ("host", class, message) / ("timeout",)."""
import sys


def classify(text):
    from vlib import impl
    from ckl.errors import CklSyntaxError
    from ckl.parser import parse_script
    try:
        n = impl.with_timeout(lambda: parse_script(text, "f.ckl"), 3.0)
    except impl.Timeout:
        return ("timeout",)
    except CklSyntaxError as e:
        if not isinstance(e.msg, str) or not e.msg.strip():
            return ("badsyntax", "syntax error without a message")
        p = e.pos
        if p is None or getattr(p, "filename", None) != "f.ckl" or not isinstance(p.line, int) or not isinstance(p.column, int) or p.line < 1 or p.column < 1:
            return ("badsyntax", "syntax error %r without a proper position: %s" % (e.msg, p))
        return ("syntax", e.msg, str(p))
    except BaseException as e:
        return ("host", type(e).__name__, str(e)[:120])
    if n is None:
        return ("badsyntax", "parser returned None")
    try:
        return ("node", str(n))
    except BaseException as e:
        return ("host", type(e).__name__, "rendering the tree: " + str(e)[:100])


def run_chunk(texts):
    sys.path.insert(0, "/verif/lib")
    from vlib import core
    core.setup_impl_path()
    sys.setrecursionlimit(1000)
    out = []
    for t in texts:
        a = classify(t)
        b = classify(t)
        if a != b:
            out.append(("nondet", repr(a)[:150], repr(b)[:150]))
        else:
            out.append(a if a[0] != "node" else ("node", hash_text(a[1])))
    return out


def hash_text(s):
    import hashlib
    return hashlib.sha1(s.encode("utf8", "replace")).hexdigest()[:16]
