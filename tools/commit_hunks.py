#!/venv/bin/python
"""commit_hunks.py <message> <regex> : in /repo, stage exactly the diff hunks whose text matches <regex> and commit them."""
import re, subprocess, sys
msg, rx = sys.argv[1], re.compile(sys.argv[2], re.S)
diff = subprocess.run(["git", "-C", "/repo", "diff", "-U3"], capture_output=True, text=True).stdout
files = re.split(r"(?m)^(?=diff --git )", diff)
patch = ""
n = 0
for f in files:
    if not f.strip():
        continue
    parts = re.split(r"(?m)^(?=@@ )", f)
    head, hunks = parts[0], parts[1:]
    keep = [h for h in hunks if rx.search(h)]
    if keep:
        patch += head + "".join(keep)
        n += len(keep)
if not n:
    sys.exit("no hunk matches")
p = subprocess.run(["git", "-C", "/repo", "apply", "--cached", "--recount", "-"], input=patch, text=True)
if p.returncode:
    sys.exit("apply failed")
subprocess.run(["git", "-C", "/repo", "commit", "-q", "-m", msg], check=True)
print("committed %d hunks" % n)
