"""Source of MANIFEST.json (tools/mkmanifest.py writes it)."""
NOTES = ("Technique: machine-checked proof in Coq 8.16.1 over executable Gallina models; models are tied to /repo's "
         "current sources on every run by regeneration (tools/translate, T) and/or by a correspondence run (C). "
         "See DESIGN.md. VERIF_SEED seeds every generator; VERIF_TIER overrides the tier.")

CLAIMED = {
    "C17": {
        "text": ("Theorems in coq/Props/C17.v over Gallina kernels regenerated from src/ckl/date.py on every run: Gregorian leap rule, "
                 "day-number/date round trip, successor, inverse and add/sub laws for all days >= 1900-01-01 (Z instance, unbounded); "
                 "the float/time-of-day path is a finite vm_compute theorem (C17_time_partial). Tie: translation + vm_compute "
                 "correspondence of the generated kernels against ckl.date + calendar oracle search on the implementation."),
        "note": ("Coq kernel + vm_compute; Prelude/PyPrelude.v, Prelude/PyDatetime.v as the meaning of the Python builtins; "
                 "the translator tools/translate; binary64 exactness on small integers is a stated hypothesis validated by the run; "
                 "no axioms (Print Assumptions closed or PrimFloat primitives only)."),
        "technique": "Coq proof over translated Gallina kernels + vm_compute correspondence",
    },
}
CLAIMED["C15"] = {
    "text": ("Theorems in coq/Props/C15.v (all sequences over any element type, all integer positions, no bound): s[i] is the element "
             "at i mod len or the language's error, never a host exception; s[a to b], substr, sublist equal the contiguous run between "
             "the clamped normalised bounds (element-wise, length, empty when crossed, never wrapping); s[0 to k] ++ s[k to *] = s for every k; "
             "find/find_last return the first/last occurrence or -1 (strings and lists); insert_at/delete_at change exactly one position or nothing. "
             "The theorems are about the hand model coq/Model/SeqModel.v, tied to the code by a vm_compute correspondence on every run "
             "(every index in [-9,9] / every pair, sequences over 3 symbols) whose disagreements are concrete failing inputs."),
    "note": ("Coq kernel + vm_compute; Prelude/PyPrelude.v as the meaning of Python slicing/indexing/str.find/rfind; the hand model is faithful "
             "only as far as the correspondence run shows (sampling: exhaustive on the stated small domain); no axioms."),
    "technique": "Coq proof over a hand Gallina model + vm_compute correspondence against the interpreter",
}
CLAIMED["C02"] = {
    "text": ("Theorems in coq/Props/C02.v: int + - * are exact on Z, / is Z.quot (truncation toward zero), a % b satisfies |r| < |b| and b | a - r, "
             "zero divisors give the language's error; on numeric operands the result is an int iff both are; NULL absorbs; and/or short-circuit "
             "and reject non-booleans, not negates, a comparison chain is the conjunction of its adjacent pairs (all for every expression/operand, "
             "no bound); every `is not P` / negated postfix branch of the parser is NodeNot of the positive branch (finite theorem over tables "
             "regenerated from parse_pred_expr on every run). Precedence/associativity has no parser theorem yet: it is decided by the correspondence "
             "(minimally parenthesised renderings of expression trees, every ordered operator pair) - partial."),
    "note": ("Coq kernel + vm_compute; PrimFloat primitives (decimal results compared bit for bit, no theorem about rounding); hand models "
             "Model/Arith.v + Model/Values.v tied by correspondence (sampling); tools/translate/pred_gen.py (fail-closed)."),
    "technique": "Coq proof over hand + generated Gallina models, vm_compute correspondence against the interpreter",
}
CLAIMED["C06"] = {
    "text": ("Theorems in coq/Props/C06.v over all nested data values (structural induction, no depth bound): == is reflexive (NaN-free values), "
             "symmetric and transitive; different kinds are never equal, ints/decimals are equal iff their exact values are (any magnitude); sets and "
             "maps are equal regardless of insertion order; equal values are interchangeable for membership, lookup, removal and == on containers; "
             "no sequence of add/remove (put/remove) operations yields a set with two equal elements (a map with two equal keys). The model of __eq__ "
             "and of the host's hash containers is tied to values.py by a vm_compute correspondence (pairs, operation sequences) and the laws are "
             "also searched on the implementation (hash agreement, representatives, all insertion orders of <= 5 elements, interpreted programs)."),
    "note": ("Coq kernel + vm_compute; PrimFloat/Prim2SF primitives only to read off the exact value of a float; NaN excluded by the guard nan_free "
             "(known finding C06-F1); hash compatibility with == is observed on the implementation, not proved; hand model tied by sampling."),
    "technique": "Coq proof over a hand Gallina model of value equality and hash containers + vm_compute correspondence",
}
CLAIMED["C07"] = {
    "text": ("Theorems in coq/Props/C07.v: on same-kind values < is irreflexive, asymmetric, transitive, respects ==, and trichotomous (NaN-free), "
             "for numbers (exact values of ints and decimals together), strings (code points, proper prefix first), booleans, dates, patterns and "
             "lists of any nesting (element-wise lexicographic) - structural induction, no bound; <= > >= compare are the stated derivations; "
             "the insertion sort of sorted() returns a permutation that is ordered (given an asymmetric comparison) and keeps every class of mutually "
             "non-less elements in its original order (stability), for lists of any length and any key/cmp. Tie: vm_compute correspondence on "
             "same-kind pairs and on sorted() with/without key/cmp, plus set/map-key enumeration and min/max against the stated order."),
    "note": ("Coq kernel + vm_compute; PrimFloat/Prim2SF primitives; cross-kind comparison (rendered text in the code) is outside the property and "
             "not modelled; NaN excluded (known finding C07-F3); min/max (written in the language) are decided by correspondence only."),
    "technique": "Coq proof over a hand Gallina model of the value order and of sorted + vm_compute correspondence",
}
CLAIMED["C19"] = {
    "text": ("Theorems in coq/Props/C19.v about specification functions (textbook definitions; the 32-bit natives statement by statement): union/"
             "intersection/diff/symmetric_diff are the set-theoretic operations up to == with duplicate-free results; unique keeps first occurrences "
             "in order; reverse is an involution; zip/range/interval/chunks/pairs/grouped structural laws; sum, min, max, median_low, median_high are "
             "permutation invariant on ints (uniqueness of sorted permutations); gcd = Z.gcd, lcm = Z.lcm, sign = Z.sgn on all of Z; bit_not, shifts "
             "and rotates equal the 32-bit operations (Z.testbit characterisation) for every word and every shift count; and/or/xor are bitwise. All "
             "for lists/ints of any size. The library (natives + modules written in the language) is tied to the specification functions by a "
             "vm_compute correspondence on generated inputs (partial: the library code itself is not the object of the theorems)."),
    "note": ("Coq kernel + vm_compute; specification-level model tied by sampling; decimal mean/median values are checked numerically against "
             "Python's statistics module; float summation order dependence is a recorded finding (C19-F5)."),
    "technique": "Coq proof over Gallina specification functions + vm_compute correspondence against the library",
}

NOT_APPLICABLE = {}
