"""Source of MANIFEST.json (tools/mkmanifest.py writes it)."""
NOTES = ("Technique: machine-checked proof in Coq 8.16.1 over executable Gallina models; models are tied to /repo's "
         "current sources on every run by regeneration (tools/translate, T) and/or by a correspondence run (C). "
         "See DESIGN.md. VERIF_SEED seeds every generator; VERIF_TIER overrides the tier.")

CLAIMED = {
    "C17": {
        "text": ("Theorems in coq/Props/C17.v over Gallina kernels regenerated from src/ckl/date.py on every run: Gregorian leap rule, "
                 "day-number/date round trip, successor, inverse and add/sub laws for all days >= 1900-01-01 (Z instance, unbounded); "
                 "the float/time-of-day path is a finite vm_compute theorem (C17_time_partial). Tie: translation + vm_compute "
                 "correspondence of the generated kernels against ckl.date + calendar oracle search on the implementation."),
        "note": ("Coq kernel + vm_compute; Prelude/PyPrelude.v, Prelude/PyDatetime.v as the meaning of the Python builtins; "
                 "the translator tools/translate; binary64 exactness on small integers is a stated hypothesis validated by the run; "
                 "no axioms (Print Assumptions closed or PrimFloat primitives only)."),
        "technique": "Coq proof over translated Gallina kernels + vm_compute correspondence",
    },
}
CLAIMED["C15"] = {
    "text": ("Theorems in coq/Props/C15.v (all sequences over any element type, all integer positions, no bound): s[i] is the element "
             "at i mod len or the language's error, never a host exception; s[a to b], substr, sublist equal the contiguous run between "
             "the clamped normalised bounds (element-wise, length, empty when crossed, never wrapping); s[0 to k] ++ s[k to *] = s for every k; "
             "find/find_last return the first/last occurrence or -1 (strings and lists); insert_at/delete_at change exactly one position or nothing. "
             "The theorems are about the hand model coq/Model/SeqModel.v, tied to the code by a vm_compute correspondence on every run "
             "(every index in [-9,9] / every pair, sequences over 3 symbols) whose disagreements are concrete failing inputs."),
    "note": ("Coq kernel + vm_compute; Prelude/PyPrelude.v as the meaning of Python slicing/indexing/str.find/rfind; the hand model is faithful "
             "only as far as the correspondence run shows (sampling: exhaustive on the stated small domain); no axioms."),
    "technique": "Coq proof over a hand Gallina model + vm_compute correspondence against the interpreter",
}
CLAIMED["C02"] = {
    "text": ("Theorems in coq/Props/C02.v: int + - * are exact on Z, / is Z.quot (truncation toward zero), a % b satisfies |r| < |b| and b | a - r, "
             "zero divisors give the language's error; on numeric operands the result is an int iff both are; NULL absorbs; and/or short-circuit "
             "and reject non-booleans, not negates, a comparison chain is the conjunction of its adjacent pairs (all for every expression/operand, "
             "no bound); every `is not P` / negated postfix branch of the parser is NodeNot of the positive branch (finite theorem over tables "
             "regenerated from parse_pred_expr on every run). Precedence and association: C02_parse_render - the hand model of the operator core of the parser "
             "(Model/ExprParse.v) reads the canonical text of every well-formed tree of any depth back as that tree (levels or < and < not < comparison < additive < "
             "multiplicative < unary < call, left association, no omitted parenthesis needed), C02_parse_chain, C02_parse_neg/_pos; the model is tied to parse_script "
             "by correspondence on generated token lists and trees. Forms outside that alphabet (in, is, !>, derefs): correspondence only - partial."),
    "note": ("Coq kernel + vm_compute; PrimFloat primitives (decimal results compared bit for bit, no theorem about rounding); hand models "
             "Model/Arith.v + Model/Values.v + Model/ExprParse.v tied by correspondence (sampling); tools/translate/pred_gen.py (fail-closed)."),
    "technique": "Coq proof over hand + generated Gallina models, vm_compute correspondence against the interpreter",
}
CLAIMED["C06"] = {
    "text": ("Theorems in coq/Props/C06.v over all nested data values (structural induction, no depth bound): == is reflexive (NaN-free values), "
             "symmetric and transitive; different kinds are never equal, ints/decimals are equal iff their exact values are (any magnitude); sets and "
             "maps are equal regardless of insertion order; equal values are interchangeable for membership, lookup, removal and == on containers; "
             "no sequence of add/remove (put/remove) operations yields a set with two equal elements (a map with two equal keys). The model of __eq__ "
             "and of the host's hash containers is tied to values.py by a vm_compute correspondence (pairs, operation sequences) and the laws are "
             "also searched on the implementation (hash agreement, representatives, all insertion orders of <= 5 elements, interpreted programs)."),
    "note": ("Coq kernel + vm_compute; PrimFloat/Prim2SF primitives only to read off the exact value of a float; NaN excluded by the guard nan_free "
             "(known finding C06-F1); hash compatibility with == is observed on the implementation, not proved; hand model tied by sampling."),
    "technique": "Coq proof over a hand Gallina model of value equality and hash containers + vm_compute correspondence",
}
CLAIMED["C07"] = {
    "text": ("Theorems in coq/Props/C07.v: on same-kind values < is irreflexive, asymmetric, transitive, respects ==, and trichotomous (NaN-free), "
             "for numbers (exact values of ints and decimals together), strings (code points, proper prefix first), booleans, dates, patterns and "
             "lists of any nesting (element-wise lexicographic) - structural induction, no bound; <= > >= compare are the stated derivations; "
             "the insertion sort of sorted() returns a permutation that is ordered (given an asymmetric comparison) and keeps every class of mutually "
             "non-less elements in its original order (stability), for lists of any length and any key/cmp. Tie: vm_compute correspondence on "
             "same-kind pairs and on sorted() with/without key/cmp, plus set/map-key enumeration and min/max against the stated order."),
    "note": ("Coq kernel + vm_compute; PrimFloat/Prim2SF primitives; cross-kind comparison (rendered text in the code) is outside the property and "
             "not modelled; NaN excluded (known finding C07-F3); min/max (written in the language) are decided by correspondence only."),
    "technique": "Coq proof over a hand Gallina model of the value order and of sorted + vm_compute correspondence",
}
CLAIMED["C19"] = {
    "text": ("Theorems in coq/Props/C19.v about specification functions (textbook definitions; the 32-bit natives statement by statement): union/"
             "intersection/diff/symmetric_diff are the set-theoretic operations up to == with duplicate-free results; unique keeps first occurrences "
             "in order; reverse is an involution; zip/range/interval/chunks/pairs/grouped structural laws; sum, min, max, median_low, median_high are "
             "permutation invariant on ints (uniqueness of sorted permutations); gcd = Z.gcd, lcm = Z.lcm, sign = Z.sgn on all of Z; bit_not, shifts "
             "and rotates equal the 32-bit operations (Z.testbit characterisation) for every word and every shift count; and/or/xor are bitwise. All "
             "for lists/ints of any size. The library (natives + modules written in the language) is tied to the specification functions by a "
             "vm_compute correspondence on generated inputs (partial: the library code itself is not the object of the theorems)."),
    "note": ("Coq kernel + vm_compute; specification-level model tied by sampling; decimal mean/median values are checked numerically against "
             "Python's statistics module; float summation order dependence is a recorded finding (C19-F5)."),
    "technique": "Coq proof over Gallina specification functions + vm_compute correspondence against the library",
}
_EV = ("Coq kernel + vm_compute; Model/Eval.v is a hand model of the evaluator for a core fragment (expressions, blocks with catch/finally, "
       "if/for/while, calls with named/default/rest/spread arguments, closures, objects with prototypes, lists/sets/maps on a heap, "
       "comprehensions, ~25 natives), tied to the code by correspondence on generated programs (sampling; programs outside the fragment are "
       "skipped and counted); tools/ast2model.py converts the real parser's tree (fails closed); no axioms.")
CLAIMED["C05"] = {
    "text": ("Theorems in coq/Props/C05.v about block_sem, the model of NodeBlock.evaluate, parametric in the meaning of statements, handlers and "
             "finally parts (so they hold for every body and nesting): finally runs exactly once for every way of leaving the block; no statement "
             "after the failing one runs; handlers are tried in order, catch all or the first whose value == the error value handles it and its "
             "result becomes the block's value; an unmatched error continues unchanged; return/break/continue pass through; an error in finally "
             "replaces the outcome. Tie: evaluator correspondence on generated do/catch/finally nests with injected errors + fixed scenarios."),
    "note": _EV, "technique": "Coq proof over a body-parametric Gallina model of blocks + vm_compute evaluator correspondence",
}
CLAIMED["C04"] = {
    "text": ("Theorems in coq/Props/C04.v, parametric in the meaning of conditions and bodies: if/elif/else evaluates exactly the first branch whose "
             "condition is TRUE (non-boolean conditions are errors); a loop visits its items in order up to the first break/return/error; no for "
             "or while loop ever yields break/continue and no call yields return/break/continue (exits reach only the innermost loop/function); "
             "while re-tests its condition before every iteration. The comprehension-equals-loop part is decided by correspondence and by a "
             "comprehension-versus-loop search on the implementation only (partial)."),
    "note": _EV, "technique": "Coq proof over body-parametric Gallina loop/call combinators + vm_compute evaluator correspondence",
}
CLAIMED["C03"] = {
    "text": ("Theorems in coq/Props/C03.v: a call evaluates the body in a fresh frame whose parent is the closure's defining frame (the caller's "
             "frame does not occur in the meaning of the call); def changes only the current frame; assignment updates the nearest frame on the "
             "parent chain binding the name, changes no other cell and never creates a binding; the argument binding rule of Args.setArgs is "
             "proved step by step (named first, unknown name error, positional after named error, positionals to the first free parameter in "
             "declaration order, surplus to the rest parameter or error) - C03_setargs_partial. Tie: evaluator correspondence on generated "
             "programs of closures, shadowing and every call form + scoping scenarios."),
    "note": _EV, "technique": "Coq proof over a Gallina model of environments, closures and argument binding + vm_compute evaluator correspondence",
}
CLAIMED["C16"] = {
    "text": ("Theorems in coq/Props/C16.v over the heap of the model evaluator: every native of the modelled fragment that is not a documented "
             "mutator leaves every existing heap cell unchanged (it may only allocate) - for all arguments and states; append and insert_at change "
             "exactly the targeted cell; a write is visible through every holder of the reference and through nothing else; allocation is fresh; "
             "binding copies the reference. Functions written in the language are decided by correspondence and by a before/after snapshot "
             "enumeration of every function of the base environment and bundled modules on a value pool (C16_library_partial)."),
    "note": _EV, "technique": "Coq proof of heap frame lemmas over a Gallina model + vm_compute evaluator correspondence + snapshot enumeration",
}
CLAIMED["C12"] = {
    "text": ("Theorems in coq/Props/C12.v: for a duplicate-free set of pairwise comparable NaN-free values the ascending enumeration (insertion "
             "sort by the value order, what every enumerating kernel of the model uses) is the same for every permutation of the internal "
             "order, and it is ascending; set/map equality ignores the internal order; the seeded generator is a function of the seed. The real "
             "hash-seed behaviour is a runtime matter: 37 program templates (every iteration, conversion, spread, destructuring, rendering and "
             "library path) over sets/maps of strings and mixed scalars are run in fresh processes under 8 (thorough 32) PYTHONHASHSEED values and "
             "with permuted construction orders; all values, outputs and errors must be identical (and equal to the model evaluator's answer "
             "inside the modelled fragment). No whole-evaluator simulation theorem (C12_eval_partial)."),
    "note": _EV + " CPython's hash randomisation is observed, not modelled.",
    "technique": "Coq proof of order-independence of the sorted enumeration + multi-hash-seed differential run",
}
CLAIMED["C13"] = {
    "text": ("Theorems in coq/Props/C13.v over the model, where a host exception is a distinct outcome: indexing and delete_at are total (value or "
             "the language's error) for all sequences and indices; int arithmetic is total (zero divisor = language error); calls and loops absorb "
             "control exits; catch all intercepts every error value. For the library as a whole containment and termination are decided by the "
             "exhaustive enumeration of the quantifier on the implementation: 223 functions and 89 syntactic forms x all argument tuples of arity "
             "<= 2 (arity 3 sampled) from a 26-value pool, each under a 2 s bound (C13_library_partial)."),
    "note": _EV + " The enumeration observes the runtime (exception classes, timeouts); functions acting on the process/terminal are excluded by name.",
    "technique": "Coq proof of totality of modelled kernels + exhaustive pool enumeration on the implementation",
}

_LEX = ("Coq kernel + vm_compute; the scanner step coq/Gen/LexGen.v is regenerated from Lexer.scan on every run by tools/translate/lexer_gen.py "
        "(fail-closed symbolic execution of the loop body; Prelude/LexPrelude.v gives the meaning of the Python string operations used) and compared "
        "with Lexer.scan on the run's texts; of the parser only the operator core has a Gallina model (Model/ExprParse.v, hand-written, tied by the correspondence of checks/C02.py); no axioms.")
CLAIMED["C14"] = {
    "text": ("Theorems in coq/Props/C14.v about the scanner step regenerated from Lexer.scan: in the blank state every layout character (space, tab, CR, LF) "
             "and every # comment up to its line break is consumed without emitting or changing the token list, for all texts (gap_irrelevant, "
             "leading_gap_irrelevant); outside string / pattern / comment states a tab, CR or LF acts exactly like a blank in every state; and ANY gap (blanks, "
             "tabs, CR, LF, # comments in any number and order) read in the blank state or while an identifier, number or operator is still being read is "
             "worth exactly one blank: the rest of the text yields the same token values and types (gap_equiv). "
             "Literal spellings, != / <>, redundant parentheses, trailing semicolons and the insertion of a gap where there was none are decided by the correspondence: "
             "each generated program is re-rendered >= 10 times over all layout and spelling choices and must give the same canonical result, output and "
             "error value on the implementation (partial)."),
    "note": _LEX,
    "technique": "Coq proof over a Gallina scanner regenerated from the source + re-rendering correspondence on the interpreter",
}
CLAIMED["C20"] = {
    "text": ("Theorems in coq/Props/C20.v about the regenerated scanner step: the line/column counters advance with the characters in every state, a token "
             "is stamped with the position recorded when the scanner left the blank state, hence every token of every text carries the line and column of "
             "its first character (lex_positions, lex_token_line). That syntax errors, runtime errors, stack-trace entries and module errors copy those "
             "positions is decided on the implementation: token kinds x following characters, and generated programs with one planted fault under random "
             "multi-line layouts (partial: the parser/evaluator side is not a theorem)."),
    "note": _LEX,
    "technique": "Coq proof over a Gallina scanner regenerated from the source + planted-fault enumeration on the interpreter",
}
CLAIMED["C01"] = {
    "text": ("Theorems in coq/Props/C01.v about the regenerated scanner step: for every text the scanner yields a token list or a lexical error within three "
             "steps per character (lex_total, step_shape; a host exception is not an outcome of the generated step: the translator accepts int(..,16)/chr only "
             "under the guards present in the source). C01_parse_core_total: the hand model of the operator core of the recursive-descent parser (seven precedence levels, primaries, calls) "
             "yields a tree or a syntax error for every token list - no loop counter or nesting fuel runs out. The rest of the parser has no model: its totality is decided by enumeration of the property's "
             "quantifier on the implementation (about 700,000 distinct texts per quick run: prefixes, single-token edits over the token alphabet read from "
             "lexer.py/parser.py, token sequences, noise; each parsed twice under a 3 s bound) - C01_parse_partial."),
    "note": _LEX,
    "technique": "Coq proof of scanner totality over a regenerated Gallina scanner + exhaustive edit enumeration on the parser",
}

CLAIMED["C08"] = {
    "text": ("Theorems in coq/Props/C08.v: for EVERY string the quoted, escaped text scans back - through the scanner step regenerated from Lexer.scan on every "
             "run - to one string token holding exactly the original characters (induction over the string, no bound); equal sets and equal maps render "
             "identically whatever their internal order (for every rendering of decimals); an int numeral has the int as its value and, for every n >= 0, scans back "
             "to one int token with the same digits. The parser/evaluator half "
             "of the round trip, the numeral shapes and the host's decimal repr are decided on the implementation over the property's quantifier "
             "(generated data values to depth 3, adversarial strings, all magnitudes, every insertion order <= 5) - C08_round_trip_partial."),
    "note": _LEX + " Hand model Model/Render.v of the __repr__ methods tied by a vm_compute correspondence (sampling).",
    "technique": "Coq proof over a regenerated Gallina scanner and a hand render model + correspondence and round-trip enumeration on the interpreter",
}

CLAIMED["C18"] = {
    "text": ("Theorems in coq/Props/C18.v for ALL strings (lists of code points): join sep (split s sep) = s for every non-empty literal separator; replace = join of the "
             "split with the new text (every non-overlapping occurrence, left to right), replace of a text by itself and of an absent text is the identity; reverse is "
             "an involution; contains s t iff find s t >= 0 iff s = a ++ t ++ b; starts_with / ends_with iff prefix / suffix decomposition; concatenation laws; trim is "
             "idempotent for every notion of white space; case mapping is idempotent for every idempotent per-character map (ASCII instance proved); a placeholder "
             "keeps its value whole, padded to the width with blanks or zeroes only, and literal text is unchanged. The specification model is tied to the interpreter by "
             "a vm_compute correspondence (all pairs of a 33-string set + adversarial random strings); the laws and host-string oracles are also evaluated on the "
             "implementation. Placeholder expressions, non-ASCII case mapping and lines/words are decided on the implementation only (partial)."),
    "note": _EV + " Specification model Model/StrSpec.v + Prelude/PyPrelude.v string functions (hand-written, tied by correspondence).",
    "technique": "Coq proof over a hand specification model + vm_compute correspondence and law evaluation on the interpreter",
}

_SESS = ("Coq kernel + vm_compute; hand model Model/Session.v of Interpreter.interpret / NodeRequire.evaluate / the module-load stack and cache, tied by a correspondence run "
         "on real interpreters with generated module files (sampling, exhaustive on short histories); the evaluator proper is abstracted to the commands' net effect; no axioms.")
CLAIMED["C10"] = {
    "text": ("Theorems in coq/Props/C10.v about the session / module-loader state machine, for every module graph and history: require restores the module-load stack on every "
             "outcome at every nesting depth; after every command on either of two interpreter instances the load stack is empty and no module has run to its end twice; a failed "
             "call changes no definition but the ones it wrote before failing; instances are separate; the loader model never runs out of fuel for fewer module "
             "files than its fuel, so these hold for every history without premise. 'Repeating a failed call gives the same error and state' and the tie "
             "to the code are decided by the correspondence: all histories up to length 3 (thorough: 4; length 5 sampled, not exhaustive) over a 13-command alphabet and random "
             "histories to length 30 on two instances, each failed call repeated (C10_repeat_partial)."),
    "note": _SESS,
    "technique": "Coq proof over a hand state-machine model + history correspondence against real interpreters",
}
CLAIMED["C11"] = {
    "text": ("Theorems in coq/Props/C11.v about the module loader, for every module graph: completed loads are exactly the cached modules, each once, preserved by every require "
             "(nested, repeated, failing, cyclic); a module on the load stack is never loaded again underneath (a cycle is an error) and require terminates on every "
             "module graph (recursion bounded by the cycle check); a require changes only the names it "
             "introduces (module name or alias, listed aliases, public names); names starting with an underscore are neither bound nor members of the module object. Tie: "
             "correspondence on generated module graphs on disk x importer histories with every import form (scope, load log, cache, shared module state), plus direct checks "
             "that module code cannot see the importer's variables."),
    "note": _SESS,
    "technique": "Coq proof over a hand state-machine model + module-graph correspondence against real interpreters",
}

CLAIMED["C09"] = {
    "text": ("Theorems in coq/Props/C09.v over a table regenerated from functions.py / values.py / interpreter.py on every run: (finite, over the generated table) no built-in class "
             "that calls a file, directory, process or script facility of the host is flagged secure; (unbounded) under secure mode no sequence of native bindings with any alias, "
             "copies, shadowings of the flag and scope exits makes an insecure built-in reachable, and the flag stays on. The translator fails closed unless bind_native_fun, add, "
             "the `run` registration and the single write of the flag have exactly the modelled shape. That no other route exists (modules written in the language, objects, "
             "closures, the 27 syntactic ways of binding the flag's name) is decided by an audited run of secure interpreters on both bases over the property's quantifier "
             "(Python audit events, reachable function values, canary directory, base flag) - C09_runtime_partial."),
    "note": ("Coq kernel + vm_compute; tools/translate/secure_gen.py (fail-closed AST reading; its list of dangerous host facilities is part of the trusted base); Python audit "
             "events as the witness of host access in the run; hand model Model/Secure.v of the binder; no axioms."),
    "technique": "Coq proof over a table regenerated from the source + audited enumeration on secure interpreters",
}

NOT_APPLICABLE = {}
