"""Shared plumbing for the per-property checks: paths, evidence, known
findings, replay files, Coq build / audit / case evaluation."""
import fcntl
import hashlib
import json
import os
import random
import re
import shutil
import subprocess
import sys
import time

VERIF = os.path.dirname(os.path.dirname(os.path.dirname(os.path.abspath(__file__))))
REPO = os.environ.get("VERIF_REPO", "/repo")
SRC = os.path.join(REPO, "src")
COQ = os.path.join(VERIF, "coq")
EVID = os.path.join(VERIF, "evidence")
REPLAYS = os.path.join(VERIF, "replays")
WORK = os.path.join(VERIF, ".work")
PY = "/venv/bin/python"

TRUSTED_COMMON = [
    "Coq 8.16.1 kernel and vm_compute (no native_compute); coqchk in the thorough tier",
    "coq/Prelude/*.v as the meaning of the CPython builtins used by translated kernels (diffed against CPython by the run)",
    "tools/translate/*.py (fail-closed Python-ast -> Gallina translators); every generated definition is also run against its Python source by the correspondence step",
    "lib/vlib (case generation, vm_compute case files, canonicalisation, output parsing); correspondence is sampling: agreement is shown on the explored cases only",
]

FORBIDDEN = re.compile(
    r"\b(Admitted|admit|Axiom|Axioms|Parameter|Parameters|Conjecture|Conjectures|"
    r"Admit Obligations|bypass_check|Unset\s+Guard\s+Checking|Unset\s+Positivity\s+Checking|"
    r"Unset\s+Universe\s+Checking|type-in-type|impredicative-set)\b")


def setup_impl_path():
    """Make `import ckl` resolve to /repo/src of the current working tree."""
    os.environ["PYTHONPATH"] = SRC
    os.environ.setdefault("PYTHONHASHSEED", "0")
    if SRC not in sys.path:
        sys.path.insert(0, SRC)
    for m in [m for m in sys.modules if m == "ckl" or m.startswith("ckl.")]:
        del sys.modules[m]


def get_seed():
    try:
        return int(os.environ.get("VERIF_SEED", "1"))
    except ValueError:
        return 1


def rng(seed, *salt):
    h = hashlib.sha256(("%d|" % seed + "|".join(map(str, salt))).encode()).digest()
    return random.Random(int.from_bytes(h[:8], "big"))


# ---------------------------------------------------------------- findings

def load_findings(prop):
    path = os.path.join(VERIF, "known_findings.json")
    with open(path) as f:
        data = json.load(f)
    return [e for e in data["findings"] if e["property"] == prop]


class Report:
    """Collects the outcome of one check run and writes evidence + replays."""

    def __init__(self, prop, tier, seed, level="proof"):
        self.prop = prop
        self.tier = tier
        self.seed = seed
        self.level = level
        self.t0 = time.time()
        self.obligations = []       # (name, ok, detail)
        self.violations = []        # dicts
        self.known_hits = {}        # finding id -> example
        self.cov = {}
        self.samples = []
        self.assumptions = []
        self.trusted = list(TRUSTED_COMMON)
        self.checker_cmds = []
        self.evaluations = 0
        self.nontrivial = set()
        self.rule = ""
        self.findings = load_findings(prop)
        self.notes = []
        self.no_evidence = False

    # obligations -----------------------------------------------------
    def oblige(self, name, ok, detail=""):
        self.obligations.append((name, bool(ok), detail))
        return ok

    def broken(self):
        return [(n, d) for (n, ok, d) in self.obligations if not ok]

    # cases -----------------------------------------------------------
    def count(self, n=1):
        self.evaluations += n

    def nontriv(self, key):
        self.nontrivial.add(key if isinstance(key, (str, int, tuple)) else repr(key))

    def sample(self, s, limit=12):
        if len(self.samples) < limit:
            self.samples.append(s)

    # violations ------------------------------------------------------
    def match_finding(self, v):
        """A violation matches a listed finding iff every key of the
        finding's `match` equals (or regex-matches, key ending in _re) the
        violation's field of that name."""
        for f in self.findings:
            if f.get("status") != "known":
                continue
            ok = True
            for k, want in f.get("match", {}).items():
                if k.endswith("_re"):
                    got = v.get(k[:-3])
                    if got is None or not re.search(want, str(got)):
                        ok = False
                        break
                elif v.get(k) != want:
                    ok = False
                    break
            if ok:
                return f
        return None

    def violation(self, kind, what, **fields):
        """Record a concrete failing input (or a broken obligation when
        kind == 'obligation').  Returns True when it is a *new* violation."""
        v = dict(kind=kind, what=what)
        v.update(fields)
        f = self.match_finding(v)
        if f is not None:
            self.known_hits.setdefault(f["id"], v)
            return False
        if len(self.violations) < 400:
            self.violations.append(v)
        return True

    # finish ----------------------------------------------------------
    def finish(self):
        os.makedirs(EVID, exist_ok=True)
        os.makedirs(REPLAYS, exist_ok=True)
        broken = self.broken()
        concrete = [v for v in self.violations if v["kind"] != "obligation"]
        lines = []
        for fid, ex in sorted(self.known_hits.items()):
            f = [x for x in self.findings if x["id"] == fid][0]
            lines.append("KNOWN-FINDING: property=%s %s [%s]" % (self.prop, f["what"], fid))
        exit_code = 0
        replay_path = None
        if concrete or broken:
            exit_code = 1
            replay_path = os.path.join(
                REPLAYS, "%s-%s-%d.json" % (self.prop, self.tier, self.seed))
            body = {
                "property": self.prop,
                "tier": self.tier,
                "seed": self.seed,
                "violations": concrete[:200],
                "broken_obligations": [{"name": n, "detail": d[-4000:]} for n, d in broken],
                "replay_cmd": "bin/check %s --replay %s" % (self.prop, os.path.relpath(replay_path, VERIF)),
            }
            if not concrete:
                body["note"] = ("no failing input found: the property is no longer shown to hold because "
                                "the listed theorem / correspondence no longer checks")
            with open(replay_path, "w") as f:
                json.dump(body, f, indent=1, default=str)
            tail = "" if concrete else " no-failing-input-found"
            lines.append("VIOLATION property=%s replay=%s%s" % (
                self.prop, os.path.relpath(replay_path, VERIF), tail))
        n_ob = len(self.obligations)
        n_ok = sum(1 for o in self.obligations if o[1])
        cov = {
            "obligations": n_ob,
            "discharged": n_ok,
            "obligation_list": [{"name": n, "ok": ok} for (n, ok, _) in self.obligations],
            "checker_cmd": " ; ".join(self.checker_cmds) or "none",
            "trusted_base": self.trusted,
            "evaluations": self.evaluations,
            "distinct_nontrivial": len(self.nontrivial),
            "rule": self.rule,
            "samples": self.samples or ["(no cases run)"],
            "known_findings_reproduced": sorted(self.known_hits),
            "notes": self.notes,
        }
        cov.update(self.cov)
        ev = {
            "property_id": self.prop,
            "tier": self.tier,
            "seed": self.seed,
            "level": self.level,
            "coverage": cov,
            "assumptions": self.assumptions,
            "wall_s": round(time.time() - self.t0, 2),
            "violations": len(concrete) + (1 if broken and not concrete else 0),
        }
        if not self.no_evidence:
            with open(os.path.join(EVID, "%s.json" % self.prop), "w") as f:
                json.dump(ev, f, indent=1, default=str)
        for ln in lines:
            print(ln)
        print("%s %s tier=%s seed=%d obligations=%d/%d evaluations=%d violations=%d known=%d wall=%.1fs" % (
            "FAIL" if exit_code else "OK", self.prop, self.tier, self.seed, n_ok, n_ob,
            self.evaluations, len(concrete), len(self.known_hits), time.time() - self.t0))
        sys.stdout.flush()
        return exit_code


# ---------------------------------------------------------------- coq

class CoqLock:
    def __enter__(self):
        os.makedirs(COQ, exist_ok=True)
        self.f = open(os.path.join(COQ, ".lock"), "w")
        fcntl.flock(self.f, fcntl.LOCK_EX)
        return self

    def __exit__(self, *a):
        fcntl.flock(self.f, fcntl.LOCK_UN)
        self.f.close()


def write_if_changed(path, text):
    try:
        with open(path) as f:
            if f.read() == text:
                return False
    except FileNotFoundError:
        pass
    os.makedirs(os.path.dirname(path), exist_ok=True)
    with open(path, "w") as f:
        f.write(text)
    return True


def run(cmd, timeout, cwd=None, env=None, input=None):
    try:
        p = subprocess.run(cmd, cwd=cwd, env=env, input=input, timeout=timeout,
                           stdout=subprocess.PIPE, stderr=subprocess.STDOUT, text=True)
        return p.returncode, p.stdout
    except subprocess.TimeoutExpired as e:
        out = e.stdout or ""
        if isinstance(out, bytes):
            out = out.decode("utf8", "replace")
        return 124, out + "\n[timeout after %ss]" % timeout


def coq_flags():
    flags = []
    with open(os.path.join(COQ, "_CoqProject")) as f:
        for ln in f:
            ln = ln.strip()
            if ln.startswith("-Q") or ln.startswith("-R"):
                flags += ln.split()
    return flags


def coq_make(targets, timeout=1500, jobs=8):
    """Full .vo build of the given targets (paths relative to coq/)."""
    with CoqLock():
        if not os.path.exists(os.path.join(COQ, "Makefile")) or \
                os.path.getmtime(os.path.join(COQ, "Makefile")) < os.path.getmtime(os.path.join(COQ, "_CoqProject")):
            rc, out = run(["coq_makefile", "-f", "_CoqProject", "-o", "Makefile"], 60, cwd=COQ)
            if rc != 0:
                return False, out
        cmd = ["make", "-j%d" % jobs] + list(targets)
        rc, out = run(cmd, timeout, cwd=COQ)
        return rc == 0, out


def forbidden_scan(files=None):
    """Scan the .v sources (comments stripped) for forbidden vernacular."""
    bad = []
    for root, _, names in os.walk(COQ):
        for n in names:
            if not n.endswith(".v"):
                continue
            p = os.path.join(root, n)
            if files is not None and os.path.relpath(p, COQ) not in files:
                continue
            txt = open(p).read()
            txt = strip_coq_comments(txt)
            for m in FORBIDDEN.finditer(txt):
                bad.append("%s: %s" % (os.path.relpath(p, COQ), m.group(0)))
            if re.search(r"^\s*(Variable|Variables|Hypothesis|Hypotheses|Context)\b", txt, re.M):
                if not re.search(r"^\s*Section\b", txt, re.M):
                    bad.append("%s: Variable/Hypothesis outside a Section" % os.path.relpath(p, COQ))
    return bad


def strip_coq_comments(txt):
    out = []
    depth = 0
    i = 0
    in_str = False
    while i < len(txt):
        c = txt[i]
        if depth == 0 and c == '"':
            in_str = not in_str
            out.append(c)
            i += 1
        elif not in_str and txt.startswith("(*", i):
            depth += 1
            i += 2
        elif not in_str and depth > 0 and txt.startswith("*)", i):
            depth -= 1
            i += 2
        else:
            if depth == 0:
                out.append(c)
            i += 1
    return "".join(out)


ALLOWED_AXIOMS = {
    # stdlib axioms a property may name in its trusted base (none used by default)
}


def coq_props(rep, prop_file, timeout=600, allowed_axioms=()):
    """Compile Props/<file>.v (always), parse `Print Assumptions` output:
    one obligation per theorem, discharged iff the file compiles and the
    theorem is closed under the global context (or uses only allowed axioms
    / kernel primitives)."""
    src = os.path.join(COQ, prop_file)
    txt = strip_coq_comments(open(src).read())
    theorems = re.findall(r"^\s*(?:Theorem|Corollary)\s+([A-Za-z0-9_']+)", txt, re.M)
    printed = re.findall(r"Print Assumptions\s+([A-Za-z0-9_']+)\s*\.", txt)
    missing = [t for t in theorems if t not in printed]
    # everything the property file imports is brought up to date by make first: a .vo left over from a run against
    # another tree (a regenerated Gen/*.v) must not be loaded next to a newer one
    deps = []
    for m in re.findall(r"From\s+Ckl\s+Require\s+(?:Import|Export)\s+([^.]*(?:\.[A-Za-z_][^.\s]*)*)\s*\.", txt):
        pass
    for stmt in re.findall(r"From\s+Ckl\s+Require\s+(?:Import|Export)\s+(.*?)\.\s*(?:\n|$)", txt, re.S):
        for mod in stmt.split():
            if re.fullmatch(r"[A-Za-z_][A-Za-z0-9_]*(\.[A-Za-z_][A-Za-z0-9_]*)+", mod):
                deps.append(mod.replace(".", "/") + ".vo")
    if deps:
        okd, outd = coq_make(sorted(set(deps)), timeout=1500)
        if not okd:
            for t in theorems or [prop_file]:
                rep.oblige("theorem " + t, False, outd[-3000:])
            return False
    with CoqLock():
        vo = src[:-2] + ".vo"
        if os.path.exists(vo):
            os.remove(vo)
        cmd = ["coqc"] + coq_flags() + [prop_file]
        rc, out = run(cmd, timeout, cwd=COQ)
    rep.checker_cmds.append("cd coq && coqc <flags from _CoqProject> %s" % prop_file)
    if rc != 0:
        for t in theorems or [prop_file]:
            rep.oblige("theorem " + t, False, out)
        return False
    # split output per Print Assumptions, in order
    chunks = re.split(r"(?m)^(?=Closed under the global context|Axioms:)", out)
    chunks = [c for c in chunks if c.startswith("Closed under") or c.startswith("Axioms:")]
    ok_all = True
    for i, t in enumerate(printed):
        c = chunks[i] if i < len(chunks) else "(no Print Assumptions output)"
        if c.startswith("Closed under"):
            ok = True
            detail = "closed"
        elif c.startswith("Axioms:"):
            names = []
            for ln in c.split("\n")[1:]:
                m = re.match(r"^([A-Za-z0-9_.']+)\s*:(?!:)", ln)
                if m:
                    names.append(m.group(1))
                elif ln.startswith(" ") or not ln.strip():
                    continue
                else:
                    break
            extra = [n for n in names if not kernel_primitive(n) and n not in allowed_axioms]
            ok = not extra
            detail = "axioms: " + ", ".join(names)
            for n in names:
                s = "axiom/primitive reported by Print Assumptions %s: %s" % (t, n)
                if s not in rep.assumptions:
                    rep.assumptions.append(s)
        else:
            ok = False
            detail = c
        rep.oblige("theorem " + t, ok, detail)
        ok_all = ok_all and ok
    for t in missing:
        rep.oblige("theorem " + t + " (no Print Assumptions)", False, "missing Print Assumptions")
        ok_all = False
    return ok_all


_PRIMS = None


def kernel_primitive(name):
    """primitive floats / 63-bit ints (declared with `Primitive` in the standard
    library's PrimFloat.v / PrimInt63.v; Print Assumptions lists them but they
    are kernel operations, not axioms of this development)"""
    global _PRIMS
    if _PRIMS is None:
        _PRIMS = set()
        for f in ("/usr/lib/ocaml/coq/theories/Floats/PrimFloat.v",
                  "/usr/lib/ocaml/coq/theories/Numbers/Cyclic/Int63/PrimInt63.v"):
            try:
                for m in re.finditer(r"(?m)^Primitive\s+([A-Za-z0-9_']+)", open(f).read()):
                    _PRIMS.add(m.group(1))
            except OSError:
                pass
    parts = name.split(".")
    return parts[-1] in _PRIMS and all(p in ("PrimFloat", "PrimInt63", "Uint63", "Floats", "Coq", "Numbers", "Cyclic", "Int63")
                                       for p in parts[:-1])


def coq_eval(name, body, timeout=600):
    """Write .work/<name>.v with `body`, compile it, return (ok, output)."""
    os.makedirs(WORK, exist_ok=True)
    d = os.path.join(WORK, "%s_%d" % (name, os.getpid()))
    os.makedirs(d, exist_ok=True)
    path = os.path.join(d, name + ".v")
    with open(path, "w") as f:
        f.write(body)
    cmd = ["coqc"] + coq_flags() + ["-Q", d, "Work", path]
    rc, out = run(cmd, timeout, cwd=COQ)
    shutil.rmtree(d, ignore_errors=True)
    return rc == 0, out


def parse_z_lists(out):
    """Parse the output of `Eval vm_compute in (xs : list (list Z))` blocks.
    Each block is returned as a list of lists of ints."""
    blocks = []
    for m in re.finditer(r"=\s*(\[.*?\])\s*:\s*list", out, re.S):
        txt = m.group(1)
        txt = re.sub(r"%[A-Za-z]+", "", txt)
        txt = txt.replace(";", ",")
        txt = re.sub(r"\(\s*(-\d+)\s*\)", r"\1", txt)
        try:
            blocks.append(json.loads(txt))
        except Exception:
            blocks.append(None)
    return blocks


def parse_string_list(out):
    """Parse `= ["..."; "..."] : list string` blocks into lists of str."""
    blocks = []
    for m in re.finditer(r"=\s*\[(.*?)\]\s*(?:%string)?\s*:\s*list string", out, re.S):
        items = re.findall(r'"((?:[^"]|"")*)"', m.group(1))
        blocks.append([s.replace('""', '"') for s in items])
    return blocks


def zlit(n):
    return "(%d)" % n if n < 0 else "%d" % n


def coq_str_of_cps(cps):
    return "[" + ";".join(str(c) for c in cps) + "]"


PREAMBLE = """From Coq Require Import String.
From Coq Require Import ZArith List Bool.
Import ListNotations.
Open Scope Z_scope.
Set Printing Depth 10000000.
Set Printing Width 250.
"""


def coq_eval_many(name, imports, evals, per_file=40, jobs=16, timeout=900):
    """Evaluate many `Eval vm_compute in <term : list (list Z)>.` commands, sharded
    over parallel coqc processes.  `evals` is a list of Gallina terms; returns
    (ok, list of parsed blocks in the same order, raw error text)."""
    import concurrent.futures
    os.makedirs(WORK, exist_ok=True)
    d = os.path.join(WORK, "%s_%d" % (name, os.getpid()))
    shutil.rmtree(d, ignore_errors=True)
    os.makedirs(d)
    shards = [evals[i:i + per_file] for i in range(0, len(evals), per_file)]
    paths = []
    for k, sh in enumerate(shards):
        p = os.path.join(d, "%s_%d.v" % (name, k))
        with open(p, "w") as f:
            f.write(PREAMBLE + imports + "\n")
            for e in sh:
                f.write("Eval vm_compute in (%s).\n" % e)
        paths.append(p)
    flags = coq_flags()

    def one(p):
        return run(["coqc"] + flags + ["-Q", d, "Work", p], timeout, cwd=COQ)

    results = []
    err = ""
    with concurrent.futures.ThreadPoolExecutor(max_workers=jobs) as ex:
        outs = list(ex.map(one, paths))
    ok = True
    for (rc, out), sh in zip(outs, shards):
        if rc != 0:
            ok = False
            # the error message of coqc is what matters: lines with Error / timeout first, then the tail
            lines = [l for l in out.splitlines() if "Error" in l or "rror:" in l or "timeout" in l or "Stack overflow" in l or "Out of memory" in l]
            err = "coqc exit %s: %s\n" % (rc, " | ".join(lines[:6])[:800]) + err + out[-1500:]
            results += [None] * len(sh)
            continue
        blocks = parse_z_lists(out)
        if len(blocks) != len(sh):
            ok = False
            err = "expected %d result blocks, got %d\n" % (len(sh), len(blocks)) + err + out[-1500:]
            results += [None] * len(sh)
        else:
            results += blocks
    shutil.rmtree(d, ignore_errors=True)
    return ok, results, err


def zlist(xs):
    return "[" + "; ".join(zlit(int(x)) for x in xs) + "]"


def standard_coq(rep, targets, props_file, timeout=1500, regen=None):
    """The proof side shared by every check: (optional) regeneration of the
    translated files, full .vo build of `targets`, Props/<file> recompiled with
    Print Assumptions parsed per theorem, forbidden-vernacular scan.
    Returns True when the model can be used for a correspondence run."""
    # every generated file is brought up to date with /repo's working tree first (non-strict: a translator that fails
    # closed is reported by the check whose group it belongs to, through its own strict `regen`)
    try:
        from tools.translate import gen_all
        with CoqLock():
            gen_all.generate_all(SRC, COQ, strict=False)
    except Exception as e:       # pragma: no cover
        sys.stderr.write("gen_all: %r\n" % e)
    if regen is not None:
        if not regen(rep):
            return False
    ok, out = coq_make(targets, timeout=timeout)
    rep.checker_cmds.append("cd coq && make %s (full .vo build)" % " ".join(targets))
    rep.oblige("build " + " ".join(targets), ok, out[-6000:])
    if ok:
        coq_props(rep, props_file)
    bad = forbidden_scan()
    rep.oblige("no Admitted/admit/Axiom/Parameter/Conjecture/unset checks in coq/", not bad, "; ".join(bad))
    return ok


def coqchk(rep, module):
    rc, out = run(["coqchk", "-silent", "-o"] + coq_flags()[:3] + [module], 2400, cwd=COQ)
    rep.checker_cmds.append("coqchk -silent -o -Q . Ckl " + module)
    rep.oblige("coqchk re-checks %s and its dependencies" % module, rc == 0, out[-3000:])
    rep.cov["coqchk_output_tail"] = out[-1500:]
