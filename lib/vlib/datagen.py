"""Generated data values (python-side representation of vlib.gal) and their
construction on the implementation through the ckl.values API (so that the
insertion order of sets and maps is exactly the listed order)."""
import datetime

from . import gal
from .gal import NULL, Pat, Date, SetV, MapV

EPOCH = datetime.datetime(1900, 1, 1)

INTS = [0, 1, -1, 2, 3, 7, 10, -7, 2 ** 53, 2 ** 53 + 1, 2 ** 63, -(2 ** 63) - 1, 2 ** 80 + 5, 10 ** 20]
DECS = [0.0, 1.0, -1.0, 2.0, 0.5, 2.5, -7.0, 0.1, 9007199254740992.0, 1e20, 1.5e-7, 3.0, 10.0]
STRS = ["", "a", "b", "ab", "a b", "a'", "'", "A", "abc", "é", "a\tb", "1", "10", "\\"]
DATES = [datetime.datetime(2020, 1, 1), datetime.datetime(1999, 12, 31, 23, 59, 59), datetime.datetime(2020, 1, 1, 0, 0, 1),
         datetime.datetime(1900, 1, 1),
         # before the first day that has a day number: still dates, still ordered chronologically
         datetime.datetime(1850, 6, 1), datetime.datetime(1800, 7, 1), datetime.datetime(1899, 12, 31, 23, 59, 59)]
PATS = ["a", "a.*", "[0-9]+"]


def date_val(dt):
    return Date(int((dt - EPOCH).total_seconds()))


def date_of(v):
    return EPOCH + datetime.timedelta(seconds=int(v))


def scalars():
    out = [NULL, True, False] + list(INTS) + list(DECS) + list(STRS) + [date_val(d) for d in DATES] + [Pat(p) for p in PATS]
    return out


def scalar(rnd, kinds=None):
    k = rnd.choice(kinds or ["int", "int", "dec", "str", "str", "bool", "null", "date", "pat"])
    if k == "int":
        return rnd.choice(INTS)
    if k == "dec":
        return rnd.choice(DECS)
    if k == "str":
        return rnd.choice(STRS)
    if k == "bool":
        return rnd.random() < 0.5
    if k == "null":
        return NULL
    if k == "date":
        return date_val(rnd.choice(DATES))
    return Pat(rnd.choice(PATS))


def value(rnd, depth, kinds=None):
    if depth == 0 or rnd.random() < 0.35:
        return scalar(rnd, kinds)
    r = rnd.random()
    n = rnd.choice([0, 1, 2, 2, 3, 4])
    if r < 0.45:
        return [value(rnd, depth - 1, kinds) for _ in range(n)]
    if r < 0.75:
        return mkset([value(rnd, depth - 1, kinds) for _ in range(n)])
    return mkmap([(value(rnd, depth - 1, kinds), value(rnd, depth - 1, kinds)) for _ in range(n)])


def py_eq(a, b):
    """reference equality of the generated representation (the stated semantics), used only to
    build duplicate-free set/map representations"""
    if isinstance(a, gal.Null) or isinstance(b, gal.Null):
        return isinstance(a, gal.Null) and isinstance(b, gal.Null)
    if isinstance(a, bool) or isinstance(b, bool):
        return isinstance(a, bool) and isinstance(b, bool) and a == b
    if isinstance(a, Date) or isinstance(b, Date):
        return isinstance(a, Date) and isinstance(b, Date) and int(a) == int(b)
    if isinstance(a, (int, float)) and isinstance(b, (int, float)):
        return a == b
    if isinstance(a, Pat) or isinstance(b, Pat):
        return isinstance(a, Pat) and isinstance(b, Pat) and str(a) == str(b)
    if isinstance(a, str) and isinstance(b, str):
        return a == b
    if isinstance(a, SetV) and isinstance(b, SetV):
        return all(any(py_eq(x, y) for y in b) for x in a) and all(any(py_eq(x, y) for x in a) for y in b)
    if isinstance(a, MapV) and isinstance(b, MapV):
        return all(any(py_eq(k, k2) and py_eq(v, v2) for k2, v2 in b) for k, v in a) and \
            all(any(py_eq(k, k2) and py_eq(v, v2) for k, v in a) for k2, v2 in b)
    if isinstance(a, list) and isinstance(b, list):
        return len(a) == len(b) and all(py_eq(x, y) for x, y in zip(a, b))
    return False


def mkset(items):
    out = []
    for x in items:
        if not any(py_eq(x, y) for y in out):
            out.append(x)
    return SetV(out)


def mkmap(items):
    out = []
    for k, v in items:
        for i, (k2, _) in enumerate(out):
            if py_eq(k, k2):
                out[i] = (k2, v)
                break
        else:
            out.append((k, v))
    return MapV(out)


def to_impl(v):
    """build the implementation value through ckl.values (import ckl lazily)"""
    from ckl import values as V
    if isinstance(v, gal.Null):
        return V.NULL
    if isinstance(v, bool):
        return V.TRUE if v else V.FALSE
    if isinstance(v, Date):
        return V.ValueDate(date_of(v))
    if isinstance(v, int):
        return V.ValueInt(v)
    if isinstance(v, float):
        return V.ValueDecimal(v)
    if isinstance(v, Pat):
        return V.ValuePattern(str(v))
    if isinstance(v, str):
        return V.ValueString(v)
    if isinstance(v, SetV):
        s = V.ValueSet()
        for x in v:
            s.addItem(to_impl(x))
        return s
    if isinstance(v, MapV):
        m = V.ValueMap()
        for k, x in v:
            m.addItem(to_impl(k), to_impl(x))
        return m
    if isinstance(v, list):
        l = V.ValueList()
        for x in v:
            l.addItem(to_impl(x))
        return l
    raise TypeError(v)


def canon(v):
    """the canonical text vlib.impl.canon would print for the implementation value of v"""
    if isinstance(v, gal.Null):
        return "null"
    if isinstance(v, bool):
        return "(b %d)" % (1 if v else 0)
    if isinstance(v, Date):
        d = date_of(v)
        return "(date %d %d %d %d %d %d %d)" % (d.year, d.month, d.day, d.hour, d.minute, d.second, d.microsecond)
    if isinstance(v, int):
        return "(i %d)" % v
    if isinstance(v, float):
        return "(d %s)" % v.hex()
    if isinstance(v, Pat):
        return "(pat" + "".join(" %d" % ord(c) for c in v) + ")"
    if isinstance(v, str):
        return "(s" + "".join(" %d" % ord(c) for c in v) + ")"
    if isinstance(v, SetV):
        return "(set" + "".join(" " + s for s in sorted(canon(x) for x in v)) + ")"
    if isinstance(v, MapV):
        return "(map" + "".join(" " + s for s in sorted("(" + canon(k) + " " + canon(x) + ")" for k, x in v)) + ")"
    if isinstance(v, list):
        return "(list" + "".join(" " + canon(x) for x in v) + ")"
    raise TypeError(v)


def kind(v):
    if isinstance(v, gal.Null):
        return "null"
    if isinstance(v, bool):
        return "bool"
    if isinstance(v, Date):
        return "date"
    if isinstance(v, (int, float)):
        return "num"
    if isinstance(v, Pat):
        return "pat"
    if isinstance(v, str):
        return "str"
    if isinstance(v, SetV):
        return "set"
    if isinstance(v, MapV):
        return "map"
    return "list"
