"""Correspondence of coq/Model/ExprParse.v (hand model of the operator core of the recursive-descent parser) with
ckl.parser.parse_script: the same token lists through both, the trees compared; and trees rendered by the model's
canonical printer read back by the real parser."""
from vlib import core

IMPORTS = "From Coq Require Import ZArith List.\nImport ListNotations.\nFrom Ckl Require Import Model.ExprParse.\nOpen Scope Z_scope.\n"
TARGETS = ["Model/ExprParse.vo"]

# token = (kind, payload) as dec_tok reads it
MULS = ["*", "/", "%"]
RELS = ["==", "!=", "<", "<=", ">", ">="]
BINS = ["add", "sub", "mul", "div", "mod"]
CMPS = ["equals", "not_equals", "less", "less_equals", "greater", "greater_equals"]


def tok_text(t, rnd=None):
    k, v = t
    if k == 0:
        return str(v)
    if k == 1:
        return "TRUE" if v else "FALSE"
    if k == 2:
        return "v%d" % v
    if k == 9:
        if v == 1 and rnd is not None and rnd.random() < 0.5:
            return "<>"
        return RELS[v]
    return {3: "(", 4: ")", 5: ",", 6: "+", 7: "-", 8: MULS[v] if k == 8 else "", 10: "and", 11: "or", 12: "not"}[k]


def text_of(tokens, rnd=None):
    return " ".join(tok_text(t, rnd) for t in tokens)


def enc_node(n):
    """the implementation's tree in the encoding of enc_expr; raises ValueError on a node outside the modelled fragment"""
    from ckl import nodes as N
    from ckl import values as V
    if isinstance(n, N.NodeLiteral):
        if isinstance(n.value, V.ValueBoolean):
            return [2, 1 if n.value.value else 0]
        if isinstance(n.value, V.ValueInt):
            return [1, n.value.value]
        raise ValueError("literal %r" % (n.value,))
    if isinstance(n, N.NodeIdentifier):
        if not (n.value.startswith("v") and n.value[1:].isdigit()):
            raise ValueError("identifier %r" % n.value)
        return [3, int(n.value[1:])]
    if isinstance(n, N.NodeNot):
        return [6] + enc_node(n.expression)
    if isinstance(n, N.NodeAnd):
        return [7, len(n.expressions)] + [x for e in n.expressions for x in enc_node(e)]
    if isinstance(n, N.NodeOr):
        return [8, len(n.expressions)] + [x for e in n.expressions for x in enc_node(e)]
    if isinstance(n, N.NodeFuncall):
        if n.names == ["a", "b"] and isinstance(n.func, N.NodeIdentifier) and n.func.value in BINS:
            return [4, BINS.index(n.func.value)] + enc_node(n.args[0]) + enc_node(n.args[1])
        if n.names == ["a", "b"] and isinstance(n.func, N.NodeIdentifier) and n.func.value in CMPS:
            return [5, CMPS.index(n.func.value)] + enc_node(n.args[0]) + enc_node(n.args[1])
        if any(x is not None for x in n.names):
            raise ValueError("named arguments %r" % (n.names,))
        return [9, len(n.args)] + enc_node(n.func) + [x for a in n.args for x in enc_node(a)]
    raise ValueError("node %s" % type(n).__name__)


def impl_parse(text):
    """[1, tree...] / [0] for a syntax error; ('host', ...) when anything else leaves the parser"""
    from ckl.parser import parse_script
    from ckl.errors import CklSyntaxError
    try:
        node = parse_script(text, "t")
    except CklSyntaxError:
        return [0]
    except BaseException as e:   # noqa
        return ["host", type(e).__name__, str(e)[:100]]
    try:
        return [1] + enc_node(node)
    except ValueError as e:
        return ["outside", str(e)]


# ---- generators
def gen_tokens(rnd, n):
    """a token list that is mostly an expression: built from a grammar walk, then possibly damaged by one edit"""
    out = []

    def atom(d):
        k = rnd.random()
        if k < 0.35:
            out.append((0, rnd.choice([0, 1, 2, 7, 10, 255])))
        elif k < 0.45:
            out.append((1, rnd.randint(0, 1)))
        elif k < 0.65 or d <= 0:
            out.append((2, rnd.randint(0, 3)))
        else:
            out.append((3, 0))
            expr(d - 1)
            out.append((4, 0))
        while rnd.random() < 0.12 and d > 0:
            out.append((3, 0))
            for i in range(rnd.choice([0, 1, 1, 2])):
                if i:
                    out.append((5, 0))
                expr(d - 1)
            if rnd.random() < 0.1:
                out.append((5, 0))
            out.append((4, 0))

    def expr(d):
        if rnd.random() < 0.15:
            out.append((12, 0))
        if rnd.random() < 0.2:
            out.append((rnd.choice([6, 7]), 0))
        atom(d)
        for _ in range(rnd.choice([0, 0, 1, 1, 2, 3])):
            k = rnd.choice([6, 7, 8, 8, 9, 9, 10, 11])
            out.append((k, rnd.randint(0, 2) if k == 8 else rnd.randint(0, 5) if k == 9 else 0))
            if rnd.random() < 0.15:
                out.append((12, 0))
            if rnd.random() < 0.15:
                out.append((7, 0))
            atom(d)

    expr(n)
    if rnd.random() < 0.35 and out:
        i = rnd.randrange(len(out))
        how = rnd.random()
        t = rnd.choice([(0, 5), (1, 1), (2, 1), (3, 0), (4, 0), (5, 0), (6, 0), (7, 0), (8, 0), (9, 2), (10, 0), (11, 0), (12, 0)])
        if how < 0.35:
            del out[i]
        elif how < 0.7:
            out.insert(i, t)
        else:
            out[i] = t
    return out[:60]


def gen_tree(rnd, d):
    """a well-formed tree as a Coq term"""
    k = rnd.random()
    if d <= 0 or k < 0.25:
        c = rnd.random()
        if c < 0.5:
            z = rnd.choice([0, 1, 2, 7, 10, -1, -5, 255])
            return "(EInt %s)" % (z if z >= 0 else "(%d)" % z)
        if c < 0.65:
            return "(EBool %s)" % rnd.choice(["true", "false"])
        return "(EVar %d)" % rnd.randint(0, 3)
    sub = lambda: gen_tree(rnd, d - 1)   # noqa
    if k < 0.5:
        return "(EBin %d %s %s)" % (rnd.randint(0, 4), sub(), sub())
    if k < 0.62:
        return "(ECmp %d %s %s)" % (rnd.randint(0, 5), sub(), sub())
    if k < 0.7:
        return "(ENot %s)" % sub()
    if k < 0.8:
        return "(EAndL [%s])" % "; ".join(sub() for _ in range(rnd.randint(2, 3)))
    if k < 0.9:
        return "(EOrL [%s])" % "; ".join(sub() for _ in range(rnd.randint(2, 3)))
    return "(ECall %s [%s])" % (sub(), "; ".join(sub() for _ in range(rnd.randint(0, 2))))


def decode_tokens(zs):
    return [(zs[i], zs[i + 1]) for i in range(0, len(zs), 2)]


def correspondence(rep, rnd, tier):
    n_tok = 1500 if tier != "thorough" else 12000
    n_tree = 600 if tier != "thorough" else 5000
    seen = set()
    toks = []
    fixed = [[(0, 1), (6, 0), (0, 2), (8, 0), (0, 3)], [(7, 0), (0, 5)], [(7, 0), (3, 0), (0, 5), (4, 0)], [(7, 0), (7, 0), (0, 5)], [(7, 0)], [], [(6, 0), (0, 1)],
             [(0, 1), (9, 2), (0, 2), (9, 2), (0, 3)], [(12, 0), (12, 0), (1, 1)], [(2, 0), (3, 0), (4, 0), (3, 0), (4, 0)], [(0, 5), (3, 0), (0, 3), (4, 0)],
             [(2, 0), (3, 0), (0, 1), (5, 0), (4, 0)], [(2, 0), (3, 0), (5, 0), (4, 0)], [(3, 0), (0, 1)], [(3, 0), (4, 0)], [(0, 1), (0, 2)], [(12, 0), (0, 1), (9, 0), (0, 2), (10, 0), (1, 1)],
             [(3, 0), (2, 1), (4, 0), (3, 0), (0, 2), (4, 0)], [(1, 1), (3, 0), (4, 0)], [(7, 0), (2, 1), (8, 0), (0, 2)], [(0, 2), (8, 0), (7, 0), (0, 3)], [(7, 0), (1, 1)]]
    for t in fixed:
        toks.append(t)
        seen.add(tuple(t))
    while len(toks) < n_tok:
        t = gen_tokens(rnd, rnd.choice([1, 2, 2, 3]))
        if tuple(t) in seen:
            continue
        seen.add(tuple(t))
        toks.append(t)
    trees = [gen_tree(rnd, rnd.choice([1, 2, 3, 4])) for _ in range(n_tree)]
    evals = ["[enc_res (parse (dec_toks [%s]))]" % "; ".join("%d; %d" % t for t in tk) for tk in toks]
    evals += ["[concat (map enc_tok (render %s)); enc_expr %s; [if wf %s then 1 else 0]]" % (e, e, e) for e in trees]
    ok, blocks, err = core.coq_eval_many("exprparse", IMPORTS, evals, per_file=300, timeout=900)
    if not ok:
        rep.oblige("correspondence: the parser model evaluates", False, err)
        return
    dis = outside = okc = errc = 0
    for tk, b in zip(toks, blocks[:len(toks)]):
        if not tk:
            continue            # the empty text is NodeNull, not an expression
        text = text_of(tk, rnd)
        got = impl_parse(text)
        rep.count()
        if got and got[0] == "outside":
            outside += 1
            continue
        want = list(b[0])
        if want == [0]:
            errc += 1
        else:
            okc += 1
            rep.nontriv(text)
        if got != want:
            dis += 1
            rep.violation("input", "the parser reads %r as %s, the model of the grammar as %s" % (text, got, want), check="exprparse", program=text, want=want)
    rt = 0
    for e, b in zip(trees, blocks[len(toks):]):
        tokens, enc, wf = decode_tokens(list(b[0])), list(b[1]), list(b[2]) == [1]
        text = text_of(tokens, rnd)
        got = impl_parse(text)
        rep.count()
        rep.nontriv(text)
        if not wf or got != [1] + enc:
            rt += 1
            rep.violation("input", "the canonical text %r of the tree %s is read back as %s" % (text, e, got), check="exprparse-roundtrip", program=text, want=[1] + enc)
    rep.oblige("correspondence: parse_script and Model/ExprParse.v read %d token lists over the operator alphabet alike (%d trees, %d syntax errors)" % (len(toks), okc, errc),
               dis == 0 and outside == 0, "%d differences, %d outside the alphabet" % (dis, outside))
    rep.oblige("correspondence: the canonical texts of %d generated trees (C02_parse_render) are read back by parse_script as the same trees" % len(trees), rt == 0, "%d differences" % rt)
    rep.cov["exprparse_token_lists"] = len(toks)
    rep.cov["exprparse_trees"] = len(trees)
    rep.sample({"kind": "exprparse", "text": text_of(toks[40]), "model": list(blocks[40][0])})
