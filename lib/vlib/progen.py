"""Seeded, feature-toggled generator of terminating Checkerlang programs (source text).
Every program keeps a trace list `log` and ends with `[<result>, log]`, so control flow is
observable through Interpreter.interpret alone.  Profiles select the feature mix per property."""

PROFILES = {
    "C04": dict(loops=3.0, exits=3.0, comps=2.0, errors=0.3, funcs=0.8, alias=0.2, calls=0.3, maxdepth=3),
    "C05": dict(loops=0.8, exits=1.0, comps=0.2, errors=3.5, funcs=1.0, alias=0.1, calls=0.3, maxdepth=4),
    "C03": dict(loops=0.4, exits=0.5, comps=0.3, errors=0.3, funcs=3.5, alias=0.3, calls=3.0, maxdepth=3),
    "C16": dict(loops=0.6, exits=0.3, comps=0.6, errors=0.2, funcs=1.0, alias=4.0, calls=0.8, maxdepth=2),
    "mix": dict(loops=1.0, exits=1.0, comps=1.0, errors=1.0, funcs=1.0, alias=1.0, calls=1.0, maxdepth=3),
}

ERRVALS = ["'boom'", "42", "[1, 2]", "<<1>>", "NULL", "TRUE", "'ERROR'", "<<<'a' => 1>>>", "2.5"]
RUNTIME_FAULTS = ["undefined_name_q", "1 / 0", "[1, 2][7]", "1 + [] - 'a'", "not 5", "'abc'[9]", "<<<1 => 2>>>[3]"]


class Gen:
    def __init__(self, rnd, profile):
        self.r = rnd
        self.p = PROFILES[profile]
        self.n = 0
        self.features = set()

    def fresh(self, base):
        self.n += 1
        return "%s%d" % (base, self.n)

    def pick(self, weighted):
        tot = sum(w for w, _ in weighted)
        x = self.r.random() * tot
        for w, v in weighted:
            x -= w
            if x <= 0:
                return v
        return weighted[-1][1]

    # ---- expressions -----------------------------------------------------
    def intexpr(self, ctx, d=2):
        r = self.r
        ints = [v for v, t in ctx["vars"].items() if t == "int"]
        if d == 0 or r.random() < 0.4:
            if ints and r.random() < 0.6:
                return r.choice(ints)
            return str(r.choice([0, 1, 2, 3, 5, 7, 10]))
        op = r.choice(["+", "-", "*", "%", "+", "-"])
        a, b = self.intexpr(ctx, d - 1), self.intexpr(ctx, d - 1)
        if op == "%":
            b = str(r.choice([2, 3, 5]))
        return "(%s %s %s)" % (a, op, b)

    def cond(self, ctx):
        r = self.r
        a, b = self.intexpr(ctx, 1), self.intexpr(ctx, 1)
        c = "%s %s %s" % (a, r.choice(["<", "<=", "==", "!=", ">", ">="]), b)
        if r.random() < 0.2:
            c = "%s %s %s %s %s" % (c, r.choice(["and", "or"]), self.intexpr(ctx, 0), r.choice(["<", ">"]), self.intexpr(ctx, 0))
        if r.random() < 0.1:
            c = "not (%s)" % c
        return c

    def intlist(self, n=None):
        r = self.r
        n = r.randint(0, 4) if n is None else n
        return "[" + ", ".join(str(r.choice([1, 2, 3, 4, 5, 7, 9])) for _ in range(n)) + "]"

    def iterable(self, ctx):
        """(source of the iterable, loop header variables, element kind, what-prefix)"""
        r = self.r
        k = self.pick([(3, "list"), (2, "range"), (2, "set"), (1.5, "mapkeys"), (1.5, "mapvalues"), (1.5, "mapentries"),
                       (1.5, "mapdestr"), (1, "string"), (1, "listvar"), (0.7, "pairs")])
        self.features.add("iter:" + k)
        x = self.fresh("x")
        if k == "list":
            return self.intlist(), x, "int", ""
        if k == "range":
            return "range(%d)" % r.randint(0, 4), x, "int", ""
        if k == "set":
            items = r.sample([5, 3, 9, 1, 7, 2, 10, -2, 100, -10], r.randint(0, 4))
            return "<<" + ", ".join(map(str, items)) + ">>", x, "int", ""
        if k.startswith("map"):
            keys = r.sample([4, 2, 9, 1, 6, 10, 100, -1, -10, 25], r.randint(1, 4))   # orders that differ from the order of the texts
            m = "<<< " + ", ".join("%d => %d" % (kk, r.choice([10, 30, 20, 5, 40])) for kk in keys) + " >>>"
            if k == "mapkeys":
                return m, x, "int", "keys "
            if k == "mapvalues":
                return m, x, "int", r.choice(["values ", ""])
            if k == "mapentries":
                return m, x, "list", "entries "
            y = self.fresh("y")
            return m, "[%s, %s]" % (x, y), "pair", "entries "
        if k == "string":
            return "'%s'" % "".join(r.choice("abc") for _ in range(r.randint(0, 3))), x, "str", ""
        if k == "pairs":
            y = self.fresh("y")
            n = r.randint(0, 3)
            return "[" + ", ".join("[%d, %d]" % (r.randint(1, 5), r.randint(6, 9)) for _ in range(n)) + "]", "[%s, %s]" % (x, y), "pair", ""
        lists = [v for v, t in ctx["vars"].items() if t == "list"]
        if lists:
            return r.choice(lists), x, "any", ""
        return self.intlist(), x, "int", ""

    # ---- statements --------------------------------------------------------
    def block(self, ctx, depth, n=None):
        n = self.r.randint(1, 3) if n is None else n
        # definitions made inside a nested block may not be executed: keep them out of the enclosing context
        ctx = dict(ctx, vars=dict(ctx["vars"]), funcs=list(ctx["funcs"]))
        out = []
        for _ in range(n):
            out += self.stmt(ctx, depth)
        return out or ["append(log, 0)"]

    def body(self, stmts):
        return "do " + "; ".join(stmts) + " end"

    def stmt(self, ctx, depth):
        r, p = self.r, self.p
        choices = [(2.0, "log"), (1.0, "def"), (0.8, "assign")]
        if depth > 0:
            choices += [(1.2, "if"), (p["loops"], "for"), (p["loops"] * 0.5, "while"), (p["errors"], "try"), (p["funcs"], "func"), (p["funcs"] * 0.5, "outerupd"), (p["calls"] * 0.4 + p["funcs"] * 0.1, "defaultorder"), (p["funcs"] * 0.3 + p["loops"] * 0.15, "loopshadowfn"), (p["errors"] * 0.4 + p["funcs"] * 0.15, "retfunc"),
                        (p["comps"], "comp"), (p["alias"], "alias"), (p["calls"], "call"), (p["calls"] * 0.6 + p["alias"] * 0.2, "method")]
        if ctx["loop"]:
            choices += [(p["exits"], "break"), (p["exits"], "continue"), (p["exits"] * 0.6, "tryexit"), (p["exits"] * 0.5, "calleeexit")]
        elif ctx["func"]:
            choices += [(p["exits"] * 0.4, "tryexit")]
        if ctx["func"]:
            choices += [(p["exits"], "return")]
        choices += [(p["errors"] * (0.7 if ctx.get("intry") else 0.06), "raise")]
        k = self.pick(choices)
        self.features.add(k)
        if k == "log":
            return ["append(log, %s)" % self.intexpr(ctx)]
        if k == "method":
            return self.method(ctx)
        if k == "tryexit":
            # an exit inside the protected part of a block with a finally part (whose last statement has a value)
            ex = r.choice((["break", "continue"] if ctx["loop"] else []) + (["return %s" % self.intexpr(ctx, 1)] if ctx["func"] else []))
            guard = "if %s then %s" % (self.cond(ctx), ex) if r.random() < 0.7 else ex
            fin = r.choice(["append(log, 300)", "append(log, 300); 7", "append(log, 300); [1, 2]"])
            mid = " catch all append(log, 301)" if r.random() < 0.3 else ""
            return ["do append(log, 299); %s; append(log, 298)%s finally %s end" % (guard, mid, fin), "append(log, 297)"]
        if k == "def":
            v = self.fresh("v")
            ctx["vars"][v] = "int"
            return ["def %s = %s" % (v, self.intexpr(ctx))]
        if k == "assign":
            ints = [v for v, t in ctx["vars"].items() if t == "int" and v.startswith("v")]
            if not ints:
                return ["append(log, 1)"]
            v = r.choice(ints)
            if r.random() < 0.3:
                # destructuring assignment: updates the nearest enclosing bindings like a plain assignment
                w = r.choice(ints)
                src = r.choice(["[%s, %s]", "[%s, %s, 5]", "[%s]"] if w != v else ["[%s, %s]"])
                vals = tuple(self.intexpr(ctx, 1) for _ in range(src.count("%s")))
                self.features.add("assignd")
                return ["[%s, %s] = %s" % (v, w, src % vals), "append(log, %s + %s)" % (v, w)] if len(vals) > 1 or w != v else ["[%s] = %s" % (v, src % vals)]
            return [r.choice(["%s = %s" % (v, self.intexpr(ctx)), "%s += %s" % (v, self.intexpr(ctx, 1)), "%s *= 2" % v])]
        if k == "if":
            s = "if %s then %s" % (self.cond(ctx), self.body(self.block(ctx, depth - 1)))
            for _ in range(r.choice([0, 0, 1, 2])):
                s += " elif %s then %s" % (self.cond(ctx), self.body(self.block(ctx, depth - 1)))
            if r.random() < 0.6:
                s += " else %s" % self.body(self.block(ctx, depth - 1))
            return [s]
        if k == "for":
            it, hdr, kind, what = self.iterable(ctx)
            inner = dict(ctx, loop=True, vars=dict(ctx["vars"]))
            if it in ctx["vars"]:
                # the loop runs over a list variable: the body must not mutate that list (the interpreter iterates the live list,
                # so appending to it never ends - as in the host language; the model iterates a snapshot) - no list is visible inside
                inner["vars"] = {v: t for v, t in inner["vars"].items() if t != "list"}
                inner["funcs"] = []
            names = hdr.strip("[]").split(", ")
            if kind in ("int",):
                inner["vars"][names[0]] = "int"
            if kind == "pair":
                for nm in names:
                    inner["vars"][nm] = "int"
            pre = ["append(log, %s)" % (names[0] if kind in ("int", "str", "any") else
                                        ("%s + %s" % tuple(names) if kind == "pair" else "length(%s)" % names[0]))]
            return ["for %s in %s%s %s" % (hdr, what, it, self.body(pre + self.block(inner, depth - 1)))]
        if k == "while":
            i = self.fresh("i")
            inner = dict(ctx, loop=True, vars=dict(ctx["vars"]))
            inner["vars"][i] = "int"
            n = r.randint(0, 4)
            return ["def %s = 0" % i,
                    "while %s < %d %s" % (i, n, self.body(["%s += 1" % i, "append(log, %s)" % i] + self.block(inner, depth - 1)))]
        if k in ("break", "continue"):
            if r.random() < 0.7:
                return ["if %s then %s" % (self.cond(ctx), k)]
            return [k]
        if k == "return":
            e = self.intexpr(ctx)
            if r.random() < 0.7:
                return ["if %s then return %s" % (self.cond(ctx), e)]
            return ["return %s" % e]
        if k == "raise":
            e = "error %s" % r.choice(ERRVALS) if r.random() < 0.6 else r.choice(RUNTIME_FAULTS)
            if r.random() < 0.5:
                return ["if %s then %s" % (self.cond(ctx), e)]
            return [e]
        if k == "try":
            body = self.block(dict(ctx, intry=True), depth - 1, r.randint(1, 3))
            pos = r.randint(0, len(body))
            fault = "error %s" % r.choice(ERRVALS) if r.random() < 0.6 else r.choice(RUNTIME_FAULTS)
            if r.random() < 0.8:
                body.insert(pos, fault if r.random() < 0.6 else "if %s then %s" % (self.cond(ctx), fault))
            s = "do " + "; ".join(body)
            for _ in range(r.choice([0, 1, 1, 2, 3])):
                cv = r.choice(ERRVALS + ["all", "all", "all", "'ERROR'", "'ERROR'"])
                h = self.block(ctx, depth - 1, r.randint(1, 2))
                if r.random() < 0.15:
                    h.append("error %s" % r.choice(ERRVALS))
                s += " catch %s %s" % (cv, self.body(["append(log, 100)"] + h))
                if r.random() < 0.5:
                    s += ";"
            if r.random() < 0.6:
                fin = ["append(log, 200)"] + (self.block(ctx, depth - 1, 1) if r.random() < 0.4 else [])
                if r.random() < 0.08:
                    fin.append("error 'in-finally'")
                s += " finally " + "; ".join(fin)
            return [s + " end"]
        if k == "defaultorder":
            # a default sees the parameters declared before it and the enclosing scope - not a later parameter of the same name that the caller supplied
            h, f = self.fresh("v"), self.fresh("f")
            return ["def %s = %s" % (h, self.intexpr(ctx, 1)), "def %s(lo = %s, %s = 2, z = lo + %s) [lo, %s, z]" % (f, h, h, h, h),
                    "append(log, [%s(), %s(%s = 7), %s(1, 7), %s(...<<<'%s' => 8>>>), %s(z = 0, %s = 9)])" % (f, f, h, f, f, h, f, h), "append(log, %s)" % h]
        if k == "calleeexit":
            # a break / continue that leaves a function called from inside a loop: an error of the callee, never an exit of the caller's loop
            f, a = self.fresh("f"), self.fresh("a")
            ex = r.choice(["break", "continue"])
            body = r.choice(["if %s %% 2 == %d then %s; %s" % (a, r.choice([0, 1]), ex, a), "%s; %s" % (ex, a), "if %s > 2 then do append(log, 44); %s end; %s * 2" % (a, ex, a)])
            return ["def %s(%s) do %s end" % (f, a, body), "append(log, do %s(%s) catch all -5 end)" % (f, self.intexpr(ctx, 1)), "append(log, 45)"]
        if k == "loopshadowfn":
            # inside a function, a loop whose variable has the name of a variable of an enclosing scope: after the loop the name means the outer
            # variable again (reads and assignments), and the loop leaves no binding in the function's scope
            v, f, a, g = self.fresh("v"), self.fresh("f"), self.fresh("a"), self.fresh("f")
            loop = r.choice(["for %s in [1, 2] do append(log, %s) end" % (v, v), "for %s in [1, 2, 3] do if %s == 2 then break end" % (v, v),
                             "append(log, [%s * 2 for %s in [4, 5]])" % (v, v), "for [%s, zz] in [[7, 8]] do append(log, %s + zz) end" % (v, v)])
            after = r.choice(["%s = %s + %s" % (v, v, a), "%s += %s" % (v, a), "%s(); append(log, %s)" % (g, v), "append(log, %s)" % v])
            return ["def %s = %s" % (v, self.intexpr(ctx, 1)), "def %s() do %s = %s + 100; %s end" % (g, v, v, v),
                    "def %s(%s) do %s; %s; %s end" % (f, a, loop, after, v), "append(log, %s(%d))" % (f, r.randint(1, 5)), "append(log, %s)" % v]
        if k == "retfunc":
            # a function whose body block consists of one return statement and carries the catch / finally parts itself
            f, a = self.fresh("f"), self.fresh("a")
            e = r.choice(["[10, 20, 30][%s]", "if %s > 1 then error %s else %s * 2", "%s + 1", "[10, 20][%s] + 1"]).replace("%s", a)
            h = r.choice([" catch all -1", " catch 5 do append(log, 55); -3 end", " catch all do append(log, 56); -2 end", ""])
            fin = r.choice(["", " finally append(log, 77)"]) if h else " finally append(log, 77)"
            head = r.choice(["def %s(%s) " % (f, a), "def %s = fn(%s) " % (f, a)])
            ret = r.choice(["return %s" % e, "return %s" % e, "return %s;" % e, e])
            return [head + "do " + ret + h + fin + " end", "append(log, [%s])" % ", ".join("do %s(%d) catch all -9 end" % (f, v) for v in r.sample([0, 1, 2, 5, 7], 3))]
        if k == "outerupd":
            # a function that updates variables of its defining scope (plain, compound or destructuring assignment), called directly or
            # through another function that has a variable of the same name; the defining scope logs its variables afterwards
            v, w, f, g, a = self.fresh("v"), self.fresh("v"), self.fresh("f"), self.fresh("f"), self.fresh("a")
            upd = r.choice(["[%s, %s] = [%s + %s, %s]" % (v, w, w, a, v), "[%s, %s] = [%s * 2, %s + 1, 9]" % (w, v, v, a), "[%s] = [%s + %s]" % (v, v, a),
                            "%s = %s + %s; %s += 1" % (v, w, a, w), "[%s, %s] = <<%s + 10, %s>>" % (v, w, a, a)])
            out = ["def %s = %s" % (v, self.intexpr(ctx, 1)), "def %s = %s" % (w, self.intexpr(ctx, 1)),
                   "def %s(%s) do %s; append(log, [%s, %s]); %s end" % (f, a, upd, v, w, v)]
            if r.random() < 0.5:
                out.append("def %s(%s) do def %s = 100; %s(%s + 1) + %s end" % (g, a, r.choice([v, w]), f, a, r.choice([v, w])))
                out.append("append(log, %s(%d))" % (g, r.randint(1, 5)))
            out += ["append(log, %s(%d))" % (f, r.randint(1, 5)), "append(log, [%s, %s])" % (v, w)]
            return out
        if k == "func":
            return self.funcdef(ctx, depth)
        if k == "call":
            return self.call(ctx)
        if k == "comp":
            return self.comp(ctx)
        if k == "alias":
            return self.alias(ctx)
        return ["append(log, 9)"]

    def funcdef(self, ctx, depth):
        r = self.r
        f = self.fresh("f")
        params = []
        inner = dict(ctx, loop=False, func=True, vars=dict(ctx["vars"]))
        np_ = r.choice([0, 1, 2, 2, 3, 3, 4])
        sig = []
        for j in range(np_):
            a = self.fresh("a")
            inner["vars"][a] = "int"
            if j > 0 and r.random() < 0.4:
                sig.append("%s = %s" % (a, self.intexpr(inner, 1)))
                params.append((a, True))
            else:
                sig.append(a)
                params.append((a, False))
        rest = None
        if r.random() < 0.25:
            rest = self.fresh("rest") + "..."
            sig.append(rest)
        body = self.block(inner, depth - 1)
        if rest:
            body.insert(0, "append(log, %s)" % rest)
        # what each parameter was bound to is part of the trace
        body.insert(0, "append(log, [%s])" % ", ".join(a for a, _ in params))
        if r.random() < 0.35:
            # return a closure capturing a local counter
            c = self.fresh("c")
            body.append("def %s = %s" % (c, self.intexpr(inner, 1)))
            body.append("fn() do %s = %s + 1; %s end" % (c, c, c))
            kind = "mkclos"
        else:
            body.append(self.intexpr(inner))
            kind = "fun"
        ctx["funcs"].append((f, params, rest, kind))
        self.features.add("func:" + kind)
        return ["def %s(%s) %s" % (f, ", ".join(sig), self.body(body))]

    def call(self, ctx):
        r = self.r
        if not ctx["funcs"]:
            return self.funcdef(ctx, 1)
        f, params, rest, kind = r.choice(ctx["funcs"])
        args = []
        style = r.choice(["pos", "pos", "pos", "named", "named", "mixed", "mixed", "subset", "subset", "subset", "spread", "pipe", "pipe", "short", "long", "badname"])
        self.features.add("call:" + style)
        vals = [self.intexpr(ctx, 1) for _ in params]
        if style == "pos":
            args = vals
        elif style == "named":
            order = list(range(len(params)))
            r.shuffle(order)
            args = ["%s = %s" % (params[i][0], vals[i]) for i in order]
        elif style == "mixed" and params:
            k = r.randint(0, len(params))
            args = vals[:k] + ["%s = %s" % (params[i][0], vals[i]) for i in range(k, len(params))]
        elif style == "subset" and params:
            # any subset of the parameters by name (in any order), the others positionally: a positional argument may have to
            # pass over several consecutive parameters that are bound by name
            named_idx = [i for i in range(len(params)) if r.random() < 0.55]
            if len(params) >= 3 and r.random() < 0.5:
                named_idx = list(range(r.randint(2, len(params) - 1)))     # a run of leading parameters by name, the rest positionally
            pos_args = [vals[i] for i in range(len(params)) if i not in named_idx]
            named_args = ["%s = %s" % (params[i][0], vals[i]) for i in named_idx]
            r.shuffle(named_args)
            args = pos_args + named_args if r.random() < 0.7 else named_args + pos_args
            if r.random() < 0.2:
                args = args + [self.intexpr(ctx, 0)]      # one argument too many: rest parameter or arity error
        elif style == "spread":
            args = ["...[%s]" % ", ".join(vals)]
        elif style == "short":
            args = vals[:max(0, len(vals) - 1)]
        elif style == "long":
            args = vals + [self.intexpr(ctx, 0), self.intexpr(ctx, 0)]
        elif style == "badname":
            args = vals[:1] + ["zz = 1"]
        else:
            args = vals
        if style == "pipe" and args:
            callsrc = "%s !> %s(%s)" % (args[0], f, ", ".join(args[1:]))
        else:
            callsrc = "%s(%s)" % (f, ", ".join(args))
        if kind == "mkclos":
            g = self.fresh("g")
            ctx["vars"][g] = "func"
            return ["def %s = %s" % (g, callsrc), "append(log, %s())" % g, "append(log, %s())" % g]
        return ["append(log, %s)" % callsrc]

    def method(self, ctx):
        """an object with a method taking defaulted parameters, called through obj->m(...) with named / mixed arguments, the
        same call expression evaluated several times (loop, repeated function call)"""
        r = self.r
        o, i = self.fresh("o"), self.fresh("i")
        params = ["j", "k", "l"][:r.randint(2, 3)]
        sig = ", ".join("%s = %d" % (q, n) for n, q in enumerate(params))
        depth = r.choice([0, 0, 1, 2, 3])
        meth = "m = fn(self, %s) [self->base, %s]" % (sig, ", ".join(params))
        if depth == 0:
            out = ["def %s = <* base = %s, %s *>" % (o, self.intexpr(ctx, 1), meth)]
        else:
            # the method lives `depth` prototype levels above the receiver (which has the field the method reads); a nearer level may override it
            self.features.add("method:proto%d" % depth)
            chain = [self.fresh("o") for _ in range(depth)]
            out = ["def %s = <* %s, base = -1 *>" % (chain[0], meth)]
            for a, b in zip(chain, chain[1:]):
                out.append("def %s = <* _proto_ = %s, tag%s = 1 *>" % (b, a, b))
            out.append("def %s = <* _proto_ = %s, base = %s *>" % (o, chain[-1], self.intexpr(ctx, 1)))
            if depth >= 2 and r.random() < 0.3:
                out.append("%s->m = fn(self, %s) [0 - self->base, %s]" % (chain[-1], sig, ", ".join(params)))
        style = r.choice(["named-last", "named-last", "named-shuffled", "mixed", "named-first-only", "positional"])
        self.features.add("method:" + style)
        if style == "named-last":
            args = "%s = %s" % (params[-1], i)
        elif style == "named-shuffled":
            qs = list(params)
            r.shuffle(qs)
            args = ", ".join("%s = %s + %d" % (q, i, n) for n, q in enumerate(qs))
        elif style == "mixed":
            args = "%s, %s = %s" % (self.intexpr(ctx, 0), params[-1], i)
        elif style == "named-first-only":
            args = "%s = %s" % (params[0], i)
        else:
            args = ", ".join([i] * len(params))
        recv = o
        if r.random() < 0.4:
            # the receiver is an expression with an effect: it must be evaluated once per call
            mk = self.fresh("mk")
            out.append("def %s() do append(log, -7); %s end" % (mk, o))
            recv = "%s()" % mk
            self.features.add("method:effect-receiver")
        call = "%s->m(%s)" % (recv, args)
        how = r.choice(["loop", "loop", "func", "comp"])
        if how == "loop":
            out.append("for %s in [1, 2, 3] do append(log, %s) end" % (i, call))
        elif how == "comp":
            out.append("append(log, [%s for %s in [4, 5, 6]])" % (call, i))
        else:
            f = self.fresh("f")
            out.append("def %s(%s) %s" % (f, i, call))
            out.append("append(log, [%s(1), %s(2), %s(3)])" % (f, f, f))
        return out

    def comp(self, ctx):
        r = self.r
        it, hdr, kind, what = self.iterable(ctx)
        if kind == "pair" or hdr.startswith("["):
            it, hdr, kind, what = self.intlist(), self.fresh("x"), "int", ""
        x = hdr
        val = {"int": "%s * 2" % x, "str": x, "list": "length(%s)" % x, "any": x}[kind]
        cond = ""
        if kind == "int" and r.random() < 0.5:
            cond = " if %s %% 2 == %d" % (x, r.choice([0, 1]))
        form = r.choice(["list", "set", "map", "prod", "par"])
        self.features.add("comp:" + form)
        if cond and r.random() < 0.4:
            val = "do append(log, -3); %s end" % val        # the value expression is evaluated for the accepted elements only
        if form == "list":
            e = "[%s for %s in %s%s%s]" % (val, x, what, it, cond)
        elif form == "set":
            e = "<< %s for %s in %s%s%s >>" % (val, x, what, it, cond)
        elif form == "map":
            key = x if kind != "list" else "length(%s)" % x
            if kind == "int" and r.random() < 0.5:
                key = r.choice(["%s %% 2" % x, "%s %% 3" % x, "1", "%s - %s" % (x, x)])      # several elements give the same key: the last one wins, as in the loop
            e = "<<< %s => %s for %s in %s%s%s >>>" % (key, val, x, what, it, cond)
        else:
            # the second generator has its own collection kind and keys/values/entries qualifier
            it2, y, kind2, what2 = self.iterable(ctx)
            if y.startswith("[") or r.random() < 0.3:
                it2, y, what2 = self.intlist(r.randint(0, 3)), self.fresh("y"), ""
            if form == "prod" and kind == "int" and r.random() < 0.35:
                it2, y, what2 = "range(%s %% 4)" % x, self.fresh("y"), ""      # the second generator depends on the first variable
            br = ("[", "]") if r.random() < 0.75 else ("<<", ">>")
            e = "%s[%s, %s] for %s in %s%s %sfor %s in %s%s%s%s" % (br[0], val, y, x, what, it, "also " if form == "par" else "", y, what2, it2, cond, br[1])
        v = self.fresh("v")
        ctx["vars"][v] = "list"
        return ["def %s = %s" % (v, e), "append(log, %s)" % v]

    def alias(self, ctx):
        r = self.r
        lists = [v for v, t in ctx["vars"].items() if t == "list" and v.startswith("l")]
        k = self.pick([(2, "new"), (2, "alias"), (2, "append"), (1, "assign"), (1, "insert"), (1, "delete"), (1, "nested"),
                       (1, "nonmut"), (1, "mapput"), (0.7, "param")])
        self.features.add("alias:" + k)
        if k == "new" or not lists:
            v = self.fresh("l")
            ctx["vars"][v] = "list"
            return ["def %s = %s" % (v, self.intlist(r.randint(1, 4)))]
        a = r.choice(lists)
        if k == "alias":
            v = self.fresh("l")
            ctx["vars"][v] = "list"
            return ["def %s = %s" % (v, a)]
        if k == "append":
            return ["append(%s, %s)" % (a, self.intexpr(ctx, 1)), "append(log, %s)" % a]
        if k == "assign":
            return ["if length(%s) > 0 then %s[0] = %s" % (a, a, self.intexpr(ctx, 1)), "append(log, %s)" % a]
        if k == "insert":
            return ["insert_at(%s, %d, %s)" % (a, r.randint(-3, 3), self.intexpr(ctx, 0)), "append(log, %s)" % a]
        if k == "delete":
            return ["append(log, delete_at(%s, %d))" % (a, r.randint(-3, 3)), "append(log, %s)" % a]
        if k == "nested":
            v = self.fresh("l")
            ctx["vars"][v] = "list"
            return ["def %s = [%s, %s]" % (v, a, a), "append(%s[0], 8)" % v, "append(log, %s)" % v]
        if k == "nonmut":
            v = self.fresh("l")
            ctx["vars"][v] = "list"
            op = r.choice(["%s + [1]" % a, "%s[0 to 2]" % a, "sublist(%s, 1)" % a, "[x for x in %s]" % a, "%s * 2" % a, "%s - [1]" % a])
            return ["def %s = %s" % (v, op), "append(%s, 77)" % v, "append(log, [%s, %s])" % (a, v)]
        if k == "mapput":
            m = self.fresh("m")
            return ["def %s = <<< 1 => %s >>>" % (m, a), "append(%s[1], 6)" % m, "put(%s, 2, %s)" % (m, a), "append(log, [%s, length(%s)])" % (a, m)]
        f = self.fresh("f")
        return ["def %s(p) do append(p, 5); p end" % f, "append(log, %s(%s) == %s)" % (f, a, a), "append(log, %s)" % a]


def generate(rnd, profile="mix", maxlen=900):
    while True:
        src, feats = generate1(rnd, profile)
        if len(src) <= maxlen:
            return src, feats


def generate1(rnd, profile="mix"):
    g = Gen(rnd, profile)
    ctx = dict(vars={}, funcs=[], loop=False, func=False)
    stmts = []
    for _ in range(rnd.randint(2, 5)):
        stmts += g.stmt(ctx, g.p["maxdepth"])
    # the final result: an int variable or expression
    res = g.intexpr(ctx)
    x = rnd.random()
    if x < 0.25:
        # wrap the whole program in a function so that top-level return / def scoping is exercised too
        src = "def log = []; def main() do %s; %s end; def res = NULL; do res = main() catch all append(log, -1) end; [res, log]" % ("; ".join(stmts), res)
    elif x < 0.75:
        # an escaping error is recorded in the trace, so that what happened before it stays observable
        src = "def log = []; def res = NULL; do %s; res = %s catch all append(log, -1) end; [res, log]" % ("; ".join(stmts), res)
    else:
        src = "def log = []; %s; [%s, log]" % ("; ".join(stmts), res)
    return src, g.features
