"""Run programs on the model evaluator (Model/Eval.v, through vm_compute) and on the
implementation, and compare the outcomes."""
from . import core, gal

IMPORTS = ("From Coq Require Import PrimFloat.\nFrom Ckl Require Import Prelude.PyPrelude Prelude.Enc Model.Values Model.Arith Model.EncVal "
           "Model.Eval Model.EncEval.\n")
FUEL = 400


def model_terms(sources, name="t"):
    """Gallina terms (or None when the real parser rejects the source)"""
    from tools import ast2model
    from ckl.errors import CklSyntaxError
    out = []
    for src in sources:
        try:
            out.append(ast2model.program(src, name))
        except CklSyntaxError:
            out.append(None)
    return out


def run_model(sources, tag="ev", per_file=25, fuel=FUEL, timeout=900):
    terms = model_terms(sources)
    idx = [i for i, t in enumerate(terms) if t is not None]
    evals = []
    per = 10
    for k in range(0, len(idx), per):
        evals.append("[%s]" % "; ".join("enc_result (run_program %d %s)" % (fuel, terms[i]) for i in idx[k:k + per]))
    ok, blocks, err = core.coq_eval_many(tag, IMPORTS, evals, per_file=max(1, per_file // per), timeout=timeout)
    if not ok:
        return False, err, None
    flat = [x for b in blocks for x in b]
    res = [("syntax",)] * len(sources)
    for i, m in zip(idx, flat):
        res[i] = gal.decode_result(m)
    return True, "", res


def run_impl(sources, legacy=False, seconds=3.0):
    from . import impl
    out = []
    I = impl.new_interpreter(False, legacy)
    for src in sources:
        # a fresh session scope per program over the same base environment (programs do not touch the base)
        I.environment = I.base_environment.newEnv()
        out.append(gal.impl_result(impl.run_src(I, src, seconds=seconds)))
    return out
