"""Run programs on the model evaluator (Model/Eval.v, through vm_compute) and on the
implementation, and compare the outcomes."""
from . import core, gal

IMPORTS = ("From Coq Require Import PrimFloat.\nFrom Ckl Require Import Prelude.PyPrelude Prelude.Enc Model.Values Model.Arith Model.EncVal "
           "Model.Eval Model.EncEval.\n")
FUEL = 400


MODEL_NAMES = {"add", "sub", "mul", "div", "mod", "equals", "not_equals", "less", "less_equals", "greater", "greater_equals", "compare",
               "length", "string", "int", "list", "set", "identity", "type", "append", "remove", "put", "insert_at", "delete_at",
               "sublist", "range", "is_null", "NULL"}
_BASE = None


def base_only_names():
    """names bound in the real base environment that the model's base frame does not have: a program
    that mentions one of them is outside the modelled fragment"""
    global _BASE
    if _BASE is None:
        from . import impl
        I = impl.new_interpreter(False, False)
        _BASE = set(I.base_environment.getSymbols()) - MODEL_NAMES
    return _BASE


def identifiers(node, acc):
    import ckl.nodes as N
    if isinstance(node, N.NodeIdentifier):
        acc.add(node.value)
    if isinstance(node, (N.NodeRequire, N.NodeClass)):
        acc.add("<unmodelled>")
    for v in vars(node).values() if hasattr(node, "__dict__") else []:
        vs = v if isinstance(v, (list, tuple)) else [v]
        for x in vs:
            if isinstance(x, (list, tuple)):
                for y in x:
                    if hasattr(y, "evaluate"):
                        identifiers(y, acc)
            elif hasattr(x, "evaluate") and not isinstance(x, type(None)):
                identifiers(x, acc)
    return acc


def model_terms(sources, name="t"):
    """Gallina terms; None when the real parser rejects the source; "unmodelled" when the program mentions a
    name of the real base environment that the model does not bind (or uses require / class)"""
    from tools import ast2model
    from ckl.errors import CklSyntaxError
    from ckl.parser import parse_script
    out = []
    extra = base_only_names()
    for src in sources:
        try:
            tree = parse_script(src, name)
        except CklSyntaxError:
            out.append(None)
            continue
        ids = identifiers(tree, set())
        if ids & extra or "<unmodelled>" in ids:
            out.append("unmodelled")
        else:
            out.append(ast2model.conv(tree))
    return out


def run_model(sources, tag="ev", per_file=25, fuel=FUEL, timeout=900):
    terms = model_terms(sources)
    idx = [i for i, t in enumerate(terms) if t is not None and t != "unmodelled"]
    evals = []
    per = 10
    for k in range(0, len(idx), per):
        evals.append("[%s]" % "; ".join("enc_result (run_program %d %s)" % (fuel, terms[i]) for i in idx[k:k + per]))
    ok, blocks, err = core.coq_eval_many(tag, IMPORTS, evals, per_file=max(1, per_file // per), timeout=timeout)
    if not ok:
        return False, err, None
    flat = [x for b in blocks for x in b]
    res = [("syntax",) if t is None else ("unmodelled",) for t in terms]
    for i, m in zip(idx, flat):
        res[i] = gal.decode_result(m)
    return True, "", res


def run_impl(sources, legacy=False, seconds=3.0):
    from . import impl
    out = []
    I = impl.new_interpreter(False, legacy)
    for src in sources:
        # a fresh session scope per program over the same base environment (programs do not touch the base)
        I.environment = I.base_environment.newEnv()
        out.append(gal.impl_result(impl.run_src(I, src, seconds=seconds)))
    return out
