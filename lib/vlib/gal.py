"""Python values <-> Gallina terms of Model/Values.v and the list-of-Z result encoding."""
import math
from .core import zlit


class Null:
    def __repr__(self):
        return "NULL"

    def __eq__(self, o):
        return isinstance(o, Null)

    def __hash__(self):
        return 0


NULL = Null()


class Pat(str):
    pass


class Date(int):
    pass


class SetV(tuple):
    """set value with an explicit internal order"""


class MapV(tuple):
    """map value: tuple of (k, v) with an explicit internal order"""


def flit(x):
    if x != x:
        return "PrimFloat.nan"
    if x == float("inf"):
        return "PrimFloat.infinity"
    if x == float("-inf"):
        return "PrimFloat.neg_infinity"
    return "(%s)%%float" % float(x).hex()


def cps(s):
    return "[" + "; ".join(str(ord(c)) for c in s) + "]"


def dval(v):
    """Gallina term for a python-side value"""
    if isinstance(v, Null) or v is None:
        return "DNull"
    if isinstance(v, bool):
        return "(DBool %s)" % ("true" if v else "false")
    if isinstance(v, Date):
        return "(DDate %s)" % zlit(int(v))
    if isinstance(v, int):
        return "(DInt %s)" % zlit(v)
    if isinstance(v, float):
        return "(DDec %s)" % flit(v)
    if isinstance(v, Pat):
        return "(DPat %s)" % cps(v)
    if isinstance(v, str):
        return "(DStr %s)" % cps(v)
    if isinstance(v, SetV):
        return "(DSet [%s])" % "; ".join(dval(x) for x in v)
    if isinstance(v, MapV):
        return "(DMap [%s])" % "; ".join("(%s, %s)" % (dval(k), dval(x)) for k, x in v)
    if isinstance(v, (list, tuple)):
        return "(DList [%s])" % "; ".join(dval(x) for x in v)
    raise TypeError(v)


def src(v):
    """Checkerlang source text of a literal value (negative numbers in parentheses)"""
    if isinstance(v, Null) or v is None:
        return "NULL"
    if isinstance(v, bool):
        return "TRUE" if v else "FALSE"
    if isinstance(v, Date):
        import datetime
        d = datetime.datetime(1900, 1, 1) + datetime.timedelta(seconds=int(v))
        return "date('%04d%02d%02d%02d%02d%02d')" % (d.year, d.month, d.day, d.hour, d.minute, d.second)
    if isinstance(v, int):
        return str(v) if v >= 0 else "(-%d)" % -v
    if isinstance(v, float):
        return dec_src(v) if v >= 0 and not (v == 0 and math.copysign(1, v) < 0) else "(-%s)" % dec_src(-v)
    if isinstance(v, Pat):
        return "//" + v + "//"
    if isinstance(v, str):
        return str_src(v)
    if isinstance(v, SetV):
        return "<< " + ", ".join(src(x) for x in v) + " >>" if v else "<<>>"
    if isinstance(v, MapV):
        return "<<< " + ", ".join("%s => %s" % (src(k), src(x)) for k, x in v) + " >>>" if v else "<<<>>>"
    if isinstance(v, (list, tuple)):
        return "[" + ", ".join(src(x) for x in v) + "]"
    raise TypeError(v)


def dec_src(x):
    """positional decimal literal digits.digits that float() reads back exactly"""
    from decimal import Decimal
    t = format(Decimal(repr(x)), "f")
    if "." not in t:
        t += ".0"
    assert float(t) == x, (t, x)
    return t


def str_src(s):
    out = []
    for c in s:
        if c == "\\":
            out.append("\\\\")
        elif c == "'":
            out.append("\\'")
        elif c == "\n":
            out.append("\\n")
        elif c == "\r":
            out.append("\\r")
        elif c == "\t":
            out.append("\\t")
        else:
            out.append(c)
    return "'" + "".join(out) + "'"


def float_of_enc(k, s, m, e):
    if k == 0:
        return -0.0 if s else 0.0
    if k == 2:
        return float("-inf") if s else float("inf")
    if k == 3:
        return float("nan")
    x = math.ldexp(m, e)
    return -x if s else x


def decode_dval(xs, i=0):
    """decode enc_dval -> (canonical text as vlib.impl.canon prints it, next index)"""
    t = xs[i]
    if t == 0:
        return "null", i + 1
    if t == 1:
        return "(b %d)" % xs[i + 1], i + 2
    if t == 2:
        return "(i %d)" % xs[i + 1], i + 2
    if t == 3:
        f = float_of_enc(*xs[i + 1:i + 5])
        return "(d %s)" % f.hex(), i + 5
    if t in (4, 6):
        n = xs[i + 1]
        body = "".join(" %d" % c for c in xs[i + 2:i + 2 + n])
        return ("(s" if t == 4 else "(pat") + body + ")", i + 2 + n
    if t == 5:
        import datetime
        d = datetime.datetime(1900, 1, 1) + datetime.timedelta(seconds=int(xs[i + 1]))
        return "(date %d %d %d %d %d %d %d)" % (d.year, d.month, d.day, d.hour, d.minute, d.second, d.microsecond), i + 2
    if t in (7, 8):
        n = xs[i + 1]
        j = i + 2
        items = []
        for _ in range(n):
            s, j = decode_dval(xs, j)
            items.append(s)
        if t == 8:
            items.sort()
        return ("(list" if t == 7 else "(set") + "".join(" " + s for s in items) + ")", j
    if t == 9:
        n = xs[i + 1]
        j = i + 2
        items = []
        for _ in range(n):
            k, j = decode_dval(xs, j)
            v, j = decode_dval(xs, j)
            items.append("(" + k + " " + v + ")")
        items.sort()
        return "(map" + "".join(" " + s for s in items) + ")", j
    if t == 20:
        return "(fn)", i + 1
    if t == 21:
        n = xs[i + 1]
        j = i + 2
        items = []
        for _ in range(n):
            ln = xs[j]
            name = "".join(chr(c) for c in xs[j + 1:j + 1 + ln])
            v, j = decode_dval(xs, j + 1 + ln)
            items.append("(" + name + " " + v + ")")
        return "(obj" + "".join(" " + s for s in items) + ")", j
    raise ValueError("bad encoding %r at %d" % (xs, i))


def decode_result(xs):
    """enc_result of Model/EncEval.v -> ('val', canon) | ('err', canon) | ('host', name) | ('fuel',) | ('unmodelled',)"""
    if xs[0] == 0:
        return ("val", decode_dval(xs, 1)[0])
    if xs[0] == 1:
        return ("err", decode_dval(xs, 1)[0])
    if xs[0] == 2:
        return ("host", HOSTCODE.get(xs[1], str(xs[1])))
    if xs[0] == 3:
        return ("fuel",)
    if xs[0] == 4:
        return ("unmodelled",)
    return ("control",)


def impl_result(out):
    """vlib.impl.outcome -> the same shape (error value kept, message dropped)"""
    if out[0] == "val":
        return ("val", out[1])
    if out[0] == "err":
        return ("err", out[1])
    if out[0] == "host":
        return ("host", out[1])
    return tuple(out[:1])


HOSTCODE = {1: "IndexError", 2: "ValueError", 3: "ZeroDivisionError", 4: "TypeError", 5: "KeyError",
            6: "OverflowError", 7: "AttributeError", 8: "RecursionError", 9: "error"}


def decode_outcome(xs):
    """-> ('val', canon) | ('err',) | ('host', name) | ('unmodelled',)"""
    if xs[0] == 0:
        s, j = decode_dval(xs, 1)
        return ("val", s)
    if xs[0] == 1:
        return ("err",)
    if xs[0] == 2:
        return ("host", HOSTCODE.get(xs[1], str(xs[1])))
    if xs[0] == 4:
        return ("unmodelled",)
    if xs[0] == 3:
        return ("fuel",)
    raise ValueError(xs)


def impl_outcome(out):
    """reduce vlib.impl.outcome to the same shape"""
    if out[0] == "val":
        return ("val", out[1])
    if out[0] == "err":
        return ("err",)
    if out[0] == "host":
        return ("host", out[1])
    return tuple(out)


def src_safe(v):
    """source text where one exists, else a readable description (dates have no literal)"""
    try:
        return src(v)
    except Exception:
        if isinstance(v, Date):
            return "date#%d" % int(v)
        if isinstance(v, SetV):
            return "<<" + ", ".join(src_safe(x) for x in v) + ">>"
        if isinstance(v, MapV):
            return "<<<" + ", ".join("%s => %s" % (src_safe(k), src_safe(x)) for k, x in v) + ">>>"
        if isinstance(v, (list, tuple)):
            return "[" + ", ".join(src_safe(x) for x in v) + "]"
        return repr(v)
