"""Running the implementation (/repo/src, current working tree) and
canonicalising what it does.  Import only after core.setup_impl_path()."""
import signal
import sys
import io


class Timeout(BaseException):
    pass


def _alarm(signum, frame):
    raise Timeout()


def with_timeout(fn, seconds=2.0):
    """Run fn() under a wall-clock bound (main thread only)."""
    old = signal.signal(signal.SIGALRM, _alarm)
    signal.setitimer(signal.ITIMER_REAL, seconds)
    try:
        return fn()
    finally:
        signal.setitimer(signal.ITIMER_REAL, 0)
        signal.signal(signal.SIGALRM, old)


def new_interpreter(secure=False, legacy=False):
    from ckl.interpreter import Interpreter
    return Interpreter(secure, legacy)


def canon(v, depth=0):
    """Neutral s-expression text of an implementation value (not the
    language's own rendering, so a rendering / ordering defect cannot hide)."""
    import datetime
    from ckl import values as V
    if depth > 40:
        return "(deep)"
    if v is None:
        return "(pynone)"
    if isinstance(v, V.ValueNull):
        return "null"
    if isinstance(v, V.ValueBoolean):
        return "(b %d)" % (1 if v.value else 0)
    if isinstance(v, V.ValueInt):
        if isinstance(v.value, bool) or not isinstance(v.value, int):
            return "(i! %r)" % (v.value,)
        return "(i %d)" % v.value
    if isinstance(v, V.ValueDecimal):
        x = v.value
        if isinstance(x, float):
            return "(d %s)" % x.hex()
        return "(d! %r)" % (x,)
    if isinstance(v, V.ValueString):
        if not isinstance(v.value, str):
            return "(s! %r)" % (v.value,)
        return "(s" + "".join(" %d" % ord(c) for c in v.value) + ")"
    if isinstance(v, V.ValueDate):
        d = v.value
        return "(date %d %d %d %d %d %d %d)" % (d.year, d.month, d.day, d.hour, d.minute, d.second, d.microsecond)
    if isinstance(v, V.ValuePattern):
        return "(pat" + "".join(" %d" % ord(c) for c in v.value) + ")"
    if isinstance(v, V.ValueList):
        return "(list" + "".join(" " + canon(x, depth + 1) for x in v.value) + ")"
    if isinstance(v, V.ValueSet):
        return "(set" + "".join(" " + s for s in sorted(canon(x, depth + 1) for x in v.value)) + ")"
    if isinstance(v, V.ValueMap):
        items = sorted("(" + canon(k, depth + 1) + " " + canon(x, depth + 1) + ")" for k, x in v.value.items())
        return "(map" + "".join(" " + s for s in items) + ")"
    if isinstance(v, V.ValueObject):
        items = ["(" + str(k) + " " + canon(x, depth + 1) + ")" for k, x in v.value.items()]
        return "(obj" + "".join(" " + s for s in items) + ")"
    if isinstance(v, V.ValueFunc):
        return "(fn)"
    if isinstance(v, V.ValueInput):
        return "(in)"
    if isinstance(v, V.ValueOutput):
        return "(out)"
    if isinstance(v, V.ValueNode):
        return "(node)"
    if isinstance(v, V.ValueControlBreak):
        return "(break)"
    if isinstance(v, V.ValueControlContinue):
        return "(continue)"
    if isinstance(v, V.ValueControlReturn):
        return "(return " + canon(v.value, depth + 1) + ")"
    return "(unknown %s)" % type(v).__name__


def outcome(fn, seconds=2.0):
    """Run fn() -> implementation value; classify what happened.
    Returns (kind, payload): ('val', canon) | ('err', canon of error value, msg, pos)
    | ('syntax', msg, pos) | ('host', exception class name, text) | ('timeout',)"""
    from ckl.errors import CklRuntimeError, CklSyntaxError
    try:
        v = with_timeout(fn, seconds)
        return ("val", canon(v))
    except Timeout:
        return ("timeout",)
    except CklRuntimeError as e:
        try:
            cv = canon(e.value)
        except Exception as e2:  # noqa
            cv = "(uncanon)"
        try:
            msg = str(e.msg)        # the message of `error v` is v itself: rendering it may run the program's _str_
        except Exception:
            msg = "(unrenderable)"
        return ("err", cv, msg, str(e.pos))
    except CklSyntaxError as e:
        return ("syntax", str(e.msg), str(e.pos))
    except RecursionError as e:
        return ("host", "RecursionError", "")
    except Exception as e:
        return ("host", type(e).__name__, str(e)[:200])


def run_src(interp, src, name="t", seconds=2.0):
    return outcome(lambda: interp.interpret(src, name), seconds)
