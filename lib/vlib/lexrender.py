"""Token-level re-rendering of programs: layout (gaps, comments, line breaks), literal spelling, redundant
parentheses around literals; and the true (line, column) of every rendered token."""
TYPES = {"interpunction": 0, "operator": 1, "string": 2, "int": 3, "decimal": 4, "boolean": 5, "keyword": 6, "identifier": 7, "pattern": 8}
GAPS = [" ", " ", " ", "  ", "\t", "\n", "\r\n", " # a comment\n", "\n\n  ", " #x\r\n\t", "\n#\n", "   "]
TOUCH = set("()[],;")


def real_tokens(src, name="t"):
    from ckl.lexer import Lexer
    return [(t.value, t.type, t.pos.line, t.pos.column) for t in Lexer(src, name).scan().tokens]


def spell_int(v, rnd):
    n = int(v)
    k = rnd.random()
    if k < 0.5 or n == 0 and k < 0.8:
        s = str(n)
    elif k < 0.7:
        s = ("0x%x" if rnd.random() < 0.5 else "0x%X") % n
    elif k < 0.8 and n < 2 ** 20:
        s = "0b" + bin(n)[2:]
    else:
        s = str(n)
    if len(s) > 3 and rnd.random() < 0.4 and not s.startswith("0"):
        i = rnd.randint(1, len(s) - 1)
        s = s[:i] + "_" + s[i:]
    elif len(s) > 4 and s[:2] in ("0x", "0b") and rnd.random() < 0.4:
        i = rnd.randint(3, len(s) - 1)
        s = s[:i] + "_" + s[i:]
    return s


def spell_str(v, rnd):
    q = rnd.choice("'\"")
    out = [q]
    for c in v:
        if c == "\\":
            out.append("\\\\")
        elif c == q:
            out.append("\\" + q)
        elif c == "\n":
            out.append(rnd.choice(["\\n", "\\n", "\n", "\\x0a"]))
        elif c == "\t":
            out.append(rnd.choice(["\\t", "\t", "\\x09"]))
        elif c == "\r":
            out.append("\\r")
        elif c in "'\"":
            out.append(c if rnd.random() < 0.7 else "\\" + c)
        elif ord(c) < 256 and rnd.random() < 0.15:
            out.append("\\x%02x" % ord(c))
        else:
            out.append(c)
    out.append(q)
    return "".join(out)


def spell(value, typ, rnd, literal_spelling=True):
    if typ == "int":
        return spell_int(value, rnd) if literal_spelling else value
    if typ == "string":
        return spell_str(value, rnd) if literal_spelling else spell_str(value, __import__("random").Random(0))
    if typ == "operator" and value in ("!=", "<>") and literal_spelling:
        return rnd.choice(["!=", "<>"])
    return value


def optional_semicolons(tokens, rnd, p=0.5):
    """The grammar lets a `;` stand or be missing before the `end`, `catch` or `finally` that closes a statement sequence of a
    do-block (and so also after a catch handler, in either handler form). Returns the token list with each such `;` put in or left out."""
    out = []
    for t in tokens:
        v, ty = t[0], t[1]
        if ty == "keyword" and v in ("end", "catch", "finally") and out:
            pv, pty = out[-1][0], out[-1][1]
            if pty == "interpunction" and pv == ";":
                if rnd.random() < p:
                    out.pop()
            elif not (pty == "keyword" and pv in ("do", "finally")) and rnd.random() < p:
                out.append((";", "interpunction"))
        out.append(t)
    return out


def paren_blocks(tokens, rnd, p=0.5):
    """Redundant parentheses around a do .. end block that stands as an operand (after an assignment or arithmetic operator, an opening
    bracket or a comma)."""
    out = list(tokens)
    i = 0
    res = []
    close_at = {}
    n = len(out)
    for i, t in enumerate(out):
        if t[1] == "keyword" and t[0] == "do" and i > 0:
            pv, pty = out[i - 1][0], out[i - 1][1]
            if ((pty == "operator" and pv in ("=", "+", "-", "*", "+=", "-=", "==")) or (pty == "interpunction" and pv in ("(", "[", ","))) and rnd.random() < p:
                depth = 0
                for j in range(i, n):
                    if out[j][1] == "keyword" and out[j][0] == "do":
                        depth += 1
                    elif out[j][1] == "keyword" and out[j][0] == "end":
                        depth -= 1
                        if depth == 0:
                            close_at[j] = close_at.get(j, 0) + 1
                            res.append(i)
                            break
    opens = set(res)
    final = []
    for i, t in enumerate(out):
        if i in opens:
            final.append(("(", "interpunction"))
        final.append(t)
        for _ in range(close_at.get(i, 0)):
            final.append((")", "interpunction"))
    return final


def render(tokens, rnd, layout=True, literal_spelling=True, parens=True, trailing_semicolon=True):
    """tokens: [(value, type, ...)] -> (text, [(line, col) of each input token])"""
    parts = []   # (text, index of the input token or None)
    n = len(tokens)
    for i, t in enumerate(tokens):
        v, ty = t[0], t[1]
        txt = spell(v, ty, rnd, literal_spelling)
        wrap = False
        if parens and ty in ("int", "decimal", "string", "boolean") and rnd.random() < 0.12:
            prev = tokens[i - 1] if i > 0 else None
            nxt = tokens[i + 1] if i + 1 < n else None
            # not where the parenthesis would be read as a call of what stands before it: after a parenthesised literal, an identifier, ) or ]
            # (two expressions stand side by side in `catch <value> <handler>` and `for .. in <collection> <body>`)
            callee_before = bool(parts and parts[-1][0] == ")") or bool(prev and (prev[1] == "identifier" or (prev[1] == "interpunction" and prev[0] in (")", "]"))))
            if not (prev and prev[1] == "operator" and prev[0] in ("-", "+", "->")) and not (nxt and nxt[1] == "keyword" and nxt[0] == "def") \
                    and not (prev and prev[1] == "keyword" and prev[0] in ("require",)) and not callee_before:
                wrap = True
        if wrap:
            parts += [("(", None), (txt, i), (")", None)]
        else:
            parts.append((txt, i))
    if trailing_semicolon and tokens and not (tokens[-1][0] == ";" and tokens[-1][1] == "interpunction") and rnd.random() < 0.4:
        parts.append((";", None))
    text = []
    pos = {}
    line, col = 1, 0
    def emit(s, idx=None):
        nonlocal line, col
        first = True
        for ch in s:
            if ch == "\n":
                line += 1
                col = 0
            else:
                col += 1
            if first and idx is not None:
                pos[idx] = (line, col)
            first = False
            text.append(ch)
    if layout and rnd.random() < 0.5:
        emit(rnd.choice(GAPS + ["\n# leading comment\n", "\t\t"]))
    for k, (txt, idx) in enumerate(parts):
        if k > 0:
            prev = parts[k - 1][0]
            if layout:
                pidx = parts[k - 1][1]
                pty = tokens[pidx][1] if pidx is not None else "interpunction"
                ty = tokens[idx][1] if idx is not None else "interpunction"
                word = ("int", "decimal", "string", "boolean", "identifier", "keyword")
                if (prev[-1] in TOUCH or txt[0] in TOUCH) and rnd.random() < 0.35:
                    g = ""
                elif ((pty in word and ty == "operator") or (pty == "operator" and ty in word)) and rnd.random() < 0.3:
                    g = ""          # a literal or name directly followed by an operator, an operator directly followed by a literal or name
                else:
                    g = rnd.choice(GAPS)
            else:
                g = " "
            emit(g)
        emit(txt, idx)
    if layout and rnd.random() < 0.4:
        emit(rnd.choice(GAPS + [" # trailing comment without line feed"]))
    return "".join(text), [pos[i] for i in range(n)]
