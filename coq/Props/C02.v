(* C02 - operators evaluate per the language definition; integer arithmetic is exact.
   Statements only; proofs in Proofs/ArithProofs.v.  [arith eval rel member]
   (Model/Arith.v, Model/Values.v) are hand models of the natives and of
   NodeAnd/NodeOr/NodeNot/NodeIn, tied to the code by the correspondence run;
   [pos_table neg_table top_table top_neg_pairs] are GENERATED from
   parse_pred_expr on every run.  The precedence part of the property is decided by the
   correspondence run only (no parser theorem): stated in DESIGN.md as C02_precedence missing. *)
From Coq Require Import String.
From Coq Require Import ZArith List Bool Lia.
From Ckl Require Import Prelude.PyPrelude Model.Values Model.Arith Gen.PredTable Proofs.ArithProofs.
From Ckl Require Import Model.ExprParse Proofs.ExprParseRT Proofs.ExprParseMore.
Import ListNotations.
Open Scope Z_scope.

(* int + - * / % are exact at any magnitude; / truncates toward zero; a % b is bounded by |b|
   and b divides a - a % b; a zero divisor is the language's error, never a host exception *)
Theorem C02_int_exact : forall a b : Z,
  arith Add (DInt a) (DInt b) = OVal (DInt (a + b)) /\
  arith Sub (DInt a) (DInt b) = OVal (DInt (a - b)) /\
  arith Mul (DInt a) (DInt b) = OVal (DInt (a * b)) /\
  (b <> 0 -> arith Div (DInt a) (DInt b) = OVal (DInt (Z.quot a b))) /\
  (b <> 0 -> exists r, arith Mod (DInt a) (DInt b) = OVal (DInt r) /\ Z.abs r < Z.abs b /\ (b | a - r)) /\
  (b = 0 -> arith Div (DInt a) (DInt b) = OErr /\ arith Mod (DInt a) (DInt b) = OErr).
Proof. exact int_exact. Qed.
Print Assumptions C02_int_exact.

Theorem C02_int_iff : forall op a b v,
  op <> Mod -> is_num a = true -> is_num b = true -> arith op a b = OVal v ->
  (is_int v = true <-> is_int a = true /\ is_int b = true).
Proof. exact int_iff. Qed.
Print Assumptions C02_int_iff.

Theorem C02_null : forall op a b,
  num_or_null a = true -> num_or_null b = true -> is_null a || is_null b = true ->
  arith op a b = OVal DNull.
Proof. exact null_absorbs. Qed.
Print Assumptions C02_null.

(* and/or short-circuit: clauses after the deciding one are irrelevant (they may even be errors) *)
Theorem C02_and_short : forall env es1 c es2,
  Forall (fun e => eval env e = otrue) es1 -> eval env c = ofalse ->
  eval env (XAnd (es1 ++ c :: es2)) = ofalse.
Proof. exact and_short. Qed.
Print Assumptions C02_and_short.

Theorem C02_or_short : forall env es1 c es2,
  Forall (fun e => eval env e = ofalse) es1 -> eval env c = otrue ->
  eval env (XOr (es1 ++ c :: es2)) = otrue.
Proof. exact or_short. Qed.
Print Assumptions C02_or_short.

Theorem C02_and_all : forall env es, Forall (fun e => eval env e = otrue) es -> eval env (XAnd es) = otrue.
Proof. exact and_all_true. Qed.
Print Assumptions C02_and_all.

Theorem C02_or_none : forall env es, Forall (fun e => eval env e = ofalse) es -> eval env (XOr es) = ofalse.
Proof. exact or_all_false. Qed.
Print Assumptions C02_or_none.

(* and / or / not accept only booleans *)
Theorem C02_and_only_booleans : forall env es1 c es2 v,
  Forall (fun e => eval env e = otrue) es1 -> eval env c = OVal v -> is_bool_val v = false ->
  eval env (XAnd (es1 ++ c :: es2)) = OErr.
Proof. exact and_non_boolean. Qed.
Print Assumptions C02_and_only_booleans.

Theorem C02_or_only_booleans : forall env es1 c es2 v,
  Forall (fun e => eval env e = ofalse) es1 -> eval env c = OVal v -> is_bool_val v = false ->
  eval env (XOr (es1 ++ c :: es2)) = OErr.
Proof. exact or_non_boolean. Qed.
Print Assumptions C02_or_only_booleans.

Theorem C02_not : forall env e,
  (forall b, eval env e = OVal (DBool b) -> eval env (XNot e) = OVal (DBool (negb b))) /\
  (forall v, eval env e = OVal v -> is_bool_val v = false -> eval env (XNot e) = OErr).
Proof. exact not_spec. Qed.
Print Assumptions C02_not.

(* a comparison chain is the conjunction of its adjacent pairs *)
Theorem C02_chain : forall env e0 o1 e1 o2 e2,
  eval env (XChain e0 [(o1, e1); (o2, e2)]) = eval env (XAnd [XChain e0 [(o1, e1)]; XChain e1 [(o2, e2)]]).
Proof. exact chain_is_and_of_pairs. Qed.
Print Assumptions C02_chain.

Theorem C02_chain_step : forall env e0 op e1 rest,
  eval env (XChain e0 ((op, e1) :: rest)) =
  match bind2 (eval env e0) (eval env e1) (rel op) with
  | OVal (DBool true) => eval env (XChain e1 rest)
  | OVal (DBool false) => ofalse
  | OVal _ => OErr
  | o => o
  end.
Proof. exact chain_unfold. Qed.
Print Assumptions C02_chain_step.

(* every `x is not P` branch of the parser builds NodeNot of what the `x is P` branch builds,
   for the same predicate words, in the same branch order (finite: the tables are the code) *)
Theorem C02_is_not : Forall2 (fun n p => negates n p = true) neg_table pos_table.
Proof. exact (forall2b_Forall2 negates neg_table pos_table neg_table_negates). Qed.
Print Assumptions C02_is_not.

Theorem C02_negated_postfix_forms : forallb top_pair_ok top_neg_pairs = true.
Proof. exact top_pairs_negate. Qed.
Print Assumptions C02_negated_postfix_forms.

(* ---- precedence and association (Model/ExprParse.v: hand model of the operator core of the parser, tied by checks/C02.py) ----
   [render] writes a tree with parentheses only around an operand whose level is lower than its position demands:
   or 1 < and 2 < not 3 < comparison 4 < additive 5 < multiplicative 6 < unary 7 < primary / call 8, the right operand of + - and
   of * / % one level higher than the left one.  The parser reads that text back as the same tree, for trees of any depth:
   so the levels and the left association are the ones stated, and no parenthesis [render] leaves out is needed. *)
Theorem C02_parse_render : forall e, wf e = true -> parse (render e) = Ok e [].
Proof. exact parse_render. Qed.
Print Assumptions C02_parse_render.

Theorem C02_render_injective : forall a b, wf a = true -> wf b = true -> render a = render b -> a = b.
Proof. exact render_injective. Qed.
Print Assumptions C02_render_injective.

(* a comparison chain a r1 b r2 c ... is the conjunction of its adjacent pairs (one pair: the comparison itself) *)
Theorem C02_parse_chain : forall a l, wf a = true -> forallb (fun p => wf (snd p)) l = true -> l <> [] ->
  parse (render_at 5 a ++ chain_tail l) = Ok (simplified (clauses a l)) [].
Proof. exact parse_chain. Qed.
Print Assumptions C02_parse_chain.

(* unary minus: a literal is negated, anything else is subtracted from 0; unary plus is dropped *)
Theorem C02_parse_neg : forall e, wf e = true -> literal_nat e = false -> parse (TMinus :: render_at 8 e) = Ok (EBin 1 (EInt 0) e) [].
Proof. exact parse_neg. Qed.
Print Assumptions C02_parse_neg.
Theorem C02_parse_neg_literal : forall z, parse [TMinus; TInt z] = Ok (EInt (- z)) [].
Proof. exact parse_neg_literal. Qed.
Print Assumptions C02_parse_neg_literal.
Theorem C02_parse_pos : forall e, wf e = true -> parse (TPlus :: render_at 8 e) = Ok e [].
Proof. exact parse_pos. Qed.
Print Assumptions C02_parse_pos.

(* the table of the statement, read off [render]: a op1 b op2 c groups to the left when op1 binds at least as tightly as op2 ... *)
Example C02_parse_ex :
  render (EBin 0 (EInt 1) (EBin 2 (EInt 2) (EInt 3))) = [TInt 1; TPlus; TInt 2; TMul 0; TInt 3]                      (* 1 + 2 * 3 *)
  /\ render (EBin 2 (EBin 0 (EInt 1) (EInt 2)) (EInt 3)) = [TLP; TInt 1; TPlus; TInt 2; TRP; TMul 0; TInt 3]          (* (1 + 2) * 3 *)
  /\ render (EBin 1 (EBin 1 (EInt 1) (EInt 2)) (EInt 3)) = [TInt 1; TMinus; TInt 2; TMinus; TInt 3]                  (* 1 - 2 - 3 *)
  /\ render (EBin 1 (EInt 1) (EBin 1 (EInt 2) (EInt 3))) = [TInt 1; TMinus; TLP; TInt 2; TMinus; TInt 3; TRP]        (* 1 - (2 - 3) *)
  /\ render (EOrL [EAndL [EVar 0; ENot (ECmp 2 (EVar 1) (EBin 0 (EVar 2) (EInt 1)))]; EVar 3])
     = [TId 0; TAnd; TNot; TId 1; TRel 2; TId 2; TPlus; TInt 1; TOr; TId 3]                                          (* a and not b < c + 1 or d *)
  /\ parse [TInt 1; TRel 2; TInt 2; TRel 3; TInt 3] = Ok (EAndL [ECmp 2 (EInt 1) (EInt 2); ECmp 3 (EInt 2) (EInt 3)]) [].
Proof. repeat split; reflexivity. Qed.

Example C02_ex :
  arith Div (DInt (-7)) (DInt 2) = OVal (DInt (-3)) /\ arith Mod (DInt (-7)) (DInt 2) = OVal (DInt 1) /\
  arith Div (DInt (2 ^ 80 + 1)) (DInt 1) = OVal (DInt (2 ^ 80 + 1)) /\
  eval [] (XAnd [XLit (DBool false); XBin Div (XLit (DInt 1)) (XLit (DInt 0))]) = ofalse /\
  eval [] (XChain (XLit (DInt 1)) [(Lt, XLit (DInt 2)); (Lt, XLit (DInt 2))]) = ofalse /\
  length neg_table = 24%nat.
Proof. vm_compute. repeat split; reflexivity. Qed.
