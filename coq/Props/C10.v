(* C10 - interpreter sessions keep definitions and survive failed calls unchanged.
   Statements only; proofs in Proofs/SessionProofs.v over the hand model Model/Session.v (commands of a session,
   the module loader with its load stack and cache), tied to Interpreter.interpret / NodeRequire by the
   correspondence run of checks/C10.py (the same histories on real interpreters with generated module files).
   [no_fuel] excludes the model's out-of-fuel outcome, which the real loader does not have (the correspondence
   never observes it).  "Repeating a failed call gives the same error and state" is decided by the correspondence and
   on the implementation (C10_repeat_partial): it is not a theorem. *)
From Coq Require Import ZArith List Bool.
From Ckl Require Import Model.Session Proofs.SessionProofs Proofs.SessionFuel.
Import ListNotations.
Open Scope Z_scope.

(* require restores the module-load stack whether loading succeeds or fails (at any nesting depth) *)
Theorem C10_load_stack_restored : forall fuel p g m, no_fuel (snd (req fuel p g m)) -> stack (fst (req fuel p g m)) = stack g.
Proof. exact req_stack_restored. Qed.
Print Assumptions C10_load_stack_restored.

(* after every command of every history, on both interpreter instances, the load stack is empty and no module's
   top-level code has run to its end twice: a failed call leaves nothing behind that a later require could trip over *)
Theorem C10_history_clean : forall p h s0 s1, clean s0 -> clean s1 ->
  all_no_fuel (snd (run_hist p h s0 s1)) -> clean (fst (fst (run_hist p h s0 s1))) /\ clean (snd (fst (run_hist p h s0 s1))).
Proof. exact history_clean. Qed.
Print Assumptions C10_history_clean.

(* a failed call removes or changes no definition other than the ones it wrote before failing *)
Theorem C10_failed_call_keeps_definitions : forall p c s k x,
  snd (run_cmd p c s) = RErr k -> ~ writes c x -> lookup x (senv (fst (run_cmd p c s))) = lookup x (senv s).
Proof. exact failed_cmd_keeps_definitions. Qed.
Print Assumptions C10_failed_call_keeps_definitions.

(* separate interpreter instances never see each other's definitions or modules *)
Theorem C10_instances_separate : forall p cs s0 s1, fst (fst (run_hist p (map (pair true) cs) s0 s1)) = s0.
Proof. exact instances_separate. Qed.
Print Assumptions C10_instances_separate.

(* the out-of-fuel outcome never occurs: the loader's recursion is bounded by the cycle check, so for every set of fewer than
   40 module files (the model's fuel) the statement above holds for EVERY history, without premise *)
Theorem C10_history_clean_total : forall p h s0 s1, (length p < FUEL)%nat -> clean s0 -> clean s1 ->
  clean (fst (fst (run_hist p h s0 s1))) /\ clean (snd (fst (run_hist p h s0 s1))).
Proof. exact history_clean_total. Qed.
Print Assumptions C10_history_clean_total.

Example C10_nonvacuous : clean s_init. Proof. exact clean_init. Qed.
(* a failed require followed by the same require: the same error, not a bogus circular dependency *)
Example C10_failed_require_twice :
  let p := [(1, mk_mod true [MLog; MDef 0 5; MFail])] in
  snd (run_hist p [(false, CReq (FQual None) 1); (false, CReq (FQual None) 1)] s_init s_init) = [RErr 6; RErr 6].
Proof. vm_compute. reflexivity. Qed.
