(* C20 - reported source lines are the lines where the reported construct starts.
   Statements only; proofs in Proofs/LexProofs.v.  [lex_step] is GENERATED from Lexer.scan on every run.
   The theorems are about tokens; that syntax errors, runtime errors and stack-trace entries copy token
   positions is decided by the correspondence run (planted faults under random layouts): partial. *)
From Coq Require Import ZArith List Bool.
From Ckl Require Import Prelude.PyPrelude Prelude.LexPrelude Gen.LexGen Model.LexRun Proofs.LexProofs.
Import ListNotations.
Open Scope Z_scope.

(* the scanner's line / column counters follow the characters read in every scanner state, and a token
   carries the position recorded when the scanner left the blank state for it *)
Theorem C20_step_positions : forall s ch, step_ok s ch.
Proof. exact step_shape. Qed.
Print Assumptions C20_step_positions.

(* every token of every text carries the position of a character of that text: line = 1 + number of
   line feeds up to it, column = distance from the last line feed (any layout: CRLF, comments, multi-line strings) *)
Theorem C20_token_position : forall src toks,
  lex src = LexOk toks -> Forall (fun t => at_char (src ++ [32]) (t_line t, t_col t)) toks.
Proof. exact lex_positions. Qed.
Print Assumptions C20_token_position.

Theorem C20_token_line : forall src toks,
  lex src = LexOk toks ->
  Forall (fun t => exists q, q <> [] /\ is_prefix q (src ++ [32]) /\ t_line t = 1 + Z.of_nat (count_occ Z.eq_dec q 10)) toks.
Proof. exact lex_token_line. Qed.
Print Assumptions C20_token_line.

Example C20_ex : lex [120; 10; 32; 121] = LexOk [mk_tok [120] 7 1 1; mk_tok [121] 7 2 2].
Proof. vm_compute. reflexivity. Qed.
