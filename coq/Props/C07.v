(* C07 - comparison is a total order per kind and sorting agrees with it.
   Statements only; proofs in Proofs/OrdProofs.v, Proofs/SortProofs.v.  [vlt veq vgt vle vge vcompare]
   (Model/Values.v) are the hand model of __lt__/__eq__ and the total_ordering derivations
   ([vlt] is None where the code falls back to comparing rendered text: different kinds, NULL,
   sets, maps - outside the property); [sorted] (Model/Sorting.v) is the hand model of FuncSorted. *)
From Coq Require Import ZArith List Bool Permutation Sorting.Sorted.
From Ckl Require Import Prelude.PyPrelude Model.Values Model.Sorting Proofs.NumOrder Proofs.EqProofs Proofs.OrdProofs Proofs.SortProofs.
Import ListNotations.
Open Scope Z_scope.

(* irreflexive, asymmetric *)
Theorem C07_asym : forall a b, vlt a b = Some true -> vlt b a = Some false /\ veq a b = false.
Proof. intros a b. destruct (all_order a) as [_ [_ [_ [A _]]]]. apply A. Qed.
Print Assumptions C07_asym.

Theorem C07_irrefl : forall a, vlt a a <> Some true.
Proof.
  intros a H. destruct (all_order a) as [_ [_ [_ [A _]]]]. destruct (A a H) as [H2 _]. congruence.
Qed.
Print Assumptions C07_irrefl.

Theorem C07_trans : forall a b c, vlt a b = Some true -> vlt b c = Some true -> vlt a c = Some true.
Proof. intros a. destruct (all_order a) as [_ [_ [T _]]]. exact T. Qed.
Print Assumptions C07_trans.

(* exactly one of a<b, a==b, b<a (with C07_asym): if neither is less they are equal *)
Theorem C07_trichotomy : forall a b, nan_free a = true -> nan_free b = true ->
  vlt a b = Some false -> vlt b a = Some false -> veq a b = true.
Proof. intros a. destruct (all_order a) as [_ [_ [_ [_ T]]]]. exact T. Qed.
Print Assumptions C07_trichotomy.

(* < respects == on both sides *)
Theorem C07_congruence : forall a b c, veq a b = true -> vlt a c = vlt b c /\ vlt c a = vlt c b.
Proof.
  intros a b c E. split.
  - destruct (all_order a) as [CL _]. apply CL. exact E.
  - destruct (all_order c) as [_ [CR _]]. apply CR. exact E.
Qed.
Print Assumptions C07_congruence.

(* characterisations per kind *)
Theorem C07_num : forall a b x y, rank a = Some x -> rank b = Some y ->
  vlt a b = Some (match exr_cmp x y with Lt => true | _ => false end).
Proof.
  intros a b x y Ha Hb. destruct a; try discriminate; destruct b; try discriminate; cbn [vlt]; unfold num_cmp;
    rewrite Ha, Hb; destruct (exr_cmp x y); reflexivity.
Qed.
Print Assumptions C07_num.

Theorem C07_bool : forall x y, vlt (DBool x) (DBool y) = Some true <-> x = false /\ y = true.
Proof. intros [] []; cbn; split; intros H; try discriminate; try tauto; destruct H; discriminate. Qed.
Print Assumptions C07_bool.

Theorem C07_str_prefix : forall s t, t <> [] -> vlt (DStr s) (DStr (s ++ t)) = Some true.
Proof. intros s t H. cbn. rewrite str_ltb_prefix by exact H. reflexivity. Qed.
Print Assumptions C07_str_prefix.

Theorem C07_str_first_difference : forall p x y s t, x < y -> vlt (DStr (p ++ x :: s)) (DStr (p ++ y :: t)) = Some true.
Proof. intros. cbn. rewrite str_ltb_first_diff by assumption. reflexivity. Qed.
Print Assumptions C07_str_first_difference.

Theorem C07_date : forall s t, vlt (DDate s) (DDate t) = Some (s <? t).
Proof. reflexivity. Qed.
Print Assumptions C07_date.

Theorem C07_list : forall x l y m,
  vlt (DList (x :: l)) (DList (y :: m)) = if veq x y then vlt (DList l) (DList m) else vlt x y.
Proof. intros. rewrite !vlt_list. reflexivity. Qed.
Print Assumptions C07_list.

Theorem C07_list_prefix : forall y m, vlt (DList []) (DList (y :: m)) = Some true /\ vlt (DList (y :: m)) (DList []) = Some false.
Proof. split; reflexivity. Qed.
Print Assumptions C07_list_prefix.

(* <=, >, >=, compare are consistent with < and == *)
Theorem C07_derived : forall a b lt, vlt a b = Some lt ->
  vle a b = Some (lt || veq a b) /\ vgt a b = Some (negb lt && negb (veq a b)) /\ vge a b = Some (negb lt) /\
  vcompare a b = Some (if lt then -1 else if veq a b then 0 else 1).
Proof.
  intros a b lt H. unfold vcompare, vle, vgt, vge. rewrite H. cbn [option_map]. repeat split.
  destruct lt; [reflexivity|]. cbn [negb andb]. destruct (veq a b); reflexivity.
Qed.
Print Assumptions C07_derived.

(* sorted: an ordered permutation of its input that keeps equal keys in their original order,
   for every comparison that is asymmetric (lists of any length) *)
Theorem C07_sorted_permutation : forall (A : Type) (lt : A -> A -> bool) l, Permutation l (sorted lt l).
Proof. exact @sorted_perm. Qed.
Print Assumptions C07_sorted_permutation.

Theorem C07_sorted_ordered : forall (A : Type) (lt : A -> A -> bool),
  (forall a b, lt a b = true -> lt b a = false) ->
  forall l, Sorted (fun a b => lt b a = false) (sorted lt l).
Proof. exact @sorted_ordered. Qed.
Print Assumptions C07_sorted_ordered.

Theorem C07_sorted_stable : forall (A : Type) (lt : A -> A -> bool) (p : A -> bool) l,
  (forall a b, p a = true -> p b = true -> lt a b = false) ->
  filter p (sorted lt l) = filter p l.
Proof. exact @sorted_stable. Qed.
Print Assumptions C07_sorted_stable.

Definition lt_of (a b : dval) : bool := match vlt a b with Some true => true | _ => false end.
Example C07_ex :
  vlt (DStr [97]) (DStr [97; 32; 98]) = Some true /\ vlt (DBool true) (DBool false) = Some false /\
  vlt (DInt (2 ^ 53 + 1)) (DDec (Z2F (2 ^ 53))) = Some false /\ vlt (DDec (Z2F (2 ^ 53))) (DInt (2 ^ 53 + 1)) = Some true /\
  sorted lt_of [DInt 3; DDec (Z2F 1); DInt 1; DInt 2] = [DDec (Z2F 1); DInt 1; DInt 2; DInt 3].
Proof. vm_compute. repeat split; reflexivity. Qed.
