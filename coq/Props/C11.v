(* C11 - require binds exactly the requested names and evaluates each module once.
   Statements only; proofs in Proofs/SessionProofs.v over the hand model Model/Session.v, tied to NodeRequire.evaluate by
   the correspondence run of checks/C11.py (generated module graphs on disk, every import form). *)
From Coq Require Import ZArith List Bool.
From Ckl Require Import Model.Session Proofs.SessionProofs Proofs.SessionFuel.
Import ListNotations.
Open Scope Z_scope.

(* the completed loads are exactly the cached modules, each recorded once - preserved by every require,
   from wherever and however often it is issued (nested, repeated, failing, cyclic) *)
Theorem C11_module_runs_once : forall fuel p g m, once g -> no_fuel (snd (req fuel p g m)) -> once (fst (req fuel p g m)).
Proof. exact req_once. Qed.
Print Assumptions C11_module_runs_once.

(* while a module is being loaded nothing underneath loads it again: a cycle is an error, not a second evaluation *)
Theorem C11_no_reentry : forall fuel p x g m, In x (stack g) -> no_fuel (snd (req fuel p g m)) -> frozen x g (fst (req fuel p g m)).
Proof. exact req_frozen. Qed.
Print Assumptions C11_no_reentry.

(* nothing but the requested names changes in the importer's scope *)
Theorem C11_binds_exactly : forall f m menv target n, ~ introduced f m menv n -> lookup n (bind f m menv target) = lookup n target.
Proof. exact bind_exact. Qed.
Print Assumptions C11_binds_exactly.

Theorem C11_require_binds_exactly : forall p f m s x,
  (forall menv, ~ introduced f m menv x) -> lookup x (senv (fst (run_cmd p (CReq f m) s))) = lookup x (senv s).
Proof. exact require_binds_exactly. Qed.
Print Assumptions C11_require_binds_exactly.

(* a name starting with an underscore is never exported: not by `unqualified`, not as a member of the module object *)
Theorem C11_private_never_exported : forall m menv target n, private n = true -> In n (dom menv) ->
  lookup n (bind FUnqual m menv target) = lookup n target /\ ~ In n (dom (exports_of menv)).
Proof. exact private_never_exported. Qed.
Print Assumptions C11_private_never_exported.

Theorem C11_members_public : forall menv n z, lookup n (exports_of menv) = Some z -> private n = false.
Proof. exact exports_public. Qed.
Print Assumptions C11_members_public.

(* require terminates on every module graph, cyclic or not: with more fuel than there are module files not yet being loaded
   the loader returns a module or an error - a cycle of requires is reported instead of looping *)
Theorem C11_loader_terminates : forall p fuel g m, (free p (stack g) < fuel)%nat -> no_fuel (snd (req fuel p g m)).
Proof. exact req_enough_fuel. Qed.
Print Assumptions C11_loader_terminates.

(* a cycle of requires is reported as an error; both modules stay unloaded *)
Example C11_cycle_is_error :
  let p := [(1, mk_mod true [MLog; MReq (FQual None) 2]); (2, mk_mod true [MLog; MReq (FQual None) 1])] in
  let r := run_cmd p (CReq (FQual None) 1) s_init in
  snd r = RErr 5 /\ cache (genv (fst r)) = [] /\ stack (genv (fst r)) = [].
Proof. vm_compute. repeat split. Qed.

(* a module that handles failing requires itself (MTry: def x = do require M; 1 catch all 0 end): A requires B; B tries A, then C; C requires B.
   Both guarded requires fail with the cycle error (x = 0), every module's code starts once, B and A complete, the stack is empty again *)
Example C11_guarded_requires_in_a_cycle :
  let p := [(1, mk_mod true [MLog; MReq (FQual None) 2; MDef 5 1]); (2, mk_mod true [MLog; MTry (FQual None) 1 0; MTry (FQual None) 3 1; MDef 2 7]);
            (3, mk_mod true [MLog; MReq (FQual None) 2])] in
  let '(g, r) := req FUEL p g_init 1 in
  (log g, done g, stack g, r) = ([1; 2; 3], [2; 1], [], ROk [(1002, SMod 2 [(0, 0); (1, 0); (2, 7)]); (5, SInt 1)]).
Proof. vm_compute. reflexivity. Qed.
