(* C19 - collection and numeric library functions satisfy their defining laws.
   Statements only; proofs in Proofs/CollProofs.v.  The [sp_*] and [w_*] functions (Model/Coll.v)
   are the textbook definitions / the natives statement by statement; the library (partly written
   in the language) is tied to them by the correspondence run of checks/C19.py. *)
From Coq Require Import ZArith List Bool Permutation.
From Ckl Require Import Prelude.PyPrelude Model.Values Model.Containers Model.Sorting Model.Coll Proofs.EqProofs Proofs.CollProofs.
Import ListNotations.
Open Scope Z_scope.

(* union, intersection, diff, symmetric_diff are the set-theoretic operations (membership up to ==,
   results duplicate-free) *)
Theorem C19_union : forall x a b, set_mem x (sp_union a b) = set_mem x a || set_mem x b.
Proof. exact union_mem. Qed.
Print Assumptions C19_union.
Theorem C19_intersection : forall x a b, set_mem x (sp_intersection a b) = set_mem x a && set_mem x b.
Proof. exact intersection_mem. Qed.
Print Assumptions C19_intersection.
Theorem C19_diff : forall x a b, set_mem x (sp_diff a b) = set_mem x a && negb (set_mem x b).
Proof. exact diff_mem. Qed.
Print Assumptions C19_diff.
Theorem C19_symmetric_diff : forall x a b, set_mem x (sp_symdiff a b) = xorb (set_mem x a) (set_mem x b).
Proof. exact symdiff_mem. Qed.
Print Assumptions C19_symmetric_diff.
Theorem C19_set_results_nodup : forall a b,
  nodupv (sp_union a b) = true /\ nodupv (sp_intersection a b) = true /\
  nodupv (sp_diff a b) = true /\ nodupv (sp_symdiff a b) = true.
Proof. exact set_results_nodup. Qed.
Print Assumptions C19_set_results_nodup.

(* unique keeps the first of each group of equal elements, in order *)
Theorem C19_unique : forall l,
  nodupv (sp_unique l) = true /\ (forall x, set_mem x (sp_unique l) = set_mem x l) /\ subseq (sp_unique l) l.
Proof. intros l. split; [apply unique_nodup|]. split; [intros x; apply unique_mem|apply unique_subseq]. Qed.
Print Assumptions C19_unique.

(* structural laws *)
Theorem C19_reverse_involution : forall l : list dval, rev (rev l) = l.
Proof. exact (@rev_involutive dval). Qed.
Print Assumptions C19_reverse_involution.
Theorem C19_zip : forall a b,
  length (sp_zip a b) = Nat.min (length a) (length b) /\
  forall i x y, nth_error a i = Some x -> nth_error b i = Some y -> nth_error (sp_zip a b) i = Some (DList [x; y]).
Proof. intros a b. split; [apply zip_length|apply zip_nth]. Qed.
Print Assumptions C19_zip.
Theorem C19_range_up : forall a b step, 0 < step ->
  let r := sp_range a b step in
  (forall i, (i < length r)%nat -> nth_error r i = Some (a + Z.of_nat i * step)) /\
  (forall k, 0 <= k -> (a + k * step < b <-> (Z.to_nat k < length r)%nat)).
Proof. exact range_pos. Qed.
Print Assumptions C19_range_up.
Theorem C19_range_down : forall a b step, step < 0 ->
  let r := sp_range a b step in
  (forall i, (i < length r)%nat -> nth_error r i = Some (a + Z.of_nat i * step)) /\
  (forall k, 0 <= k -> (b < a + k * step <-> (Z.to_nat k < length r)%nat)).
Proof. exact range_neg. Qed.
Print Assumptions C19_range_down.
Theorem C19_interval : forall a b, sp_interval a b = sp_range a (b + 1) 1.
Proof. exact interval_is_range. Qed.
Print Assumptions C19_interval.
Theorem C19_chunks : forall n l, (0 < n)%nat ->
  concat (sp_chunks n l) = l /\ forall c, In c (removelast (sp_chunks n l)) -> length c = n.
Proof. intros n l H. split; [apply chunks_concat; exact H|apply chunks_sizes; exact H]. Qed.
Print Assumptions C19_chunks.
Theorem C19_pairs : forall l,
  length (sp_pairs l) = pred (length l) /\
  forall i x y, nth_error l i = Some x -> nth_error l (S i) = Some y -> nth_error (sp_pairs l) i = Some (DList [x; y]).
Proof. intros l. split; [apply pairs_length|apply pairs_nth]. Qed.
Print Assumptions C19_pairs.
Theorem C19_grouped_concat : forall l, concat (sp_grouped l) = l.
Proof. exact grouped_concat. Qed.
Print Assumptions C19_grouped_concat.

(* permutation invariance (ints) *)
Theorem C19_sum_perm : forall l1 l2, Permutation l1 l2 -> sp_sum l1 = sp_sum l2.
Proof. exact sum_perm. Qed.
Print Assumptions C19_sum_perm.
Theorem C19_min_max_perm : forall l1 l2, Permutation l1 l2 -> sp_min l1 = sp_min l2 /\ sp_max l1 = sp_max l2.
Proof. intros l1 l2 P. split; [apply min_perm|apply max_perm]; exact P. Qed.
Print Assumptions C19_min_max_perm.
Theorem C19_median_perm : forall l1 l2, Permutation l1 l2 ->
  sp_median_low l1 = sp_median_low l2 /\ sp_median_high l1 = sp_median_high l2.
Proof. exact median_perm. Qed.
Print Assumptions C19_median_perm.

(* exact integer functions *)
Theorem C19_gcd : forall a b, sp_gcd a b = Z.gcd a b.
Proof. exact gcd_exact. Qed.
Print Assumptions C19_gcd.
Theorem C19_lcm : forall a b, sp_lcm a b = Z.lcm a b.
Proof. exact lcm_exact. Qed.
Print Assumptions C19_lcm.
Theorem C19_sign : forall n, sp_sign n = Z.sgn n.
Proof. exact sign_spec. Qed.
Print Assumptions C19_sign.

(* 32-bit words *)
Theorem C19_bit_not : forall a, word a -> w_not a = 2 ^ 32 - 1 - a.
Proof. exact w_not_spec. Qed.
Print Assumptions C19_bit_not.
Theorem C19_bit_shift_left : forall a n, 0 <= a -> 0 <= n -> w_shl a n = (a * 2 ^ n) mod 2 ^ 32.
Proof. exact w_shl_spec. Qed.
Print Assumptions C19_bit_shift_left.
Theorem C19_bit_shift_right : forall a n, 0 <= n -> w_shr a n = a / 2 ^ n.
Proof. exact w_shr_spec. Qed.
Print Assumptions C19_bit_shift_right.
Theorem C19_bit_rotate_left : forall a n i, word a -> 0 <= i ->
  Z.testbit (w_rotl a n) i = if i <? 32 then Z.testbit a ((i - n) mod 32) else false.
Proof. exact w_rotl_spec. Qed.
Print Assumptions C19_bit_rotate_left.
Theorem C19_bit_rotate_right : forall a n i, word a -> 0 <= i ->
  Z.testbit (w_rotr a n) i = if i <? 32 then Z.testbit a ((i + n) mod 32) else false.
Proof. exact w_rotr_spec. Qed.
Print Assumptions C19_bit_rotate_right.
Theorem C19_bit_logic : forall a b i,
  Z.testbit (w_and a b) i = (Z.testbit a i && Z.testbit b i) /\
  Z.testbit (w_or a b) i = (Z.testbit a i || Z.testbit b i) /\
  Z.testbit (w_xor a b) i = xorb (Z.testbit a i) (Z.testbit b i).
Proof. exact w_logic_spec. Qed.
Print Assumptions C19_bit_logic.

Example C19_ex :
  sp_range 10 0 (-2) = [10; 8; 6; 4; 2] /\ sp_range 0 10 3 = [0; 3; 6; 9] /\ sp_gcd 4 (-6) = 2 /\ sp_lcm 4 (-6) = 12 /\
  w_rotl (2 ^ 31) 1 = 1 /\ w_shl 1 40 = 0 /\ w_rotr 1 40 = 2 ^ 24 /\
  sp_unique [DInt 1; DInt 4; DDec (Z2F 1); DInt 4] = [DInt 1; DInt 4] /\
  sp_median_low [5; 1; 3] = Some 3 /\ sp_median_low [1; 7; 5; 3] = Some 3 /\ sp_median_high [1; 7; 5; 3] = Some 5.
Proof. vm_compute. repeat split; reflexivity. Qed.
