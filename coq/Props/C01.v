(* C01 - parsing is total.
   Statements only; proofs in Proofs/LexProofs.v.  [lex_step] is GENERATED from Lexer.scan on every run: the only
   outcomes of the scanner model are a token list or a lexical (syntax) error - a host exception is not a possible
   outcome of the generated step, whose partial host operations (int(.., 16), chr) are guarded in the source and
   translated as total functions only under those guards (the translator rejects any other shape).  The parser is not
   modelled: its totality is decided by the enumeration of checks/C01.py on the implementation (C01_parse_partial). *)
From Coq Require Import ZArith List Bool.
From Ckl Require Import Prelude.PyPrelude Prelude.LexPrelude Gen.LexGen Model.LexRun Proofs.LexProofs.
Import ListNotations.
Open Scope Z_scope.

(* the scanner terminates on every text: at most three steps per character *)
Theorem C01_lex_total : forall src, lex src <> LexFuel.
Proof. exact lex_total. Qed.
Print Assumptions C01_lex_total.

Theorem C01_lex_progress : forall s ch, step_ok s ch.
Proof. exact step_shape. Qed.
Print Assumptions C01_lex_progress.

(* hence for every text the scanner yields tokens or a syntax error *)
Theorem C01_lex_outcomes : forall src, (exists toks, lex src = LexOk toks) \/ (exists l, lex src = LexErr l).
Proof.
  intros src. pose proof (lex_total src) as T. destruct (lex src) as [ts|l|]; [left; eauto|right; eauto|congruence].
Qed.
Print Assumptions C01_lex_outcomes.
