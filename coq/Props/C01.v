(* C01 - parsing is total.
   Statements only; proofs in Proofs/LexProofs.v.  [lex_step] is GENERATED from Lexer.scan on every run: the only
   outcomes of the scanner model are a token list or a lexical (syntax) error - a host exception is not a possible
   outcome of the generated step, whose partial host operations (int(.., 16), chr) are guarded in the source and
   translated as total functions only under those guards (the translator rejects any other shape).  Of the parser the
   operator core (parse_expression .. parse_primary_expr with calls, over int / boolean / identifier / ( ) , and the
   arithmetic, comparison and boolean operators) has a hand model, Model/ExprParse.v, tied to parse_script by the
   correspondence of checks/C02.py: C01_parse_core_total.  The rest of the parser is not modelled: its totality is decided by
   the enumeration of checks/C01.py on the implementation (C01_parse_partial). *)
From Coq Require Import ZArith List Bool.
From Ckl Require Import Prelude.PyPrelude Prelude.LexPrelude Gen.LexGen Model.LexRun Proofs.LexProofs Model.ExprParse Proofs.ExprParseTotal Proofs.ExprParseFuel.
Import ListNotations.
Open Scope Z_scope.

(* the scanner terminates on every text: at most three steps per character *)
Theorem C01_lex_total : forall src, lex src <> LexFuel.
Proof. exact lex_total. Qed.
Print Assumptions C01_lex_total.

Theorem C01_lex_progress : forall s ch, step_ok s ch.
Proof. exact step_shape. Qed.
Print Assumptions C01_lex_progress.

(* hence for every text the scanner yields tokens or a syntax error *)
Theorem C01_lex_outcomes : forall src, (exists toks, lex src = LexOk toks) \/ (exists l, lex src = LexErr l).
Proof.
  intros src. pose proof (lex_total src) as T. destruct (lex src) as [ts|l|]; [left; eauto|right; eauto|congruence].
Qed.
Print Assumptions C01_lex_outcomes.

(* the operator core of the recursive-descent parser terminates on every token list: neither a loop of a precedence level nor the
   nesting of parentheses and call arguments can run on without consuming input *)
Theorem C01_parse_core_total : forall ts, (exists e, parse ts = Ok e []) \/ parse ts = Err.
Proof.
  intros ts. pose proof (parse_total ts) as T. destruct (parse ts) as [e r| |] eqn:E; [left|right; reflexivity|congruence].
  exists e. rewrite (parse_consumes ts e r E). reflexivity.
Qed.
Print Assumptions C01_parse_core_total.

(* each level of the grammar consumes at least one token when it succeeds (the reason why the loops end) *)
Theorem C01_parse_core_progress : forall n ts e r, p_prim n ts = Ok e r -> (length r < length ts)%nat.
Proof. exact p_prim_prog. Qed.
Print Assumptions C01_parse_core_progress.

(* the answer does not depend on the amount of fuel, as long as there is more of it than tokens: [parse] is a function of the token list *)
Theorem C01_parse_core_fuel_irrelevant : forall n ts, (length ts < n)%nat -> parse_fuel n ts = parse ts.
Proof. exact parse_fuel_irrelevant. Qed.
Print Assumptions C01_parse_core_fuel_irrelevant.

Example C01_parse_core_ex :
  parse [TInt 1; TPlus; TLP; TId 0; TLP; TInt 2; TComma; TInt 3; TRP; TRP] = Ok (EBin 0 (EInt 1) (ECall (EVar 0) [EInt 2; EInt 3])) []
  /\ parse [TInt 1; TPlus; TLP; TId 0] = Err /\ parse [TLP; TLP; TLP] = Err /\ parse [TInt 1; TInt 2] = Err.
Proof. repeat split; reflexivity. Qed.
