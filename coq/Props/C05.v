(* C05 - errors reach the nearest matching handler and finally runs exactly once.
   Statements only; proofs in Proofs/EvalProofs.v.  [block_sem run_seq try_catches run_finally]
   (Model/Eval.v) are the hand model of NodeBlock.evaluate / NodeError.evaluate, parametric in the
   meaning [ev] of the statements, handlers and finally parts: every theorem holds for every body,
   every nesting and every handler.  Tied to the code by the correspondence run. *)
From Coq Require Import ZArith List Bool.
From Ckl Require Import Prelude.PyPrelude Model.Eval Proofs.EvalProofs.
Import ListNotations.

(* finally runs exactly once whenever the block is left (value, return, break, continue, error caught or not) *)
Theorem C05_finally_exactly_once : forall ev st env body catches fin,
  block_sem ev st env body catches fin =
  let '(st1, o1) := run_seq ev st env body vtrue in
  if is_artefact o1 then (st1, o1) else     (* out of fuel / outside the modelled fragment: not outcomes of the code *)
  let '(st2, o2) := match o1 with OErr v => try_catches ev st1 env v catches | _ => (st1, o1) end in
  if is_artefact o2 then (st2, o2) else
  let '(st3, f) := run_finally ev st2 env fin in
  (st3, match f with Some bad => bad | None => o2 end).
Proof. exact finally_exactly_once. Qed.
Print Assumptions C05_finally_exactly_once.

(* no statement after the failing one in a block runs *)
Theorem C05_no_later_statement : forall ev st env pre e post last st1 v1 st2 o,
  run_seq ev st env pre last = (st1, OV v1) -> ev st1 env e = (st2, o) -> is_val o = false ->
  run_seq ev st env (pre ++ e :: post) last = (st2, o).
Proof. exact no_later_statement. Qed.
Print Assumptions C05_no_later_statement.

(* the innermost enclosing catch whose value equals the error value (or catch all) handles the error,
   handlers being tried in order; its result becomes the value of the block *)
Theorem C05_catch_all : forall ev st env v h t, try_catches ev st env v ((None, h) :: t) = ev st env h.
Proof. exact catch_all. Qed.
Print Assumptions C05_catch_all.
Theorem C05_catch_match : forall ev st env v c h t st1 w,
  ev st env c = (st1, OV w) -> veqV st1 v w = Some true ->
  try_catches ev st env v ((Some c, h) :: t) = ev st1 env h.
Proof. exact catch_match. Qed.
Print Assumptions C05_catch_match.
Theorem C05_catch_skip : forall ev st env v c h t st1 w,
  ev st env c = (st1, OV w) -> veqV st1 v w = Some false ->
  try_catches ev st env v ((Some c, h) :: t) = try_catches ev st1 env v t.
Proof. exact catch_skip. Qed.
Print Assumptions C05_catch_skip.
Theorem C05_handler_value : forall ev st env body catches fin st1 v st2 o2 st3,
  run_seq ev st env body vtrue = (st1, OErr v) ->
  try_catches ev st1 env v catches = (st2, o2) -> is_artefact o2 = false ->
  run_finally ev st2 env fin = (st3, None) ->
  block_sem ev st env body catches fin = (st3, o2).
Proof. exact caught_error_value. Qed.
Print Assumptions C05_handler_value.

(* an unmatched error continues outward unchanged (and, never caught, is the outcome of the program) *)
Theorem C05_unmatched_continues : forall ev v st env catches st',
  all_skip ev v st env catches st' -> try_catches ev st env v catches = (st', OErr v).
Proof. exact unmatched_error_continues. Qed.
Print Assumptions C05_unmatched_continues.

(* return / break / continue leave the block unchanged, after finally *)
Theorem C05_exits_pass_through : forall ev st env body catches fin st1 o st3,
  run_seq ev st env body vtrue = (st1, o) -> is_fun_exit o = true ->
  run_finally ev st1 env fin = (st3, None) ->
  block_sem ev st env body catches fin = (st3, o).
Proof. exact block_passes_exits. Qed.
Print Assumptions C05_exits_pass_through.

Theorem C05_finally_error_replaces : forall ev st env body catches fin st1 o1 st2 o2 st3 bad,
  run_seq ev st env body vtrue = (st1, o1) -> is_artefact o1 = false ->
  (match o1 with OErr v => try_catches ev st1 env v catches | _ => (st1, o1) end) = (st2, o2) -> is_artefact o2 = false ->
  run_finally ev st2 env fin = (st3, Some bad) ->
  block_sem ev st env body catches fin = (st3, bad).
Proof. exact finally_error_replaces. Qed.
Print Assumptions C05_finally_error_replaces.
