(* C03 - names resolve lexically and calls bind arguments as declared.
   Statements only; proofs in Proofs/EvalProofs.v, Proofs/ArgsProofs.v.  [env_put env_set env_find
   call_closure set_args bind_named bind_positional] (Model/Eval.v) are hand models of Environment,
   FuncLambda.execute and Args.setArgs.  The full declarative binding rule is stated through its
   step lemmas (C03_setargs_partial); tied to the code by the correspondence run. *)
From Coq Require Import ZArith List Bool.
From Ckl Require Import Prelude.PyPrelude Model.Values Model.Eval Proofs.EvalProofs Proofs.ArgsProofs.
Import ListNotations.

(* every call gets a fresh frame whose parent is the frame in which the function was created; the
   caller's frame does not occur in the meaning of the call at all *)
Theorem C03_fresh_frame_lexical_parent : forall ev st params body lex nvs bound rest,
  set_args (map fst params) nvs = Some (bound, rest) ->
  call_closure ev st params body lex nvs =
  let fr := length st in
  let st1 := st ++ [CFrame [] (Some lex)] in
  let '(st2, bad) := bind_params ev st1 fr params bound rest in
  match bad with
  | Some o => (st2, o)
  | None => let '(st3, o) := ev st2 fr body in
            (st3, match o with ORet v => OV v | OBrk | OCont => oerr | o => o end)
  end.
Proof. exact call_fresh_frame. Qed.
Print Assumptions C03_fresh_frame_lexical_parent.

(* def binds in the current frame only *)
Theorem C03_def_local : forall st env x v l, l <> env -> rd (env_put st env x v) l = rd st l.
Proof. exact env_put_frame. Qed.
Print Assumptions C03_def_local.
Theorem C03_def_binds : forall st env x v bs p,
  rd st env = Some (CFrame bs p) -> rd (env_put st env x v) env = Some (CFrame (assoc_set x v bs) p).
Proof. exact env_put_binds. Qed.
Print Assumptions C03_def_binds.

(* assignment updates the nearest enclosing binding and never creates one *)
Theorem C03_assign_never_creates : forall st env x v, env_defined st env x = false -> env_set st env x v = None.
Proof. exact assign_never_creates. Qed.
Print Assumptions C03_assign_never_creates.
Theorem C03_assign_nearest : forall st env x v st',
  env_set st env x v = Some st' ->
  exists fr, env_find (S (length st)) st env x = Some fr /\ st' = env_put st fr x v /\
             forall l, l <> fr -> rd st' l = rd st l.
Proof. exact assign_nearest. Qed.
Print Assumptions C03_assign_nearest.
Theorem C03_nearest_frame : forall fuel st env x fr,
  env_find fuel st env x = Some fr ->
  (fr = env /\ exists bs p, rd st env = Some (CFrame bs p) /\ assoc_get x bs <> None) \/
  (exists bs p fuel', rd st env = Some (CFrame bs (Some p)) /\ assoc_get x bs = None /\ env_find fuel' st p x = Some fr).
Proof. exact env_find_nearest. Qed.
Print Assumptions C03_nearest_frame.

(* argument binding: the steps of the declared rule *)
Theorem C03_setargs_partial_unknown_name : forall argNames n v t b,
  existsb (str_eqb n) argNames = false -> bind_named argNames ((Some n, v) :: t) b = None.
Proof. exact unknown_name_error. Qed.
Print Assumptions C03_setargs_partial_unknown_name.
Theorem C03_setargs_partial_named_first : forall argNames n v t b,
  existsb (str_eqb n) argNames = true ->
  bind_named argNames ((Some n, v) :: t) b = bind_named argNames t (assoc_set n v b).
Proof. exact named_first. Qed.
Print Assumptions C03_setargs_partial_named_first.
Theorem C03_setargs_partial_positional_after_named : forall argNames hasRest v t bound rest,
  bind_positional argNames hasRest ((None, v) :: t) true bound rest = None.
Proof. exact positional_after_named_error. Qed.
Print Assumptions C03_setargs_partial_positional_after_named.
Theorem C03_setargs_partial_positional_in_order : forall argNames hasRest v t bound rest a,
  next_positional argNames bound = Some a ->
  bind_positional argNames hasRest ((None, v) :: t) false bound rest =
  bind_positional argNames hasRest t false (assoc_set a v bound) rest.
Proof. exact positional_to_next_free. Qed.
Print Assumptions C03_setargs_partial_positional_in_order.
Theorem C03_setargs_partial_first_free : forall argNames bound a,
  next_positional argNames bound = Some a ->
  exists pre post, argNames = pre ++ a :: post /\ assoc_get a bound = None /\
                   forall p, In p pre -> assoc_get p bound <> None.
Proof. exact next_positional_spec. Qed.
Print Assumptions C03_setargs_partial_first_free.
Theorem C03_setargs_partial_surplus : forall argNames v t bound rest,
  next_positional argNames bound = None ->
  bind_positional argNames true ((None, v) :: t) false bound rest = bind_positional argNames true t false bound (rest ++ [v]) /\
  bind_positional argNames false ((None, v) :: t) false bound rest = None.
Proof. exact surplus_to_rest. Qed.
Print Assumptions C03_setargs_partial_surplus.
