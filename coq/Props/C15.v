(* C15 - indexing, slicing and sub-sequence functions follow the sequence model.
   Statements only; proofs in Proofs/SeqProofs.v.  [deref slice substr find_list
   find_last_list insert_at delete_at find_str find_last_str] (Model/SeqModel.v)
   mirror the Python code and are tied to it by the correspondence run;
   [run clamp norm_idx occurs_at] are the specification side. *)
From Coq Require Import String.
From Coq Require Import ZArith List Bool Lia.
From Ckl Require Import Prelude.PyPrelude Model.SeqModel Proofs.SeqProofs.
Import ListNotations.
Open Scope Z_scope.

(* s[i]: the element at i (negative i counting from the end) ... *)
Theorem C15_index_in_range : forall (A : Type) (s : list A) i,
  - zlen s <= i < zlen s ->
  exists x, deref s i = Ok x /\ nth_error s (Z.to_nat (i mod zlen s)) = Some x.
Proof. exact @deref_in_range. Qed.
Print Assumptions C15_index_in_range.

(* ... or the language's runtime error when out of range (never a host exception) *)
Theorem C15_index_out_of_range : forall (A : Type) (s : list A) i,
  ~ (- zlen s <= i < zlen s) -> deref s i = LangErr "Index out of bounds".
Proof. exact @deref_out_of_range. Qed.
Print Assumptions C15_index_out_of_range.

(* s[a to b] is exactly the contiguous run between the clamped bounds *)
Theorem C15_slice : forall (A : Type) (s : list A) a b,
  let n := zlen s in
  slice s a b = run s (clamp n (norm_idx n a)) (clamp n (norm_idx n (bound_or_len n b))).
Proof. exact @slice_spec. Qed.
Print Assumptions C15_slice.

(* element j of the slice is element lo + j of s: contiguous, never wrapping around *)
Theorem C15_slice_elements : forall (A : Type) (s : list A) a b (j : nat),
  let n := zlen s in
  let lo := clamp n (norm_idx n a) in
  let hi := clamp n (norm_idx n (bound_or_len n b)) in
  Z.of_nat j < hi - lo -> nth_error (slice s a b) j = nth_error s (Z.to_nat lo + j).
Proof. exact @slice_nth. Qed.
Print Assumptions C15_slice_elements.

(* empty when the bounds cross *)
Theorem C15_slice_length : forall (A : Type) (s : list A) a b,
  let n := zlen s in
  zlen (slice s a b) = Z.max 0 (clamp n (norm_idx n (bound_or_len n b)) - clamp n (norm_idx n a)).
Proof. exact @slice_length. Qed.
Print Assumptions C15_slice_length.

(* substr and sublist compute the same run as the slice form *)
Theorem C15_substr_sublist : forall (A : Type) (s : list A) a b, substr s a b = slice s a b.
Proof. exact @substr_is_slice. Qed.
Print Assumptions C15_substr_sublist.

(* s[0 to k] + s[k to *] == s for every integer k *)
Theorem C15_concat : forall (A : Type) (s : list A) k, slice s 0 (Some k) ++ slice s k None = s.
Proof. exact @slice_concat. Qed.
Print Assumptions C15_concat.

(* find on strings: -1 iff the part does not occur, else the first occurrence *)
Theorem C15_find_str : forall s p : str,
  let r := find_str s p in
  (r = -1 /\ forall k, ~ occurs_at p s k) \/
  (0 <= r /\ occurs_at p s r /\ forall k, 0 <= k < r -> ~ occurs_at p s k).
Proof. exact find_str_spec. Qed.
Print Assumptions C15_find_str.

(* find_last on strings (default start): -1 iff no occurrence, else the last one *)
Theorem C15_find_last_str : forall s p : str,
  s <> [] ->
  let r := find_last_str s p None in
  (r = -1 /\ forall k, occurs_at p s k -> ~ (k <= zlen s - 1)) \/
  (0 <= r /\ occurs_at p s r /\ r <= zlen s - 1 /\ forall k, r < k <= zlen s - 1 -> ~ occurs_at p s k).
Proof. exact find_last_str_spec. Qed.
Print Assumptions C15_find_last_str.

(* find / find_last on lists *)
Theorem C15_find_list : forall (A : Type) (eqb : A -> A -> bool) (l : list A) item,
  let r := find_list eqb l item in
  (r = -1 /\ forall x, In x l -> eqb x item = false) \/
  (0 <= r < zlen l /\ exists x, nth_error l (Z.to_nat r) = Some x /\ eqb x item = true /\
     forall j y, (j < Z.to_nat r)%nat -> nth_error l j = Some y -> eqb y item = false).
Proof. exact @find_list_spec. Qed.
Print Assumptions C15_find_list.

Theorem C15_find_last_list : forall (A : Type) (eqb : A -> A -> bool) (l : list A) item,
  let r := find_last_list eqb l item None in
  (r = -1 /\ forall x, In x l -> eqb x item = false) \/
  (0 <= r < zlen l /\ exists x, nth_error l (Z.to_nat r) = Some x /\ eqb x item = true /\
     forall j y, (Z.to_nat r < j)%nat -> nth_error l j = Some y -> eqb y item = false).
Proof. exact @find_last_list_spec. Qed.
Print Assumptions C15_find_last_list.

(* insert_at / delete_at change exactly one position, or nothing when out of range *)
Theorem C15_insert_at : forall (A : Type) (l : list A) index v,
  let n := zlen l in
  let j := if index <? 0 then n + index + 1 else index in
  (0 <= j <= n -> insert_at l index v = firstn (Z.to_nat j) l ++ v :: skipn (Z.to_nat j) l) /\
  (~ (0 <= j <= n) -> insert_at l index v = l).
Proof. exact @insert_at_spec. Qed.
Print Assumptions C15_insert_at.

Theorem C15_delete_at : forall (A : Type) (l : list A) index,
  let n := zlen l in
  let j := if index <? 0 then n + index else index in
  (0 <= j < n -> exists x, nth_error l (Z.to_nat j) = Some x /\
      delete_at l index = Ok (firstn (Z.to_nat j) l ++ skipn (Z.to_nat j + 1) l, Some x)) /\
  (~ (0 <= j < n) -> delete_at l index = Ok (l, None)).
Proof. exact @delete_at_spec. Qed.
Print Assumptions C15_delete_at.

(* non-vacuity: concrete instances of the hypotheses / both branches *)
Example C15_ex1 : slice [1;2;3;4] 0 (Some (-7)) = [] /\ slice [1;2;3;4] (-3) (Some 9) = [2;3;4]
  /\ substr [1;2;3;4] (-6) None = [1;2;3;4] /\ deref [7;8;9] (-1) = Ok 9
  /\ find_last_str [97;98;99] [99] None = 2 /\ insert_at [1;2;3] (-5) 9 = [1;2;3]
  /\ delete_at [1;2;3] (-3) = Ok ([2;3], Some 1).
Proof. vm_compute. repeat split; reflexivity. Qed.
