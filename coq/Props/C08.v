(* C08 - rendering is canonical and data literals round-trip through print and parse.
   Statements only; proofs in Proofs/RenderProofs.v (against the scanner step GENERATED from Lexer.scan on every run)
   and Proofs/RenderCanon.v (hand model Model/Render.v of the __repr__ methods, tied by the correspondence run).
   Not a theorem: the parser/evaluator half of the round trip and the host's shortest-repr of decimals (enumeration on
   the implementation, checks/C08.py) - C08_round_trip_partial. *)
From Coq Require Import ZArith List Bool Permutation.
From Ckl Require Import Prelude.PyPrelude Prelude.LexPrelude Gen.LexGen Model.LexRun Model.Values Model.Arith Model.Sorting Model.Render
  Proofs.PermProofs Proofs.RenderProofs Proofs.RenderInt Proofs.RenderCanon.
Import ListNotations.
Open Scope Z_scope.

(* for EVERY string: the quoted, escaped text scans back to one string token holding exactly the original characters *)
Theorem C08_string_literal_round_trip : forall body : str, lex (render_string body) = LexOk [mk_tok body 2 1 1].
Proof. exact string_literal_round_trip. Qed.
Print Assumptions C08_string_literal_round_trip.

(* equal sets render identically whatever their internal order (for every rendering of decimals and dates) *)
Theorem C08_set_canonical : forall fr dr l1 l2, good l1 -> Permutation l1 l2 -> render fr dr (DSet l1) = render fr dr (DSet l2).
Proof. exact render_set_canonical. Qed.
Print Assumptions C08_set_canonical.

Theorem C08_map_canonical : forall fr dr l1 l2,
  good (map fst l1) -> NoDup (map fst l1) -> Permutation l1 l2 -> render fr dr (DMap l1) = render fr dr (DMap l2).
Proof. exact render_map_canonical. Qed.
Print Assumptions C08_map_canonical.

(* an int renders as an integer numeral whose value is the int *)
Theorem C08_int_numeral : forall n, 0 <= n -> digits_value 10 (int_str n) = n.
Proof. exact int_numeral_round_trip. Qed.
Print Assumptions C08_int_numeral.

(* ... and for EVERY n >= 0 the numeral scans back, through the generated scanner step, to one int token with the same digits *)
Theorem C08_int_literal_round_trip : forall n, 0 <= n -> lex (int_str n) = LexOk [mk_tok (int_str n) 3 1 1].
Proof. exact int_literal_round_trip. Qed.
Print Assumptions C08_int_literal_round_trip.

Theorem C08_int_numeral_negative : forall n, n < 0 -> int_str n = 45 :: int_str (- n).
Proof. exact int_numeral_negative. Qed.
Print Assumptions C08_int_numeral_negative.

(* the hypotheses are satisfiable: a set of three ints in two orders *)
Example C08_nonvacuous : good [DInt 3; DInt 1; DInt 2] /\ Permutation [DInt 3; DInt 1; DInt 2] [DInt 1; DInt 2; DInt 3].
Proof.
  split.
  - apply nodupv_good; [reflexivity| |].
    + intros a b Ha Hb. cbn in Ha, Hb. intuition (subst; discriminate).
    + intros a Ha. cbn in Ha. intuition (subst; reflexivity).
  - apply perm_trans with [DInt 1; DInt 3; DInt 2]; [apply perm_swap|]. apply perm_skip, perm_swap.
Qed.
