(* C04 - conditionals, loops, comprehensions and early exits have structured semantics.
   Statements only; proofs in Proofs/EvalProofs.v.  [if_sem for_sem loop_items while_sem call_closure]
   (Model/Eval.v) are hand models of NodeIf/NodeFor/NodeWhile/FuncLambda.execute, parametric in the
   meaning [ev] of conditions and bodies.  "A comprehension yields the same elements as the equivalent
   loop" is decided by the correspondence run only (C04_comprehension missing: partial). *)
From Coq Require Import ZArith List Bool.
From Ckl Require Import Prelude.PyPrelude Model.Eval Proofs.EvalProofs.
Import ListNotations.

(* if / elif / else evaluates exactly the first branch whose condition is TRUE *)
Theorem C04_if_true : forall ev st env c b t els st1,
  ev st env c = (st1, OV (VBool true)) -> if_sem ev st env ((c, b) :: t) els = ev st1 env b.
Proof. exact if_true. Qed.
Print Assumptions C04_if_true.
Theorem C04_if_false : forall ev st env c b t els st1,
  ev st env c = (st1, OV (VBool false)) -> if_sem ev st env ((c, b) :: t) els = if_sem ev st1 env t els.
Proof. exact if_false. Qed.
Print Assumptions C04_if_false.
Theorem C04_if_else : forall ev st env els, if_sem ev st env [] els = ev st env els.
Proof. exact if_else. Qed.
Print Assumptions C04_if_else.
Theorem C04_if_non_boolean : forall ev st env c b t els st1 v,
  ev st env c = (st1, OV v) -> (forall x, v <> VBool x) -> if_sem ev st env ((c, b) :: t) els = (st1, oerr).
Proof. exact if_non_boolean. Qed.
Print Assumptions C04_if_non_boolean.

(* a loop visits its items in order, up to and including the first break / return / error *)
Theorem C04_loop_step : forall ev st env xs it t body result st0 st1 o,
  bind_loop st env xs it = Some st0 -> ev st0 env body = (st1, o) ->
  loop_items ev st env xs (it :: t) body result =
  match o with
  | OV v => loop_items ev st1 env xs t body v
  | OCont => loop_items ev st1 env xs t body vtrue
  | OBrk => (st1, OV vtrue)
  | ORet v => (st1, ORet v)
  | bad => (st1, bad)
  end.
Proof. exact loop_step. Qed.
Print Assumptions C04_loop_step.

(* break and continue affect only the innermost enclosing loop: no loop ever yields them *)
Theorem C04_for_absorbs : forall ev st env xs coll body what,
  is_loop_exit (snd (for_sem ev st env xs coll body what)) = false.
Proof. exact for_absorbs. Qed.
Print Assumptions C04_for_absorbs.
Theorem C04_while_absorbs : forall ev n st env c body result,
  is_loop_exit (snd (while_sem ev n st env c body result)) = false.
Proof. exact while_absorbs. Qed.
Print Assumptions C04_while_absorbs.

(* return leaves only the innermost function *)
Theorem C04_call_absorbs : forall ev st params body lex nvs,
  is_fun_exit (snd (call_closure ev st params body lex nvs)) = false.
Proof. exact call_absorbs. Qed.
Print Assumptions C04_call_absorbs.

(* while re-tests its condition before every iteration *)
Theorem C04_while_unfold : forall ev n st env c body result,
  while_sem ev (S n) st env c body result =
  let '(st1, o) := ev st env c in
  match operand o with
  | inr bad => (st1, bad)
  | inl (VBool false) => (st1, OV result)
  | inl (VBool true) =>
    let '(st2, ob) := ev st1 env body in
    match ob with
    | OV v => while_sem ev n st2 env c body v
    | OCont => while_sem ev n st2 env c body vtrue
    | OBrk => (st2, OV vtrue)
    | ORet v => (st2, ORet v)
    | bad => (st2, bad)
    end
  | inl _ => (st1, oerr)
  end.
Proof. exact while_unfold. Qed.
Print Assumptions C04_while_unfold.
