(* C17 - dates and day numbers.  Statements only; proofs are in Proofs/Date*.v.
   All functions named here except [daynum], [next_day], [time_of_millis],
   [valid_date] (specification side) are GENERATED from src/ckl/date.py. *)
From Coq Require Import String.
From Coq Require Import ZArith List Bool Lia.
From Coq Require Import PrimFloat.
From Ckl Require Import Prelude.PyPrelude Prelude.PyDatetime Gen.Date Proofs.DateProofs Proofs.DateFloat.
Import ListNotations.
Open Scope Z_scope.

(* the code's leap-year test is the Gregorian rule *)
Theorem C17_leap_rule : forall y,
  is_leap_year y = true <-> (y mod 4 = 0 /\ (y mod 100 <> 0 \/ y mod 400 = 0)).
Proof. exact is_leap_gregorian. Qed.
Print Assumptions C17_leap_rule.

(* to_oa_date = closed-form day number, then the float time-of-day tail *)
Theorem C17_day_number : forall y m d h mi s us,
  1900 <= y -> 1 <= m <= 12 ->
  to_oa_date (mkdt y m d h mi s us) =
  Ok (to_oa_date_tail (mkdt y m d h mi s us) (daynum y m d)).
Proof.
  intros. rewrite to_oa_date_split. rewrite to_oa_date_days_val by assumption. reflexivity.
Qed.
Print Assumptions C17_day_number.

(* date -> day number -> date is the identity, for every valid date from 1900 *)
Theorem C17_roundtrip : forall fuel y m d,
  1900 <= y -> valid_date y m d = true -> enough_fuel fuel y ->
  to_oa_date_days (mkdt y m d 0 0 0 0) >>= to_date_z fuel = Ok (mkdt y m d 0 0 0 0).
Proof.
  intros fuel y m d Hy V F.
  rewrite to_oa_date_days_val; [| exact Hy | unfold valid_date in V; lia].
  cbn [bind]. apply roundtrip_days; assumption.
Qed.
Print Assumptions C17_roundtrip.

(* the day number grows by exactly one per calendar day (month ends, 28/29 Feb,
   31 Dec -> 1 Jan included) and the next day is again a valid date *)
Theorem C17_succ : forall y m d,
  1 <= y < 9999 -> valid_date y m d = true ->
  let '(y', m', d') := next_day y m d in
  daynum y' m' d' = daynum y m d + 1 /\ valid_date y' m' d' = true.
Proof.
  intros y m d Hy V. pose proof (daynum_next y m d ltac:(lia) V) as A.
  pose proof (next_day_valid y m d Hy V) as B.
  destruct (next_day y m d) as [[y' m'] d']. split; assumption.
Qed.
Print Assumptions C17_succ.

(* day number -> date is total on [1900-01-01, 9999-12-31], lands on a valid
   date, never raises a host exception, and is inverse to date -> day number *)
Theorem C17_inverse : forall fuel n,
  2 <= n < 2 + dby 10000 -> (Z.to_nat n + 13 <= fuel)%nat ->
  exists y m d, 1900 <= y /\ valid_date y m d = true /\ daynum y m d = n /\
                to_date_z fuel n = Ok (mkdt y m d 0 0 0 0).
Proof. exact inverse_days. Qed.
Print Assumptions C17_inverse.

(* outside [1900-01-01, 9999-12-31] the conversion stops at once with the host's
   ValueError (no loop is entered, whatever the magnitude of n) *)
Theorem C17_out_of_range : forall fuel n, n < 2 \/ 2958465 < n -> to_date_z fuel n = Host ValueError.
Proof. exact to_date_out_of_range. Qed.
Print Assumptions C17_out_of_range.

Theorem C17_one_to_one : forall fuel y1 m1 d1 y2 m2 d2,
  1900 <= y1 -> 1900 <= y2 -> valid_date y1 m1 d1 = true -> valid_date y2 m2 d2 = true ->
  enough_fuel fuel y1 -> enough_fuel fuel y2 ->
  daynum y1 m1 d1 = daynum y2 m2 d2 -> (y1, m1, d1) = (y2, m2, d2).
Proof. exact daynum_inj. Qed.
Print Assumptions C17_one_to_one.

(* (d + k) - k = d and (d + k) - d = k, for every k keeping the date in range *)
Theorem C17_add_sub : forall fuel y m d k,
  1900 <= y -> valid_date y m d = true ->
  2 <= daynum y m d + k < 2 + dby 10000 ->
  (Z.to_nat (2 + dby 10000) + 13 <= fuel)%nat ->
  exists y' m' d',
    to_date_z fuel (daynum y m d + k) = Ok (mkdt y' m' d' 0 0 0 0) /\
    valid_date y' m' d' = true /\
    daynum y' m' d' - daynum y m d = k /\
    to_date_z fuel (daynum y' m' d' - k) = Ok (mkdt y m d 0 0 0 0).
Proof.
  intros fuel y m d k Hy V Hr Hf.
  assert (Hf' : (Z.to_nat (daynum y m d + k) + 13 <= fuel)%nat) by lia.
  destruct (inverse_days fuel (daynum y m d + k) Hr Hf') as (y' & m' & d' & Hy' & V' & D' & T').
  exists y', m', d'. repeat split; try assumption; try lia.
  rewrite D'. replace (daynum y m d + k - k) with (daynum y m d) by lia.
  apply roundtrip_days; try assumption.
  unfold enough_fuel. pose proof (daynum_range y m d Hy V).
  assert (y <= 9999) by (unfold valid_date in V; lia).
  assert (dby 10000 = 2958464) by reflexivity. lia.
Qed.
Print Assumptions C17_add_sub.

(* the integer core of to_date: any millisecond count of the day is split into
   the h:m:s.ms it denotes, on the right calendar day; a full day of
   milliseconds carries into the next day *)
Theorem C17_time_of_day : forall fuel y m d ms,
  1900 <= y -> valid_date y m d = true -> 0 <= ms < 86400000 -> enough_fuel fuel y ->
  let '(h, mi, s, us) := time_of_millis ms in
  to_date_core fuel (daynum y m d) ms = Ok (mkdt y m d h mi s us) /\
  ((h * 60 + mi) * 60 + s) * 1000000 + us = ms * 1000 /\ valid_time h mi s us = true.
Proof.
  intros fuel y m d ms Hy V Hms F.
  assert (Hy' : 1 <= y <= 9999) by (unfold valid_date in V; lia).
  apply valid_date_iff in V; [|exact Hy'].
  pose proof (to_date_core_val fuel y (m - 1) (d - 1) ms ltac:(lia) ltac:(lia) ltac:(lia) Hms F) as T.
  rewrite <- daynum_alt in T.
  pose proof (time_split ms Hms) as S. cbv zeta in S.
  unfold time_of_millis in *. cbv zeta in *.
  replace (m - 1 + 1) with m in T by lia. replace (d - 1 + 1) with d in T by lia.
  split; [exact T|]. split; [lia | tauto].
Qed.
Print Assumptions C17_time_of_day.

Theorem C17_time_carry : forall fuel n, to_date_core fuel n 86400000 = to_date_core fuel (n + 1) 0.
Proof. exact to_date_core_carry. Qed.
Print Assumptions C17_time_carry.

(* the float entry point is floor / round-to-millisecond followed by that core *)
Theorem C17_float_factor : forall fuel f,
  to_date fuel f =
  f_floor f >>= fun days =>
  f_round (PrimFloat.mul (PrimFloat.sub f (Z2F days)) (Z2F MILLIS_PER_DAY)) >>= fun millis =>
  to_date_core fuel days millis.
Proof. exact to_date_float_core. Qed.
Print Assumptions C17_float_factor.

(* PARTIAL (finite): on the binary64 path the day number and the second of the
   day survive to_oa_date's tail followed by floor/round, for the listed day
   numbers - every second of the day on [all_seconds_days], every 13th second
   on [strided_days].  Not proved for every day number (that needs a rounding
   error analysis); the correspondence run samples the rest. *)
Theorem C17_time_partial :
  (forall D sec, In D all_seconds_days -> 0 <= sec < 86400 -> float_time_ok D sec = true) /\
  (forall D sec, In D strided_days -> In sec (stride_nat 0 13 6646) -> float_time_ok D sec = true).
Proof.
  split.
  - intros D sec HD Hs. pose proof float_time_all_seconds as A.
    rewrite forallb_forall in A. specialize (A D HD). rewrite forallb_forall in A.
    apply A. apply in_zrange. lia.
  - intros D sec HD Hs. pose proof float_time_strided as A.
    rewrite forallb_forall in A. specialize (A D HD). rewrite forallb_forall in A.
    apply A. exact Hs.
Qed.
Print Assumptions C17_time_partial.

(* non-vacuity: concrete instances of the hypotheses, including boundary days *)
Example C17_ex_roundtrip_leap_day :
  to_oa_date_days (mkdt 2000 2 29 0 0 0 0) >>= to_date_z 200 = Ok (mkdt 2000 2 29 0 0 0 0).
Proof. vm_compute. reflexivity. Qed.
Example C17_ex_new_year : next_day 2020 12 31 = (2021, 1, 1) /\ daynum 2021 1 1 = daynum 2020 12 31 + 1.
Proof. vm_compute. split; reflexivity. Qed.
Example C17_ex_first_day : to_date_z 20 2 = Ok (mkdt 1900 1 1 0 0 0 0) /\ daynum 1900 1 1 = 2.
Proof. vm_compute. split; reflexivity. Qed.
Example C17_ex_last_day : daynum 9999 12 31 = 2958465 /\ 2 + dby 10000 = 2958466.
Proof. vm_compute. split; reflexivity. Qed.
Example C17_ex_time : time_of_millis 46116444 = (12, 48, 36, 444000).
Proof. vm_compute. reflexivity. Qed.
