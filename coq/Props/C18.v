(* C18 - string functions satisfy the algebra of strings.  Statements only; proofs in Proofs/StrProofs.v and
   Proofs/SeqProofs.v over the specification model Model/StrSpec.v + Prelude/PyPrelude.v (str = list of code points),
   tied to the interpreter's functions by the correspondence run of checks/C18.py.  All statements are for ALL strings. *)
From Coq Require Import ZArith List Bool.
From Ckl Require Import Prelude.PyPrelude Model.StrSpec Proofs.StrProofs.
Import ListNotations.
Open Scope Z_scope.

Theorem C18_join_split : forall s sep : str, sep <> [] -> join sep (ckl_split s sep) = s.
Proof. exact join_ckl_split. Qed.
Print Assumptions C18_join_split.

Theorem C18_replace_is_join_split : forall s a b : str, a <> [] -> str_replace s a b = join b (split_lit s a).
Proof. exact replace_is_join_split. Qed.
Print Assumptions C18_replace_is_join_split.

Theorem C18_replace_self : forall s a : str, a <> [] -> str_replace s a a = s.
Proof. exact replace_self. Qed.
Print Assumptions C18_replace_self.

Theorem C18_replace_absent : forall s a b : str, a <> [] -> str_find s a = -1 -> str_replace s a b = s.
Proof. exact replace_absent. Qed.
Print Assumptions C18_replace_absent.

Theorem C18_reverse_involution : forall s : str, rev (rev s) = s.
Proof. exact reverse_involution. Qed.
Print Assumptions C18_reverse_involution.

Theorem C18_contains_find_occurs : forall s t : str,
  (contains s t = true <-> 0 <= str_find s t) /\ (0 <= str_find s t <-> exists a b, s = a ++ t ++ b).
Proof. exact contains_find_occurs. Qed.
Print Assumptions C18_contains_find_occurs.

Theorem C18_starts_with : forall s t : str, str_startswith s t = true <-> exists b, s = t ++ b.
Proof. exact starts_with_iff. Qed.
Print Assumptions C18_starts_with.

Theorem C18_ends_with : forall s t : str, str_endswith s t = true <-> exists a, s = a ++ t.
Proof. exact ends_with_iff. Qed.
Print Assumptions C18_ends_with.

Theorem C18_concat : forall a t b : str, contains (a ++ t ++ b) t = true /\ zlen (a ++ b) = zlen a + zlen b.
Proof. intros a t b. split; [apply concat_contains|apply concat_length]. Qed.
Print Assumptions C18_concat.

Theorem C18_trim_idempotent : forall (ws : Z -> bool) (s : str), trim ws (trim ws s) = trim ws s.
Proof. exact trim_idempotent. Qed.
Print Assumptions C18_trim_idempotent.

Theorem C18_case_idempotent : forall s : str, map up_ascii (map up_ascii s) = map up_ascii s /\ map lo_ascii (map lo_ascii s) = map lo_ascii s.
Proof. intros s. split; [apply upper_idempotent|apply lower_idempotent]. Qed.
Print Assumptions C18_case_idempotent.

Theorem C18_placeholder : forall m z w v,
  length (fmt_pad m z w v) = Nat.max w (length v) /\
  exists a b, fmt_pad m z w v = a ++ v ++ b /\ (forall c, In c (a ++ b) -> c = 32 \/ c = 48).
Proof. intros. split; [apply fmt_pad_length|apply fmt_pad_value]. Qed.
Print Assumptions C18_placeholder.

Theorem C18_interp_text_unchanged : forall ts, interp (map Lit ts) = concat ts.
Proof. exact interp_lit_only. Qed.
Print Assumptions C18_interp_text_unchanged.
