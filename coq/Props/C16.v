(* C16 - only documented mutators change their arguments; aliases see mutations.
   Statements only; proofs in Proofs/NativeFrame.v, Proofs/EvalProofs.v.  Lists, sets, maps and objects
   are references into a heap ([state], Model/Eval.v); [native] is the hand model of the natives of the
   modelled fragment.  Functions written in the language are covered by the correspondence run only
   (C16_library_partial). *)
From Coq Require Import String ZArith List Bool.
From Ckl Require Import Prelude.PyPrelude Model.SeqModel Model.Eval Proofs.EvalProofs Proofs.NativeFrame.
Import ListNotations.

(* a native that is not a documented mutator never changes an existing heap cell (it may only allocate) *)
Theorem C16_native_frame : forall name bs st l,
  mutator (string_of_cps name) = false -> (l < length st)%nat ->
  rd (fst (native name bs st)) l = rd st l.
Proof. intros name bs st l M H. apply ext_rd; [apply native_frame; exact M|exact H]. Qed.
Print Assumptions C16_native_frame.

(* the mutators change exactly the targeted container *)
Theorem C16_append_effect : forall st l vs x,
  rd st l = Some (CList vs) ->
  native (cps "append") [(cps "lst", VRef KList l); (cps "element", x)] st = (wr st l (CList (vs ++ [x])), OV (VRef KList l)).
Proof. exact append_effect. Qed.
Print Assumptions C16_append_effect.
Theorem C16_insert_at_effect : forall st l vs i v,
  rd st l = Some (CList vs) ->
  native (cps "insert_at") [(cps "lst", VRef KList l); (cps "index", VInt i); (cps "value", v)] st =
  (wr st l (CList (insert_at vs i v)), OV (VRef KList l)).
Proof. exact insert_at_effect. Qed.
Print Assumptions C16_insert_at_effect.

(* a write changes exactly one cell, so the mutation is seen through every variable, parameter and
   container holding that reference, and through nothing else *)
Theorem C16_sharing : forall st l c l',
  (l < length st)%nat -> rd (wr st l c) l = Some c /\ (l' <> l -> rd (wr st l c) l' = rd st l').
Proof. exact mutation_visible_through_every_alias. Qed.
Print Assumptions C16_sharing.

(* values produced by allocation are independent of everything that existed before *)
Theorem C16_fresh : forall st c,
  snd (alloc st c) = length st /\ rd (fst (alloc st c)) (length st) = Some c /\
  forall l, (l < length st)%nat -> rd (fst (alloc st c)) l = rd st l.
Proof. intros st c. destruct (alloc_fresh st c) as [A B]. repeat split; try assumption. intros l H. apply alloc_frame. exact H. Qed.
Print Assumptions C16_fresh.

(* binding a name (def, parameter passing) copies the reference, never the container *)
Theorem C16_binding_shares : forall st env x v l, l <> env -> rd (env_put st env x v) l = rd st l.
Proof. exact env_put_frame. Qed.
Print Assumptions C16_binding_shares.
