(* C09 - secure mode denies file, process and script-loading access to every program.
   Statements only; proofs in Proofs/SecureProofs.v.  Gen/SecureTable.v is GENERATED from functions.py / values.py /
   interpreter.py on every run (the dispatch table of bind_native, the secure flag of every built-in class, the host
   facilities each class calls); the same translator fails closed unless bind_native_fun / add / the `run` registration
   / the single write of the flag have exactly the shape modelled in Model/Secure.v.  What the evaluator can do with a
   function value (call it, copy it, store it) is abstracted to the commands of the model; that no other route to the
   host exists (modules written in the language, objects, the flag's syntactic protection) is decided by the audited run
   of checks/C09.py on the implementation - C09_runtime_partial. *)
From Coq Require Import ZArith List Bool.
From Ckl Require Import Gen.SecureTable Model.Secure Proofs.SecureProofs.
Import ListNotations.
Open Scope Z_scope.

Theorem C09_dangerous_builtins_are_insecure : forallb (fun r => let '(_, s, d) := r in implb d (negb s)) classes = true.
Proof. exact dangerous_is_insecure. Qed.
Print Assumptions C09_dangerous_builtins_are_insecure.

Theorem C09_secure_states : forall cs s, flag s = true -> all_secure s -> flag (run cs s) = true /\ all_secure (run cs s).
Proof. exact secure_reachable. Qed.
Print Assumptions C09_secure_states.

Theorem C09_secure_mode_denies : forall cs x c, In (x, c) (bound (run cs (mk_sst true []))) -> class_dangerous c = false.
Proof. exact secure_mode_denies. Qed.
Print Assumptions C09_secure_mode_denies.

(* non-vacuity: binding every native under an alias does bind something, and nothing dangerous *)
Example C09_nonvacuous :
  let s := run (map (fun p => CBind (fst p) (Some 7)) natives) (mk_sst true []) in
  (100 <=? Z.of_nat (length (bound s))) = true /\ forallb (fun p => negb (class_dangerous (snd p))) (bound s) = true.
Proof. vm_compute. split; reflexivity. Qed.
