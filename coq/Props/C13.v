(* C13 - only language-level errors escape evaluation.
   Statements only.  In the model, a host exception is a separate outcome ([Host e] in kernels, [OHostX e]
   in the evaluator): "no host exception" is a statement with content.  The theorems cover the kernels and the
   natives of the modelled fragment; for the rest of the library containment and termination are decided by the
   exhaustive enumeration of checks/C13.py on the implementation (C13_library_partial). *)
From Coq Require Import String ZArith List Bool.
From Ckl Require Import Prelude.PyPrelude Model.SeqModel Model.Arith Model.Values Model.Eval Proofs.SeqProofs Proofs.ArithProofs Proofs.EvalProofs.
Import ListNotations.
Open Scope Z_scope.

(* indexing never raises a host exception: in range a value, out of range the language's error *)
Theorem C13_index_total : forall (A : Type) (s : list A) i,
  (exists x, deref s i = Ok x) \/ deref s i = LangErr "Index out of bounds".
Proof.
  intros A s i. destruct (Z_le_dec (- zlen s) i) as [H1|H1]; [destruct (Z_lt_dec i (zlen s)) as [H2|H2]|].
  - left. destruct (deref_in_range s i (conj H1 H2)) as [x [E _]]. exists x. exact E.
  - right. apply deref_out_of_range. intros [_ H]. contradiction.
  - right. apply deref_out_of_range. intros [H _]. contradiction.
Qed.
Print Assumptions C13_index_total.

(* delete_at never raises a host exception *)
Theorem C13_delete_at_total : forall (A : Type) (l : list A) i, exists r, delete_at l i = Ok r.
Proof.
  intros A l i. destruct (delete_at_spec l i) as [H1 H2]. cbv zeta in *.
  set (n := zlen l) in *. set (j := if i <? 0 then n + i else i) in *.
  destruct (Z_le_dec 0 j) as [A1|A1]; [destruct (Z_lt_dec j n) as [A2|A2]|].
  - destruct (H1 (conj A1 A2)) as [x [_ E]]. eexists. exact E.
  - eexists. apply H2. intros [_ H]. contradiction.
  - eexists. apply H2. intros [H _]. contradiction.
Qed.
Print Assumptions C13_delete_at_total.

(* the arithmetic natives on ints never raise a host exception: a zero divisor is the language's error *)
Theorem C13_int_arith_total : forall op a b,
  (exists v, arith op (DInt a) (DInt b) = OVal v) \/ arith op (DInt a) (DInt b) = Arith.OErr.
Proof.
  intros op a b. rewrite arith_int. destruct op; cbn [zop]; try (left; eexists; reflexivity);
    destruct (b =? 0); [right; reflexivity|left; eexists; reflexivity| right; reflexivity|left; eexists; reflexivity].
Qed.
Print Assumptions C13_int_arith_total.

(* a call never lets return / break / continue escape, and a loop never lets break / continue escape:
   the only outcomes of a program are a value or the language's runtime error (with its error value) *)
Theorem C13_call_outcomes : forall ev st params body lex nvs,
  is_fun_exit (snd (call_closure ev st params body lex nvs)) = false.
Proof. exact call_absorbs. Qed.
Print Assumptions C13_call_outcomes.

(* every error raised by a block's statements can be intercepted: catch all takes any error value *)
Theorem C13_catch_intercepts : forall ev st env v h t, try_catches ev st env v ((None, h) :: t) = ev st env h.
Proof. exact catch_all. Qed.
Print Assumptions C13_catch_intercepts.
