(* C14 - program meaning is independent of layout, comments and literal spelling.
   Statements only; proofs in Proofs/LexProofs.v.  [lex_step] is GENERATED from Lexer.scan on every run.
   Proved: positions never influence the scanner, and blanks / tabs / CR / LF / comments in the blank state change
   nothing but positions.  Gaps after a token that ends by look-ahead, literal spellings, != versus <>, redundant
   parentheses and trailing semicolons are decided by the correspondence run (C14_partial). *)
From Coq Require Import ZArith List Bool.
From Ckl Require Import Prelude.PyPrelude Prelude.LexPrelude Gen.LexGen Model.LexRun Proofs.LexProofs Proofs.LexLayout Proofs.LexGaps Proofs.LexReach.
From Ckl Require Import Model.ExprParse Proofs.ExprParseMore.
Import ListNotations.
Open Scope Z_scope.

Theorem C14_positions_irrelevant : forall s ch, erase_res (lex_step s ch) = erase_res (lex_step (erase_state s) ch).
Proof. exact step_erase. Qed.
Print Assumptions C14_positions_irrelevant.

Theorem C14_gap_irrelevant : forall g s rest acc f,
  gap_ok false g = true -> clean s ->
  erase_lexres (lex_loop (length g + f) s (g ++ rest) acc) = erase_lexres (lex_loop f s rest acc).
Proof. exact gap_irrelevant. Qed.
Print Assumptions C14_gap_irrelevant.

Theorem C14_leading_layout : forall g src, gap_ok false g = true -> erase_lexres (lex (g ++ src)) = erase_lexres (lex src).
Proof. exact leading_gap_irrelevant. Qed.
Print Assumptions C14_leading_layout.

(* literal spellings: instances *)
Example C14_spellings :
  erase_lexres (lex [48; 120; 49; 70]) = erase_lexres (lex [51; 49]) /\            (* 0x1F = 31 *)
  erase_lexres (lex [48; 98; 49; 95; 49]) = erase_lexres (lex [51]) /\             (* 0b1_1 = 3 *)
  erase_lexres (lex [49; 95; 48; 48; 48]) = erase_lexres (lex [49; 48; 48; 48]) /\ (* 1_000 = 1000 *)
  erase_lexres (lex [34; 97; 92; 120; 52; 49; 34]) = erase_lexres (lex [39; 97; 65; 39]) /\   (* "a\x41" = 'aA' *)
  gap_ok false [32; 35; 99; 13; 10; 9; 10] = true.
Proof. vm_compute. repeat split; reflexivity. Qed.

(* outside string, pattern and comment states a tab, CR or LF acts exactly like a blank in EVERY scanner state -
   also directly after a token that is still being read (identifier, number, operator) -, up to positions *)
Theorem C14_whitespace_uniform : forall s a, mem_z a [9; 13; 10] = true -> literal_state (l_state s) = false ->
  erase_res (lex_step s a) = erase_res (lex_step s 32).
Proof. exact ws_like_blank. Qed.
Print Assumptions C14_whitespace_uniform.

(* hence replacing a blank between two tokens by a tab, CR or LF never changes the token values and types of the text *)
Theorem C14_whitespace_equivalent : forall fuel s1 s2 a rest acc1 acc2,
  erase_state s1 = erase_state s2 -> map erase_tok acc1 = map erase_tok acc2 ->
  mem_z a [9; 13; 10] = true -> literal_state (l_state s1) = false ->
  erase_lexres (lex_loop fuel s1 (a :: rest) acc1) = erase_lexres (lex_loop fuel s2 (32 :: rest) acc2).
Proof. exact ws_equiv. Qed.
Print Assumptions C14_whitespace_equivalent.

(* ANY gap - blanks, tabs, CR, LF, '#' comments up to their line feed, in any number and order - read in the blank state or
   while an identifier, a number or an operator is still being read (and no token text is pending where there should be
   none: [tidy]) is worth exactly ONE blank: the rest of the text yields the same token values and types.
   [r] is slack for the at most two re-reads of a character on the way to the blank state. *)
Theorem C14_any_gap_is_one_blank : forall r s, (rank s <= r)%nat -> (l_state s =? 0) = true \/ scan_state (l_state s) = true -> tidy s ->
  forall g rest acc1 acc2 s2 f, erase_state s = erase_state s2 -> map erase_tok acc1 = map erase_tok acc2 ->
  gap_ok false g = true -> g <> [] ->
  erase_lexres (lex_loop (length g + f + r) s (g ++ rest) acc1) = erase_lexres (lex_loop (1 + f + r) s2 (32 :: rest) acc2).
Proof. exact gap_equiv. Qed.
Print Assumptions C14_any_gap_is_one_blank.

(* the premises hold in a reachable situation: after reading "ab" the scanner is in the identifier state, tidy, of rank 1 *)
Example C14_gap_premises : let s := mk_lstate 1 [97; 98] [] 1 2 1 1 true in
  (rank s <= 1)%nat /\ scan_state (l_state s) = true /\ tidy s.
Proof. cbn. repeat split; [apply le_n|intros [H|H]; discriminate H]. Qed.

(* ... and these premises are not special: in EVERY state the scanner can reach from its initial state, unless it is inside a
   string, a pattern or a comment, the gap theorem applies (with slack 2) *)
Theorem C14_gap_premises_reachable : forall s, reach s -> literal_state (l_state s) = false ->
  ((l_state s =? 0) = true \/ scan_state (l_state s) = true) /\ tidy s /\ (rank s <= 2)%nat.
Proof. exact reach_gap_premises. Qed.
Print Assumptions C14_gap_premises_reachable.

(* redundant parentheses around an expression of the operator core (Model/ExprParse.v, tied by checks/C02.py) do not change its tree *)
Theorem C14_redundant_parentheses : forall e, wf e = true -> parse (paren (render e)) = Ok e [].
Proof. exact parse_paren. Qed.
Print Assumptions C14_redundant_parentheses.
