(* C12 - results do not depend on hash seeds, process or construction order.
   Statements only; proofs in Proofs/PermProofs.v.  The internal order of a set / map representation is
   the list order (it stands for the host's hash / insertion order).  Every enumerating kernel of the
   model evaluator (for, comprehensions, spread, destructuring, list(), map entries) goes through
   [sorted_vals] = the insertion sort [sorted] by the value order; the real hash-seed behaviour is a
   runtime matter observed by the correspondence run under several PYTHONHASHSEED values
   (C12_eval_partial: there is no whole-evaluator simulation theorem). *)
From Coq Require Import ZArith List Bool Permutation Sorting.Sorted.
From Ckl Require Import Prelude.PyPrelude Model.Values Model.Containers Model.Sorting Proofs.EqProofs Proofs.PermProofs.
Import ListNotations.

(* the ascending enumeration of a set (of map keys) is the same for every internal order *)
Theorem C12_enumeration_order_independent : forall l1 l2,
  good l1 -> Permutation l1 l2 -> sorted lt_of l1 = sorted lt_of l2.
Proof. exact sorted_enum_perm. Qed.
Print Assumptions C12_enumeration_order_independent.

Theorem C12_enumeration_ascending : forall l, Sorted (fun a b => lt_of b a = false) (sorted lt_of l).
Proof. exact sorted_enum_ascending. Qed.
Print Assumptions C12_enumeration_ascending.

(* the hypothesis is met by what the set / map operations produce *)
Theorem C12_sets_are_good : forall l,
  nodupv l = true -> (forall a b, In a l -> In b l -> vlt a b <> None) -> (forall a, In a l -> nan_free a = true) -> good l.
Proof. exact nodupv_good. Qed.
Print Assumptions C12_sets_are_good.

(* equality of sets and maps ignores the internal order (C06) *)
Theorem C12_equality_order_independent : forall l1 l2,
  Permutation l1 l2 -> nan_free (DSet l1) = true -> veq (DSet l1) (DSet l2) = true.
Proof. exact set_perm_eq. Qed.
Print Assumptions C12_equality_order_independent.

(* the seeded generator is a function of the seed and the number of draws *)
Theorem C12_random_deterministic : forall n seed1 seed2, seed1 = seed2 -> rnd_seq n seed1 = rnd_seq n seed2.
Proof. exact rnd_deterministic. Qed.
Print Assumptions C12_random_deterministic.

Example C12_ex :
  sorted lt_of [DStr [112]; DStr [97]; DStr [102]] = sorted lt_of [DStr [102]; DStr [112]; DStr [97]] /\
  good [DInt 3; DInt 1; DDec (Z2F 2)].
Proof.
  split; [vm_compute; reflexivity|]. apply nodupv_good; [reflexivity| |].
  - intros a b [<-|[<-|[<-|[]]]] [<-|[<-|[<-|[]]]]; discriminate.
  - intros a [<-|[<-|[<-|[]]]]; reflexivity.
Qed.
