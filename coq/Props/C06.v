(* C06 - equality is an equivalence that set membership and map lookup respect.
   Statements only; proofs in Proofs/EqProofs.v.  [veq] (Model/Values.v) is the hand model of the
   __eq__ methods, [set_mem set_add set_remove map_get map_put map_remove] (Model/Containers.v)
   of the host's hash containers for a hash compatible with equality; tied to the code by the
   correspondence run.  Guard: NaN decimals are excluded ([nan_free]); see DESIGN.md 6. *)
From Coq Require Import ZArith List Bool Permutation.
From Ckl Require Import Prelude.PyPrelude Model.Values Model.Containers Proofs.NumOrder Proofs.EqProofs.
Import ListNotations.
Open Scope Z_scope.

Theorem C06_refl : forall v, nan_free v = true -> veq v v = true.
Proof. exact veq_refl. Qed.
Print Assumptions C06_refl.

Theorem C06_sym : forall a b, veq a b = veq b a.
Proof. exact veq_sym. Qed.
Print Assumptions C06_sym.

Theorem C06_trans : forall a b c, veq a b = true -> veq b c = true -> veq a c = true.
Proof. exact veq_trans. Qed.
Print Assumptions C06_trans.

(* values of different kinds are never equal (ints and decimals form one kind) *)
Theorem C06_kinds : forall a b, veq a b = true -> kind a = kind b.
Proof. exact veq_kind. Qed.
Print Assumptions C06_kinds.

(* ints and decimals are equal exactly when their exact numeric values are, at any magnitude *)
Theorem C06_numeric : forall a b x y, rank a = Some x -> rank b = Some y ->
  veq a b = match exr_cmp x y with Eq => true | _ => false end.
Proof. exact veq_num. Qed.
Print Assumptions C06_numeric.

(* sets and maps are equal regardless of insertion order *)
Theorem C06_set_order_insensitive : forall l1 l2,
  Permutation l1 l2 -> nan_free (DSet l1) = true -> veq (DSet l1) (DSet l2) = true.
Proof. exact set_perm_eq. Qed.
Print Assumptions C06_set_order_insensitive.

Theorem C06_map_order_insensitive : forall l1 l2,
  Permutation l1 l2 -> nan_free (DMap l1) = true -> veq (DMap l1) (DMap l2) = true.
Proof. exact map_perm_eq. Qed.
Print Assumptions C06_map_order_insensitive.

(* equal values are interchangeable: membership, lookup, removal, == on containers *)
Theorem C06_interchangeable : forall a b, veq a b = true -> forall z, veq a z = veq b z.
Proof. exact veq_congr. Qed.
Print Assumptions C06_interchangeable.

Theorem C06_set_membership : forall a b l, veq a b = true -> set_mem a l = set_mem b l.
Proof. exact set_mem_respects. Qed.
Print Assumptions C06_set_membership.

Theorem C06_set_removal : forall a b l, veq a b = true -> set_remove a l = set_remove b l.
Proof. exact set_remove_respects. Qed.
Print Assumptions C06_set_removal.

Theorem C06_map_lookup : forall a b m, veq a b = true -> map_get a m = map_get b m.
Proof. exact map_get_respects. Qed.
Print Assumptions C06_map_lookup.

Theorem C06_map_removal : forall a b m, veq a b = true -> map_remove a m = map_remove b m.
Proof. exact map_remove_respects. Qed.
Print Assumptions C06_map_removal.

Theorem C06_container_eq : forall a b l m, veq a b = true ->
  veq (DSet (a :: l)) (DSet m) = veq (DSet (b :: l)) (DSet m).
Proof. exact set_eq_respects. Qed.
Print Assumptions C06_container_eq.

(* a set never holds two equal elements / a map two equal keys, after any sequence of operations *)
Theorem C06_set_nodup : forall ops, nodupv (fold_left set_step ops []) = true.
Proof. exact set_ops_nodup. Qed.
Print Assumptions C06_set_nodup.

Theorem C06_map_nodup : forall ops, nodupv (keys (fold_left map_step ops [])) = true.
Proof. exact map_ops_nodup. Qed.
Print Assumptions C06_map_nodup.

Theorem C06_map_put_get : forall k v m k2,
  map_get k2 (map_put k v m) = if veq k k2 then (if map_has k m then Some v else Some v) else map_get k2 m.
Proof. exact map_get_put. Qed.
Print Assumptions C06_map_put_get.

Example C06_ex :
  veq (DInt (2 ^ 53 + 1)) (DDec (Z2F (2 ^ 53))) = false /\ veq (DInt (2 ^ 53)) (DDec (Z2F (2 ^ 53))) = true /\
  veq (DSet [DInt 1; DStr [97]]) (DSet [DStr [97]; DDec (Z2F 1)]) = true /\
  veq (DInt 1) (DStr [49]) = false /\ nan_free (DList [DDec (Z2F 1)]) = true /\
  fold_left set_step [SAdd (DInt 1); SAdd (DDec (Z2F 1)); SRemove (DInt 2)] [] = [DInt 1].
Proof. vm_compute. repeat split; reflexivity. Qed.
