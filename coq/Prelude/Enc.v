(* Encoders used only by generated correspondence case files: results become
   lists of integers that the harness reads back. *)
From Coq Require Import String.
From Coq Require Import ZArith List Bool.
From Coq Require Import PrimFloat Uint63 FloatOps SpecFloat.
From Ckl Require Import Prelude.PyPrelude Prelude.PyDatetime.
Import ListNotations.
Open Scope Z_scope.

Definition exn_code (e : exn) : Z :=
  match e with
  | IndexError => 1 | ValueError => 2 | ZeroDivisionError => 3 | TypeError => 4 | KeyError => 5
  | OverflowError => 6 | AttributeError => 7 | RecursionError => 8 | ReError => 9
  end.

(* [0; payload...] ok, [1] language error, [2; code] host exception, [3] out of fuel *)
Definition enc_res {A} (enc : A -> list Z) (r : res A) : list Z :=
  match r with
  | Ok a => 0 :: enc a
  | LangErr _ => [1]
  | Host e => [2; exn_code e]
  | OutOfFuel => [3]
  end.

Definition enc_z (z : Z) : list Z := [z].
Definition enc_bool (b : bool) : list Z := [if b then 1 else 0].
Definition enc_dt (d : datetime) : list Z :=
  [datetime_year d; datetime_month d; datetime_day d; datetime_hour d;
   datetime_minute d; datetime_second d; datetime_microsecond d].

(* a binary64 as (kind, sign, mantissa, exponent): value = (-1)^sign * mantissa * 2^exponent *)
Definition enc_float (f : float) : list Z :=
  match Prim2SF f with
  | S754_zero s => [0; if s then 1 else 0; 0; 0]
  | S754_finite s m e => [1; if s then 1 else 0; Zpos m; e]
  | S754_infinity s => [2; if s then 1 else 0; 0; 0]
  | S754_nan => [3; 0; 0; 0]
  end.
Definition enc_str (s : str) : list Z := s.
Definition enc_list {A} (enc : A -> list Z) (l : list A) : list Z :=
  zlen l :: concat (map (fun a => let e := enc a in zlen e :: e) l).
