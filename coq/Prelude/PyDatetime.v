(* datetime.datetime as a record of integers, with CPython's validity rule
   for datetime.replace (ValueError outside it).  MINYEAR = 1, MAXYEAR = 9999. *)
From Coq Require Import String.
From Coq Require Import ZArith List Bool Lia.
From Ckl Require Import Prelude.PyPrelude.
Import ListNotations.
Open Scope Z_scope.

Record datetime := mkdt {
  datetime_year : Z; datetime_month : Z; datetime_day : Z;
  datetime_hour : Z; datetime_minute : Z; datetime_second : Z;
  datetime_microsecond : Z }.

Definition datetime_epoch0 : datetime := mkdt 1970 1 1 0 0 0 0.

(* CPython's own calendar rule (Lib/datetime.py: _is_leap, _days_in_month),
   written independently of the code under verification. *)
Definition cpy_is_leap (y : Z) : bool :=
  (y mod 4 =? 0) && (negb (y mod 100 =? 0) || (y mod 400 =? 0)).
Definition cpy_days_in_month (y m : Z) : Z :=
  if (m =? 2) then (if cpy_is_leap y then 29 else 28)
  else if (m =? 4) || (m =? 6) || (m =? 9) || (m =? 11) then 30 else 31.

Definition valid_date (y m d : Z) : bool :=
  (1 <=? y) && (y <=? 9999) && (1 <=? m) && (m <=? 12) &&
  (1 <=? d) && (d <=? cpy_days_in_month y m).
Definition valid_time (h mi s us : Z) : bool :=
  (0 <=? h) && (h <? 24) && (0 <=? mi) && (mi <? 60) &&
  (0 <=? s) && (s <? 60) && (0 <=? us) && (us <? 1000000).

Definition mk_datetime (y m d h mi s us : Z) : res datetime :=
  if valid_date y m d && valid_time h mi s us then Ok (mkdt y m d h mi s us)
  else Host ValueError.

Definition dt_eqb (a b : datetime) : bool :=
  (datetime_year a =? datetime_year b) && (datetime_month a =? datetime_month b) &&
  (datetime_day a =? datetime_day b) && (datetime_hour a =? datetime_hour b) &&
  (datetime_minute a =? datetime_minute b) && (datetime_second a =? datetime_second b) &&
  (datetime_microsecond a =? datetime_microsecond b).
