(* Gallina meaning of the CPython builtins that the translated kernels use.
   Everything here is executable; the check diffs these definitions against
   the real CPython builtins on an exhaustive small domain on every run
   (checks/prelude_diff.py).  Code points, lengths and indices are all [Z]. *)
From Coq Require Import String.
From Coq Require Import ZArith List Bool Lia.
From Coq Require Import PrimFloat Uint63 FloatOps SpecFloat.
Import ListNotations.
Open Scope Z_scope.

(* ---------------------------------------------------------------- results *)

Inductive exn :=
| IndexError | ValueError | ZeroDivisionError | TypeError | KeyError
| OverflowError | AttributeError | RecursionError | ReError.

(* Result of running a kernel: a value, the language's own runtime error
   (CklRuntimeError; the string is a tag naming the raise site), a host
   exception escaping, or exhausted fuel (a modelling artefact which every
   theorem must exclude). *)
Inductive res (A : Type) :=
| Ok (a : A)
| LangErr (tag : string)
| Host (e : exn)
| OutOfFuel.
Arguments Ok {A} a.
Arguments LangErr {A} tag.
Arguments Host {A} e.
Arguments OutOfFuel {A}.

Definition bind {A B} (r : res A) (f : A -> res B) : res B :=
  match r with
  | Ok a => f a
  | LangErr t => LangErr t
  | Host e => Host e
  | OutOfFuel => OutOfFuel
  end.
Notation "r >>= f" := (bind r f) (at level 50, left associativity).

Definition is_ok {A} (r : res A) : bool := match r with Ok _ => true | _ => false end.
Definition is_host {A} (r : res A) : bool := match r with Host _ => true | _ => false end.
Definition is_langerr {A} (r : res A) : bool := match r with LangErr _ => true | _ => false end.
Definition is_fuel {A} (r : res A) : bool := match r with OutOfFuel => true | _ => false end.

(* ---------------------------------------------------------------- integers *)

(* Python // and % are floor division: exactly Coq's Z.div / Z.modulo. *)
Definition py_floordiv (a b : Z) : res Z :=
  if b =? 0 then Host ZeroDivisionError else Ok (a / b).
Definition py_mod (a b : Z) : res Z :=
  if b =? 0 then Host ZeroDivisionError else Ok (a mod b).

Definition zlen {A} (l : list A) : Z := Z.of_nat (length l).

Fixpoint zrange_nat (a : Z) (n : nat) : list Z :=
  match n with O => [] | S k => a :: zrange_nat (a + 1) k end.
(* range(a, b) *)
Definition zrange (a b : Z) : list Z := zrange_nat a (Z.to_nat (b - a)).

(* ---------------------------------------------------------------- sequences *)

Definition znth {A} (l : list A) (i : Z) : option A := nth_error l (Z.to_nat i).

(* l[i] *)
Definition py_getitem {A} (l : list A) (i : Z) : res A :=
  let n := zlen l in
  let j := if i <? 0 then i + n else i in
  if (j <? 0) || (n <=? j) then Host IndexError
  else match znth l j with Some x => Ok x | None => Host IndexError end.

Definition zfirstn {A} (n : Z) (l : list A) := firstn (Z.to_nat n) l.
Definition zskipn {A} (n : Z) (l : list A) := skipn (Z.to_nat n) l.

Definition py_clamp_idx (n i : Z) : Z :=
  let j := if i <? 0 then i + n else i in
  if j <? 0 then 0 else if n <? j then n else j.

(* l[a:b] (step 1); [None] bounds are written by the translator as 0 / len *)
Definition py_slice {A} (l : list A) (a b : Z) : list A :=
  let n := zlen l in
  let lo := py_clamp_idx n a in
  let hi := py_clamp_idx n b in
  zfirstn (hi - lo) (zskipn lo l).

(* list.insert(i, x) clamps like a slice bound *)
Definition py_insert {A} (l : list A) (i : Z) (x : A) : list A :=
  let n := zlen l in
  let j := py_clamp_idx n i in
  zfirstn j l ++ x :: zskipn j l.

(* del l[i] *)
Definition py_delitem {A} (l : list A) (i : Z) : res (list A) :=
  let n := zlen l in
  let j := if i <? 0 then i + n else i in
  if (j <? 0) || (n <=? j) then Host IndexError
  else Ok (zfirstn j l ++ zskipn (j + 1) l).

(* l[i] = x *)
Definition py_setitem {A} (l : list A) (i : Z) (x : A) : res (list A) :=
  let n := zlen l in
  let j := if i <? 0 then i + n else i in
  if (j <? 0) || (n <=? j) then Host IndexError
  else Ok (zfirstn j l ++ x :: zskipn (j + 1) l).

(* ---------------------------------------------------------------- strings = list Z *)

Definition str := list Z.

Fixpoint str_eqb (a b : str) : bool :=
  match a, b with
  | [], [] => true
  | x :: a', y :: b' => (x =? y) && str_eqb a' b'
  | _, _ => false
  end.

Fixpoint prefixb (p s : str) : bool :=
  match p, s with
  | [], _ => true
  | x :: p', y :: s' => (x =? y) && prefixb p' s'
  | _ :: _, [] => false
  end.

(* first index >= 0 at which p occurs in s, scanning s; [off] is the index of
   the head of s in the original string *)
Fixpoint find_from (p s : str) (off : Z) : Z :=
  if prefixb p s then off
  else match s with
       | [] => -1
       | _ :: s' => find_from p s' (off + 1)
       end.

(* s.find(p) *)
Definition str_find (s p : str) : Z := find_from p s 0.

(* s.find(p, start) for 0 <= start *)
Definition str_find_at (s p : str) (start : Z) : Z :=
  let n := zlen s in
  let st := py_clamp_idx n start in
  if n <? start then -1 else find_from p (zskipn st s) st.

(* last index i with lo <= i, i + len p <= hi at which p occurs; hi, lo clamped *)
Fixpoint rfind_from (p s : str) (off : Z) (best : Z) (limit : Z) : Z :=
  let best' := if prefixb p s && (off + zlen p <=? limit) then off else best in
  match s with
  | [] => best'
  | _ :: s' => rfind_from p s' (off + 1) best' limit
  end.

(* s.rfind(p, 0, end_) *)
Definition str_rfind_end (s p : str) (end_ : Z) : Z :=
  let n := zlen s in
  let hi := py_clamp_idx n end_ in
  rfind_from p s 0 (-1) hi.

Definition str_rfind (s p : str) : Z := str_rfind_end s p (zlen s).

Definition str_startswith (s p : str) : bool := prefixb p s.
Definition str_endswith (s p : str) : bool := prefixb (rev p) (rev s).

Definition mem_z (c : Z) (l : list Z) : bool := existsb (Z.eqb c) l.

(* s.replace(a, b) for non-empty a: every non-overlapping occurrence, left to right *)
Fixpoint str_replace_fuel (fuel : nat) (s a b : str) : str :=
  match fuel with
  | O => s
  | S f =>
    match s with
    | [] => []
    | c :: s' =>
      if prefixb a s then b ++ str_replace_fuel f (skipn (length a) s) a b
      else c :: str_replace_fuel f s' a b
    end
  end.
Definition str_replace (s a b : str) : str :=
  match a with
  | [] => s (* not used by translated kernels with an empty pattern *)
  | _ => str_replace_fuel (S (length s)) s a b
  end.

(* ---------------------------------------------------------------- floats *)

Definition Z2F (z : Z) : float :=
  if z <? 0 then PrimFloat.opp (PrimFloat.of_uint63 (Uint63.of_Z (- z)))
  else PrimFloat.of_uint63 (Uint63.of_Z z).

(* exact integer / rounding views of a binary64 through its SpecFloat image *)
Definition sf_mant_exp (f : float) : option (bool * Z * Z) :=
  match Prim2SF f with
  | S754_zero s => Some (s, 0, 0)
  | S754_finite s m e => Some (s, Zpos m, e)
  | _ => None
  end.

(* math.trunc(f): OverflowError on inf, ValueError on nan *)
Definition f_trunc (f : float) : res Z :=
  match Prim2SF f with
  | S754_zero _ => Ok 0
  | S754_finite s m e =>
    let a := if 0 <=? e then Zpos m * 2 ^ e else Zpos m / 2 ^ (- e) in
    Ok (if s then - a else a)
  | S754_infinity _ => Host OverflowError
  | S754_nan => Host ValueError
  end.

(* math.floor(f) *)
Definition f_floor (f : float) : res Z :=
  match Prim2SF f with
  | S754_zero _ => Ok 0
  | S754_finite s m e =>
    if 0 <=? e then Ok (if s then - (Zpos m * 2 ^ e) else Zpos m * 2 ^ e)
    else
      let d := 2 ^ (- e) in
      let q := Zpos m / d in
      let r := Zpos m mod d in
      Ok (if s then (if r =? 0 then - q else - q - 1) else q)
  | S754_infinity _ => Host OverflowError
  | S754_nan => Host ValueError
  end.

(* round(f) with one argument: nearest integer, ties to even *)
Definition f_round (f : float) : res Z :=
  match Prim2SF f with
  | S754_zero _ => Ok 0
  | S754_finite s m e =>
    if 0 <=? e then Ok (if s then - (Zpos m * 2 ^ e) else Zpos m * 2 ^ e)
    else
      let d := 2 ^ (- e) in
      let q := Zpos m / d in
      let r := Zpos m mod d in
      let up := (d <? 2 * r) || ((d =? 2 * r) && Z.odd q) in
      let a := if up then q + 1 else q in
      Ok (if s then - a else a)
  | S754_infinity _ => Host OverflowError
  | S754_nan => Host ValueError
  end.

Definition f_div (a b : float) : res float :=
  if PrimFloat.eqb b 0%float then Host ZeroDivisionError else Ok (PrimFloat.div a b).

(* ---------------------------------------------------------------- loops *)

Fixpoint for_res {S X} (xs : list X) (body : X -> S -> res S) (s : S) : res S :=
  match xs with
  | [] => Ok s
  | x :: xs' => body x s >>= for_res xs' body
  end.

Fixpoint while_res {S} (fuel : nat) (cond : S -> res bool) (body : S -> res S) (s : S) : res S :=
  match fuel with
  | O => OutOfFuel
  | Datatypes.S f =>
    cond s >>= fun c => if c then body s >>= while_res f cond body else Ok s
  end.

Fixpoint while_pure {S} (fuel : nat) (cond : S -> bool) (body : S -> S) (s : S) : res S :=
  match fuel with
  | O => OutOfFuel
  | Datatypes.S f => if cond s then while_pure f cond body (body s) else Ok s
  end.
