(* Types and helper functions used by the generated lexer step (Gen/LexGen.v). *)
From Coq Require Import ZArith List Bool.
From Ckl Require Import Prelude.PyPrelude.
Import ListNotations.
Open Scope Z_scope.

Record lstate := mk_lstate {
  l_state : Z; l_token : str; l_tempbuf : str; l_line : Z; l_col : Z; l_sline : Z; l_scol : Z; l_upd : bool }.

(* token types: 0 interpunction, 1 operator, 2 string, 3 int, 4 decimal, 5 boolean, 6 keyword, 7 identifier, 8 pattern *)
Record tok := mk_tok { t_value : str; t_type : Z; t_line : Z; t_col : Z }.

Inductive lres :=
| Step (s : lstate) (emitted : list tok) (consumed : bool)
| LexError (line_in_source : Z).     (* raise CklSyntaxError at that line of lexer.py *)

Definition is_empty (s : str) : bool := match s with [] => true | _ => false end.
Definition remove_underscores (s : str) : str := filter (fun c => negb (c =? 95)) s.

Definition digit_value (c : Z) : Z :=
  if (48 <=? c) && (c <=? 57) then c - 48
  else if (97 <=? c) && (c <=? 102) then c - 87
  else if (65 <=? c) && (c <=? 70) then c - 55
  else 0.
Definition is_hex_digit (c : Z) : bool :=
  ((48 <=? c) && (c <=? 57)) || ((97 <=? c) && (c <=? 102)) || ((65 <=? c) && (c <=? 70)).
(* int(s, base) for a string of valid digits *)
Definition digits_value (base : Z) (s : str) : Z := fold_left (fun acc c => acc * base + digit_value c) s 0.
