(* C08: the text form of strings (hand model of ValueString.__repr__, tied by the correspondence run of checks/C08.py). *)
From Coq Require Import ZArith List Bool.
From Ckl Require Import Prelude.PyPrelude.
Import ListNotations.
Open Scope Z_scope.

(* result.replace("\\", "\\\\").replace("'", "\\'").replace("\r", "\\r").replace("\n", "\\n").replace("\t", "\\t"):
   the five replacements act on disjoint characters and none produces a character a later one replaces
   (the backslashes they insert come after the backslash replacement), so the chain is a per-character map *)
Definition esc_char (c : Z) : str :=
  if c =? 92 then [92; 92] else if c =? 39 then [92; 39] else if c =? 13 then [92; 114]
  else if c =? 10 then [92; 110] else if c =? 9 then [92; 116] else [c].
Definition esc (s : str) : str := flat_map esc_char s.
Definition render_string (s : str) : str := 39 :: esc s ++ [39].

(* ------------------------------------------------------------------ whole data values *)
From Ckl Require Import Model.Values Model.Arith Model.Sorting.

Definition ltv (a b : dval) : bool := match vlt a b with Some true => true | _ => false end.

Definition join_comma (l : list str) : str :=
  match l with [] => [] | x :: r => x ++ flat_map (fun y => [44; 32] ++ y) r end.
(* _pad_angle: keep the brackets of a nested set or map apart from the enclosing ones *)
Definition pad_angle (t : str) : str :=
  (match t with 60 :: _ => [32] | _ => [] end) ++ t ++ (match rev t with 62 :: _ => [32] | _ => [] end).

Section Render.
Variable fr : PrimFloat.float -> str.     (* text of a decimal: the host's shortest repr, not modelled *)
Variable dr : Z -> str.                   (* text of a date: not a data literal, not modelled *)

Fixpoint render (v : dval) : str :=
  match v with
  | DNull => [78; 85; 76; 76]
  | DBool true => [84; 82; 85; 69]
  | DBool false => [70; 65; 76; 83; 69]
  | DInt z => int_str z
  | DDec f => fr f
  | DStr s => render_string s
  | DDate t => dr t
  | DPat s => [47; 47] ++ s ++ [47; 47]
  | DList l => [91] ++ join_comma (map render l) ++ [93]
  | DSet l => [60; 60] ++ pad_angle (join_comma (map snd (sorted (fun p q => ltv (fst p) (fst q)) (map (fun x => (x, render x)) l)))) ++ [62; 62]
  | DMap l => [60; 60; 60]
              ++ pad_angle (join_comma (map snd (sorted (fun p q => ltv (fst p) (fst q))
                     (map (fun kv => (fst kv, render (fst kv) ++ [32; 61; 62; 32] ++ render (snd kv))) l))))
              ++ [62; 62; 62]
  end.
End Render.
