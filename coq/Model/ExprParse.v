(* Hand model of the operator core of the recursive-descent parser (src/ckl/parser.py: parse_expression .. parse_primary_expr,
   _call, deref_or_call_or_invoke) over the token alphabet
       int literal, boolean literal, identifier, ( ) , + - * / % == != < <= > >= and or not
   Tied to the implementation by correspondence (checks/C02.py: the same token lists through parse_script, the trees compared).
   The loops of the parser (while lexer.peekOne ...) become recursion on a counter started at the length of the remaining
   token list; the nesting of parse_primary_expr -> parse_bare_block -> parse_expression becomes recursion on explicit fuel.
   Proofs/ExprParseTotal.v shows that neither counter ever runs out. *)
From Coq Require Import ZArith List Bool.
Import ListNotations.
Open Scope Z_scope.

Inductive tok :=
| TInt (z : Z) | TBool (b : bool) | TId (n : Z)
| TLP | TRP | TComma
| TPlus | TMinus
| TMul (o : Z)      (* 0 "*"   1 "/"   2 "%" *)
| TRel (r : Z)      (* 0 ==  1 != / <>  2 <  3 <=  4 >  5 >= *)
| TAnd | TOr | TNot.

Inductive expr :=
| EInt (z : Z) | EBool (b : bool) | EVar (n : Z)
| EBin (o : Z) (a b : expr)        (* func_call add / sub / mul / div / mod : 0 1 2 3 4 *)
| ECmp (r : Z) (a b : expr)        (* func_call equals / not_equals / less / less_equals / greater / greater_equals *)
| ENot (a : expr)
| EAndL (l : list expr)            (* NodeAnd *)
| EOrL (l : list expr)             (* NodeOr *)
| ECall (f : expr) (args : list expr).

Inductive res := Ok (e : expr) (rest : list tok) | Err | Fuel.
Inductive resl := OkL (l : list expr) (rest : list tok) | ErrL | FuelL.

Section Levels.
  Variable prim : list tok -> res.     (* parse_pred_expr = parse_primary_expr on this alphabet *)

  (* parse_unary_expr *)
  Definition p_unary (ts : list tok) : res :=
    match ts with
    | TPlus :: ts' => prim ts'
    | TMinus :: [] => Err                                     (* lexer.peek() raises *)
    | TMinus :: TInt z :: ts' => Ok (EInt (- z)) ts'          (* parse_pred_expr(lexer, True): the literal is negated *)
    | TMinus :: ts' => match prim ts' with Ok e r => Ok (EBin 1 (EInt 0) e) r | x => x end
    | _ => prim ts
    end.

  (* parse_mul_expr: expr = unary; while peek in * / %: expr = func_call(op, expr, unary) *)
  Fixpoint mul_loop (k : nat) (acc : expr) (ts : list tok) : res :=
    match ts with
    | TMul o :: ts' =>
      match k with
      | O => Fuel
      | S k' => match p_unary ts' with Ok e r => mul_loop k' (EBin (2 + o) acc e) r | x => x end
      end
    | _ => Ok acc ts
    end.
  Definition p_mul (ts : list tok) : res :=
    match p_unary ts with Ok e r => mul_loop (length r) e r | x => x end.

  (* parse_add_expr *)
  Definition add_op (t : tok) : option Z := match t with TPlus => Some 0 | TMinus => Some 1 | _ => None end.
  Fixpoint add_loop (k : nat) (acc : expr) (ts : list tok) : res :=
    match ts with
    | t :: ts' =>
      match add_op t with
      | Some o =>
        match k with
        | O => Fuel
        | S k' => match p_mul ts' with Ok e r => add_loop k' (EBin o acc e) r | x => x end
        end
      | None => Ok acc ts
      end
    | [] => Ok acc ts
    end.
  Definition p_add (ts : list tok) : res :=
    match p_mul ts with Ok e r => add_loop (length r) e r | x => x end.

  (* parse_rel_expr: a chain a r1 b r2 c is NodeAnd [cmp r1 a b; cmp r2 b c], simplified when it has one clause *)
  Definition simplified (l : list expr) : expr := match l with [c] => c | _ => EAndL l end.
  Fixpoint rel_loop (k : nat) (lhs : expr) (acc : list expr) (ts : list tok) : res :=
    match ts with
    | TRel r :: ts' =>
      match k with
      | O => Fuel
      | S k' => match p_add ts' with Ok rhs rest => rel_loop k' rhs (acc ++ [ECmp r lhs rhs]) rest | x => x end
      end
    | _ => Ok (simplified acc) ts
    end.
  Definition p_rel (ts : list tok) : res :=
    match p_add ts with
    | Ok e r => match r with TRel _ :: _ => rel_loop (length r) e [] r | _ => Ok e r end
    | x => x
    end.

  (* parse_not_expr *)
  Definition p_not (ts : list tok) : res :=
    match ts with
    | TNot :: ts' => match p_rel ts' with Ok e r => Ok (ENot e) r | x => x end
    | _ => p_rel ts
    end.

  (* parse_and_expr / parse_or_expr: a flat clause list *)
  Fixpoint and_loop (k : nat) (acc : list expr) (ts : list tok) : res :=
    match ts with
    | TAnd :: ts' =>
      match k with
      | O => Fuel
      | S k' => match p_not ts' with Ok e r => and_loop k' (acc ++ [e]) r | x => x end
      end
    | _ => Ok (EAndL acc) ts
    end.
  Definition p_and (ts : list tok) : res :=
    match p_not ts with
    | Ok e r => match r with TAnd :: _ => and_loop (length r) [e] r | _ => Ok e r end
    | x => x
    end.

  Fixpoint or_loop (k : nat) (acc : list expr) (ts : list tok) : res :=
    match ts with
    | TOr :: ts' =>
      match k with
      | O => Fuel
      | S k' => match p_and ts' with Ok e r => or_loop k' (acc ++ [e]) r | x => x end
      end
    | _ => Ok (EOrL acc) ts
    end.
  Definition p_or (ts : list tok) : res :=
    match p_and ts with
    | Ok e r => match r with TOr :: _ => or_loop (length r) [e] r | _ => Ok e r end
    | x => x
    end.

  (* _call: while not peek ")": arg = parse_expression; if not peek ")": match "," *)
  Fixpoint args_loop (k : nat) (acc : list expr) (ts : list tok) : resl :=
    match ts with
    | TRP :: r => OkL acc r
    | [] => ErrL                                              (* lexer.peek() raises *)
    | _ =>
      match k with
      | O => FuelL
      | S k' =>
        match p_or ts with
        | Ok e r =>
          match r with
          | TRP :: _ => args_loop k' (acc ++ [e]) r
          | TComma :: r' => args_loop k' (acc ++ [e]) r'
          | _ => ErrL
          end
        | Err => ErrL
        | Fuel => FuelL
        end
      end
    end.

  (* deref_or_call_or_invoke on this alphabet: while peek "(": node = _call(node) *)
  Fixpoint postfix (k : nat) (f : expr) (ts : list tok) : res :=
    match ts with
    | TLP :: ts' =>
      match k with
      | O => Fuel
      | S k' =>
        match args_loop (length ts') [] ts' with
        | OkL args r => postfix k' (ECall f args) r
        | ErrL => Err
        | FuelL => Fuel
        end
      end
    | _ => Ok f ts
    end.
End Levels.

(* parse_primary_expr *)
Fixpoint p_prim (n : nat) (ts : list tok) : res :=
  match n with
  | O => Fuel
  | S n' =>
    match ts with
    | TLP :: ts' =>
      match p_or (p_prim n') ts' with
      | Ok e (TRP :: r) => postfix (p_prim n') (length r) e r
      | Ok _ _ => Err
      | x => x
      end
    | TId v :: ts' => postfix (p_prim n') (length ts') (EVar v) ts'
    | TInt z :: ts' => Ok (EInt z) ts'
    | TBool b :: ts' => Ok (EBool b) ts'
    | _ => Err
    end
  end.

(* parse: an expression followed by the end of the input (the empty input is NodeNull: not in the expression type, reported as None) *)
Definition parse_fuel (n : nat) (ts : list tok) : res :=
  match p_or (p_prim n) ts with
  | Ok e [] => Ok e []
  | Ok _ _ => Err
  | x => x
  end.
Definition parse (ts : list tok) : res := parse_fuel (S (length ts)) ts.

(* ---- canonical text of a tree: parentheses only where the grammar needs them ---- *)
Definition level (e : expr) : nat :=
  match e with
  | EOrL _ => 1%nat | EAndL _ => 2%nat | ENot _ => 3%nat | ECmp _ _ _ => 4%nat
  | EBin o _ _ => if o <? 2 then 5%nat else 6%nat
  | EInt z => if z <? 0 then 7%nat else 8%nat
  | EBool _ | EVar _ | ECall _ _ => 8%nat
  end.

Definition paren (ts : list tok) : list tok := TLP :: ts ++ [TRP].
Definition wrap (need : bool) (ts : list tok) : list tok := if need then paren ts else ts.

Fixpoint sep (s : tok) (l : list (list tok)) : list tok :=
  match l with
  | [] => []
  | [x] => x
  | x :: t => x ++ s :: sep s t
  end.

Definition bin_tok (o : Z) : tok := if o =? 0 then TPlus else if o =? 1 then TMinus else TMul (o - 2).

Fixpoint raw (e : expr) : list tok :=
  let at_ (L : nat) (x : expr) := wrap (Nat.ltb (level x) L) (raw x) in
  match e with
  | EInt z => if z <? 0 then [TMinus; TInt (- z)] else [TInt z]
  | EBool b => [TBool b]
  | EVar v => [TId v]
  | EBin o a b => if o <? 2 then at_ 5%nat a ++ bin_tok o :: at_ 6%nat b else at_ 6%nat a ++ bin_tok o :: at_ 7%nat b
  | ECmp r a b => at_ 5%nat a ++ TRel r :: at_ 5%nat b
  | ENot a => TNot :: at_ 4%nat a
  | EAndL l => sep TAnd (map (at_ 3%nat) l)
  | EOrL l => sep TOr (map (at_ 2%nat) l)
  | ECall f args =>
    wrap (match f with EVar _ | ECall _ _ => false | _ => true end) (raw f) ++ TLP :: sep TComma (map (at_ 1%nat) args) ++ [TRP]
  end.
Definition render_at (L : nat) (e : expr) : list tok := wrap (Nat.ltb (level e) L) (raw e).
Definition render (e : expr) : list tok := raw e.

(* the trees the parser can produce *)
Fixpoint wf (e : expr) : bool :=
  match e with
  | EInt _ | EBool _ | EVar _ => true
  | EBin o a b => (0 <=? o) && (o <=? 4) && wf a && wf b
  | ECmp r a b => (0 <=? r) && (r <=? 5) && wf a && wf b
  | ENot a => wf a
  | EAndL l => Nat.leb 2 (length l) && forallb wf l
  | EOrL l => Nat.leb 2 (length l) && forallb wf l
  | ECall f args => wf f && forallb wf args
  end.

(* ---- encodings for the correspondence case files ---- *)
Definition dec_tok (k v : Z) : tok :=
  if k =? 0 then TInt v else if k =? 1 then TBool (v =? 1) else if k =? 2 then TId v else if k =? 3 then TLP else if k =? 4 then TRP
  else if k =? 5 then TComma else if k =? 6 then TPlus else if k =? 7 then TMinus else if k =? 8 then TMul v else if k =? 9 then TRel v
  else if k =? 10 then TAnd else if k =? 11 then TOr else TNot.
Fixpoint dec_toks (l : list Z) : list tok :=
  match l with k :: v :: t => dec_tok k v :: dec_toks t | _ => [] end.

Definition zlen {A} (l : list A) : Z := Z.of_nat (length l).
Fixpoint enc_expr (e : expr) : list Z :=
  match e with
  | EInt z => [1; z] | EBool b => [2; if b then 1 else 0] | EVar v => [3; v]
  | EBin o a b => 4 :: o :: enc_expr a ++ enc_expr b
  | ECmp r a b => 5 :: r :: enc_expr a ++ enc_expr b
  | ENot a => 6 :: enc_expr a
  | EAndL l => 7 :: zlen l :: concat (map enc_expr l)
  | EOrL l => 8 :: zlen l :: concat (map enc_expr l)
  | ECall f args => 9 :: zlen args :: enc_expr f ++ concat (map enc_expr args)
  end.
Definition enc_res (r : res) : list Z :=
  match r with Ok e _ => 1 :: enc_expr e | Err => [0] | Fuel => [2] end.
Definition enc_tok (t : tok) : list Z :=
  match t with
  | TInt z => [0; z] | TBool b => [1; if b then 1 else 0] | TId v => [2; v] | TLP => [3; 0] | TRP => [4; 0] | TComma => [5; 0]
  | TPlus => [6; 0] | TMinus => [7; 0] | TMul o => [8; o] | TRel r => [9; r] | TAnd => [10; 0] | TOr => [11; 0] | TNot => [12; 0]
  end.
