(* C02: hand model of the arithmetic natives (FuncAdd/Sub/Mul/Div/Mod.execute)
   on null / numeric / string / list operands, of NodeAnd/NodeOr/NodeNot.evaluate,
   of comparison chains as parse_rel_expr builds them, and of NodeIn.evaluate.
   Tied to the code by the correspondence run of checks/C02.py. *)
From Coq Require Import String.
From Coq Require Import ZArith List Bool Lia.
From Coq Require Import PrimFloat Uint63 FloatOps SpecFloat.
From Ckl Require Import Prelude.PyPrelude Model.Values.
Import ListNotations.
Open Scope Z_scope.

(* outcome of evaluating an expression: a value, the language's runtime error,
   a host exception, or "outside the modelled fragment" (never compared) *)
Inductive outcome := OVal (v : dval) | OErr | OHost (e : exn) | OUnmodelled.

Inductive aop := Add | Sub | Mul | Div | Mod.

Definition is_num (v : dval) := match v with DInt _ | DDec _ => true | _ => false end.
Definition is_null (v : dval) := match v with DNull => true | _ => false end.
Definition is_atomic (v : dval) :=
  match v with DStr _ | DInt _ | DDec _ | DBool _ | DDate _ | DPat _ | DNull => true | _ => false end.

(* int -> float as CPython converts it (exact below 2^53; larger ints are outside the modelled fragment) *)
Definition to_float (v : dval) : option float :=
  match v with
  | DDec f => Some f
  | DInt z => if Z.abs z <? 2 ^ 53 then Some (Z2F z) else None
  | _ => None
  end.

Definition fop (op : aop) (f g : float) : outcome :=
  match op with
  | Add => OVal (DDec (PrimFloat.add f g))
  | Sub => OVal (DDec (PrimFloat.sub f g))
  | Mul => OVal (DDec (PrimFloat.mul f g))
  | Div => if PrimFloat.eqb g 0%float then OErr else OVal (DDec (PrimFloat.div f g))
  | Mod => if PrimFloat.eqb g 0%float then OErr else OUnmodelled (* fmod: not modelled *)
  end.

(* truncating integer division as the code computes it *)
Definition int_div (a b : Z) : Z :=
  let q := Z.abs a / Z.abs b in
  if negb (Bool.eqb (a <? 0) (b <? 0)) then - q else q.

Definition zop (op : aop) (a b : Z) : outcome :=
  match op with
  | Add => OVal (DInt (a + b))
  | Sub => OVal (DInt (a - b))
  | Mul => OVal (DInt (a * b))
  | Div => if b =? 0 then OErr else OVal (DInt (int_div a b))
  | Mod => if b =? 0 then OErr else OVal (DInt (a mod b))   (* Python %: floor modulo = Z.modulo *)
  end.

(* decimal digits of an int, as str(int) *)
Fixpoint digits_pos (fuel : nat) (n : Z) (acc : str) : str :=
  match fuel with
  | O => acc
  | S f => if n <? 10 then (48 + n) :: acc else digits_pos f (n / 10) ((48 + n mod 10) :: acc)
  end.
Definition int_str (z : Z) : str :=
  if z <? 0 then 45 :: digits_pos (S (Z.to_nat (Z.log2 (- z)))) (- z) []
  else digits_pos (S (Z.to_nat (Z.log2 z))) z [].

Definition as_string (v : dval) : option str :=
  match v with
  | DStr s => Some s
  | DInt z => Some (int_str z)
  | DBool true => Some [84; 82; 85; 69]
  | DBool false => Some [70; 65; 76; 83; 69]
  | DPat s => Some s
  | _ => None   (* decimals / dates: rendering not modelled here *)
  end.

Fixpoint repeat_list {A} (n : nat) (l : list A) : list A :=
  match n with O => [] | S k => l ++ repeat_list k l end.

(* a - b on lists: the elements of a that are == to no element of b *)
Definition list_minus (a b : list dval) : list dval :=
  filter (fun x => negb (existsb (fun y => veq x y) b)) a.

Definition arith (op : aop) (a b : dval) : outcome :=
  match op with
  | Sub =>
    match a with
    | DList la =>
      match b with
      | DList lb => OVal (DList (list_minus la lb))
      | DSet _ | DMap _ => OUnmodelled
      | DNull => OErr
      | _ => OVal (DList (list_minus la [b]))
      end
    | DSet _ | DDate _ => OUnmodelled
    | _ =>
      if is_null a || is_null b then OVal DNull
      else match a, b with
           | DInt x, DInt y => zop Sub x y
           | _, _ => if is_num a && is_num b then
                       match to_float a, to_float b with Some f, Some g => fop Sub f g | _, _ => OUnmodelled end
                     else OErr
           end
    end
  | _ =>
    if is_null a || is_null b then OVal DNull
    else match a, b with
         | DInt x, DInt y => zop op x y
         | _, _ =>
           if is_num a && is_num b then
             match to_float a, to_float b with Some f, Some g => fop op f g | _, _ => OUnmodelled end
           else match op, a, b with
                (* repetition: beyond the host's index range the language's error; a count the model cannot afford is not modelled *)
                | Mul, DStr s, DInt n => if 9223372036854775807 <? n then OErr else if 100000 <? n then OUnmodelled
                                         else OVal (DStr (repeat_list (Z.to_nat n) s))
                | Mul, DList l, DInt n => if 9223372036854775807 <? n then OErr else if 100000 <? n then OUnmodelled
                                          else OVal (DList (repeat_list (Z.to_nat n) l))
                | Add, DList la, DList lb => OVal (DList (la ++ lb))
                | Add, DList la, (DSet _ | DMap _) => OUnmodelled
                | Add, DList la, _ => OVal (DList (la ++ [b]))
                | Add, (DSet _ | DMap _ | DDate _), _ => OUnmodelled
                | Add, _, DList lb => OVal (DList (a :: lb))
                | Add, _, (DSet _ | DMap _) => OUnmodelled
                | Add, _, _ =>
                  match a, b with
                  | DStr _, _ | _, DStr _ =>
                    if is_atomic a && is_atomic b then
                      match as_string a, as_string b with
                      | Some s, Some t => OVal (DStr (s ++ t))
                      | _, _ => OUnmodelled
                      end
                    else OErr
                  | _, _ => OErr
                  end
                | _, _, _ => OErr
                end
         end
  end.

(* ------------------------------------------------------------ expressions *)
Inductive relop := Lt | Le | Gt | Ge | EqOp | NeOp.

Inductive opx :=
| XLit (v : dval)
| XVar (i : nat)
| XNeg (e : opx)                       (* -e on a non-literal: sub(0, e) *)
| XBin (op : aop) (a b : opx)
| XChain (e0 : opx) (rest : list (relop * opx))
| XNot (e : opx)
| XAnd (es : list opx)
| XOr (es : list opx)
| XIn (e c : opx).

Definition rel (op : relop) (a b : dval) : outcome :=
  let ob (o : option bool) := match o with Some x => OVal (DBool x) | None => OUnmodelled end in
  match op with
  | Lt => ob (vlt a b)
  | Le => ob (vle a b)
  | Gt => ob (vgt a b)
  | Ge => ob (vge a b)
  | EqOp => OVal (DBool (veq a b))
  | NeOp => OVal (DBool (negb (veq a b)))
  end.

(* NodeIn.evaluate on the modelled container kinds *)
Definition member (x c : dval) : outcome :=
  match c with
  | DList l => OVal (DBool (existsb (fun y => veq x y) l))
  | DSet l => OVal (DBool (existsb (fun y => veq x y) l))
  | DMap l => OVal (DBool (existsb (fun kv => veq x (fst kv)) l))
  | DStr s => match x with
              | DStr p => OVal (DBool (0 <=? str_find s p))
              | _ => OUnmodelled
              end
  | _ => OVal (DBool false)
  end.

Section Eval.
Variable env : list dval.

(* NodeAnd.evaluate / NodeOr.evaluate over already chosen clause meanings *)
Fixpoint and_clauses (cs : list (unit -> outcome)) : outcome :=
  match cs with
  | [] => OVal (DBool true)
  | c :: cs' => match c tt with
                | OVal (DBool true) => and_clauses cs'
                | OVal (DBool false) => OVal (DBool false)
                | OVal _ => OErr
                | o => o
                end
  end.
Fixpoint or_clauses (cs : list (unit -> outcome)) : outcome :=
  match cs with
  | [] => OVal (DBool false)
  | c :: cs' => match c tt with
                | OVal (DBool false) => or_clauses cs'
                | OVal (DBool true) => OVal (DBool true)
                | OVal _ => OErr
                | o => o
                end
  end.

Definition bind2 (a b : outcome) (f : dval -> dval -> outcome) : outcome :=
  match a with
  | OVal x => match b with OVal y => f x y | o => o end
  | o => o
  end.

Fixpoint eval (e : opx) : outcome :=
  match e with
  | XLit v => OVal v
  | XVar i => match nth_error env i with Some v => OVal v | None => OErr end
  | XNeg a => bind2 (OVal (DInt 0)) (eval a) (arith Sub)
  | XBin op a b => bind2 (eval a) (eval b) (arith op)
  | XChain e0 rest =>
    (* and-node of the adjacent pairs; each pair evaluates both of its operands
       (the middle operands are evaluated twice by the code; operands are pure here,
       so the second evaluation is the same outcome) *)
    (fix go (lhs : outcome) (rest : list (relop * opx)) : outcome :=
       match rest with
       | [] => OVal (DBool true)
       | (op, rhs) :: rest' =>
         let r := eval rhs in
         match bind2 lhs r (rel op) with
         | OVal (DBool true) => go r rest'
         | OVal (DBool false) => OVal (DBool false)
         | OVal _ => OErr
         | o => o
         end
       end) (eval e0) rest
  | XNot a => match eval a with
              | OVal (DBool x) => OVal (DBool (negb x))
              | OVal _ => OErr
              | o => o
              end
  | XAnd es =>
    (fix go (es : list opx) : outcome :=
       match es with
       | [] => OVal (DBool true)
       | c :: es' => match eval c with
                     | OVal (DBool true) => go es'
                     | OVal (DBool false) => OVal (DBool false)
                     | OVal _ => OErr
                     | o => o
                     end
       end) es
  | XOr es =>
    (fix go (es : list opx) : outcome :=
       match es with
       | [] => OVal (DBool false)
       | c :: es' => match eval c with
                     | OVal (DBool false) => go es'
                     | OVal (DBool true) => OVal (DBool true)
                     | OVal _ => OErr
                     | o => o
                     end
       end) es
  | XIn a c => bind2 (eval a) (eval c) member
  end.
End Eval.
