(* C09: the native binder under secure mode (hand model of bind_native / bind_native_fun / add over the GENERATED
   table Gen/SecureTable.v; tied to the code by regeneration of the table on every run - which also checks the shape of
   the binder, of the `run` registration and of the single write of the flag - and by the audited run of checks/C09.py). *)
From Coq Require Import ZArith List Bool.
From Ckl Require Import Gen.SecureTable.
Import ListNotations.
Open Scope Z_scope.

Fixpoint class_row (c : Z) (l : list (Z * bool * bool)) : option (bool * bool) :=
  match l with [] => None | (i, s, d) :: r => if c =? i then Some (s, d) else class_row c r end.
(* a class the table does not know is treated as insecure and dangerous *)
Definition class_secure (c : Z) : bool := match class_row c classes with Some (s, _) => s | None => false end.
Definition class_dangerous (c : Z) : bool := match class_row c classes with Some (_, d) => d | None => true end.
Fixpoint native_classes (n : Z) (l : list (Z * list Z)) : list Z :=
  match l with [] => [] | (i, cs) :: r => if n =? i then cs else native_classes n r end.

Record sst := mk_sst { flag : bool; bound : list (Z * Z) }.     (* base flag; (variable, class of the function value it holds) *)

(* bind_native_fun + add *)
Definition bind_fun (s : sst) (cls : Z) (alias : option Z) : sst :=
  if flag s && negb (class_secure cls) then s
  else mk_sst (flag s) (match alias with Some a => [(a, cls)] | None => [] end ++ (cls, cls) :: bound s).

Inductive cmd :=
| CBind (native : Z) (alias : option Z)     (* bind_native(name) / bind_native(name, alias), from any scope, module or function *)
| CCopy (x y : Z)                           (* def y = x, passing a function value on, storing it in an object or a list *)
| CShadowFlag (b : bool)                    (* a definition of checkerlang_secure_mode in a scope that is not the base: the base flag is unchanged *)
| CForget (x : Z).                          (* a name goes out of scope or is overwritten by a non-function *)

Definition run_cmd (s : sst) (c : cmd) : sst :=
  match c with
  | CBind n alias => fold_left (fun st cls => bind_fun st cls alias) (native_classes n natives) s
  | CCopy x y => match find (fun p => fst p =? x) (bound s) with Some (_, cls) => mk_sst (flag s) ((y, cls) :: bound s) | None => s end
  | CShadowFlag _ => s
  | CForget x => mk_sst (flag s) (filter (fun p => negb (fst p =? x)) (bound s))
  end.

Definition run (cs : list cmd) (s : sst) : sst := fold_left run_cmd cs s.
Definition all_secure (s : sst) : Prop := forall x c, In (x, c) (bound s) -> class_secure c = true.
