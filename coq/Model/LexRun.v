(* Iterating the generated scanner step over a source text (Lexer.__init__ appends a blank). *)
From Coq Require Import ZArith List Bool.
From Ckl Require Import Prelude.PyPrelude Prelude.LexPrelude Gen.LexGen.
Import ListNotations.
Open Scope Z_scope.

Inductive lexres := LexOk (toks : list tok) | LexErr (line_in_source : Z) | LexFuel.

Fixpoint lex_loop (fuel : nat) (s : lstate) (input : list Z) (acc : list tok) : lexres :=
  match fuel with
  | O => LexFuel
  | S f =>
    match input with
    | [] => LexOk acc
    | ch :: rest =>
      match lex_step s ch with
      | LexError l => LexErr l
      | Step s' emitted consumed =>
        if consumed then lex_loop f s' rest (acc ++ emitted)
        else lex_loop f s' input (acc ++ emitted)      (* pos -= 1: the same character is read again *)
      end
    end
  end.

Definition lex_fuel (src : list Z) : nat := 3 * (length src + 1) + 1.
Definition lex (src : list Z) : lexres := lex_loop (lex_fuel src) lex_init (src ++ [32]) [].

Definition enc_tok (t : tok) : list Z := [t_type t; t_line t; t_col t; zlen (t_value t)] ++ t_value t.
Definition enc_lex (r : lexres) : list Z :=
  match r with
  | LexOk ts => 0 :: zlen ts :: concat (map enc_tok ts)
  | LexErr l => [1; l]
  | LexFuel => [3]
  end.
