(* Hand model of the evaluator (src/ckl/nodes.py *.evaluate, FuncLambda.execute, invoke,
   Args.setArgs, Environment) for a core fragment of the language, with a heap for the
   values that are shared by reference (lists, sets, maps, objects, closures, frames).
   Every node's meaning is a combinator that takes the meaning [ev] of sub-expressions as an
   argument ([block_sem], [for_sem], [while_sem], [call_closure] ...): the control-flow theorems
   of C03/C04/C05/C16 are proved for every [ev].  Tied to the code by the correspondence runs
   (the real parser's tree is converted by tools/ast2model.py and evaluated by both sides). *)
From Coq Require Import String.
From Coq Require Import ZArith List Bool Lia.
From Coq Require Import PrimFloat.
From Ckl Require Import Prelude.PyPrelude Model.Values Model.Containers Model.Sorting Model.Arith Model.SeqModel Model.Coll.
Import ListNotations.
Open Scope Z_scope.

(* ------------------------------------------------------------ syntax *)
Inductive lit := LNull | LBool (b : bool) | LInt (z : Z) | LDec (f : float) | LStr (s : str) | LPat (s : str).

Inductive expr :=
| ELit (l : lit)
| EId (x : str)
| EAnd (es : list expr)
| EOr (es : list expr)
| ENot (e : expr)
| EAssign (x : str) (e : expr)
| EAssignD (xs : list str) (e : expr)
| EBlock (body : list expr) (catches : list (option expr * expr)) (fin : list expr)
| EBreak
| EContinue
| EReturn (e : option expr)
| EError (e : expr)
| EDef (x : str) (e : expr)
| EDefD (xs : list str) (e : expr)
| EDeref (e idx : expr) (dflt : option expr)
| EDerefAssign (e idx v : expr)
| ESlice (e a : expr) (b : option expr)
| EFor (xs : list str) (coll body : expr) (what : Z)            (* 0 values, 1 keys, 2 entries *)
| EWhile (c body : expr)
| ECall (f : expr) (args : list (option str * expr))
| EInvoke (obj : expr) (member : str) (args : list (option str * expr))
| EIf (branches : list (expr * expr)) (els : expr)
| EIn (e c : expr)
| ELambda (params : list (str * option expr)) (body : expr)
| EList (items : list expr)
| ESet (items : list expr)
| EMap (kvs : list (expr * expr))
| EObject (kvs : list (str * expr))
| EComp (kind : Z) (v : expr) (x : str) (coll : expr) (what : Z) (cond : option expr)   (* 0 list, 1 set *)
| EComp2 (kind : Z) (par : bool) (v : expr) (x1 : str) (c1 : expr) (w1 : Z) (x2 : str) (c2 : expr) (w2 : Z) (cond : option expr)
| EMapComp (k v : expr) (x : str) (coll : expr) (what : Z) (cond : option expr)
| ESpread (e : expr)
| EUnmodelled.

(* ------------------------------------------------------------ values, heap *)
Definition loc := nat.
Inductive rkind := KList | KSet | KMap | KObj | KClos.

Inductive value :=
| VNull | VBool (b : bool) | VInt (z : Z) | VDec (f : float) | VStr (s : str) | VPat (s : str)
| VRef (k : rkind) (l : loc)
| VNative (name : str).

Inductive cell :=
| CList (vs : list value)
| CSet (vs : list value)
| CMap (kvs : list (value * value))
| CObj (kvs : list (str * value)) (ismod : bool)
| CFrame (bs : list (str * value)) (parent : option loc)
| CClos (params : list (str * option expr)) (body : expr) (env : loc).

Definition state := list cell.

Inductive outcome :=
| OV (v : value)            (* a value *)
| OBrk | OCont | ORet (v : value)
| OErr (v : value)          (* the language's runtime error carrying an error value *)
| OHostX (e : exn)
| OFuel
| OUnm.                     (* outside the modelled fragment *)

Definition rd (st : state) (l : loc) : option cell := nth_error st l.
Fixpoint upd {A} (l : list A) (n : nat) (x : A) : list A :=
  match l, n with
  | [], _ => []
  | _ :: t, O => x :: t
  | h :: t, S k => h :: upd t k x
  end.
Definition wr (st : state) (l : loc) (c : cell) : state := upd st l c.
Definition alloc (st : state) (c : cell) : state * loc := (st ++ [c], length st).

Definition err_str : str := [69; 82; 82; 79; 82].   (* 'ERROR' *)
Definition oerr : outcome := OErr (VStr err_str).

(* ------------------------------------------------------------ environments (Environment.put/set/get/isDefined/remove) *)
Fixpoint assoc_get {B} (x : str) (bs : list (str * B)) : option B :=
  match bs with
  | [] => None
  | (y, v) :: t => if str_eqb x y then Some v else assoc_get x t
  end.
Fixpoint assoc_set {B} (x : str) (v : B) (bs : list (str * B)) : list (str * B) :=
  match bs with
  | [] => [(x, v)]
  | (y, w) :: t => if str_eqb x y then (y, v) :: t else (y, w) :: assoc_set x v t
  end.
Fixpoint assoc_del {B} (x : str) (bs : list (str * B)) : list (str * B) :=
  match bs with
  | [] => []
  | (y, w) :: t => if str_eqb x y then t else (y, w) :: assoc_del x t
  end.

Definition env_put (st : state) (env : loc) (x : str) (v : value) : state :=
  match rd st env with
  | Some (CFrame bs p) => wr st env (CFrame (assoc_set x v bs) p)
  | _ => st
  end.
Definition env_remove (st : state) (env : loc) (x : str) : state :=
  match rd st env with
  | Some (CFrame bs p) => wr st env (CFrame (assoc_del x bs) p)
  | _ => st
  end.
(* the frame that binds x, walking the parent chain (fuel: chains are acyclic and shorter than the heap) *)
Fixpoint env_find (fuel : nat) (st : state) (env : loc) (x : str) : option loc :=
  match fuel with
  | O => None
  | S f =>
    match rd st env with
    | Some (CFrame bs p) =>
      match assoc_get x bs with
      | Some _ => Some env
      | None => match p with Some q => env_find f st q x | None => None end
      end
    | _ => None
    end
  end.
Definition env_lookup (st : state) (env : loc) (x : str) : option value :=
  match env_find (S (length st)) st env x with
  | Some fr => match rd st fr with Some (CFrame bs _) => assoc_get x bs | _ => None end
  | None => None
  end.
Definition env_defined (st : state) (env : loc) (x : str) : bool :=
  match env_find (S (length st)) st env x with Some _ => true | None => false end.
(* Environment.set: update the nearest frame that binds x; None when x is unbound *)
Definition env_set (st : state) (env : loc) (x : str) (v : value) : option state :=
  match env_find (S (length st)) st env x with
  | Some fr => Some (env_put st fr x v)
  | None => None
  end.

(* ------------------------------------------------------------ data view of heap values *)
(* deep copy of a value into the tree-shaped [dval] (None: a function, an object, or nesting beyond fuel) *)
Fixpoint to_dval (fuel : nat) (st : state) (v : value) : option dval :=
  match fuel with
  | O => None
  | S f =>
    let all (vs : list value) : option (list dval) :=
      fold_right (fun x acc => match to_dval f st x, acc with Some d, Some l => Some (d :: l) | _, _ => None end) (Some []) vs in
    match v with
    | VNull => Some DNull | VBool b => Some (DBool b) | VInt z => Some (DInt z) | VDec x => Some (DDec x)
    | VStr s => Some (DStr s) | VPat s => Some (DPat s)
    | VRef KList l => match rd st l with Some (CList vs) => option_map DList (all vs) | _ => None end
    | VRef KSet l => match rd st l with Some (CSet vs) => option_map DSet (all vs) | _ => None end
    | VRef KMap l =>
      match rd st l with
      | Some (CMap kvs) =>
        match all (map fst kvs), all (map snd kvs) with
        | Some ks, Some vs => Some (DMap (combine ks vs))
        | _, _ => None
        end
      | _ => None
      end
    | _ => None
    end
  end.
Definition dfuel (st : state) : nat := 12.

Definition is_func (v : value) : bool := match v with VRef KClos _ | VNative _ => true | _ => false end.

(* == on run-time values: data by [veq] on the data view, functions by identity *)
Definition veqV (st : state) (a b : value) : option bool :=
  match a, b with
  | VRef KClos l1, VRef KClos l2 => Some (Nat.eqb l1 l2)
  | VNative n1, VNative n2 => Some (str_eqb n1 n2)
  | _, _ =>
    if is_func a || is_func b then Some false
    else match to_dval (dfuel st) st a, to_dval (dfuel st) st b with
         | Some x, Some y => Some (veq x y)
         | _, _ => None
         end
  end.
Definition vltV (st : state) (a b : value) : option bool :=
  match to_dval (dfuel st) st a, to_dval (dfuel st) st b with
  | Some x, Some y => vlt x y
  | _, _ => None
  end.
Definition ltb_or (st : state) (a b : value) : bool := match vltV st a b with Some true => true | _ => false end.
(* sorted enumeration (getSortedItems / sorted(keys)): None if some pair is not comparable in the model *)
Definition all_comparable (st : state) (vs : list value) : bool :=
  forallb (fun a => forallb (fun b => match vltV st a b with Some _ => true | None => false end) vs) vs.
Definition sorted_vals (st : state) (vs : list value) : option (list value) :=
  if all_comparable st vs then Some (sorted (ltb_or st) vs) else None.

Definition type_name (v : value) : str :=
  match v with
  | VNull => [110;117;108;108] | VBool _ => [98;111;111;108;101;97;110] | VInt _ => [105;110;116]
  | VDec _ => [100;101;99;105;109;97;108] | VStr _ => [115;116;114;105;110;103] | VPat _ => [112;97;116;116;101;114;110]
  | VRef KList _ => [108;105;115;116] | VRef KSet _ => [115;101;116] | VRef KMap _ => [109;97;112]
  | VRef KObj _ => [111;98;106;101;99;116] | VRef KClos _ | VNative _ => [102;117;110;99]
  end.

(* scalars <-> dval (for the arithmetic natives of Model/Arith.v) *)
Definition of_scalar (v : value) : option dval :=
  match v with
  | VNull => Some DNull | VBool b => Some (DBool b) | VInt z => Some (DInt z) | VDec f => Some (DDec f)
  | VStr s => Some (DStr s) | VPat s => Some (DPat s) | _ => None
  end.
Definition to_scalar (d : dval) : option value :=
  match d with
  | DNull => Some VNull | DBool b => Some (VBool b) | DInt z => Some (VInt z) | DDec f => Some (VDec f)
  | DStr s => Some (VStr s) | DPat s => Some (VPat s) | _ => None
  end.

(* ------------------------------------------------------------ argument binding (Args.addArgs + Args.setArgs) *)
Definition ends_dots (s : str) : bool := str_endswith s [46; 46; 46].
Definition positional_params (ps : list str) : list str := filter (fun p => negb (ends_dots p)) ps.
Definition rest_param (ps : list str) : option str := find ends_dots ps.

Fixpoint next_positional (argNames : list str) (bound : list (str * value)) : option str :=
  match argNames with
  | [] => None
  | a :: t => match assoc_get a bound with Some _ => next_positional t bound | None => Some a end
  end.

(* first loop of setArgs: named arguments (unknown name -> error) *)
Fixpoint bind_named (argNames : list str) (nvs : list (option str * value)) (bound : list (str * value))
  : option (list (str * value)) :=
  match nvs with
  | [] => Some bound
  | (Some n, v) :: t => if existsb (str_eqb n) argNames then bind_named argNames t (assoc_set n v bound) else None
  | (None, _) :: t => bind_named argNames t bound
  end.
(* second loop: positionals in order; a positional after a named one is an error *)
Fixpoint bind_positional (argNames : list str) (hasRest : bool) (nvs : list (option str * value)) (inKw : bool)
  (bound : list (str * value)) (rest : list value) : option (list (str * value) * list value) :=
  match nvs with
  | [] => Some (bound, rest)
  | (None, v) :: t =>
    if inKw then None
    else match next_positional argNames bound with
         | None => if hasRest then bind_positional argNames hasRest t inKw bound (rest ++ [v]) else None
         | Some a => bind_positional argNames hasRest t inKw (assoc_set a v bound) rest
         end
  | (Some n, v) :: t =>
    if existsb (str_eqb n) argNames then bind_positional argNames hasRest t true (assoc_set n v bound) rest else None
  end.
(* result: bindings of the named/positional parameters and the values collected for the rest parameter *)
Definition set_args (params : list str) (nvs : list (option str * value)) : option (list (str * value) * list value) :=
  let argNames := positional_params params in
  match bind_named argNames nvs [] with
  | None => None
  | Some b => bind_positional argNames (match rest_param params with Some _ => true | None => false end) nvs false b []
  end.

(* ------------------------------------------------------------ natives *)
Definition native_params (name : string) : option (list string) :=
  let ab := ["a"; "b"]%string in
  if (name =? "add")%string || (name =? "sub")%string || (name =? "mul")%string || (name =? "div")%string ||
     (name =? "mod")%string || (name =? "equals")%string || (name =? "not_equals")%string || (name =? "less")%string ||
     (name =? "less_equals")%string || (name =? "greater")%string || (name =? "greater_equals")%string ||
     (name =? "compare")%string then Some ab
  else if (name =? "length")%string || (name =? "string")%string || (name =? "int")%string || (name =? "list")%string ||
          (name =? "set")%string || (name =? "identity")%string || (name =? "type")%string || (name =? "boolean")%string
       then Some ["obj"]%string
  else if (name =? "append")%string then Some ["lst"; "element"]%string
  else if (name =? "remove")%string then Some ["lst"; "element"]%string
  else if (name =? "put")%string then Some ["m"; "key"; "value"]%string
  else if (name =? "insert_at")%string then Some ["lst"; "index"; "value"]%string
  else if (name =? "delete_at")%string then Some ["lst"; "index"]%string
  else if (name =? "sublist")%string then Some ["lst"; "startidx"; "endidx"]%string
  else if (name =? "range")%string then Some ["a"; "b"; "step"]%string
  else if (name =? "sum")%string then Some ["list"; "ignore"]%string
  else if (name =? "is_null")%string then Some ["obj"]%string
  else None.

Fixpoint cps_of_string (s : string) : str :=
  match s with EmptyString => [] | String c t => Z.of_nat (Ascii.nat_of_ascii c) :: cps_of_string t end.
Fixpoint string_of_cps (s : str) : string :=
  match s with [] => EmptyString | c :: t => String (Ascii.ascii_of_nat (Z.to_nat c)) (string_of_cps t) end.

Definition arg (bs : list (str * value)) (n : string) : option value := assoc_get (cps_of_string n) bs.

Definition ov_scalar (o : Arith.outcome) : outcome :=
  match o with
  | Arith.OVal d => match to_scalar d with Some v => OV v | None => OUnm end
  | Arith.OErr => oerr
  | Arith.OHost e => OHostX e
  | Arith.OUnmodelled => OUnm
  end.

Definition aop_of (name : string) : option aop :=
  if (name =? "add")%string then Some Add else if (name =? "sub")%string then Some Sub
  else if (name =? "mul")%string then Some Mul else if (name =? "div")%string then Some Div
  else if (name =? "mod")%string then Some Mod else None.

Definition list_of (st : state) (v : value) : option (list value) :=
  match v with VRef KList l => match rd st l with Some (CList vs) => Some vs | _ => None end | _ => None end.

Definition ob (o : option bool) : outcome := match o with Some b => OV (VBool b) | None => OUnm end.

(* asList of a value (FuncList / getAsList): lists as they are, sets sorted, atoms as singletons *)
Definition as_list (st : state) (v : value) : option (state * value) :=
  match v with
  | VRef KList _ => Some (st, v)
  | VRef KSet l =>
    match rd st l with
    | Some (CSet vs) => match sorted_vals st vs with
                        | Some s => let '(st', n) := alloc st (CList s) in Some (st', VRef KList n)
                        | None => None
                        end
    | _ => None
    end
  | VBool _ | VInt _ | VDec _ | VStr _ | VPat _ => let '(st', n) := alloc st (CList [v]) in Some (st', VRef KList n)
  | _ => None
  end.

Definition set_add_v (st : state) (x : value) (vs : list value) : option (list value) :=
  (* set.add: keep the element already present *)
  (fix go (l : list value) : option (list value) :=
     match l with
     | [] => Some [x]
     | y :: t => match veqV st y x with
                 | Some true => Some (y :: t)
                 | Some false => option_map (cons y) (go t)
                 | None => None
                 end
     end) vs.

Definition native (name : str) (bs : list (str * value)) (st : state) : state * outcome :=
  let nm := string_of_cps name in
  let a := arg bs "a" in let b := arg bs "b" in let obj := arg bs "obj" in
  match aop_of nm with
  | Some op =>
    match a, b with
    | Some x, Some y =>
      match of_scalar x, of_scalar y with
      | Some dx, Some dy => (st, ov_scalar (arith op dx dy))
      | _, _ =>
        (* list concatenation / list + element / element + list / list - list: fresh result list *)
        match op, list_of st x, list_of st y with
        | Add, Some lx, Some ly => let '(st', n) := alloc st (CList (lx ++ ly)) in (st', OV (VRef KList n))
        | Add, Some lx, None =>
          match y with
          | VRef KSet _ | VRef KMap _ => (st, OUnm)
          | VNull => (st, OV VNull)
          | _ => let '(st', n) := alloc st (CList (lx ++ [y])) in (st', OV (VRef KList n))
          end
        | Add, None, Some ly =>
          match x with
          | VRef KSet _ | VRef KMap _ => (st, OUnm)
          | VNull => (st, OV VNull)
          | _ => let '(st', n) := alloc st (CList (x :: ly)) in (st', OV (VRef KList n))
          end
        | Mul, Some lx, None =>
          match y with
          | VInt k => if 100000 <? k then (st, OUnm)
                      else let '(st', n) := alloc st (CList (repeat_list (Z.to_nat k) lx)) in (st', OV (VRef KList n))
          | VNull => (st, OV VNull)
          | _ => (st, OUnm)
          end
        | _, _, _ => (st, OUnm)
        end
      end
    | _, _ => (st, oerr)
    end
  | None =>
    if (nm =? "equals")%string then match a, b with Some x, Some y => (st, ob (veqV st x y)) | _, _ => (st, oerr) end
    else if (nm =? "not_equals")%string then match a, b with Some x, Some y => (st, ob (option_map negb (veqV st x y))) | _, _ => (st, oerr) end
    else if (nm =? "less")%string then match a, b with Some x, Some y => (st, ob (vltV st x y)) | _, _ => (st, oerr) end
    else if (nm =? "greater")%string then
      match a, b with
      | Some x, Some y => (st, ob (match vltV st x y, veqV st x y with Some l, Some e => Some (negb l && negb e) | _, _ => None end))
      | _, _ => (st, oerr) end
    else if (nm =? "less_equals")%string then
      match a, b with
      | Some x, Some y => (st, ob (match vltV st x y, veqV st x y with Some l, Some e => Some (l || e) | _, _ => None end))
      | _, _ => (st, oerr) end
    else if (nm =? "greater_equals")%string then
      match a, b with Some x, Some y => (st, ob (option_map negb (vltV st x y))) | _, _ => (st, oerr) end
    else if (nm =? "compare")%string then
      match a, b with
      | Some x, Some y =>
        match vltV st x y, veqV st x y with
        | Some true, _ => (st, OV (VInt (-1)))
        | Some false, Some true => (st, OV (VInt 0))
        | Some false, Some false => (st, OV (VInt 1))
        | _, _ => (st, OUnm)
        end
      | _, _ => (st, oerr) end
    else if (nm =? "identity")%string then match obj with Some x => (st, OV x) | None => (st, oerr) end
    else if (nm =? "type")%string then match obj with Some x => (st, OV (VStr (type_name x))) | None => (st, oerr) end
    else if (nm =? "is_null")%string then match obj with Some VNull => (st, OV (VBool true)) | Some _ => (st, OV (VBool false)) | None => (st, oerr) end
    else if (nm =? "length")%string then
      match obj with
      | Some (VStr s) => (st, OV (VInt (zlen s)))
      | Some (VRef KList l) => match rd st l with Some (CList vs) => (st, OV (VInt (zlen vs))) | _ => (st, OUnm) end
      | Some (VRef KSet l) => match rd st l with Some (CSet vs) => (st, OV (VInt (zlen vs))) | _ => (st, OUnm) end
      | Some (VRef KMap l) => match rd st l with Some (CMap vs) => (st, OV (VInt (zlen vs))) | _ => (st, OUnm) end
      | Some (VRef KObj l) => match rd st l with Some (CObj vs _) => (st, OV (VInt (zlen vs))) | _ => (st, OUnm) end
      | Some _ => (st, OUnm)    (* the code raises a malformed error here (C13) *)
      | None => (st, oerr)
      end
    else if (nm =? "string")%string then
      match obj with
      | Some (VStr s) => (st, OV (VStr s))
      | Some (VInt z) => (st, OV (VStr (int_str z)))
      | Some (VBool true) => (st, OV (VStr [84; 82; 85; 69]))
      | Some (VBool false) => (st, OV (VStr [70; 65; 76; 83; 69]))
      | Some VNull => (st, OV (VStr []))
      | Some (VPat s) => (st, OV (VStr s))
      | Some _ => (st, OUnm)
      | None => (st, oerr)
      end
    else if (nm =? "int")%string then
      match obj with
      | Some (VInt z) => (st, OV (VInt z))
      | Some (VBool b) => (st, OV (VInt (if b then 1 else 0)))
      | Some VNull => (st, OV (VInt 0))
      | Some (VRef KList l) => match rd st l with Some (CList vs) => (st, OV (VInt (zlen vs))) | _ => (st, OUnm) end
      | Some _ => (st, OUnm)
      | None => (st, oerr)
      end
    else if (nm =? "list")%string then
      match obj with
      | None => let '(st', n) := alloc st (CList []) in (st', OV (VRef KList n))
      | Some x => match as_list st x with Some (st', v) => (st', OV v) | None => (st, OUnm) end
      end
    else if (nm =? "set")%string then
      match obj with
      | None => let '(st', n) := alloc st (CSet []) in (st', OV (VRef KSet n))
      | Some (VRef KSet l) => (st, OV (VRef KSet l))
      | Some (VRef KList l) =>
        match rd st l with
        | Some (CList vs) =>
          match fold_left (fun acc x => match acc with Some s => set_add_v st x s | None => None end) vs (Some []) with
          | Some s => let '(st', n) := alloc st (CSet s) in (st', OV (VRef KSet n))
          | None => (st, OUnm)
          end
        | _ => (st, OUnm)
        end
      | Some _ => (st, OUnm)
      end
    else if (nm =? "append")%string then
      match arg bs "lst", arg bs "element" with
      | Some (VRef KList l), Some x =>
        match rd st l with Some (CList vs) => (wr st l (CList (vs ++ [x])), OV (VRef KList l)) | _ => (st, OUnm) end
      | Some (VRef KSet l), Some x =>
        match rd st l with
        | Some (CSet vs) => match set_add_v st x vs with Some s => (wr st l (CSet s), OV (VRef KSet l)) | None => (st, OUnm) end
        | _ => (st, OUnm)
        end
      | Some _, Some _ => (st, oerr)
      | _, _ => (st, oerr)
      end
    else if (nm =? "put")%string then
      match arg bs "m", arg bs "key", arg bs "value" with
      | Some (VRef KMap l), Some k, Some v =>
        match rd st l with
        | Some (CMap kvs) =>
          match (fix go (m : list (value * value)) : option (list (value * value)) :=
                   match m with
                   | [] => Some [(k, v)]
                   | (k', v') :: t => match veqV st k' k with
                                      | Some true => Some ((k', v) :: t)
                                      | Some false => option_map (cons (k', v')) (go t)
                                      | None => None
                                      end
                   end) kvs with
          | Some m' => (wr st l (CMap m'), OV (VRef KMap l))
          | None => (st, OUnm)
          end
        | _ => (st, OUnm)
        end
      | Some _, Some _, Some _ => (st, oerr)
      | _, _, _ => (st, oerr)
      end
    else if (nm =? "insert_at")%string then
      match arg bs "lst", arg bs "index", arg bs "value" with
      | Some (VRef KList l), Some (VInt i), Some v =>
        match rd st l with Some (CList vs) => (wr st l (CList (insert_at vs i v)), OV (VRef KList l)) | _ => (st, OUnm) end
      | Some (VRef KList _), Some _, Some _ => (st, oerr)
      | Some _, Some _, Some _ => (st, oerr)
      | _, _, _ => (st, oerr)
      end
    else if (nm =? "delete_at")%string then
      match arg bs "lst", arg bs "index" with
      | Some (VRef KList l), Some (VInt i) =>
        match rd st l with
        | Some (CList vs) =>
          match delete_at vs i with
          | Ok (vs', Some r) => (wr st l (CList vs'), OV r)
          | Ok (_, None) => (st, OV VNull)
          | _ => (st, OUnm)
          end
        | _ => (st, OUnm)
        end
      | Some _, Some (VInt _) => (st, oerr)
      | Some _, Some _ => (st, oerr)
      | _, _ => (st, oerr)
      end
    else if (nm =? "sublist")%string then
      match arg bs "lst", arg bs "startidx" with
      | Some VNull, _ => (st, OV VNull)
      | Some (VRef KList l), Some (VInt a0) =>
        match rd st l, arg bs "endidx" with
        | Some (CList vs), None => let '(st', n) := alloc st (CList (substr vs a0 None)) in (st', OV (VRef KList n))
        | Some (CList vs), Some (VInt b0) => let '(st', n) := alloc st (CList (substr vs a0 (Some b0))) in (st', OV (VRef KList n))
        | Some (CList _), Some _ => (st, oerr)
        | _, _ => (st, OUnm)
        end
      | Some _, _ => (st, oerr)
      | None, _ => (st, oerr)
      end
    else if (nm =? "range")%string then
      let geti (n : string) := match arg bs n with Some (VInt z) => Some (Some z) | None => Some None | Some _ => None end in
      match geti "a"%string, geti "b"%string, geti "step"%string with
      | Some oa, Some ob', Some os =>
        let '(s0, e0) := match oa, ob' with
                         | Some x, None => (0, x)
                         | Some x, Some y => (x, y)
                         | _, _ => (0, 0)
                         end in
        let step := match os with Some s => s | None => 1 end in
        let '(st', n) := alloc st (CList (map VInt (sp_range s0 e0 step))) in (st', OV (VRef KList n))
      | _, _, _ => (st, oerr)
      end
    else (st, OUnm)
  end.

(* ------------------------------------------------------------ the meaning of each node, parametric in [ev] *)
Definition vtrue := VBool true.
Definition is_artefact (o : outcome) : bool := match o with OFuel | OUnm => true | _ => false end.

Section Sem.
Variable ev : state -> loc -> expr -> state * outcome.

(* a sub-expression in operand position must produce a value *)
Definition operand (o : outcome) : value + outcome :=
  match o with
  | OV v => inl v
  | OBrk | OCont | ORet _ => inr OUnm    (* control values used as data: not modelled *)
  | o => inr o
  end.

(* evaluate expressions left to right into values *)
Fixpoint ev_values (st : state) (env : loc) (es : list expr) : state * (list value + outcome) :=
  match es with
  | [] => (st, inl [])
  | e :: t =>
    let '(st1, o) := ev st env e in
    match operand o with
    | inr bad => (st1, inr bad)
    | inl v => let '(st2, r) := ev_values st1 env t in
               (st2, match r with inl vs => inl (v :: vs) | inr bad => inr bad end)
    end
  end.

(* ---- NodeBlock.evaluate ---- *)
Fixpoint run_seq (st : state) (env : loc) (body : list expr) (last : value) : state * outcome :=
  match body with
  | [] => (st, OV last)
  | e :: t =>
    let '(st1, o) := ev st env e in
    match o with
    | OV v => run_seq st1 env t v
    | _ => (st1, o)            (* return / break / continue / error: no later statement runs *)
    end
  end.

Fixpoint try_catches (st : state) (env : loc) (errv : value) (catches : list (option expr * expr)) : state * outcome :=
  match catches with
  | [] => (st, OErr errv)                       (* no handler matches: the same error continues outward *)
  | (None, h) :: _ => ev st env h               (* catch all *)
  | (Some c, h) :: t =>
    let '(st1, o) := ev st env c in
    match operand o with
    | inr bad => (st1, bad)
    | inl w => match veqV st1 errv w with
               | Some true => ev st1 env h
               | Some false => try_catches st1 env errv t
               | None => (st1, OUnm)
               end
    end
  end.

(* finally statements: results ignored; an error raised by one of them replaces the outcome *)
Fixpoint run_finally (st : state) (env : loc) (fin : list expr) : state * option outcome :=
  match fin with
  | [] => (st, None)
  | e :: t =>
    let '(st1, o) := ev st env e in
    match o with
    | OV _ | OBrk | OCont | ORet _ => run_finally st1 env t
    | bad => (st1, Some bad)
    end
  end.

Definition block_sem (st : state) (env : loc) (body : list expr) (catches : list (option expr * expr)) (fin : list expr)
  : state * outcome :=
  let '(st1, o1) := run_seq st env body vtrue in
  if is_artefact o1 then (st1, o1)     (* out of fuel / outside the modelled fragment: not an outcome of the code *)
  else
  let '(st2, o2) := match o1 with OErr v => try_catches st1 env v catches | _ => (st1, o1) end in
  if is_artefact o2 then (st2, o2)
  else
  let '(st3, f) := run_finally st2 env fin in
  (st3, match f with Some bad => bad | None => o2 end).

(* ---- NodeIf / NodeAnd / NodeOr / NodeNot ---- *)
Fixpoint if_sem (st : state) (env : loc) (branches : list (expr * expr)) (els : expr) : state * outcome :=
  match branches with
  | [] => ev st env els
  | (c, b) :: t =>
    let '(st1, o) := ev st env c in
    match operand o with
    | inr bad => (st1, bad)
    | inl (VBool true) => ev st1 env b
    | inl (VBool false) => if_sem st1 env t els
    | inl _ => (st1, oerr)
    end
  end.

Fixpoint and_sem (st : state) (env : loc) (es : list expr) : state * outcome :=
  match es with
  | [] => (st, OV (VBool true))
  | e :: t => let '(st1, o) := ev st env e in
              match operand o with
              | inr bad => (st1, bad)
              | inl (VBool true) => and_sem st1 env t
              | inl (VBool false) => (st1, OV (VBool false))
              | inl _ => (st1, oerr)
              end
  end.
Fixpoint or_sem (st : state) (env : loc) (es : list expr) : state * outcome :=
  match es with
  | [] => (st, OV (VBool false))
  | e :: t => let '(st1, o) := ev st env e in
              match operand o with
              | inr bad => (st1, bad)
              | inl (VBool false) => or_sem st1 env t
              | inl (VBool true) => (st1, OV (VBool true))
              | inl _ => (st1, oerr)
              end
  end.

(* ---- iteration: the items a collection yields (NodeFor branches / getCollectionValue) ---- *)
Definition map_entries_sorted (st : state) (kvs : list (value * value)) : option (list (value * value)) :=
  match sorted_vals st (map fst kvs) with
  | Some ks => Some (map (fun k => (k, match find (fun kv => match veqV st (fst kv) k with Some true => true | _ => false end) kvs with
                                       | Some kv => snd kv | None => VNull end)) ks)
  | None => None
  end.

Definition chars (s : str) : list value := map (fun c => VStr [c]) s.

(* the values a `for` statement visits: list order, sets ascending, maps by ascending key, strings by character.
   entries are fresh two-element lists *)
Definition for_items (st : state) (c : value) (what : Z) : option (state * list value) + outcome :=
  match c with
  | VRef KList l => match rd st l with Some (CList vs) => inl (Some (st, vs)) | _ => inr OUnm end
  | VRef KSet l => match rd st l with
                   | Some (CSet vs) => match sorted_vals st vs with Some s => inl (Some (st, s)) | None => inr OUnm end
                   | _ => inr OUnm end
  | VRef KMap l =>
    match rd st l with
    | Some (CMap kvs) =>
      match map_entries_sorted st kvs with
      | Some es =>
        if what =? 1 then inl (Some (st, map fst es))
        else if what =? 2 then
          let '(st', items) := fold_left (fun acc kv => let '(s, l) := acc in
                                                        let '(s', n) := alloc s (CList [fst kv; snd kv]) in (s', l ++ [VRef KList n]))
                                         es (st, []) in
          inl (Some (st', items))
        else inl (Some (st, map snd es))
      | None => inr OUnm
      end
    | _ => inr OUnm
    end
  | VStr s => inl None     (* strings are handled by the caller (different clean-up of the loop variable) *)
  | VRef KObj _ => inr OUnm
  | _ => inr oerr
  end.

(* bind the loop identifiers to an item *)
Definition bind_loop (st : state) (env : loc) (xs : list str) (item : value) : option state :=
  match xs with
  | [x] => Some (env_put st env x item)
  | _ =>
    match item with
    | VRef KList l =>
      match rd st l with
      | Some (CList vs) =>
        if Nat.leb (length xs) (length vs)
        then Some (fold_left (fun s xv => env_put s env (fst xv) (snd xv)) (combine xs vs) st)
        else None     (* the code indexes past the end: IndexError (C13) *)
      | _ => None
      end
    | _ => None
    end
  end.

(* the loop over the items (shared by for over lists, sets and maps) *)
Fixpoint loop_items (st : state) (env : loc) (xs : list str) (items : list value) (body : expr) (result : value)
  : state * outcome :=
  match items with
  | [] => (st, OV result)
  | it :: t =>
    match bind_loop st env xs it with
    | None => (st, OUnm)
    | Some st0 =>
      let '(st1, o) := ev st0 env body in
      match o with
      | OV v => loop_items st1 env xs t body v
      | OCont => loop_items st1 env xs t body vtrue
      | OBrk => (st1, OV vtrue)
      | ORet v => (st1, ORet v)
      | bad => (st1, bad)
      end
    end
  end.

Definition is_normal_exit (o : outcome) : bool := match o with OV _ | ORet _ => true | _ => false end.

Fixpoint loop_chars (st : state) (env : loc) (x : str) (cs : list value) (body : expr) (result : value) : state * outcome :=
  match cs with
  | [] => (st, OV result)
  | c :: t =>
    let st0 := env_put st env x c in
    let '(st1, o) := ev st0 env body in
    match o with
    | OV v => loop_chars (env_remove st1 env x) env x t body v
    | OCont => loop_chars (env_remove st1 env x) env x t body vtrue
    | OBrk => (st1, OV vtrue)                (* the loop variable stays bound after break / return *)
    | ORet v => (st1, ORet v)
    | bad => (st1, bad)
    end
  end.

Definition for_core (st : state) (env : loc) (xs : list str) (coll body : expr) (what : Z) : state * outcome :=
  let '(st1, o) := ev st env coll in
  match operand o with
  | inr bad => (st1, bad)
  | inl c =>
    match for_items st1 c what with
    | inr bad => (st1, bad)
    | inl None =>
      match c, xs with
      | VStr s, x :: _ => loop_chars st1 env x (chars s) body vtrue
      | _, _ => (st1, OUnm)
      end
    | inl (Some (st2, items)) =>
      let '(st3, r) := loop_items st2 env xs items body vtrue in
      (* after a loop over a non-empty collection the loop variables are removed (also after break / return) *)
      if is_normal_exit r then
        (match items with [] => st3 | _ => fold_left (fun s x => env_remove s env x) xs st3 end, r)
      else (st3, r)
    end
  end.

(* NodeFor.evaluate around evaluateLoop: however the loop is left (end, break, return, error) its loop variables are removed;
   a binding the enclosing frame had for a loop variable before the loop is put back afterwards *)
Definition frame_get (st : state) (env : loc) (x : str) : option value :=
  match rd st env with Some (CFrame bs _) => assoc_get x bs | _ => None end.
Definition is_exception (o : outcome) : bool := match o with OErr _ | OHostX _ => true | _ => false end.
Definition for_sem (st : state) (env : loc) (xs : list str) (coll body : expr) (what : Z) : state * outcome :=
  let '(st1, r) := for_core st env xs coll body what in
  let st2 := fold_left (fun s x => env_remove s env x) xs st1 in      (* however the loop is left *)
  (fold_left (fun s x => match frame_get st env x with Some v => env_put s env x v | None => s end) xs st2, r).

(* ---- NodeWhile ---- *)
Fixpoint while_sem (n : nat) (st : state) (env : loc) (c body : expr) (result : value) : state * outcome :=
  match n with
  | O => (st, OFuel)
  | S k =>
    let '(st1, o) := ev st env c in
    match operand o with
    | inr bad => (st1, bad)
    | inl (VBool false) => (st1, OV result)
    | inl (VBool true) =>
      let '(st2, ob) := ev st1 env body in
      match ob with
      | OV v => while_sem k st2 env c body v
      | OCont => while_sem k st2 env c body vtrue
      | OBrk => (st2, OV vtrue)
      | ORet v => (st2, ORet v)
      | bad => (st2, bad)
      end
    | inl _ => (st1, oerr)
    end
  end.

(* ---- calls ---- *)
(* arguments of a call, left to right; a spread list contributes its elements as positionals *)
Fixpoint ev_args (st : state) (env : loc) (args : list (option str * expr)) : state * (list (option str * value) + outcome) :=
  match args with
  | [] => (st, inl [])
  | (n, ESpread e) :: t =>
    let '(st1, o) := ev st env e in
    match operand o with
    | inr bad => (st1, inr bad)
    | inl (VRef KList l) =>
      match rd st1 l with
      | Some (CList vs) =>
        let '(st2, r) := ev_args st1 env t in
        (st2, match r with inl rest => inl (map (fun v => (None, v)) vs ++ rest) | inr bad => inr bad end)
      | _ => (st1, inr OUnm)
      end
    | inl (VRef KMap l) =>
      match rd st1 l with
      | Some (CMap kvs) =>
        (* spread of a map: values by ascending key, named by string keys (after the C12 repair) *)
        match map_entries_sorted st1 kvs with
        | Some es =>
          let '(st2, r) := ev_args st1 env t in
          (st2, match r with
                | inl rest => inl (map (fun kv => (match fst kv with VStr s => Some s | _ => None end, snd kv)) es ++ rest)
                | inr bad => inr bad end)
        | None => (st1, inr OUnm)
        end
      | _ => (st1, inr OUnm)
      end
    | inl _ => (st1, inr OUnm)
    end
  | (n, e) :: t =>
    let '(st1, o) := ev st env e in
    match operand o with
    | inr bad => (st1, inr bad)
    | inl v => let '(st2, r) := ev_args st1 env t in
               (st2, match r with inl rest => inl ((n, v) :: rest) | inr bad => inr bad end)
    end
  end.

(* FuncLambda.execute: a fresh frame whose parent is the frame the closure was created in;
   parameters in declaration order, defaults evaluated in the new frame *)
Fixpoint bind_params (st : state) (fr : loc) (params : list (str * option expr)) (bound : list (str * value))
  (rest : list value) : state * option outcome :=
  match params with
  | [] => (st, None)
  | (p, d) :: t =>
    if ends_dots p then
      let '(st1, n) := alloc st (CList rest) in
      bind_params (env_put st1 fr p (VRef KList n)) fr t bound rest
    else
      match assoc_get p bound with
      | Some v => bind_params (env_put st fr p v) fr t bound rest
      | None =>
        match d with
        | Some de =>
          let '(st1, o) := ev st fr de in
          match operand o with
          | inr bad => (st1, Some bad)
          | inl v => bind_params (env_put st1 fr p v) fr t bound rest
          end
        | None => (st, Some oerr)      (* Missing argument *)
        end
      end
  end.

Definition call_closure (st : state) (params : list (str * option expr)) (body : expr) (lex : loc)
  (nvs : list (option str * value)) : state * outcome :=
  match set_args (map fst params) nvs with
  | None => (st, oerr)
  | Some (bound, rest) =>
    let '(st1, fr) := alloc st (CFrame [] (Some lex)) in
    let '(st2, bad) := bind_params st1 fr params bound rest in
    match bad with
    | Some o => (st2, o)
    | None =>
      let '(st3, o) := ev st2 fr body in
      (st3, match o with
            | ORet v => OV v
            | OBrk | OCont => oerr       (* break / continue without surrounding loop *)
            | o => o
            end)
    end
  end.

Definition call_value (st : state) (f : value) (nvs : list (option str * value)) : state * outcome :=
  match f with
  | VRef KClos l =>
    match rd st l with
    | Some (CClos params body lex) => call_closure st params body lex nvs
    | _ => (st, OUnm)
    end
  | VNative name =>
    match native_params (string_of_cps name) with
    | Some ps =>
      match set_args (map cps_of_string ps) nvs with
      | Some (bound, _) => native name bound st
      | None => (st, oerr)
      end
    | None => (st, OUnm)
    end
  | _ => (st, oerr)    (* Expected def but got ... *)
  end.

Definition call_sem (st : state) (env : loc) (f : expr) (args : list (option str * expr)) : state * outcome :=
  let '(st1, o) := ev st env f in
  match operand o with
  | inr bad => (st1, bad)
  | inl fv =>
    if negb (is_func fv) then (st1, oerr)
    else
      let '(st2, r) := ev_args st1 env args in
      match r with
      | inr bad => (st2, bad)
      | inl nvs => call_value st2 fv nvs
      end
  end.

(* ---- member lookup along the prototype chain (NodeDerefInvoke / NodeDeref on objects) ---- *)
Fixpoint resolve_member (fuel : nat) (st : state) (l : loc) (m : str) : option value :=
  match fuel with
  | O => None
  | S f =>
    match rd st l with
    | Some (CObj kvs _) =>
      match assoc_get m kvs with
      | Some v => Some v
      | None => match assoc_get [95;112;114;111;116;111;95] kvs with   (* _proto_ *)
                | Some (VRef KObj p) => resolve_member f st p m
                | _ => None
                end
      end
    | _ => None
    end
  end.

Definition invoke_sem (st : state) (env : loc) (obj : expr) (m : str) (args : list (option str * expr)) : state * outcome :=
  let '(st1, o) := ev st env obj in
  match operand o with
  | inr bad => (st1, bad)
  | inl (VRef KObj l) =>
    match resolve_member (S (length st1)) st1 l m with
    | None => (st1, oerr)
    | Some fv =>
      if negb (is_func fv) then (st1, oerr)
      else
        let ismod := match rd st1 l with Some (CObj _ b) => b | _ => false end in
        let '(st2, r) := ev_args st1 env args in
        match r with
        | inr bad => (st2, bad)
        | inl nvs => call_value st2 fv (if ismod then nvs else (None, VRef KObj l) :: nvs)
        end
    end
  | inl (VRef KMap _) => (st1, OUnm)
  | inl _ => (st1, oerr)
  end.

(* ---- comprehensions (getCollectionValue) ---- *)
Definition comp_items (st : state) (c : value) (what : Z) : option (state * list value) + outcome :=
  match c with
  | VStr s => inl (Some (st, chars s))
  | VRef KMap l =>
    (* keys: ascending keys; values (also the default): values by ascending key; entries *)
    for_items st c (if what =? 1 then 1 else if what =? 2 then 2 else 0)
  | VRef KList _ | VRef KSet _ => for_items st c what
  | VRef KObj _ => inr OUnm
  | _ => inr OUnm          (* the code iterates None here: TypeError (C13) *)
  end.

(* one generator: for each item bind x in the local frame, evaluate the value, then the condition *)
Fixpoint comp_loop (st : state) (lenv : loc) (x : str) (items : list value) (v : expr) (cond : option expr) (acc : list value)
  : state * (list value + outcome) :=
  match items with
  | [] => (st, inl acc)
  | it :: t =>
    let st0 := env_put st lenv x it in
    let value_then (stc : state) :=
      let '(st1, o) := ev stc lenv v in
      match operand o with
      | inr bad => (st1, inr bad)
      | inl val => comp_loop st1 lenv x t v cond (acc ++ [val])
      end in
    match cond with
    | None => value_then st0
    | Some c =>
      let '(st2, oc) := ev st0 lenv c in
      match operand oc with
      | inr bad => (st2, inr bad)
      | inl (VBool true) => value_then st2
      | inl (VBool false) => comp_loop st2 lenv x t v cond acc
      | inl _ => (st2, inr oerr)
      end
    end
  end.

Definition finish_comp (st : state) (kind : Z) (vals : list value) : state * outcome :=
  if kind =? 0 then let '(st', n) := alloc st (CList vals) in (st', OV (VRef KList n))
  else match fold_left (fun acc x => match acc with Some s => set_add_v st x s | None => None end) vals (Some []) with
       | Some s => let '(st', n) := alloc st (CSet s) in (st', OV (VRef KSet n))
       | None => (st, OUnm)
       end.

Definition comp_sem (st : state) (env : loc) (kind : Z) (v : expr) (x : str) (coll : expr) (what : Z) (cond : option expr)
  : state * outcome :=
  let '(st0, lenv) := alloc st (CFrame [] (Some env)) in
  let '(st1, o) := ev st0 env coll in
  match operand o with
  | inr bad => (st1, bad)
  | inl c =>
    match comp_items st1 c what with
    | inr bad => (st1, bad)
    | inl None => (st1, OUnm)
    | inl (Some (st2, items)) =>
      let '(st3, r) := comp_loop st2 lenv x items v cond [] in
      match r with inr bad => (st3, bad) | inl vals => finish_comp st3 kind vals end
    end
  end.

(* product (for .. for ..): row-major over the two item lists *)
Fixpoint comp_prod_inner (st : state) (lenv : loc) (x2 : str) (items2 : list value) (v : expr) (cond : option expr) (acc : list value)
  : state * (list value + outcome) := comp_loop st lenv x2 items2 v cond acc.
Fixpoint comp_prod (st : state) (lenv : loc) (x1 x2 : str) (items1 items2 : list value) (v : expr) (cond : option expr) (acc : list value)
  : state * (list value + outcome) :=
  match items1 with
  | [] => (st, inl acc)
  | it :: t =>
    let st0 := env_put st lenv x1 it in
    let '(st1, r) := comp_loop st0 lenv x2 items2 v cond acc in
    match r with
    | inr bad => (st1, inr bad)
    | inl acc' => comp_prod st1 lenv x1 x2 t items2 v cond acc'
    end
  end.

(* product (for .. for ..) like the equivalent nested loops: the second collection is evaluated for every element of the
   first, in the scope that holds the first variable *)
Fixpoint comp_prod2 (st : state) (lenv : loc) (x1 x2 : str) (items1 : list value) (c2 : expr) (w2 : Z) (v : expr) (cond : option expr)
    (acc : list value) : state * (list value + outcome) :=
  match items1 with
  | [] => (st, inl acc)
  | it :: t =>
    let st0 := env_put st lenv x1 it in
    let '(st1, o2) := ev st0 lenv c2 in
    match operand o2 with
    | inr bad => (st1, inr bad)
    | inl cv2 =>
      match comp_items st1 cv2 w2 with
      | inr bad => (st1, inr bad)
      | inl None => (st1, inr OUnm)
      | inl (Some (st2, items2)) =>
        let '(st3, r) := comp_loop st2 lenv x2 items2 v cond acc in
        match r with
        | inr bad => (st3, inr bad)
        | inl acc' => comp_prod2 (env_remove st3 lenv x2) lenv x1 x2 t c2 w2 v cond acc'   (* the inner variable is gone when c2 is evaluated again *)
        end
      end
    end
  end.

End Sem.

(* ------------------------------------------------------------ the evaluator: every node applies its combinator to [eval f] *)
Definition lit_value (l : lit) : value :=
  match l with LNull => VNull | LBool b => VBool b | LInt z => VInt z | LDec f => VDec f | LStr s => VStr s | LPat s => VPat s end.

Definition int_index (v : value) : option Z := match v with VInt z => Some z | _ => None end.

Definition nth_or_null (vs : list value) (i : nat) : value := match nth_error vs i with Some v => v | None => VNull end.

(* destructuring source: a list as it is, a set in ascending order *)
Definition destructure_source (st : state) (v : value) : option (list value) + outcome :=
  match v with
  | VRef KList l => match rd st l with Some (CList vs) => inl (Some vs) | _ => inr OUnm end
  | VRef KSet l => match rd st l with
                   | Some (CSet vs) => match sorted_vals st vs with Some s => inl (Some s) | None => inr OUnm end
                   | _ => inr OUnm end
  | _ => inl None
  end.

Fixpoint eval (fuel : nat) (st : state) (env : loc) (e : expr) {struct fuel} : state * outcome :=
  match fuel with
  | O => (st, OFuel)
  | S f =>
    let ev := eval f in
    match e with
    | ELit l => (st, OV (lit_value l))
    | EId x => match env_lookup st env x with Some v => (st, OV v) | None => (st, oerr) end
    | EAnd es => and_sem ev st env es
    | EOr es => or_sem ev st env es
    | ENot a =>
      let '(st1, o) := ev st env a in
      match operand o with
      | inr bad => (st1, bad)
      | inl (VBool b) => (st1, OV (VBool (negb b)))
      | inl _ => (st1, oerr)
      end
    | EAssign x a =>
      if negb (env_defined st env x) then (st, oerr)
      else
        let '(st1, o) := ev st env a in
        match operand o with
        | inr bad => (st1, bad)
        | inl v => match env_set st1 env x v with
                   | Some st2 => (st2, OV v)
                   | None => (st1, oerr)
                   end
        end
    | EAssignD xs a =>
      let '(st1, o) := ev st env a in
      match operand o with
      | inr bad => (st1, bad)
      | inl v =>
        match destructure_source st1 v with
        | inr bad => (st1, bad)
        | inl None => (st1, oerr)
        | inl (Some vs) =>
          (fix go (st : state) (xs : list str) (i : nat) (result : value) : state * outcome :=
             match xs with
             | [] => (st, OV result)
             | x :: t =>
               let v := nth_or_null vs i in
               match env_set st env x v with
               | Some st' => go st' t (S i) v
               | None => (st, oerr)
               end
             end) st1 xs O VNull
        end
      end
    | EBlock body catches fin => block_sem ev st env body catches fin
    | EBreak => (st, OBrk)
    | EContinue => (st, OCont)
    | EReturn None => (st, ORet VNull)
    | EReturn (Some a) =>
      let '(st1, o) := ev st env a in
      match operand o with inr bad => (st1, bad) | inl v => (st1, ORet v) end
    | EError a =>
      let '(st1, o) := ev st env a in
      match operand o with inr bad => (st1, bad) | inl v => (st1, OErr v) end
    | EDef x a =>
      let '(st1, o) := ev st env a in
      match operand o with inr bad => (st1, bad) | inl v => (env_put st1 env x v, OV v) end
    | EDefD xs a =>
      let '(st1, o) := ev st env a in
      match operand o with
      | inr bad => (st1, bad)
      | inl v =>
        match destructure_source st1 v with
        | inr bad => (st1, bad)
        | inl None => (st1, oerr)
        | inl (Some vs) =>
          let st2 := fold_left (fun s xi => env_put s env (fst xi) (nth_or_null vs (snd xi))) (combine xs (seq 0 (length xs))) st1 in
          (st2, OV (match xs with [] => VNull | _ => nth_or_null vs (pred (length xs)) end))
        end
      end
    | EDeref a idx dflt =>
      let '(st1, oi) := ev st env idx in
      match operand oi with
      | inr bad => (st1, bad)
      | inl iv =>
        let '(st2, oa) := ev st1 env a in
        match operand oa with
        | inr bad => (st2, bad)
        | inl VNull => (st2, OV VNull)
        | inl (VStr s) =>
          match dflt with
          | Some _ => (st2, oerr)
          | None => match int_index iv with
                    | Some i => match deref s i with Ok c => (st2, OV (VStr [c])) | LangErr _ => (st2, oerr) | _ => (st2, OUnm) end
                    | None => (st2, OUnm)
                    end
          end
        | inl (VRef KList l) =>
          match dflt with
          | Some _ => (st2, oerr)
          | None =>
            match rd st2 l, int_index iv with
            | Some (CList vs), Some i => match deref vs i with Ok v => (st2, OV v) | LangErr _ => (st2, oerr) | _ => (st2, OUnm) end
            | _, _ => (st2, OUnm)
            end
          end
        | inl (VRef KMap l) =>
          match rd st2 l with
          | Some (CMap kvs) =>
            (fix look (m : list (value * value)) : state * outcome :=
               match m with
               | [] => match dflt with Some d => ev st2 env d | None => (st2, oerr) end
               | (k, v) :: t => match veqV st2 k iv with
                                | Some true => (st2, OV v)
                                | Some false => look t
                                | None => (st2, OUnm)
                                end
               end) kvs
          | _ => (st2, OUnm)
          end
        | inl (VRef KObj l) =>
          match iv with
          | VStr m =>
            match resolve_member (S (length st2)) st2 l m with
            | Some v => (st2, OV v)
            | None => match dflt with Some d => ev st2 env d | None => (st2, OV VNull) end
            end
          | _ => (st2, OUnm)
          end
        | inl _ => (st2, oerr)
        end
      end
    | EDerefAssign a idx v =>
      let '(st1, oi) := ev st env idx in
      match operand oi with
      | inr bad => (st1, bad)
      | inl iv =>
        let '(st2, oa) := ev st1 env a in
        match operand oa with
        | inr bad => (st2, bad)
        | inl c =>
          let '(st3, ov) := ev st2 env v in
          match operand ov with
          | inr bad => (st3, bad)
          | inl nv =>
            match c with
            | VRef KList l =>
              match rd st3 l, int_index iv with
              | Some (CList vs), Some i =>
                let n := zlen vs in
                let j := if i <? 0 then i + n else i in
                if (j <? 0) || (n <=? j) then (st3, oerr)
                else match py_setitem vs j nv with
                     | Ok vs' => (wr st3 l (CList vs'), OV c)
                     | _ => (st3, OUnm)
                     end
              | _, _ => (st3, OUnm)
              end
            | VRef KMap l =>
              match rd st3 l with
              | Some (CMap kvs) =>
                match (fix go (m : list (value * value)) : option (list (value * value)) :=
                         match m with
                         | [] => Some [(iv, nv)]
                         | (k', v') :: t => match veqV st3 k' iv with
                                            | Some true => Some ((k', nv) :: t)
                                            | Some false => option_map (cons (k', v')) (go t)
                                            | None => None
                                            end
                         end) kvs with
                | Some m' => (wr st3 l (CMap m'), OV c)
                | None => (st3, OUnm)
                end
              | _ => (st3, OUnm)
              end
            | VRef KObj l =>
              match rd st3 l, iv with
              | Some (CObj kvs b), VStr m => (wr st3 l (CObj (assoc_set m nv kvs) b), OV c)
              | _, _ => (st3, OUnm)
              end
            | VStr _ => (st3, OUnm)
            | _ => (st3, oerr)
            end
          end
        end
      end
    | ESlice a s0 e0 =>
      let '(st1, oa) := ev st env a in
      match operand oa with
      | inr bad => (st1, bad)
      | inl c =>
        let '(st2, os) := ev st1 env s0 in
        match operand os with
        | inr bad => (st2, bad)
        | inl sv =>
          let '(st3, oe) := match e0 with
                            | Some ee => let '(s', o') := ev st2 env ee in (s', match operand o' with inl v => inl (Some v) | inr b => inr b end)
                            | None => (st2, inl None)
                            end in
          match oe with
          | inr bad => (st3, bad)
          | inl evv =>
            match c with
            | VNull => (st3, OV VNull)
            | VStr s =>
              match int_index sv, evv with
              | Some i, None => (st3, OV (VStr (slice s i None)))
              | Some i, Some (VInt j) => (st3, OV (VStr (slice s i (Some j))))
              | _, _ => (st3, OUnm)
              end
            | VRef KList l =>
              match rd st3 l, int_index sv, evv with
              | Some (CList vs), Some i, None => let '(st4, n) := alloc st3 (CList (slice vs i None)) in (st4, OV (VRef KList n))
              | Some (CList vs), Some i, Some (VInt j) => let '(st4, n) := alloc st3 (CList (slice vs i (Some j))) in (st4, OV (VRef KList n))
              | _, _, _ => (st3, OUnm)
              end
            | _ => (st3, oerr)
            end
          end
        end
      end
    | EFor xs coll body what => for_sem ev st env xs coll body what
    | EWhile c body => while_sem ev f st env c body vtrue
    | ECall fe args => call_sem ev st env fe args
    | EInvoke obj m args => invoke_sem ev st env obj m args
    | EIf branches els => if_sem ev st env branches els
    | EIn a c =>
      let '(st1, oa) := ev st env a in
      match operand oa with
      | inr bad => (st1, bad)
      | inl x =>
        let '(st2, oc) := ev st1 env c in
        match operand oc with
        | inr bad => (st2, bad)
        | inl cv =>
          let anyeq (vs : list value) : outcome :=
            (fix go (l : list value) : outcome :=
               match l with
               | [] => OV (VBool false)
               | y :: t => match veqV st2 x y with Some true => OV (VBool true) | Some false => go t | None => OUnm end
               end) vs in
          match cv with
          | VRef KList l => match rd st2 l with Some (CList vs) => (st2, anyeq vs) | _ => (st2, OUnm) end
          | VRef KSet l => match rd st2 l with Some (CSet vs) => (st2, anyeq vs) | _ => (st2, OUnm) end
          | VRef KMap l => match rd st2 l with Some (CMap kvs) => (st2, anyeq (map fst kvs)) | _ => (st2, OUnm) end
          | VRef KObj l => match rd st2 l, x with
                           | Some (CObj kvs _), VStr m => (st2, OV (VBool (match assoc_get m kvs with Some _ => true | None => false end)))
                           | _, _ => (st2, OUnm) end
          | VStr s => match x with VStr p => (st2, OV (VBool (0 <=? str_find s p))) | _ => (st2, OUnm) end
          | _ => (st2, OV (VBool false))
          end
        end
      end
    | ELambda params body => let '(st1, n) := alloc st (CClos params body env) in (st1, OV (VRef KClos n))
    | EList items =>
      (fix go (st : state) (items : list expr) (acc : list value) : state * outcome :=
         match items with
         | [] => let '(st', n) := alloc st (CList acc) in (st', OV (VRef KList n))
         | ESpread a :: t =>
           let '(st1, o) := ev st env a in
           match operand o with
           | inr bad => (st1, bad)
           | inl (VRef KList l) => match rd st1 l with Some (CList vs) => go st1 t (acc ++ vs) | _ => (st1, OUnm) end
           | inl (VRef KSet l) =>
             match rd st1 l with
             | Some (CSet vs) => match sorted_vals st1 vs with Some s => go st1 t (acc ++ s) | None => (st1, OUnm) end
             | _ => (st1, OUnm) end
           | inl _ => (st1, OUnm)
           end
         | a :: t =>
           let '(st1, o) := ev st env a in
           match operand o with inr bad => (st1, bad) | inl v => go st1 t (acc ++ [v]) end
         end) st items []
    | ESet items =>
      let '(st1, r) := ev_values ev st env items in
      match r with
      | inr bad => (st1, bad)
      | inl vs => finish_comp st1 1 vs
      end
    | EMap kvs =>
      (fix go (st : state) (kvs : list (expr * expr)) (acc : list (value * value)) : state * outcome :=
         match kvs with
         | [] => let '(st', n) := alloc st (CMap acc) in (st', OV (VRef KMap n))
         | (ke, ve) :: t =>
           let '(st1, ok) := ev st env ke in
           match operand ok with
           | inr bad => (st1, bad)
           | inl k =>
             let '(st2, ov) := ev st1 env ve in
             match operand ov with
             | inr bad => (st2, bad)
             | inl v =>
               match (fix put (m : list (value * value)) : option (list (value * value)) :=
                        match m with
                        | [] => Some [(k, v)]
                        | (k', v') :: t' => match veqV st2 k' k with
                                            | Some true => Some ((k', v) :: t')
                                            | Some false => option_map (cons (k', v')) (put t')
                                            | None => None
                                            end
                        end) acc with
               | Some acc' => go st2 t acc'
               | None => (st2, OUnm)
               end
             end
           end
         end) st kvs []
    | EObject kvs =>
      (fix go (st : state) (kvs : list (str * expr)) (acc : list (str * value)) : state * outcome :=
         match kvs with
         | [] => let '(st', n) := alloc st (CObj acc false) in (st', OV (VRef KObj n))
         | (k, ve) :: t =>
           let '(st1, o) := ev st env ve in
           match operand o with inr bad => (st1, bad) | inl v => go st1 t (assoc_set k v acc) end
         end) st kvs []
    | EComp kind v x coll what cond => comp_sem ev st env kind v x coll what cond
    | EComp2 kind par v x1 c1 w1 x2 c2 w2 cond =>
      let '(st0, lenv) := alloc st (CFrame [] (Some env)) in
      let '(st1, o1) := ev st0 env c1 in
      match operand o1 with
      | inr bad => (st1, bad)
      | inl cv1 =>
        if negb par then
          match comp_items st1 cv1 w1 with
          | inl (Some (st3, items1)) =>
            let '(st5, r) := comp_prod2 ev st3 lenv x1 x2 items1 c2 w2 v cond [] in
            match r with inr bad => (st5, bad) | inl vals => finish_comp st5 kind vals end
          | inl None => (st1, OUnm)
          | inr bad => (st1, bad)
          end
        else
        let '(st2, o2) := ev st1 env c2 in
        match operand o2 with
        | inr bad => (st2, bad)
        | inl cv2 =>
          match comp_items st2 cv1 w1 with
          | inl (Some (st3, items1)) =>
            match comp_items st3 cv2 w2 with
            | inl (Some (st4, items2)) =>
              if par then
                (* also for: pad the shorter list with NULL *)
                let n := Nat.max (length items1) (length items2) in
                (fix go (st : state) (i : nat) (k : nat) (acc : list value) : state * outcome :=
                   match k with
                   | O => finish_comp st kind acc
                   | S k' =>
                     let st' := env_put (env_put st lenv x1 (nth_or_null items1 i)) lenv x2 (nth_or_null items2 i) in
                     let value_then (stc : state) :=
                       let '(st1, o) := ev stc lenv v in
                       match operand o with
                       | inr bad => (st1, bad)
                       | inl val => go st1 (S i) k' (acc ++ [val])
                       end in
                     match cond with
                     | None => value_then st'
                     | Some c =>
                       let '(st2, oc) := ev st' lenv c in
                       match operand oc with
                       | inr bad => (st2, bad)
                       | inl (VBool true) => value_then st2
                       | inl (VBool false) => go st2 (S i) k' acc
                       | inl _ => (st2, oerr)
                       end
                     end
                   end) st4 O n []
              else
                let '(st5, r) := comp_prod ev st4 lenv x1 x2 items1 items2 v cond [] in
                match r with inr bad => (st5, bad) | inl vals => finish_comp st5 kind vals end
            | inl None => (st3, OUnm)
            | inr bad => (st3, bad)
            end
          | inl None => (st2, OUnm)
          | inr bad => (st2, bad)
          end
        end
      end
    | EMapComp ke ve x coll what cond =>
      let '(st0, lenv) := alloc st (CFrame [] (Some env)) in
      let '(st1, o) := ev st0 env coll in
      match operand o with
      | inr bad => (st1, bad)
      | inl c =>
        match comp_items st1 c what with
        | inr bad => (st1, bad)
        | inl None => (st1, OUnm)
        | inl (Some (st2, items)) =>
          (fix go (st : state) (items : list value) (acc : list (value * value)) : state * outcome :=
             match items with
             | [] => let '(st', n) := alloc st (CMap acc) in (st', OV (VRef KMap n))
             | it :: t =>
               let st' := env_put st lenv x it in
               (* the filter first; key and value only for the elements it accepts (as in the equivalent loop) *)
               let '(stc, accept) :=
                 match cond with
                 | None => (st', inl true)
                 | Some ce =>
                   let '(st3, oc) := ev st' lenv ce in
                   match operand oc with
                   | inr bad => (st3, inr bad)
                   | inl (VBool b) => (st3, inl b)
                   | inl _ => (st3, inr oerr)
                   end
                 end in
               match accept with
               | inr bad => (stc, bad)
               | inl false => go stc t acc
               | inl true =>
                 let '(st1, ok) := ev stc lenv ke in
                 match operand ok with
                 | inr bad => (st1, bad)
                 | inl k =>
                   let '(st2, ov) := ev st1 lenv ve in
                   match operand ov with
                   | inr bad => (st2, bad)
                   | inl v =>
                     let put := (fix put (m : list (value * value)) : option (list (value * value)) :=
                                   match m with
                                   | [] => Some [(k, v)]
                                   | (k', v') :: t' => match veqV st2 k' k with
                                                       | Some true => Some ((k', v) :: t')
                                                       | Some false => option_map (cons (k', v')) (put t')
                                                       | None => None
                                                       end
                                   end) in
                     match put acc with Some acc' => go st2 t acc' | None => (st2, OUnm) end
                   end
                 end
               end
             end) st2 items []
        end
      end
    | ESpread _ => (st, OUnm)
    | EUnmodelled => (st, OUnm)
    end
  end.

(* ------------------------------------------------------------ running a program *)
Definition native_names : list string :=
  ["add"; "sub"; "mul"; "div"; "mod"; "equals"; "not_equals"; "less"; "less_equals"; "greater"; "greater_equals"; "compare";
   "length"; "string"; "int"; "list"; "set"; "identity"; "type"; "append"; "remove"; "put"; "insert_at"; "delete_at";
   "sublist"; "range"; "is_null"]%string.

(* heap cell 0: the base frame (natives, NULL); cell 1: the session frame, child of the base frame *)
Definition init_state : state :=
  [CFrame ((cps_of_string "NULL", VNull) :: map (fun n => (cps_of_string n, VNative (cps_of_string n))) native_names) None;
   CFrame [] (Some O)].
Definition session_env : loc := 1%nat.

(* Interpreter.interpret: a top-level return yields its value; break / continue are errors *)
Definition interpret (fuel : nat) (st : state) (e : expr) : state * outcome :=
  let '(st1, o) := eval fuel st session_env e in
  (st1, match o with ORet v => OV v | OBrk | OCont => oerr | o => o end).

Definition run_program (fuel : nat) (e : expr) : state * outcome := interpret fuel init_state e.
