(* FuncSorted.execute: insertion sort that moves each element to the left past the
   elements it is strictly less than (so equal keys keep their order).  The
   sorted prefix is kept reversed (rightmost element first). *)
From Coq Require Import List Bool.
Import ListNotations.

Section Sort.
Context {A : Type}.
Variable lt : A -> A -> bool.     (* cmp(key(x), key(y)) < 0 *)

Fixpoint ins (x : A) (rp : list A) : list A :=
  match rp with
  | [] => [x]
  | y :: rp' => if lt x y then y :: ins x rp' else x :: y :: rp'
  end.

Definition sort_rev (l : list A) : list A := fold_left (fun rp x => ins x rp) l [].
Definition sorted (l : list A) : list A := rev (sort_rev l).
End Sort.
