(* C15: hand model of the index / slice / sub-sequence kernels of the code
   (NodeDeref, NodeDerefSlice, FuncSubstr, FuncSublist, FuncFind, FuncFindLast,
   FuncInsertAt + ValueList.insertAt, FuncDeleteAt + ValueList.deleteAt), written
   statement by statement after the Python code; tied to the code by the
   correspondence run of checks/C15.py (C).  Strings are lists of code points,
   lists are lists over any element type. *)
From Coq Require Import String.
From Coq Require Import ZArith List Bool Lia.
From Ckl Require Import Prelude.PyPrelude.
Import ListNotations.
Open Scope Z_scope.

Section Seq.
Context {A : Type}.
Variable eqb : A -> A -> bool.

(* i = int(idx.value); if i < 0: i = i + len(s); if i < 0 or i >= len(s): raise ...; return s[i] *)
Definition deref (s : list A) (i : Z) : res A :=
  let n := zlen s in
  let i := if i <? 0 then i + n else i in
  if (i <? 0) || (n <=? i) then LangErr "Index out of bounds"
  else py_getitem s i.

(* NodeDerefSlice.evaluate (string and list branch are the same arithmetic) *)
Definition slice (s : list A) (a : Z) (b : option Z) : list A :=
  let n := zlen s in
  let start := a in
  let end_ := match b with Some e => e | None => n end in
  let start := if start <? 0 then start + n else start in
  let end_ := if end_ <? 0 then end_ + n else end_ in
  let start := if start <? 0 then 0 else start in
  let end_ := if end_ <? 0 then 0 else end_ in
  let end_ := if n <? end_ then n else end_ in
  py_slice s start end_.

(* FuncSubstr.execute / FuncSublist.execute *)
Definition substr (s : list A) (a : Z) (b : option Z) : list A :=
  let n := zlen s in
  let start := a in
  let start := if start <? 0 then n + start else start in
  let start := if start <? 0 then 0 else start in
  if n <? start then []
  else
    let end_ := match b with Some e => e | None => n end in
    let end_ := if end_ <? 0 then n + end_ else end_ in
    let end_ := if end_ <? 0 then 0 else end_ in
    let end_ := if n <? end_ then n else end_ in
    py_slice s start end_.

(* FuncFind.execute, list branch without key: first index whose element equals item *)
Fixpoint find_list_from (l : list A) (item : A) (idx : Z) : Z :=
  match l with
  | [] => -1
  | x :: l' => if eqb x item then idx else find_list_from l' item (idx + 1)
  end.
Definition find_list (l : list A) (item : A) : Z := find_list_from l item 0.

(* FuncFindLast.execute, list branch: for idx in range(start, -1, -1) *)
Fixpoint find_last_nat (l : list A) (item : A) (k : nat) : Z :=
  (* searches indices k-1, k-2, ..., 0 *)
  match k with
  | O => -1
  | S k' => match nth_error l k' with
            | Some x => if eqb x item then Z.of_nat k' else find_last_nat l item k'
            | None => find_last_nat l item k'
            end
  end.
Definition find_last_list (l : list A) (item : A) (start : option Z) : Z :=
  let n := zlen l in
  let st := match start with Some s => s | None => n - 1 end in
  let st := if n - 1 <? st then n - 1 else st in
  find_last_nat l item (Z.to_nat (st + 1)).

(* FuncInsertAt.execute + ValueList.insertAt *)
Definition insert_at (l : list A) (index : Z) (v : A) : list A :=
  let n := zlen l in
  if (index <? 0) && (n + index + 1 <? 0) then l
  else
    let index := if index <? 0 then n + index + 1 else index in
    (* ValueList.insertAt: idx < 0 cannot happen any more *)
    let idx := if index <? 0 then n + index else index in
    if n <? idx then l
    else if idx =? n then l ++ [v]
    else py_insert l idx v.

(* FuncDeleteAt.execute + ValueList.deleteAt: (new list, removed element or NULL=None) *)
Definition delete_at (l : list A) (index : Z) : res (list A * option A) :=
  let n := zlen l in
  let index := if index <? 0 then n + index else index in
  if (index <? 0) || (n <=? index) then Ok (l, None)
  else py_getitem l index >>= fun r => py_delitem l index >>= fun l' => Ok (l', Some r).

End Seq.

(* string find / find_last (str.find(part, 0), str.rfind(part, 0, start + len(part))) *)
Definition find_str (s part : str) : Z := str_find s part.
Definition find_last_str (s part : str) (start : option Z) : Z :=
  let n := zlen s in
  let st := match start with Some x => x | None => n - 1 end in
  if st <? 0 then -1 else str_rfind_end s part (st + zlen part).

(* ---- specification side: the sequence model of the property ---- *)
Definition norm_idx (n i : Z) : Z := if i <? 0 then i + n else i.
Definition clamp (n i : Z) : Z := Z.max 0 (Z.min n i).
Definition run {A} (s : list A) (lo hi : Z) : list A := zfirstn (hi - lo) (zskipn lo s).
Definition occurs_at (p s : str) (k : Z) : Prop :=
  0 <= k /\ exists a b, s = a ++ p ++ b /\ zlen a = k.
