(* C10 / C11: interpreter sessions and the module system as a state machine (hand model of Interpreter.interpret,
   NodeRequire.evaluate, Environment.pushModuleStack / popModuleStack; tied by the correspondence runs of
   checks/C10.py and checks/C11.py, which execute the same command histories on real interpreters with generated
   module files).  Values are ints; a module object carries its module's id and a snapshot of the public int exports. *)
From Coq Require Import ZArith List Bool.
Import ListNotations.
Open Scope Z_scope.

Inductive sval := SInt (z : Z) | SMod (id : Z) (exports : list (Z * Z)).
Definition env := list (Z * sval).

Fixpoint lookup {V} (k : Z) (l : list (Z * V)) : option V :=
  match l with [] => None | (k', v) :: r => if k =? k' then Some v else lookup k r end.
Fixpoint put {V} (k : Z) (v : V) (l : list (Z * V)) : list (Z * V) :=
  match l with [] => [(k, v)] | (k', v') :: r => if k =? k' then (k, v) :: r else (k', v') :: put k v r end.
Definition memz (k : Z) (l : list Z) : bool := existsb (Z.eqb k) l.

(* names below zero are the ones starting with an underscore *)
Definition private (n : Z) : bool := n <? 0.
(* the variable a module object is bound to by `require M`: the module's own name *)
Definition modvar (m : Z) : Z := 1000 + m.

Inductive form :=
| FQual (alias : option Z)          (* require M [as X] *)
| FImport (l : list (Z * Z))        (* require M import [a as b, ...] *)
| FUnqual.                          (* require M unqualified *)

(* MTry f m x:  def x = do require m ...; 1 catch all 0 end   (a require whose failure the module handles itself) *)
Inductive mstmt := MDef (x v : Z) | MReq (f : form) (m : Z) | MFail | MLog | MTry (f : form) (m x : Z).
Record moddef := mk_mod { m_parses : bool; m_body : list mstmt }.
Definition program := list (Z * moddef).      (* the module files on the module path *)

(* interpreter-wide state (kept on the base environment) *)
Record gstate := mk_g {
  cache : list (Z * env);     (* module identifier -> evaluated module environment *)
  stack : list Z;             (* modules being loaded, innermost first *)
  log : list Z;               (* ids of the modules whose top-level code started running, in order *)
  done : list Z;              (* ids of the modules whose top-level code ran to its end *)
  cells : list (Z * Z) }.     (* mutable state of each module instance *)

Inductive res (A : Type) := ROk (a : A) | RErr (kind : Z) | RFuel.
Arguments ROk {A}. Arguments RErr {A}. Arguments RFuel {A}.
(* error kinds: 1 undefined symbol, 2 error raised by the command, 3 syntax error, 4 module not found,
   5 circular dependency, 6 error raised by module code, 7 syntax error in a module, 8 not a module / wrong kind *)

Definition with_stack (s : list Z) (g : gstate) := mk_g (cache g) s (log g) (done g) (cells g).

(* binding the required module into the requiring scope *)
Fixpoint exports_of (menv : env) : list (Z * Z) :=
  match menv with
  | [] => []
  | (n, SInt z) :: r => if private n then exports_of r else (n, z) :: exports_of r
  | (_, SMod _ _) :: r => exports_of r          (* module objects are not re-exported through a module object *)
  end.
Fixpoint bind_unqual (menv : env) (target : env) : env :=
  match menv with
  | [] => target
  | (n, v) :: r => bind_unqual r (if private n then target else put n v target)
  end.
Fixpoint bind_import (l : list (Z * Z)) (menv : env) (target : env) : env :=
  match menv with
  | [] => target
  | (n, v) :: r => bind_import l r (if private n then target else match lookup n l with Some a => put a v target | None => target end)
  end.
Definition bind (f : form) (m : Z) (menv : env) (target : env) : env :=
  match f with
  | FUnqual => bind_unqual menv target
  | FImport l => bind_import l menv target
  | FQual alias => put (match alias with Some a => a | None => modvar m end) (SMod m (exports_of menv)) target
  end.

(* the top-level code of a module, statement by statement; [rq] loads a required module *)
Fixpoint run_body (rq : gstate -> Z -> gstate * res env) (m : Z) (stmts : list mstmt) (g : gstate) (menv : env) : gstate * res env :=
  match stmts with
  | [] => (g, ROk menv)
  | MDef x v :: r => run_body rq m r g (put x (SInt v) menv)
  | MLog :: r => run_body rq m r (mk_g (cache g) (stack g) (log g ++ [m]) (done g) (cells g)) menv
  | MFail :: _ => (g, RErr 6)
  | MReq f m2 :: r =>
    match rq g m2 with
    | (g', ROk menv2) => run_body rq m r g' (bind f m2 menv2 menv)
    | (g', RErr e) => (g', RErr e)
    | (g', RFuel) => (g', RFuel)
    end
  | MTry f m2 x :: r =>
    match rq g m2 with
    | (g', ROk menv2) => run_body rq m r g' (put x (SInt 1) (bind f m2 menv2 menv))
    | (g', RErr e) => if e =? 7 then (g', RErr e)           (* a syntax error in the required file passes every handler *)
                      else run_body rq m r g' (put x (SInt 0) menv)
    | (g', RFuel) => (g', RFuel)
    end
  end.

(* NodeRequire.evaluate up to the binding: push, look up or load, pop - also when loading fails *)
Fixpoint req (fuel : nat) (p : program) (g : gstate) (m : Z) : gstate * res env :=
  match fuel with
  | O => (g, RFuel)
  | S f =>
    if memz m (stack g) then (g, RErr 5)
    else
      let g1 := with_stack (m :: stack g) g in
      match lookup m (cache g) with
      | Some menv => (with_stack (stack g) g1, ROk menv)
      | None =>
        match lookup m p with
        | None => (with_stack (stack g) g1, RErr 4)
        | Some md =>
          if negb (m_parses md) then (with_stack (stack g) g1, RErr 7)
          else
            match run_body (req f p) m (m_body md) g1 [] with
            | (g2, ROk menv) =>
              (mk_g (put m menv (cache g2)) (tl (stack g2)) (log g2) (done g2 ++ [m]) (put m 0 (cells g2)), ROk menv)
            | (g2, RErr e) => (with_stack (tl (stack g2)) g2, RErr e)
            | (g2, RFuel) => (g2, RFuel)
            end
        end
      end
  end.

(* ------------------------------------------------------------------ sessions *)
Inductive cmd :=
| CDef (x v : Z)              (* def x = v *)
| CAssign (x v : Z)           (* x = v *)
| CRead (x : Z)               (* x *)
| CFail                       (* error 'boom' *)
| CSyntax                     (* a text that does not parse *)
| CDefThenFail (x v : Z)      (* def x = v; error 'boom' *)
| CLoopAbort (x : Z)          (* for i in [1, 2, 3] do x = x + i; if i == 2 then error 'boom' end *)
| CReq (f : form) (m : Z)     (* require ... *)
| CBump (x : Z)               (* x->bump() *)
| CCell (x : Z)               (* x->cell[0] *)
| CMember (x y : Z).          (* x->y *)

Record sstate := mk_s { genv : gstate; senv : env }.
Definition g_init : gstate := mk_g [] [] [] [] [].
Definition s_init : sstate := mk_s g_init [].

Definition FUEL : nat := 40.

Definition run_cmd (p : program) (c : cmd) (s : sstate) : sstate * res Z :=
  let g := genv s in
  let e := senv s in
  match c with
  | CDef x v => (mk_s g (put x (SInt v) e), ROk v)
  | CAssign x v => match lookup x e with Some _ => (mk_s g (put x (SInt v) e), ROk v) | None => (s, RErr 1) end
  | CRead x => match lookup x e with Some (SInt z) => (s, ROk z) | Some (SMod _ _) => (s, ROk (-1)) | None => (s, RErr 1) end
  | CFail => (s, RErr 2)
  | CSyntax => (s, RErr 3)
  | CDefThenFail x v => (mk_s g (put x (SInt v) e), RErr 2)
  | CLoopAbort x =>
    match lookup x e with
    | Some (SInt z) => (mk_s g (put x (SInt (z + 3)) e), RErr 2)
    | Some (SMod _ _) => (s, RErr 8)
    | None => (s, RErr 1)
    end
  | CReq f m =>
    match req FUEL p g m with
    | (g', ROk menv) => (mk_s g' (bind f m menv e), ROk 0)
    | (g', RErr k) => (mk_s g' e, RErr k)
    | (g', RFuel) => (mk_s g' e, RFuel)
    end
  | CBump x =>
    match lookup x e with
    | Some (SMod id _) => let v := match lookup id (cells g) with Some v => v + 1 | None => 1 end in
                          (mk_s (mk_g (cache g) (stack g) (log g) (done g) (put id v (cells g))) e, ROk v)
    | Some (SInt _) => (s, RErr 8)
    | None => (s, RErr 1)
    end
  | CCell x =>
    match lookup x e with
    | Some (SMod id _) => (s, ROk (match lookup id (cells g) with Some v => v | None => 0 end))
    | Some (SInt _) => (s, RErr 8)
    | None => (s, RErr 1)
    end
  | CMember x y =>
    match lookup x e with
    | Some (SMod _ ex) => match lookup y ex with Some z => (s, ROk z) | None => (s, RErr 8) end
    | Some (SInt _) => (s, RErr 8)
    | None => (s, RErr 1)
    end
  end.

(* a history over two interpreter instances: (instance, command) *)
Fixpoint run_hist (p : program) (h : list (bool * cmd)) (s0 s1 : sstate) : sstate * sstate * list (res Z) :=
  match h with
  | [] => (s0, s1, [])
  | (false, c) :: r => let '(s0', o) := run_cmd p c s0 in let '(a, b, os) := run_hist p r s0' s1 in (a, b, o :: os)
  | (true, c) :: r => let '(s1', o) := run_cmd p c s1 in let '(a, b, os) := run_hist p r s0 s1' in (a, b, o :: os)
  end.
