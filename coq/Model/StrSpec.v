(* C18: mathematical definitions of the string library on str = list of code points (hand specification model,
   tied to the interpreter by the correspondence run of checks/C18.py). *)
From Coq Require Import ZArith List Bool.
From Ckl Require Import Prelude.PyPrelude.
Import ListNotations.
Open Scope Z_scope.

(* s.split(sep) for a non-empty literal separator: cut at every non-overlapping occurrence, left to right *)
Fixpoint split_fuel (fuel : nat) (s sep cur : str) : list str :=
  match fuel with
  | O => [rev cur ++ s]
  | S f =>
    match s with
    | [] => [rev cur]
    | c :: s' =>
      if prefixb sep s then rev cur :: split_fuel f (skipn (length sep) s) sep []
      else split_fuel f s' sep (c :: cur)
    end
  end.
Definition split_lit (s sep : str) : list str := split_fuel (S (length s)) s sep [].
(* the language's split returns the empty list for the empty string *)
Definition ckl_split (s sep : str) : list str := match s with [] => [] | _ => split_lit s sep end.

Fixpoint join (sep : str) (l : list str) : str :=
  match l with
  | [] => []
  | [x] => x
  | x :: r => x ++ sep ++ join sep r
  end.

Definition contains (s t : str) : bool := 0 <=? str_find s t.

Section Trim.
Variable ws : Z -> bool.                 (* the host's notion of white space *)
Fixpoint dropws (s : str) : str := match s with c :: s' => if ws c then dropws s' else s | [] => [] end.
Definition trim (s : str) : str := rev (dropws (rev (dropws s))).
End Trim.

(* case mapping of the characters whose mapping is a single character *)
Definition up_ascii (c : Z) : Z := if (97 <=? c) && (c <=? 122) then c - 32 else c.
Definition lo_ascii (c : Z) : Z := if (65 <=? c) && (c <=? 90) then c + 32 else c.

(* padding of the s / sprintf placeholders: {v#w} right-aligns, {v#-w} left-aligns, {v#0w} pads with zeroes *)
Definition pad_left (c : Z) (w : nat) (v : str) : str := repeat c (w - length v) ++ v.
Definition pad_right (c : Z) (w : nat) (v : str) : str := v ++ repeat c (w - length v).
Definition fmt_pad (minus zero : bool) (w : nat) (v : str) : str :=
  if zero then pad_left 48 w v else if minus then pad_right 32 w v else pad_left 32 w v.
(* the text around a placeholder is kept: a template is literal text with holes *)
Inductive piece := Lit (t : str) | Hole (minus zero : bool) (w : nat) (v : str).
Definition interp (ps : list piece) : str :=
  flat_map (fun p => match p with Lit t => t | Hole m z w v => fmt_pad m z w v end) ps.
