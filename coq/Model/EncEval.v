(* Encoders for the outcome of Model/Eval.v (used only by generated correspondence case files). *)
From Coq Require Import String.
From Coq Require Import ZArith List Bool.
From Ckl Require Import Prelude.PyPrelude Prelude.Enc Model.Values Model.Arith Model.EncVal Model.Eval.
Import ListNotations.
Open Scope Z_scope.

(* deep encoding of a run-time value; functions are [20], objects [21; n; (name, value)...] *)
Fixpoint enc_value (fuel : nat) (st : state) (v : value) : list Z :=
  match fuel with
  | O => [99]
  | S f =>
    match v with
    | VNull => [0] | VBool b => [1; if b then 1 else 0] | VInt z => [2; z] | VDec x => 3 :: enc_float x
    | VStr s => 4 :: zlen s :: s | VPat s => 6 :: zlen s :: s
    | VRef KList l => match rd st l with Some (CList vs) => 7 :: zlen vs :: concat (map (enc_value f st) vs) | _ => [98] end
    | VRef KSet l => match rd st l with Some (CSet vs) => 8 :: zlen vs :: concat (map (enc_value f st) vs) | _ => [98] end
    | VRef KMap l => match rd st l with
                     | Some (CMap kvs) => 9 :: zlen kvs :: concat (map (fun kv => enc_value f st (fst kv) ++ enc_value f st (snd kv)) kvs)
                     | _ => [98] end
    | VRef KObj l => match rd st l with
                     | Some (CObj kvs _) => 21 :: zlen kvs :: concat (map (fun kv => (zlen (fst kv) :: fst kv) ++ enc_value f st (snd kv)) kvs)
                     | _ => [98] end
    | VRef KClos _ | VNative _ => [20]
    end
  end.

Definition enc_result (r : state * outcome) : list Z :=
  let '(st, o) := r in
  match o with
  | OV v => 0 :: enc_value 14 st v
  | OErr v => 1 :: enc_value 14 st v
  | OHostX e => [2; exn_code e]
  | OFuel => [3]
  | OUnm => [4]
  | OBrk | OCont | ORet _ => [5]
  end.
