(* C19: specification functions (the textbook definitions) for the collection and numeric
   library; the library itself (written partly in the language, partly as natives) is tied to
   these by the correspondence run of checks/C19.py. *)
From Coq Require Import ZArith List Bool Lia.
From Ckl Require Import Prelude.PyPrelude Model.Values Model.Containers Model.Sorting.
Import ListNotations.
Open Scope Z_scope.

(* ---- sets (results are sets: internal order irrelevant) ---- *)
Definition set_of (l : list dval) : list dval := fold_left (fun s x => set_add x s) l [].
Definition sp_union (a b : list dval) := set_of (a ++ b).
Definition sp_intersection (a b : list dval) := set_of (filter (fun x => set_mem x b) a).
Definition sp_diff (a b : list dval) := set_of (filter (fun x => negb (set_mem x b)) a).
Definition sp_symdiff (a b : list dval) := sp_union (sp_diff a b) (sp_diff b a).

(* ---- lists ---- *)
(* unique: keep the first of each group of equal elements, in order *)
Fixpoint sp_unique_from (seen : list dval) (l : list dval) : list dval :=
  match l with
  | [] => []
  | x :: l' => if set_mem x seen then sp_unique_from seen l' else x :: sp_unique_from (seen ++ [x]) l'
  end.
Definition sp_unique (l : list dval) := sp_unique_from [] l.

Definition sp_flatten (l : list dval) : list dval :=
  concat (map (fun x => match x with DList m => m | _ => [x] end) l).

Definition sp_zip (a b : list dval) : list dval := map (fun p => DList [fst p; snd p]) (combine a b).

(* range(a, b, step): the arithmetic progression a, a+step, ... strictly before b *)
Fixpoint prog (n : nat) (a step : Z) : list Z :=
  match n with O => [] | S k => a :: prog k (a + step) step end.
Definition sp_range (a b step : Z) : list Z :=
  if 0 <? step then prog (Z.to_nat ((b - a + step - 1) / step)) a step
  else if step <? 0 then prog (Z.to_nat ((a - b - step - 1) / (- step))) a step
  else [].
Definition sp_interval (a b : Z) := sp_range a (b + 1) 1.

Definition sp_enumerate (l : list dval) : list dval :=
  map (fun p => DList [DInt (fst p); snd p]) (combine (sp_range 0 (zlen l) 1) l).

Fixpoint sp_chunks_fuel (fuel : nat) (n : nat) (l : list dval) : list (list dval) :=
  match fuel with
  | O => [l]
  | S f => if Nat.leb (length l) n then [l] else firstn n l :: sp_chunks_fuel f n (skipn n l)
  end.
Definition sp_chunks (n : nat) (l : list dval) := sp_chunks_fuel (length l) n l.

Fixpoint sp_pairs (l : list dval) : list dval :=
  match l with
  | x :: ((y :: _) as l') => DList [x; y] :: sp_pairs l'
  | _ => []
  end.

(* grouped: maximal runs of adjacent equal elements *)
Fixpoint sp_grouped_from (cur : list dval) (k : dval) (l : list dval) : list (list dval) :=
  match l with
  | [] => match cur with [] => [] | _ => [cur] end
  | x :: l' => if veq k x then sp_grouped_from (cur ++ [x]) k l'
               else cur :: sp_grouped_from [x] x l'
  end.
Definition sp_grouped (l : list dval) : list (list dval) :=
  match l with [] => [] | x :: _ => sp_grouped_from [] x l end.

Definition sp_reduce {A} (f : A -> A -> A) (l : list A) : option A :=
  match l with [] => None | x :: l' => Some (fold_left f l' x) end.

(* ---- integers ---- *)
Definition sp_sum (l : list Z) : Z := fold_left Z.add l 0.
Definition sp_prod (l : list Z) : option Z := sp_reduce Z.mul l.

(* gcd as the library computes it (Euclid with the floor modulo), then abs *)
Fixpoint gcd_fuel (fuel : nat) (a b : Z) : Z :=
  match fuel with
  | O => Z.abs a
  | S f => if b =? 0 then Z.abs a else gcd_fuel f b (a mod b)
  end.
Definition sp_gcd (a b : Z) : Z := gcd_fuel (S (Z.to_nat (Z.abs b))) a b.
Definition sp_lcm (a b : Z) : Z := let g := sp_gcd a b in if g =? 0 then 0 else Z.abs (a * b) / g.
Definition sp_sign (n : Z) : Z := if n <? 0 then -1 else if 0 <? n then 1 else 0.

(* min / max of a non-empty list: the first minimal / maximal element *)
Definition sp_min (l : list Z) : option Z := sp_reduce (fun m x => if x <? m then x else m) l.
Definition sp_max (l : list Z) : option Z := sp_reduce (fun m x => if m <? x then x else m) l.

(* medians of a list of ints through the sorted copy *)
Definition zsorted (l : list Z) : list Z := sorted Z.ltb l.
Definition sp_median_low (l : list Z) : option Z :=
  let s := zsorted l in let n := length s in
  if Nat.eqb n 0 then None else nth_error s (if Nat.even n then n / 2 - 1 else n / 2)%nat.
Definition sp_median_high (l : list Z) : option Z :=
  let s := zsorted l in nth_error s (length s / 2)%nat.

(* ---- 32-bit words: the natives, statement by statement ---- *)
Definition mask32 := 2 ^ 32 - 1.
Definition w_and (a b : Z) := Z.land a b.
Definition w_or (a b : Z) := Z.lor a b.
Definition w_xor (a b : Z) := Z.lxor a b.
Definition w_not (a : Z) := let x := Z.lnot a in if x <? 0 then x + 2 ^ 32 else x.
Definition w_shl (a n : Z) := Z.land (Z.shiftl a n) mask32.
Definition w_shr (a n : Z) := Z.shiftr a n.
Definition w_rotl (a n : Z) := let k := n mod 32 in Z.land (Z.lor (Z.shiftl a k) (Z.shiftr a (32 - k))) mask32.
Definition w_rotr (a n : Z) := let k := n mod 32 in Z.land (Z.lor (Z.shiftr a k) (Z.shiftl a (32 - k))) mask32.
