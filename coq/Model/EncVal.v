(* Encoders used only by generated correspondence case files. *)
From Coq Require Import String.
From Coq Require Import ZArith List Bool.
From Coq Require Import PrimFloat.
From Ckl Require Import Prelude.PyPrelude Prelude.Enc Model.Values Model.Arith.
Import ListNotations.
Open Scope Z_scope.

Fixpoint enc_dval (v : dval) : list Z :=
  match v with
  | DNull => [0]
  | DBool b => [1; if b then 1 else 0]
  | DInt z => [2; z]
  | DDec f => 3 :: enc_float f
  | DStr s => 4 :: zlen s :: s
  | DDate t => [5; t]
  | DPat s => 6 :: zlen s :: s
  | DList l => 7 :: zlen l :: concat (map enc_dval l)
  | DSet l => 8 :: zlen l :: concat (map enc_dval l)
  | DMap l => 9 :: zlen l :: concat (map (fun kv => enc_dval (fst kv) ++ enc_dval (snd kv)) l)
  end.

Definition enc_outcome (o : outcome) : list Z :=
  match o with
  | OVal v => 0 :: enc_dval v
  | OErr => [1]
  | OHost e => [2; exn_code e]
  | OUnmodelled => [4]
  end.

Definition enc_ob (o : option bool) : list Z := match o with Some true => [1] | Some false => [0] | None => [4] end.
Definition enc_oz (o : option Z) : list Z := match o with Some z => [0; z] | None => [4] end.
