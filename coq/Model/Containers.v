(* Sets and maps as the host's hash containers behave for values whose hash is
   compatible with equality: membership is "some stored element is == to x".
   Internal order = list order (stands for the hash order). *)
From Coq Require Import ZArith List Bool.
From Ckl Require Import Prelude.PyPrelude Model.Values.
Import ListNotations.

Definition set_mem (x : dval) (l : list dval) : bool := existsb (fun y => veq y x) l.
(* set.add keeps the element already present *)
Definition set_add (x : dval) (l : list dval) : list dval := if set_mem x l then l else l ++ [x].
Definition set_remove (x : dval) (l : list dval) : list dval := filter (fun y => negb (veq y x)) l.

Fixpoint nodupv (l : list dval) : bool :=
  match l with
  | [] => true
  | y :: l' => negb (set_mem y l') && nodupv l'
  end.

Definition map_get (k : dval) (m : list (dval * dval)) : option dval :=
  match find (fun kv => veq (fst kv) k) m with Some kv => Some (snd kv) | None => None end.
Definition map_has (k : dval) (m : list (dval * dval)) : bool := existsb (fun kv => veq (fst kv) k) m.
(* dict[k] = v keeps the key object already present and replaces the value in place *)
Fixpoint map_put (k v : dval) (m : list (dval * dval)) : list (dval * dval) :=
  match m with
  | [] => [(k, v)]
  | (k', v') :: m' => if veq k' k then (k', v) :: m' else (k', v') :: map_put k v m'
  end.
Definition map_remove (k : dval) (m : list (dval * dval)) : list (dval * dval) :=
  filter (fun kv => negb (veq (fst kv) k)) m.

Inductive setop := SAdd (x : dval) | SRemove (x : dval).
Definition set_step (l : list dval) (o : setop) : list dval :=
  match o with SAdd x => set_add x l | SRemove x => set_remove x l end.

Inductive mapop := MPut (k v : dval) | MRemove (k : dval).
Definition map_step (m : list (dval * dval)) (o : mapop) :=
  match o with MPut k v => map_put k v m | MRemove k => map_remove k m end.
