(* Data values of the language and the hand model of their equality
   (__eq__), order (__lt__ + functools.total_ordering) and of the numeric
   comparisons CPython performs between ints and floats (exact).  Tied to
   src/ckl/values.py by the correspondence runs of checks C02/C06/C07/C08.
   Sets and maps carry an internal order (the list order) that stands for the
   host's hash order; nothing observable may depend on it. *)
From Coq Require Import String.
From Coq Require Import ZArith List Bool Lia.
From Coq Require Import PrimFloat Uint63 FloatOps SpecFloat.
From Ckl Require Import Prelude.PyPrelude.
Import ListNotations.
Open Scope Z_scope.

Inductive dval :=
| DNull
| DBool (b : bool)
| DInt (z : Z)
| DDec (f : float)
| DStr (s : str)
| DDate (t : Z)            (* seconds on the proleptic Gregorian time line *)
| DPat (s : str)
| DList (l : list dval)
| DSet (l : list dval)
| DMap (l : list (dval * dval)).

(* strong induction principle for the nested type *)
Section Ind.
Variable P : dval -> Prop.
Hypothesis HNull : P DNull.
Hypothesis HBool : forall b, P (DBool b).
Hypothesis HInt : forall z, P (DInt z).
Hypothesis HDec : forall f, P (DDec f).
Hypothesis HStr : forall s, P (DStr s).
Hypothesis HDate : forall t, P (DDate t).
Hypothesis HPat : forall s, P (DPat s).
Hypothesis HList : forall l, Forall P l -> P (DList l).
Hypothesis HSet : forall l, Forall P l -> P (DSet l).
Hypothesis HMap : forall l, Forall (fun kv => P (fst kv) /\ P (snd kv)) l -> P (DMap l).

Fixpoint dval_ind' (v : dval) : P v :=
  match v with
  | DNull => HNull
  | DBool b => HBool b
  | DInt z => HInt z
  | DDec f => HDec f
  | DStr s => HStr s
  | DDate t => HDate t
  | DPat s => HPat s
  | DList l => HList l ((fix go l := match l return Forall P l with
                                     | [] => Forall_nil _
                                     | x :: l' => Forall_cons _ (dval_ind' x) (go l') end) l)
  | DSet l => HSet l ((fix go l := match l return Forall P l with
                                   | [] => Forall_nil _
                                   | x :: l' => Forall_cons _ (dval_ind' x) (go l') end) l)
  | DMap l => HMap l ((fix go l := match l return Forall (fun kv => P (fst kv) /\ P (snd kv)) l with
                                   | [] => Forall_nil _
                                   | p :: l' => Forall_cons p
                                       (match p as p0 return P (fst p0) /\ P (snd p0) with
                                        | (k, v) => conj (dval_ind' k) (dval_ind' v) end) (go l') end) l)
  end.
End Ind.

(* ------------------------------------------------------------ numbers *)
(* The exact value of a number: an int z is z * 2^0, a finite binary64 is its
   signed mantissa times 2^exponent (read off Prim2SF), infinities are kept,
   NaN has no value.  CPython compares ints and floats by their exact values;
   that this holds of the host's float comparison is checked by the
   correspondence runs (C02, C06, C07), not assumed in any theorem. *)
Inductive exr := NegInf | Fin (m e : Z) | PosInf.

Definition exr_cmp (x y : exr) : comparison :=
  match x, y with
  | NegInf, NegInf => Eq
  | NegInf, _ => Lt
  | _, NegInf => Gt
  | PosInf, PosInf => Eq
  | PosInf, _ => Gt
  | _, PosInf => Lt
  | Fin m1 e1, Fin m2 e2 =>
    let e := Z.min e1 e2 in (m1 * 2 ^ (e1 - e)) ?= (m2 * 2 ^ (e2 - e))
  end.

Definition rank_float (f : float) : option exr :=
  match Prim2SF f with
  | S754_nan => None
  | S754_infinity s => Some (if s then NegInf else PosInf)
  | S754_zero _ => Some (Fin 0 0)
  | S754_finite s m e => Some (Fin (if s then Zneg m else Zpos m) e)
  end.

Definition rank (v : dval) : option exr :=
  match v with
  | DInt z => Some (Fin z 0)
  | DDec f => rank_float f
  | _ => None
  end.

Definition is_nan (f : float) : bool := match rank_float f with None => true | Some _ => false end.

(* numeric comparison of two numeric values; None if a NaN is involved or a value is not numeric *)
Definition num_cmp (a b : dval) : option comparison :=
  match rank a, rank b with
  | Some x, Some y => Some (exr_cmp x y)
  | _, _ => None
  end.

Definition is_eq (c : option comparison) := match c with Some Eq => true | _ => false end.
Definition is_lt (c : option comparison) := match c with Some Lt => true | _ => false end.

(* ------------------------------------------------------------ strings *)
Fixpoint str_ltb (a b : str) : bool :=
  match a, b with
  | [], [] => false
  | [], _ :: _ => true
  | _ :: _, [] => false
  | x :: a', y :: b' => (x <? y) || ((x =? y) && str_ltb a' b')
  end.

(* ------------------------------------------------------------ equality (__eq__) *)
Fixpoint veq (a b : dval) {struct a} : bool :=
  match a, b with
  | DNull, DNull => true
  | DBool x, DBool y => Bool.eqb x y
  | DInt _, DInt _ | DInt _, DDec _ | DDec _, DInt _ | DDec _, DDec _ => is_eq (num_cmp a b)
  | DStr s, DStr t => str_eqb s t
  | DDate s, DDate t => s =? t
  | DPat s, DPat t => str_eqb s t
  | DList l, DList m =>
    (fix go (l m : list dval) : bool :=
       match l, m with
       | [], [] => true
       | x :: l', y :: m' => veq x y && go l' m'
       | _, _ => false
       end) l m
  | DSet l, DSet m =>
    (* CPython: equal sizes and every element of l is in m; for duplicate-free
       representations (the invariant of sets, C06_set_nodup) that is mutual inclusion,
       which is what the model states *)
    forallb (fun x => existsb (fun y => veq x y) m) l &&
    forallb (fun y => existsb (fun x => veq x y) l) m
  | DMap l, DMap m =>
    forallb (fun kv => let '(k, v) := kv in
                       existsb (fun kv' => veq k (fst kv') && veq v (snd kv')) m) l &&
    forallb (fun kv' => existsb (fun kv => let '(k, v) := kv in veq k (fst kv') && veq v (snd kv')) l) m
  | _, _ => false
  end.

Definition kind (v : dval) : Z :=
  match v with
  | DNull => 0 | DBool _ => 1 | DInt _ => 2 | DDec _ => 2 | DStr _ => 3 | DDate _ => 4
  | DPat _ => 5 | DList _ => 6 | DSet _ => 7 | DMap _ => 8
  end.

(* ------------------------------------------------------------ order (__lt__), same kind only *)
(* None: the comparison falls back to comparing rendered text in the code
   (different kinds, or NULL/set/map operands), which this model does not
   describe; the property is about one kind at a time. *)
Fixpoint vlt (a b : dval) {struct a} : option bool :=
  match a, b with
  | DBool x, DBool y => Some (negb x && y)
  | DInt _, DInt _ | DInt _, DDec _ | DDec _, DInt _ | DDec _, DDec _ =>
    match num_cmp a b with Some c => Some (match c with Lt => true | _ => false end) | None => Some false end
  | DStr s, DStr t => Some (str_ltb s t)
  | DDate s, DDate t => Some (s <? t)
  | DPat s, DPat t => Some (str_ltb s t)
  | DList l, DList m =>
    (* CPython list comparison: first position where the elements are not ==, then < there *)
    (fix go (l m : list dval) : option bool :=
       match l, m with
       | [], [] => Some false
       | [], _ :: _ => Some true
       | _ :: _, [] => Some false
       | x :: l', y :: m' => if veq x y then go l' m' else vlt x y
       end) l m
  | _, _ => None
  end.

(* functools.total_ordering derivations *)
Definition vgt (a b : dval) : option bool := option_map (fun lt => negb lt && negb (veq a b)) (vlt a b).
Definition vle (a b : dval) : option bool := option_map (fun lt => lt || veq a b) (vlt a b).
Definition vge (a b : dval) : option bool := option_map negb (vlt a b).
(* FuncCompare.execute *)
Definition vcompare (a b : dval) : option Z :=
  match vlt a b, vgt a b with
  | Some true, _ => Some (-1)
  | Some false, Some true => Some 1
  | Some false, Some false => Some 0
  | _, _ => None
  end.

(* NaN-free values: the guard of the equality / order theorems *)
Fixpoint nan_free (v : dval) : bool :=
  match v with
  | DDec f => negb (is_nan f)
  | DList l => forallb nan_free l
  | DSet l => forallb nan_free l
  | DMap l => forallb (fun kv => nan_free (fst kv) && nan_free (snd kv)) l
  | _ => true
  end.
