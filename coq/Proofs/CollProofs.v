From Coq Require Import ZArith List Bool Lia Permutation.
From Ckl Require Import Prelude.PyPrelude Model.Values Model.Containers Model.Sorting Model.Coll
  Proofs.NumOrder Proofs.EqProofs Proofs.SortProofs.
Import ListNotations.
Open Scope Z_scope.

(* ------------------------------------------------------------ sets *)
Lemma set_mem_add x y s : set_mem x (set_add y s) = set_mem x s || veq y x.
Proof.
  unfold set_add. destruct (set_mem y s) eqn:E.
  - destruct (veq y x) eqn:E2; [|rewrite orb_false_r; reflexivity].
    rewrite <- (set_mem_respects y x s E2), E. reflexivity.
  - rewrite set_mem_app. unfold set_mem at 2. cbn [existsb]. rewrite orb_false_r. reflexivity.
Qed.

Lemma set_of_mem_gen x l s :
  set_mem x (fold_left (fun s y => set_add y s) l s) = set_mem x s || existsb (fun y => veq y x) l.
Proof.
  revert s. induction l as [|y l IH]; intros s; cbn [fold_left existsb]; [rewrite orb_false_r; reflexivity|].
  rewrite IH, set_mem_add, orb_assoc. reflexivity.
Qed.

Theorem set_of_mem x l : set_mem x (set_of l) = set_mem x l.
Proof. unfold set_of. rewrite set_of_mem_gen. reflexivity. Qed.

Theorem set_of_nodup l : nodupv (set_of l) = true.
Proof.
  unfold set_of.
  assert (G : forall s, nodupv s = true -> nodupv (fold_left (fun s y => set_add y s) l s) = true).
  { induction l as [|y l IH]; intros s N; [exact N|]. cbn [fold_left]. apply IH. apply (set_step_nodup s (SAdd y) N). }
  apply G. reflexivity.
Qed.

Lemma set_mem_filter_iff x p l :
  (forall y, veq y x = true -> p y = p x) ->
  set_mem x (filter p l) = set_mem x l && p x.
Proof.
  intros C. unfold set_mem. induction l as [|y l IH]; [reflexivity|]. cbn [filter existsb].
  destruct (p y) eqn:Py; cbn [existsb]; rewrite IH.
  - destruct (veq y x) eqn:E; cbn [orb]; [|reflexivity]. rewrite <- (C y E), Py. rewrite andb_true_r.
    destruct (existsb (fun y0 => veq y0 x) l); reflexivity.
  - destruct (veq y x) eqn:E; cbn [orb]; [|reflexivity]. rewrite <- (C y E), Py. rewrite !andb_false_r. reflexivity.
Qed.

Lemma mem_congr b y x : veq y x = true -> set_mem y b = set_mem x b.
Proof. apply set_mem_respects. Qed.

Theorem union_mem x a b : set_mem x (sp_union a b) = set_mem x a || set_mem x b.
Proof. unfold sp_union. rewrite set_of_mem. apply set_mem_app. Qed.

Theorem intersection_mem x a b : set_mem x (sp_intersection a b) = set_mem x a && set_mem x b.
Proof.
  unfold sp_intersection. rewrite set_of_mem. apply set_mem_filter_iff. intros y E. apply mem_congr. exact E.
Qed.

Theorem diff_mem x a b : set_mem x (sp_diff a b) = set_mem x a && negb (set_mem x b).
Proof.
  unfold sp_diff. rewrite set_of_mem. apply set_mem_filter_iff. intros y E. f_equal. apply mem_congr. exact E.
Qed.

Theorem symdiff_mem x a b : set_mem x (sp_symdiff a b) = xorb (set_mem x a) (set_mem x b).
Proof.
  unfold sp_symdiff. rewrite union_mem, !diff_mem. destruct (set_mem x a), (set_mem x b); reflexivity.
Qed.

Theorem set_results_nodup a b :
  nodupv (sp_union a b) = true /\ nodupv (sp_intersection a b) = true /\
  nodupv (sp_diff a b) = true /\ nodupv (sp_symdiff a b) = true.
Proof. repeat split; apply set_of_nodup. Qed.

(* ------------------------------------------------------------ unique *)
Lemma set_mem_cons x y l : set_mem x (y :: l) = veq y x || set_mem x l.
Proof. reflexivity. Qed.
Lemma set_mem_nil x : set_mem x [] = false.
Proof. reflexivity. Qed.

Lemma unique_from_mem x seen l :
  set_mem x (sp_unique_from seen l) = negb (set_mem x seen) && set_mem x l.
Proof.
  revert seen. induction l as [|y l IH]; intros seen; cbn [sp_unique_from].
  - rewrite !set_mem_nil, andb_false_r. reflexivity.
  - destruct (set_mem y seen) eqn:E.
    + rewrite IH, (set_mem_cons x y l).
      destruct (veq y x) eqn:E2; cbn [orb]; [|reflexivity].
      rewrite <- (mem_congr seen y x E2), E. reflexivity.
    + rewrite (set_mem_cons x y (sp_unique_from (seen ++ [y]) l)), IH, set_mem_app, (set_mem_cons x y []), set_mem_nil,
        (set_mem_cons x y l), orb_false_r.
      destruct (veq y x) eqn:E2; cbn [orb].
      * rewrite <- (mem_congr seen y x E2), E. reflexivity.
      * rewrite orb_false_r. reflexivity.
Qed.

Theorem unique_mem x l : set_mem x (sp_unique l) = set_mem x l.
Proof. unfold sp_unique. rewrite unique_from_mem. reflexivity. Qed.

Lemma unique_from_nodup seen l : nodupv (sp_unique_from seen l) = true.
Proof.
  revert seen. induction l as [|y l IH]; intros seen; cbn [sp_unique_from]; [reflexivity|].
  destruct (set_mem y seen) eqn:E; [apply IH|]. cbn [nodupv]. rewrite IH, andb_true_r.
  rewrite unique_from_mem, set_mem_app, (set_mem_cons y y []), set_mem_nil, orb_false_r, E. cbn [orb].
  destruct (veq y y) eqn:R; cbn [negb andb]; [reflexivity|].
  (* y is not == to itself (a NaN): then it is == to nothing, hence a member of nothing *)
  apply negb_true_iff. unfold set_mem. apply not_true_is_false. intros H. apply existsb_exists in H.
  destruct H as [z [_ Hz]]. pose proof Hz as Hz'. rewrite veq_sym in Hz'.
  rewrite (veq_trans y z y Hz' Hz) in R. discriminate.
Qed.

Theorem unique_nodup l : nodupv (sp_unique l) = true.
Proof. apply unique_from_nodup. Qed.

(* the elements of unique are elements of l in their original order: it is what remains of l
   after deleting the later duplicates *)
Fixpoint subseq (s l : list dval) : Prop :=
  match s, l with
  | [], _ => True
  | _ :: _, [] => False
  | x :: s', y :: l' => (x = y /\ subseq s' l') \/ subseq s l'
  end.
Lemma subseq_cons_r s y l : subseq s l -> subseq s (y :: l).
Proof. destruct s; cbn; auto. Qed.
Lemma unique_from_subseq seen l : subseq (sp_unique_from seen l) l.
Proof.
  revert seen. induction l as [|y l IH]; intros seen; cbn [sp_unique_from]; [exact I|].
  destruct (set_mem y seen).
  - apply subseq_cons_r. apply IH.
  - cbn. left. split; [reflexivity|apply IH].
Qed.
Theorem unique_subseq l : subseq (sp_unique l) l.
Proof. apply unique_from_subseq. Qed.

(* the first element equal to x that survives is the first occurrence *)
Theorem unique_head x l : sp_unique (x :: l) = x :: sp_unique_from [x] l.
Proof. reflexivity. Qed.

(* ------------------------------------------------------------ zip / range / chunks / pairs *)
Theorem zip_length a b : length (sp_zip a b) = Nat.min (length a) (length b).
Proof. unfold sp_zip. rewrite map_length. apply combine_length. Qed.

Theorem zip_nth a b i x y : nth_error a i = Some x -> nth_error b i = Some y -> nth_error (sp_zip a b) i = Some (DList [x; y]).
Proof.
  unfold sp_zip. revert b i. induction a as [|p a IH]; intros [|q b] [|i]; cbn; intros H1 H2; try discriminate.
  - inversion H1; inversion H2; subst. reflexivity.
  - apply IH; assumption.
Qed.

Lemma prog_nth n a step i : (i < n)%nat -> nth_error (prog n a step) i = Some (a + Z.of_nat i * step).
Proof.
  revert a i. induction n as [|n IH]; intros a i H; [lia|]. destruct i as [|i]; cbn [prog nth_error].
  - f_equal. lia.
  - rewrite IH by lia. f_equal. lia.
Qed.
Lemma prog_length n a step : length (prog n a step) = n.
Proof. revert a. induction n as [|n IH]; intros a; cbn; [reflexivity|]. rewrite IH. reflexivity. Qed.

(* range(a, b, step) for step > 0: exactly the a + k*step (k = 0, 1, ...) that are < b, in order *)
Theorem range_pos a b step :
  0 < step ->
  let r := sp_range a b step in
  (forall i, (i < length r)%nat -> nth_error r i = Some (a + Z.of_nat i * step)) /\
  (forall k, 0 <= k -> (a + k * step < b <-> (Z.to_nat k < length r)%nat)).
Proof.
  intros Hs. unfold sp_range. replace (0 <? step) with true by (symmetry; apply Z.ltb_lt; lia). cbv zeta.
  set (n := (b - a + step - 1) / step). split.
  - intros i Hi. rewrite prog_length in Hi. apply prog_nth. exact Hi.
  - intros k Hk. rewrite prog_length.
    assert (Hn : forall m, m <= n <-> m * step <= b - a + step - 1).
    { intros m. unfold n. split; intros H.
      - pose proof (Z.mul_div_le (b - a + step - 1) step Hs). nia.
      - apply Z.div_le_lower_bound; lia. }
    split; intros H.
    + assert (k + 1 <= n) by (apply Hn; nia). lia.
    + assert (k + 1 <= n) by lia. apply Hn in H0. nia.
Qed.

Theorem range_neg a b step :
  step < 0 ->
  let r := sp_range a b step in
  (forall i, (i < length r)%nat -> nth_error r i = Some (a + Z.of_nat i * step)) /\
  (forall k, 0 <= k -> (b < a + k * step <-> (Z.to_nat k < length r)%nat)).
Proof.
  intros Hs. unfold sp_range. replace (0 <? step) with false by (symmetry; apply Z.ltb_ge; lia).
  replace (step <? 0) with true by (symmetry; apply Z.ltb_lt; lia). cbv zeta.
  set (n := (a - b - step - 1) / (- step)). split.
  - intros i Hi. rewrite prog_length in Hi. apply prog_nth. exact Hi.
  - intros k Hk. rewrite prog_length.
    assert (Hn : forall m, m <= n <-> m * (- step) <= a - b - step - 1).
    { intros m. unfold n. split; intros H.
      - pose proof (Z.mul_div_le (a - b - step - 1) (- step) ltac:(lia)). nia.
      - apply Z.div_le_lower_bound; lia. }
    split; intros H.
    + assert (k + 1 <= n) by (apply Hn; nia). lia.
    + assert (k + 1 <= n) by lia. apply Hn in H0. nia.
Qed.

Theorem range_zero_step a b : sp_range a b 0 = [].
Proof. reflexivity. Qed.

Theorem interval_is_range a b : sp_interval a b = sp_range a (b + 1) 1.
Proof. reflexivity. Qed.

Lemma chunks_fuel_concat fuel n l : (0 < n)%nat -> concat (sp_chunks_fuel fuel n l) = l.
Proof.
  intros Hn. revert l. induction fuel as [|f IH]; intros l; cbn [sp_chunks_fuel concat]; [apply app_nil_r|].
  destruct (Nat.leb (length l) n); cbn [concat]; [apply app_nil_r|]. rewrite IH. apply firstn_skipn.
Qed.
Theorem chunks_concat n l : (0 < n)%nat -> concat (sp_chunks n l) = l.
Proof. apply chunks_fuel_concat. Qed.

Lemma chunks_fuel_sizes fuel n l : (0 < n)%nat -> (length l <= fuel)%nat ->
  forall c, In c (removelast (sp_chunks_fuel fuel n l)) -> length c = n.
Proof.
  intros Hn. revert l. induction fuel as [|f IH]; intros l Hl c Hc; cbn [sp_chunks_fuel] in Hc; [destruct Hc|].
  destruct (Nat.leb_spec (length l) n); [destruct Hc|].
  assert (NE : sp_chunks_fuel f n (skipn n l) <> []) by (destruct f; cbn; [discriminate|destruct (Nat.leb _ _); discriminate]).
  cbn [removelast] in Hc. destruct (sp_chunks_fuel f n (skipn n l)) eqn:E; [congruence|].
  rewrite <- E in Hc. destruct Hc as [<-|Hc].
  - apply firstn_length_le. lia.
  - apply (IH (skipn n l)); [rewrite skipn_length; lia|exact Hc].
Qed.
Theorem chunks_sizes n l : (0 < n)%nat -> forall c, In c (removelast (sp_chunks n l)) -> length c = n.
Proof. intros Hn. apply chunks_fuel_sizes; [exact Hn|lia]. Qed.

Theorem pairs_length l : length (sp_pairs l) = pred (length l).
Proof.
  induction l as [|x l IH]; [reflexivity|]. destruct l as [|y l]; [reflexivity|].
  cbn [sp_pairs length] in *. rewrite IH. reflexivity.
Qed.
Theorem pairs_nth l i x y : nth_error l i = Some x -> nth_error l (S i) = Some y -> nth_error (sp_pairs l) i = Some (DList [x; y]).
Proof.
  revert i. induction l as [|a l IH]; intros i H1 H2; [destruct i; discriminate|].
  destruct l as [|b l]; [destruct i as [|[|i]]; discriminate|].
  destruct i as [|i].
  - cbn in H1, H2. inversion H1; inversion H2; subst. reflexivity.
  - cbn [sp_pairs]. cbn [nth_error] in *. apply IH; assumption.
Qed.

(* grouped: concatenating the groups gives back the list *)
Lemma grouped_from_concat cur k l : concat (sp_grouped_from cur k l) = cur ++ l.
Proof.
  revert cur k. induction l as [|x l IH]; intros cur k; cbn [sp_grouped_from].
  - destruct cur; cbn; [reflexivity|]. rewrite !app_nil_r. reflexivity.
  - destruct (veq k x); [rewrite IH, <- app_assoc; reflexivity|]. cbn [concat]. rewrite IH. reflexivity.
Qed.
Theorem grouped_concat l : concat (sp_grouped l) = l.
Proof. destruct l as [|x l]; [reflexivity|]. unfold sp_grouped. apply grouped_from_concat. Qed.

(* ------------------------------------------------------------ gcd / lcm *)
Lemma gcd_fuel_spec fuel a b : (Z.to_nat (Z.abs b) < fuel)%nat -> gcd_fuel fuel a b = Z.gcd a b.
Proof.
  revert a b. induction fuel as [|f IH]; intros a b H; [lia|]. cbn [gcd_fuel].
  destruct (Z.eqb_spec b 0) as [->|Hb].
  - rewrite Z.gcd_0_r. reflexivity.
  - rewrite IH.
    + rewrite Z.gcd_comm. rewrite Z.gcd_mod by exact Hb. apply Z.gcd_comm.
    + destruct (Z.lt_ge_cases 0 b).
      * pose proof (Z.mod_pos_bound a b ltac:(lia)). lia.
      * pose proof (Z.mod_neg_bound a b ltac:(lia)). lia.
Qed.

Theorem gcd_exact a b : sp_gcd a b = Z.gcd a b.
Proof. unfold sp_gcd. apply gcd_fuel_spec. lia. Qed.

Theorem lcm_exact a b : sp_lcm a b = Z.lcm a b.
Proof.
  unfold sp_lcm. rewrite gcd_exact. cbv zeta. destruct (Z.eqb_spec (Z.gcd a b) 0) as [E|NE].
  - apply Z.gcd_eq_0 in E. destruct E; subst. reflexivity.
  - unfold Z.lcm. pose proof (Z.gcd_nonneg a b).
    destruct (Z.gcd_divide_r a b) as [q Hq].
    assert (b / Z.gcd a b = q) by (rewrite Hq at 1; apply Z.div_mul; exact NE).
    rewrite H0. replace (a * b) with (a * q * Z.gcd a b) by (rewrite Hq at 2; ring).
    rewrite Z.abs_mul, (Z.abs_eq (Z.gcd a b)) by lia. rewrite Z.div_mul by exact NE. reflexivity.
Qed.

Theorem sign_spec n : sp_sign n = Z.sgn n.
Proof. unfold sp_sign. destruct (Z.ltb_spec n 0); [lia|]. destruct (Z.ltb_spec 0 n); lia. Qed.

(* ------------------------------------------------------------ permutation invariance on ints *)
Lemma fold_add_acc l acc : fold_left Z.add l acc = acc + fold_left Z.add l 0.
Proof. revert acc. induction l as [|x l IH]; intros acc; cbn; [lia|]. rewrite IH, (IH x). lia. Qed.

Theorem sum_perm l1 l2 : Permutation l1 l2 -> sp_sum l1 = sp_sum l2.
Proof.
  unfold sp_sum. intros P. induction P; cbn; try reflexivity.
  - rewrite (fold_add_acc l x), (fold_add_acc l' x). lia.
  - rewrite (fold_add_acc l (y + x)), (fold_add_acc l (x + y)). lia.
  - congruence.
Qed.

Lemma fold_min_spec l m : fold_left (fun m x => if x <? m then x else m) l m = fold_left Z.min l m.
Proof.
  revert m. induction l as [|x l IH]; intros m; cbn; [reflexivity|]. rewrite IH. f_equal.
  destruct (Z.ltb_spec x m); lia.
Qed.
Lemma fold_max_spec l m : fold_left (fun m x => if m <? x then x else m) l m = fold_left Z.max l m.
Proof.
  revert m. induction l as [|x l IH]; intros m; cbn; [reflexivity|]. rewrite IH. f_equal.
  destruct (Z.ltb_spec m x); lia.
Qed.

Definition zmin_all (l : list Z) : option Z := match l with [] => None | x :: l' => Some (fold_left Z.min l' x) end.
Lemma fold_min_acc l a b : fold_left Z.min l (Z.min a b) = Z.min a (fold_left Z.min l b).
Proof. revert a b. induction l as [|x l IH]; intros a b; cbn; [reflexivity|]. rewrite <- IH. f_equal. lia. Qed.
Lemma fold_max_acc l a b : fold_left Z.max l (Z.max a b) = Z.max a (fold_left Z.max l b).
Proof. revert a b. induction l as [|x l IH]; intros a b; cbn; [reflexivity|]. rewrite <- IH. f_equal. lia. Qed.

Lemma min_fold_perm l1 l2 : Permutation l1 l2 -> forall m, fold_left Z.min l1 m = fold_left Z.min l2 m.
Proof.
  intros P. induction P; intros m; cbn; try reflexivity.
  - apply IHP.
  - f_equal. lia.
  - rewrite IHP1. apply IHP2.
Qed.
Lemma max_fold_perm l1 l2 : Permutation l1 l2 -> forall m, fold_left Z.max l1 m = fold_left Z.max l2 m.
Proof.
  intros P. induction P; intros m; cbn; try reflexivity.
  - apply IHP.
  - f_equal. lia.
  - rewrite IHP1. apply IHP2.
Qed.

Theorem min_perm l1 l2 : Permutation l1 l2 -> sp_min l1 = sp_min l2.
Proof.
  intros P. destruct l1 as [|a l1], l2 as [|b l2].
  - reflexivity.
  - apply Permutation_nil in P. discriminate.
  - apply Permutation_sym, Permutation_nil in P. discriminate.
  - unfold sp_min, sp_reduce. rewrite !fold_min_spec. f_equal.
    replace (fold_left Z.min l1 a) with (fold_left Z.min (a :: l1) a) by (cbn; f_equal; lia).
    replace (fold_left Z.min l2 b) with (fold_left Z.min (b :: l2) b) by (cbn; f_equal; lia).
    rewrite (min_fold_perm _ _ P a).
    (* fold over the same list from the two starting points a and b, both members of the list *)
    assert (In a (b :: l2)) by (eapply Permutation_in; [exact P|left; reflexivity]).
    assert (G : forall l m x, In x l -> fold_left Z.min l m = fold_left Z.min l (Z.min m x)).
    { induction l as [|y l IH]; intros m x Hx; [destruct Hx|]. cbn. destruct Hx as [->|Hx].
      - f_equal. lia.
      - rewrite (IH (Z.min m y) x Hx), (IH (Z.min (Z.min m x) y) x Hx). f_equal. lia. }
    rewrite (G (b :: l2) a b (or_introl eq_refl)), (G (b :: l2) b a H). f_equal. lia.
Qed.

Theorem max_perm l1 l2 : Permutation l1 l2 -> sp_max l1 = sp_max l2.
Proof.
  intros P. destruct l1 as [|a l1], l2 as [|b l2].
  - reflexivity.
  - apply Permutation_nil in P. discriminate.
  - apply Permutation_sym, Permutation_nil in P. discriminate.
  - unfold sp_max, sp_reduce. rewrite !fold_max_spec. f_equal.
    replace (fold_left Z.max l1 a) with (fold_left Z.max (a :: l1) a) by (cbn; f_equal; lia).
    replace (fold_left Z.max l2 b) with (fold_left Z.max (b :: l2) b) by (cbn; f_equal; lia).
    rewrite (max_fold_perm _ _ P a).
    assert (In a (b :: l2)) by (eapply Permutation_in; [exact P|left; reflexivity]).
    assert (G : forall l m x, In x l -> fold_left Z.max l m = fold_left Z.max l (Z.max m x)).
    { induction l as [|y l IH]; intros m x Hx; [destruct Hx|]. cbn. destruct Hx as [->|Hx].
      - f_equal. lia.
      - rewrite (IH (Z.max m y) x Hx), (IH (Z.max (Z.max m x) y) x Hx). f_equal. lia. }
    rewrite (G (b :: l2) a b (or_introl eq_refl)), (G (b :: l2) b a H). f_equal. lia.
Qed.

(* ------------------------------------------------------------ 32-bit words *)
Definition word (a : Z) := 0 <= a < 2 ^ 32.

Lemma land_mask a : 0 <= a -> Z.land a mask32 = a mod 2 ^ 32.
Proof. intros. unfold mask32. change (2 ^ 32 - 1) with (Z.ones 32). apply Z.land_ones. lia. Qed.

Theorem w_not_spec a : word a -> w_not a = 2 ^ 32 - 1 - a.
Proof.
  unfold word, w_not. intros H. unfold Z.lnot. cbv zeta.
  destruct (Z.ltb_spec (Z.pred (- a)) 0); lia.
Qed.

Theorem w_shl_spec a n : 0 <= a -> 0 <= n -> w_shl a n = (a * 2 ^ n) mod 2 ^ 32.
Proof.
  intros Ha Hn. unfold w_shl. rewrite Z.shiftl_mul_pow2 by exact Hn. apply land_mask.
  apply Z.mul_nonneg_nonneg; [exact Ha|]. apply Z.pow_nonneg. lia.
Qed.

Theorem w_shr_spec a n : 0 <= n -> w_shr a n = a / 2 ^ n.
Proof. intros Hn. unfold w_shr. apply Z.shiftr_div_pow2. exact Hn. Qed.

Lemma word_high_bits a i : word a -> 32 <= i -> Z.testbit a i = false.
Proof.
  intros [H0 H1] Hi. rewrite <- (Z.mod_small a (2 ^ 32)) by lia. apply Z.mod_pow2_bits_high. lia.
Qed.

Lemma mask_bit i : 0 <= i < 32 -> Z.testbit mask32 i = true.
Proof. intros. unfold mask32. change (2 ^ 32 - 1) with (Z.ones 32). apply Z.ones_spec_low. lia. Qed.
Lemma mask_bit_high i : 32 <= i -> Z.testbit mask32 i = false.
Proof. intros. unfold mask32. change (2 ^ 32 - 1) with (Z.ones 32). apply Z.ones_spec_high. lia. Qed.

(* rotate left by n: bit i of the result is bit (i - n) mod 32 of the word; nothing above bit 31 *)
Theorem w_rotl_spec a n i : word a -> 0 <= i ->
  Z.testbit (w_rotl a n) i = if i <? 32 then Z.testbit a ((i - n) mod 32) else false.
Proof.
  intros Ha Hi. unfold w_rotl. cbv zeta. set (k := n mod 32).
  assert (Hk : 0 <= k < 32) by (unfold k; apply Z.mod_pos_bound; lia).
  rewrite Z.land_spec. destruct (Z.ltb_spec i 32) as [Hlt|Hge].
  - rewrite mask_bit by lia. rewrite andb_true_r, Z.lor_spec.
    rewrite Z.shiftl_spec by lia. rewrite Z.shiftr_spec by lia.
    assert (E : (i - n) mod 32 = (i - k) mod 32).
    { unfold k. rewrite Zminus_mod_idemp_r. reflexivity. }
    rewrite E. destruct (Z.lt_ge_cases i k) as [L|G].
    + rewrite (Z.testbit_neg_r a (i - k)) by lia. cbn [orb]. f_equal.
      apply Z.mod_unique with (q := -1); lia.
    + rewrite (word_high_bits a (i + (32 - k)) Ha) by lia. rewrite orb_false_r. f_equal.
      symmetry. apply Z.mod_small. lia.
  - rewrite mask_bit_high by lia. apply andb_false_r.
Qed.

Theorem w_rotr_spec a n i : word a -> 0 <= i ->
  Z.testbit (w_rotr a n) i = if i <? 32 then Z.testbit a ((i + n) mod 32) else false.
Proof.
  intros Ha Hi. unfold w_rotr. cbv zeta. set (k := n mod 32).
  assert (Hk : 0 <= k < 32) by (unfold k; apply Z.mod_pos_bound; lia).
  rewrite Z.land_spec. destruct (Z.ltb_spec i 32) as [Hlt|Hge].
  - rewrite mask_bit by lia. rewrite andb_true_r, Z.lor_spec.
    rewrite Z.shiftl_spec by lia. rewrite Z.shiftr_spec by lia.
    assert (E : (i + n) mod 32 = (i + k) mod 32).
    { unfold k. rewrite Zplus_mod_idemp_r. reflexivity. }
    rewrite E. destruct (Z.lt_ge_cases (i + k) 32) as [L|G].
    + rewrite (Z.testbit_neg_r a (i - (32 - k))) by lia. rewrite orb_false_r. f_equal.
      symmetry. apply Z.mod_small. lia.
    + rewrite (word_high_bits a (i + k) Ha) by lia. cbn [orb]. f_equal.
      apply Z.mod_unique with (q := 1); lia.
  - rewrite mask_bit_high by lia. apply andb_false_r.
Qed.

(* and / or / xor are the bitwise operations of the integers *)
Theorem w_logic_spec a b i :
  Z.testbit (w_and a b) i = (Z.testbit a i && Z.testbit b i) /\
  Z.testbit (w_or a b) i = (Z.testbit a i || Z.testbit b i) /\
  Z.testbit (w_xor a b) i = xorb (Z.testbit a i) (Z.testbit b i).
Proof. unfold w_and, w_or, w_xor. rewrite Z.land_spec, Z.lor_spec, Z.lxor_spec. repeat split. Qed.

(* ------------------------------------------------------------ medians are permutation invariant (ints) *)
From Coq Require Import Sorting.Sorted.

Lemma sorted_unique (s1 s2 : list Z) :
  StronglySorted Z.le s1 -> StronglySorted Z.le s2 -> Permutation s1 s2 -> s1 = s2.
Proof.
  intros S1. revert s2. induction S1 as [|x s1 S1 IH Hx]; intros s2 S2 P.
  - apply Permutation_nil in P. subst. reflexivity.
  - destruct S2 as [|y s2 S2 Hy].
    + apply Permutation_sym, Permutation_nil in P. discriminate.
    + assert (x = y).
      { assert (In x (y :: s2)) by (eapply Permutation_in; [exact P|left; reflexivity]).
        assert (In y (x :: s1)) by (eapply Permutation_in; [apply Permutation_sym; exact P|left; reflexivity]).
        rewrite Forall_forall in Hx, Hy.
        destruct H as [->|H]; [reflexivity|]. destruct H0 as [->|H0]; [reflexivity|].
        specialize (Hx y H0). specialize (Hy x H). lia. }
      subst y. f_equal. apply IH; [exact S2|]. eapply Permutation_cons_inv. exact P.
Qed.

Lemma zsorted_strongly l : StronglySorted Z.le (zsorted l).
Proof.
  apply Sorted_StronglySorted; [intros a b c; lia|].
  pose proof (sorted_ordered Z.ltb ltac:(intros a b H; apply Z.ltb_lt in H; apply Z.ltb_ge; lia) l) as S.
  unfold zsorted. induction S as [|a s S IH Ha]; constructor; [exact IH|].
  destruct Ha as [|b s Hb]; constructor. apply Z.ltb_ge in Hb. exact Hb.
Qed.

Theorem zsorted_perm l1 l2 : Permutation l1 l2 -> zsorted l1 = zsorted l2.
Proof.
  intros P. apply sorted_unique; try apply zsorted_strongly.
  eapply Permutation_trans; [apply Permutation_sym; apply sorted_perm|].
  eapply Permutation_trans; [exact P|]. apply sorted_perm.
Qed.

Theorem median_perm l1 l2 : Permutation l1 l2 ->
  sp_median_low l1 = sp_median_low l2 /\ sp_median_high l1 = sp_median_high l2.
Proof. intros P. unfold sp_median_low, sp_median_high. rewrite (zsorted_perm l1 l2 P). split; reflexivity. Qed.
