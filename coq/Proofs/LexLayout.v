(* C14: outside string, pattern and comment states a tab, a carriage return and a line feed act exactly like a blank -
   in EVERY scanner state (so also directly after a token that is still being read), up to positions.
   Facts about the GENERATED scanner step, re-proved against whatever src/ckl/lexer.py says now. *)
From Coq Require Import ZArith List Bool Lia.
From Ckl Require Import Prelude.PyPrelude Prelude.LexPrelude Gen.LexGen Model.LexRun Proofs.LexProofs.
Import ListNotations.
Open Scope Z_scope.

(* states in which the characters read are content: double/single quoted strings and their escapes, patterns, comments *)
Definition literal_state (st : Z) : bool := mem_z st [3; 31; 311; 312; 4; 41; 411; 412; 6; 9].

Ltac eval_closed_tests :=
  repeat match goal with
  | |- context [?x =? ?y] => let v := eval vm_compute in (x =? y) in
        match v with true => change (x =? y) with true | false => change (x =? y) with false end
  | |- context [mem_z ?x ?l] => let v := eval vm_compute in (mem_z x l) in
        match v with true => change (mem_z x l) with true | false => change (mem_z x l) with false end
  end; cbv iota.

Lemma ws_like_blank s a : mem_z a [9; 13; 10] = true -> literal_state (l_state s) = false ->
  erase_res (lex_step s a) = erase_res (lex_step s 32).
Proof.
  intros Ha L. destruct s as [st tk tb ln cl sl sc up]. cbn [l_state] in L.
  cbn in Ha. repeat rewrite orb_true_iff in Ha.
  destruct Ha as [Ha|[Ha|[Ha|Ha]]]; try discriminate; apply Z.eqb_eq in Ha; subst a;
    unfold lex_step; cbn [l_state l_token l_tempbuf l_line l_col l_sline l_scol l_upd];
    eval_closed_tests; crunch_if; try reflexivity; know_state; try discriminate.
Qed.

(* a blank that is read again (`pos -= 1`) is read again in a state that is not a literal state *)
Lemma blank_unread_nonliteral s s' e : lex_step s 32 = Step s' e false -> literal_state (l_state s') = false.
Proof.
  destruct s as [st tk tb ln cl sl sc up]. unfold lex_step.
  cbn [l_state l_token l_tempbuf l_line l_col l_sline l_scol l_upd].
  eval_closed_tests; crunch_if; intros H; try discriminate; injection H as <- _; reflexivity.
Qed.

Lemma erase_state_st s1 s2 : erase_state s1 = erase_state s2 -> l_state s1 = l_state s2.
Proof. unfold erase_state. intros H. injection H. auto. Qed.

(* between two tokens a tab, CR or LF is worth a blank: the token values and types of the whole text are the same *)
Theorem ws_equiv fuel : forall s1 s2 a rest acc1 acc2,
  erase_state s1 = erase_state s2 -> map erase_tok acc1 = map erase_tok acc2 ->
  mem_z a [9; 13; 10] = true -> literal_state (l_state s1) = false ->
  erase_lexres (lex_loop fuel s1 (a :: rest) acc1) = erase_lexres (lex_loop fuel s2 (32 :: rest) acc2).
Proof.
  induction fuel as [|f IH]; intros s1 s2 a rest acc1 acc2 Hs Ha Hw HL; [reflexivity|].
  cbn [lex_loop].
  pose proof (ws_like_blank s1 a Hw HL) as E1.
  pose proof (step_erase s1 32) as E2. pose proof (step_erase s2 32) as E3. rewrite Hs in E2. rewrite <- E3 in E2.
  rewrite E2 in E1. clear E2 E3.
  destruct (lex_step s1 a) as [a1 e1 c1|l1] eqn:S1, (lex_step s2 32) as [a2 e2 c2|l2] eqn:S2; cbn in E1; try discriminate; [|reflexivity].
  injection E1 as H1 H2 H3 H4 H5 H6. subst c2.
  assert (Hs' : erase_state a1 = erase_state a2) by (unfold erase_state; congruence).
  assert (Ha' : map erase_tok (acc1 ++ e1) = map erase_tok (acc2 ++ e2)) by (rewrite !map_app, Ha, H5; reflexivity).
  destruct c1.
  - apply loop_erase; assumption.
  - apply IH; try assumption.
    rewrite (erase_state_st a1 a2 Hs'). eapply blank_unread_nonliteral. exact S2.
Qed.
