(* C10 / C11: the loader's recursion is bounded by the cycle check - with more fuel than there are module files the model
   never runs out of fuel, so the [no_fuel] premises of the session theorems hold for every history. *)
From Coq Require Import ZArith List Bool Lia.
From Ckl Require Import Model.Session Proofs.SessionProofs.
Import ListNotations.
Open Scope Z_scope.

(* module files not currently being loaded *)
Definition free (p : program) (st : list Z) : nat := length (filter (fun k => negb (memz k st)) (map fst p)).

Lemma filter_length_le {A} (f : A -> bool) l : (length (filter f l) <= length l)%nat.
Proof. induction l as [|x l IH]; cbn; [lia|]. destruct (f x); cbn; lia. Qed.

Lemma free_le p st : (free p st <= length p)%nat.
Proof. unfold free. rewrite <- (map_length fst p). apply filter_length_le. Qed.

Lemma memz_cons k m st : memz k (m :: st) = (k =? m) || memz k st.
Proof. reflexivity. Qed.

Lemma lookup_in_dom {V} k (l : list (Z * V)) v : lookup k l = Some v -> In k (map fst l).
Proof.
  induction l as [|[k' v'] r IH]; cbn; [discriminate|]. destruct (k =? k') eqn:E; [apply Z.eqb_eq in E; subst; auto|intros H; right; exact (IH H)].
Qed.

(* pushing a module that has a file and is not being loaded leaves strictly fewer free modules *)
Lemma free_push p st m : In m (map fst p) -> memz m st = false -> (free p (m :: st) < free p st)%nat.
Proof.
  unfold free. induction (map fst p) as [|k l IH]; intros I N; [destruct I|]. cbn [filter].
  rewrite memz_cons. destruct I as [->|I].
  - rewrite Z.eqb_refl, N. cbn [orb negb length].
    assert (length (filter (fun k => negb (memz k (m :: st))) l) <= length (filter (fun k => negb (memz k st)) l))%nat.
    { clear. induction l as [|k l IH]; cbn [filter]; [lia|]. rewrite memz_cons. destruct (k =? m); cbn [orb negb].
      - destruct (memz k st); cbn [negb length]; lia.
      - destruct (memz k st); cbn [negb length]; lia. }
    lia.
  - specialize (IH I N). destruct (k =? m) eqn:E; cbn [orb negb].
    + destruct (memz k st); cbn [negb length]; lia.
    + destruct (memz k st); cbn [negb length]; lia.
Qed.

Lemma run_body_no_fuel rq m S0 stmts :
  (forall g k, stack g = S0 -> no_fuel (snd (rq g k)) /\ stack (fst (rq g k)) = S0) ->
  forall g menv, stack g = S0 -> no_fuel (snd (run_body rq m stmts g menv)).
Proof.
  intros H. induction stmts as [|s r IH]; intros g menv Hs; [exact I|].
  destruct s as [x v|f m2| | |f m2 x0]; cbn [run_body].
  - apply IH. exact Hs.
  - destruct (H g m2 Hs) as [N S]. destruct (rq g m2) as [g' [menv2|e|]]; cbn [fst snd] in *; [apply IH; exact S|exact I|destruct N].
  - exact I.
  - apply IH. exact Hs.
  - destruct (H g m2 Hs) as [N S]. destruct (rq g m2) as [g' [menv2|e|]]; cbn [fst snd] in *; [apply IH; exact S| |destruct N].
    destruct (e =? 7); [exact I|apply IH; exact S].
Qed.

Theorem req_enough_fuel p : forall fuel g m, (free p (stack g) < fuel)%nat -> no_fuel (snd (req fuel p g m)).
Proof.
  induction fuel as [|f IH]; intros g m F; [lia|]. cbn [req].
  destruct (memz m (stack g)) eqn:M; [exact I|].
  destruct (lookup m (cache g)); [exact I|].
  destruct (lookup m p) as [md|] eqn:L; [|exact I].
  destruct (negb (m_parses md)); [exact I|].
  set (g1 := with_stack (m :: stack g) g).
  assert (F1 : (free p (stack g1) < f)%nat).
  { pose proof (free_push p (stack g) m (lookup_in_dom m p md L) M). cbn [g1 stack with_stack]. lia. }
  pose proof (run_body_no_fuel (req f p) m (stack g1) (m_body md)
                (fun g0 k H0 => let N := IH g0 k (eq_ind_r (fun s => (free p s < f)%nat) F1 H0) in
                                conj N (eq_trans (req_stack_restored f p g0 k N) H0)) g1 [] eq_refl) as RB.
  destruct (run_body (req f p) m (m_body md) g1 []) as [g2 [menv|e|]]; cbn [snd] in *; [exact I|exact I|destruct RB].
Qed.

(* with FUEL = 40: for every set of fewer than 40 module files no command ever runs out of fuel *)
Theorem cmd_no_fuel p c s : (length p < FUEL)%nat -> no_fuel (snd (run_cmd p c s)).
Proof.
  intros H. destruct c; cbn [run_cmd]; try exact I.
  - destruct (lookup x (senv s)); exact I.
  - destruct (lookup x (senv s)) as [[z|id ex]|]; exact I.
  - destruct (lookup x (senv s)) as [[z|id ex]|]; exact I.
  - pose proof (req_enough_fuel p FUEL (genv s) m) as N. pose proof (free_le p (stack (genv s))).
    destruct (req FUEL p (genv s) m) as [g' [menv|k|]]; cbn [snd] in *; [exact I|exact I|apply N; lia].
  - destruct (lookup x (senv s)) as [[z|id ex]|]; exact I.
  - destruct (lookup x (senv s)) as [[z|id ex]|]; exact I.
  - destruct (lookup x (senv s)) as [[z|id ex]|]; try exact I. destruct (lookup y ex); exact I.
Qed.

Lemma hist_no_fuel p h : (length p < FUEL)%nat -> forall s0 s1, all_no_fuel (snd (run_hist p h s0 s1)).
Proof.
  intros H. induction h as [|[[|] c] r IH]; intros s0 s1; [exact I| |]; cbn [run_hist].
  - pose proof (cmd_no_fuel p c s1 H) as N. destruct (run_cmd p c s1) as [s1' o]. specialize (IH s0 s1').
    destruct (run_hist p r s0 s1') as [[a b] os]. cbn [snd] in *. split; assumption.
  - pose proof (cmd_no_fuel p c s0 H) as N. destruct (run_cmd p c s0) as [s0' o]. specialize (IH s0' s1).
    destruct (run_hist p r s0' s1) as [[a b] os]. cbn [snd] in *. split; assumption.
Qed.

(* hence, unconditionally: after every command of every history over fewer than 40 module files, on both instances,
   the load stack is empty and no module's top-level code has run to its end twice *)
Theorem history_clean_total p h s0 s1 : (length p < FUEL)%nat -> clean s0 -> clean s1 ->
  clean (fst (fst (run_hist p h s0 s1))) /\ clean (snd (fst (run_hist p h s0 s1))).
Proof. intros H C0 C1. apply history_clean; [exact C0|exact C1|apply hist_no_fuel; exact H]. Qed.
