(* C14: the premises of the gap theorem hold in every state the scanner can reach: [tidy] (no token text pending in the blank
   state and right after '/') and "a known state" are invariants of the GENERATED step. *)
From Coq Require Import ZArith List Bool Lia.
From Ckl Require Import Prelude.PyPrelude Prelude.LexPrelude Gen.LexGen Model.LexRun Proofs.LexProofs Proofs.LexLayout Proofs.LexGaps.
Import ListNotations.
Open Scope Z_scope.

Definition known_state (st : Z) : bool := (st =? 0) || scan_state st || literal_state st.

(* the states the scanner passes through while reading a text *)
Inductive reach : lstate -> Prop :=
| reach_init : reach lex_init
| reach_step s ch s' e c : reach s -> lex_step s ch = Step s' e c -> reach s'.

(* no token text is pending in the blank state, right after '/' and inside a comment *)
Definition tidy3 (s : lstate) : Prop := l_state s = 0 \/ l_state s = 5 \/ l_state s = 9 -> l_token s = [].
Lemma tidy3_tidy s : tidy3 s -> tidy s.
Proof. unfold tidy3, tidy. intros H [K|K]; apply H; auto. Qed.

Lemma step_keeps_tidy s ch s' e c : tidy3 s -> lex_step s ch = Step s' e c -> tidy3 s'.
Proof.
  intros T. destruct s as [st tk tb ln cl sl sc up]. unfold tidy3 in *. cbn [l_state l_token] in T. unfold lex_step.
  cbn [l_state l_token l_tempbuf l_line l_col l_sline l_scol l_upd].
  crunch_if; intros H; try discriminate; injection H as <- _ _; know_state; cbn [l_state l_token];
    intros [K|[K|K]]; try discriminate K; try reflexivity;
    try (apply T; first [left; reflexivity | right; left; reflexivity | right; right; reflexivity]);
    try (apply T; first [left; exact K | right; left; exact K | right; right; exact K]);
    try match goal with H : negb (is_empty ?t) = false |- _ => destruct t; [reflexivity|discriminate H] end.
Qed.

Lemma step_keeps_known s ch s' e c : known_state (l_state s) = true -> lex_step s ch = Step s' e c -> known_state (l_state s') = true.
Proof.
  intros T. destruct s as [st tk tb ln cl sl sc up]. cbn [l_state] in T. unfold lex_step.
  cbn [l_state l_token l_tempbuf l_line l_col l_sline l_scol l_upd].
  crunch_if; intros H; try discriminate; injection H as <- _ _; know_state; cbn [l_state]; first [reflexivity | exact T].
Qed.

Theorem reach_invariants s : reach s -> tidy3 s /\ known_state (l_state s) = true.
Proof.
  induction 1 as [|s ch s' e c R [IT IK] S].
  - split; [intros _; reflexivity|reflexivity].
  - split; [eapply step_keeps_tidy; eassumption|eapply step_keeps_known; eassumption].
Qed.

(* so: in every reachable state that is not inside a string, a pattern or a comment, the gap theorem applies *)
Corollary reach_gap_premises s : reach s -> literal_state (l_state s) = false ->
  ((l_state s =? 0) = true \/ scan_state (l_state s) = true) /\ tidy s /\ (rank s <= 2)%nat.
Proof.
  intros R L. destruct (reach_invariants s R) as [T K]. unfold known_state in K. rewrite L, orb_false_r in K.
  apply orb_true_iff in K. repeat split; [exact K|apply tidy3_tidy; exact T|].
  unfold rank. destruct (l_state s =? 70); [lia|]. destruct (l_state s =? 0); lia.
Qed.
