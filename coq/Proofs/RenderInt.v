(* C08: the decimal numeral of every non-negative int is read back by the GENERATED scanner step as one int token with
   the same digits.  Re-proved on every run against the step regenerated from src/ckl/lexer.py. *)
From Coq Require Import ZArith List Bool Lia.
From Ckl Require Import Prelude.PyPrelude Prelude.LexPrelude Model.Arith Gen.LexGen Model.LexRun Proofs.LexProofs Proofs.RenderProofs.
Import ListNotations.
Open Scope Z_scope.

Definition is_digit (c : Z) : Prop := 48 <= c <= 57.

Lemma digits_pos_digits fuel : forall n acc, 0 <= n -> Forall is_digit acc -> Forall is_digit (digits_pos fuel n acc).
Proof.
  induction fuel as [|f IH]; intros n acc Hn Ha; [exact Ha|]. cbn [digits_pos]. destruct (n <? 10) eqn:E.
  - apply Z.ltb_lt in E. constructor; [unfold is_digit; lia|exact Ha].
  - apply IH; [apply Z.div_pos; lia|]. constructor; [|exact Ha]. pose proof (Z.mod_pos_bound n 10 ltac:(lia)). unfold is_digit. lia.
Qed.

Lemma digits_pos_head fuel : forall n acc, 0 < n < 2 ^ Z.of_nat fuel -> exists d rest, digits_pos fuel n acc = d :: rest /\ 49 <= d <= 57.
Proof.
  induction fuel as [|f IH]; intros n acc H; [cbn in H; lia|]. cbn [digits_pos]. destruct (n <? 10) eqn:E.
  - apply Z.ltb_lt in E. exists (48 + n), acc. split; [reflexivity|lia].
  - apply Z.ltb_ge in E. apply IH. split.
    + apply Z.div_str_pos. lia.
    + rewrite Nat2Z.inj_succ, Z.pow_succ_r in H by lia. apply Z.div_lt_upper_bound; lia.
Qed.

Lemma no_underscore ds : Forall is_digit ds -> remove_underscores ds = ds.
Proof.
  induction 1 as [|c ds Hc _ IH]; [reflexivity|]. unfold remove_underscores in *. cbn [filter].
  replace (c =? 95) with false by (symmetry; apply Z.eqb_neq; unfold is_digit in Hc; lia). cbn [negb]. rewrite IH. reflexivity.
Qed.

(* inside a number: state 7 *)
Definition in_num (tk : str) (s : lstate) : Prop :=
  l_state s = 7 /\ l_token s = tk /\ l_sline s = 1 /\ l_scol s = 1 /\ l_upd s = true.

Lemma digit_cases c : 48 <= c <= 57 -> c = 48 \/ c = 49 \/ c = 50 \/ c = 51 \/ c = 52 \/ c = 53 \/ c = 54 \/ c = 55 \/ c = 56 \/ c = 57.
Proof. lia. Qed.

Lemma start_digit c : 49 <= c <= 57 -> exists s', lex_step lex_init c = Step s' [] true /\ in_num [c] s'.
Proof.
  intros H. destruct (digit_cases c ltac:(lia)) as [E|[E|[E|[E|[E|[E|[E|[E|[E|E]]]]]]]]]; subst c; try lia;
    eexists; (split; [vm_compute; reflexivity|]); repeat split.
Qed.

Lemma num_digit tk s c : in_num tk s -> 48 <= c <= 57 -> exists s', lex_step s c = Step s' [] true /\ in_num (tk ++ [c]) s'.
Proof.
  intros [H1 [H2 [H3 [H4 H5]]]] Hc. destruct s as [st0 tk0 tb0 ln0 cl0 sl0 sc0 up0]. cbn in H1, H2, H3, H4, H5. subst.
  destruct (digit_cases c Hc) as [E|[E|[E|[E|[E|[E|[E|[E|[E|E]]]]]]]]]; subst c;
    eexists; (split; [vm_compute; reflexivity|]); repeat split.
Qed.

Lemma num_run ds : forall tk s rest acc f, Forall is_digit ds -> in_num tk s ->
  exists s', lex_loop (length ds + f) s (ds ++ rest) acc = lex_loop f s' rest acc /\ in_num (tk ++ ds) s'.
Proof.
  induction ds as [|c ds IH]; intros tk s rest acc f Hd H.
  - exists s. cbn. rewrite app_nil_r. split; [reflexivity|exact H].
  - inversion Hd as [|? ? Hc Hds]; subst. destruct (num_digit tk s c H Hc) as [s1 [S1 I1]].
    cbn [length app Nat.add]. rewrite (loop_step _ _ _ _ _ _ _ S1), app_nil_r.
    destruct (IH (tk ++ [c]) s1 rest acc f Hds I1) as [s2 [R2 I2]]. exists s2. rewrite R2. rewrite <- app_assoc in I2. split; [reflexivity|exact I2].
Qed.

(* a blank ends the number: the token is emitted, the blank is read again in the blank state *)
Lemma num_end tk s : in_num tk s -> exists s1 s2,
  lex_step s 32 = Step s1 [mk_tok (remove_underscores tk) 3 1 1] false /\ lex_step s1 32 = Step s2 [] true.
Proof.
  intros [H1 [H2 [H3 [H4 H5]]]]. destruct s as [st0 tk0 tb0 ln0 cl0 sl0 sc0 up0]. cbn in H1, H2, H3, H4, H5. subst.
  eexists. eexists. split; vm_compute; reflexivity.
Qed.

Lemma loop_unread f s ch rest acc s' e : lex_step s ch = Step s' e false -> lex_loop (S f) s (ch :: rest) acc = lex_loop f s' (ch :: rest) (acc ++ e).
Proof. intros H. cbn [lex_loop]. rewrite H. reflexivity. Qed.

Theorem int_literal_round_trip n : 0 <= n -> lex (int_str n) = LexOk [mk_tok (int_str n) 3 1 1].
Proof.
  intros Hn. destruct (Z.eq_dec n 0) as [->|N0]; [vm_compute; reflexivity|].
  assert (Hpos : 0 < n) by lia.
  assert (D : Forall is_digit (int_str n)).
  { unfold int_str. replace (n <? 0) with false by (symmetry; apply Z.ltb_ge; lia). apply digits_pos_digits; [lia|constructor]. }
  assert (Hd : exists d rest, int_str n = d :: rest /\ 49 <= d <= 57).
  { unfold int_str. replace (n <? 0) with false by (symmetry; apply Z.ltb_ge; lia). apply digits_pos_head.
    split; [exact Hpos|]. rewrite Nat2Z.inj_succ, Z2Nat.id by apply Z.log2_nonneg. apply Z.log2_spec. exact Hpos. }
  destruct Hd as [d [rest [E R]]]. unfold lex. rewrite E in *. inversion D as [|? ? _ Dr]; subst.
  change ((d :: rest) ++ [32]) with (d :: (rest ++ [32])).
  replace (lex_fuel (d :: rest)) with (S (length rest + S (S (S (2 * length rest + 3))))) by (unfold lex_fuel; cbn [length]; lia).
  destruct (start_digit d R) as [s0 [S0 I0]]. rewrite (loop_step _ _ _ _ _ _ _ S0).
  destruct (num_run rest [d] s0 [32] ([] ++ []) (S (S (S (2 * length rest + 3)))) Dr I0) as [s1 [R1 I1]]. rewrite R1.
  destruct (num_end ([d] ++ rest) s1 I1) as [s2 [s3 [S2 S3]]].
  rewrite (loop_unread _ _ _ _ _ _ _ S2). rewrite (loop_step _ _ _ _ _ _ _ S3).
  cbn [lex_loop app]. rewrite no_underscore by (constructor; [unfold is_digit; lia|exact Dr]). reflexivity.
Qed.
