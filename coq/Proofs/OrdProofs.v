(* C07: `<` is a strict total order on values of one kind. *)
From Coq Require Import ZArith List Bool Lia.
From Ckl Require Import Prelude.PyPrelude Model.Values Model.Containers Proofs.NumOrder Proofs.EqProofs.
Import ListNotations.
Open Scope Z_scope.

(* ------------------------------------------------------------ strings *)
Lemma str_ltb_irrefl s : str_ltb s s = false.
Proof. induction s as [|x s IH]; cbn; [reflexivity|]. rewrite Z.ltb_irrefl, Z.eqb_refl, IH. reflexivity. Qed.

Lemma str_ltb_trans s t u : str_ltb s t = true -> str_ltb t u = true -> str_ltb s u = true.
Proof.
  revert t u. induction s as [|x s IH]; intros [|y t] [|z u]; cbn; intros H1 H2; try discriminate; try reflexivity.
  apply orb_true_iff in H1, H2. apply orb_true_iff.
  destruct H1 as [H1|H1], H2 as [H2|H2].
  - left. apply Z.ltb_lt in H1, H2. apply Z.ltb_lt. lia.
  - apply andb_true_iff in H2. destruct H2 as [E _]. apply Z.eqb_eq in E. subst. left. exact H1.
  - apply andb_true_iff in H1. destruct H1 as [E _]. apply Z.eqb_eq in E. subst. left. exact H2.
  - apply andb_true_iff in H1, H2. destruct H1 as [E1 L1], H2 as [E2 L2]. apply Z.eqb_eq in E1, E2. subst.
    right. rewrite Z.eqb_refl. cbn. eapply IH; eassumption.
Qed.

Lemma str_trichotomy s t : str_ltb s t = false -> str_ltb t s = false -> s = t.
Proof.
  revert t. induction s as [|x s IH]; intros [|y t]; cbn; intros H1 H2; try discriminate; try reflexivity.
  apply orb_false_iff in H1, H2. destruct H1 as [A1 B1], H2 as [A2 B2].
  apply Z.ltb_ge in A1, A2. assert (x = y) by lia. subst. rewrite Z.eqb_refl in B1, B2. cbn in B1, B2.
  f_equal. apply IH; assumption.
Qed.

Lemma str_ltb_asym s t : str_ltb s t = true -> str_ltb t s = false.
Proof.
  intros H. destruct (str_ltb t s) eqn:E; [|reflexivity].
  pose proof (str_ltb_trans s t s H E) as X. rewrite str_ltb_irrefl in X. discriminate.
Qed.

(* a proper prefix sorts first; otherwise the first differing code point decides *)
Lemma str_ltb_prefix s t : t <> [] -> str_ltb s (s ++ t) = true.
Proof.
  intros Ht. induction s as [|x s IH]; cbn.
  - destruct t; [congruence|reflexivity].
  - rewrite Z.ltb_irrefl, Z.eqb_refl, IH. reflexivity.
Qed.
Lemma str_ltb_first_diff p x y s t : x < y -> str_ltb (p ++ x :: s) (p ++ y :: t) = true.
Proof.
  intros H. induction p as [|c p IH]; cbn.
  - apply Z.ltb_lt in H. rewrite H. reflexivity.
  - rewrite Z.ltb_irrefl, Z.eqb_refl, IH. reflexivity.
Qed.

(* ------------------------------------------------------------ unfolding of the list order *)
Fixpoint list_lt (l m : list dval) : option bool :=
  match l, m with
  | [], [] => Some false
  | [], _ :: _ => Some true
  | _ :: _, [] => Some false
  | x :: l', y :: m' => if veq x y then list_lt l' m' else vlt x y
  end.
Lemma vlt_list l m : vlt (DList l) (DList m) = list_lt l m.
Proof. cbn [vlt]. revert m. induction l as [|x l IH]; intros [|y m]; reflexivity. Qed.

(* ------------------------------------------------------------ numbers *)
Definition numv (a : dval) := match a with DInt _ | DDec _ => true | _ => false end.

Lemma vlt_num a b : numv a = true -> numv b = true ->
  vlt a b = match num_cmp a b with Some Lt => Some true | _ => Some false end.
Proof. destruct a; try discriminate; destruct b; try discriminate; intros _ _; cbn [vlt]; destruct (num_cmp _ _) as [[]|]; reflexivity. Qed.

Lemma veq_num' a b : numv a = true -> numv b = true -> veq a b = is_eq (num_cmp a b).
Proof. destruct a; try discriminate; destruct b; try discriminate; reflexivity. Qed.

Lemma vlt_num_other a c : numv a = true -> numv c = false -> vlt a c = None /\ vlt c a = None.
Proof. destruct a; try discriminate; destruct c; try discriminate; intros _ _; split; reflexivity. Qed.

(* ------------------------------------------------------------ the combined statement *)
Definition congrL_at (a : dval) := forall b c, veq a b = true -> vlt a c = vlt b c.
Definition congrR_at (a : dval) := forall b c, veq b c = true -> vlt a b = vlt a c.
Definition trans_at (a : dval) := forall b c, vlt a b = Some true -> vlt b c = Some true -> vlt a c = Some true.
Definition asym_at (a : dval) := forall b, vlt a b = Some true -> vlt b a = Some false /\ veq a b = false.
Definition tri_at (a : dval) := forall b, nan_free a = true -> nan_free b = true ->
  vlt a b = Some false -> vlt b a = Some false -> veq a b = true.
Definition all_at (a : dval) := congrL_at a /\ congrR_at a /\ trans_at a /\ asym_at a /\ tri_at a.

Lemma num_cmp_congr a b c : is_eq (num_cmp a b) = true -> num_cmp a c = num_cmp b c /\ num_cmp c a = num_cmp c b.
Proof.
  unfold num_cmp. destruct (rank a) as [x|], (rank b) as [y|]; cbn; try discriminate.
  destruct (exr_cmp x y) eqn:E; try discriminate. intros _.
  destruct (rank c) as [z|]; [|split; reflexivity].
  rewrite (exr_cmp_eq_l x y z E), (exr_cmp_eq_r z x y E). split; reflexivity.
Qed.

Lemma veq_numv a b : veq a b = true -> numv a = numv b.
Proof. destruct a, b; cbn; intros H; try discriminate; reflexivity. Qed.

Lemma numv_of_lt a b : numv a = true -> vlt a b = Some true -> numv b = true.
Proof. intros Na H. destruct (numv b) eqn:N; [reflexivity|]. destruct (vlt_num_other a b Na N) as [X _]. congruence. Qed.
Lemma numv_of_lt' a b x : numv a = true -> vlt a b = Some x -> numv b = true.
Proof. intros Na H. destruct (numv b) eqn:N; [reflexivity|]. destruct (vlt_num_other a b Na N) as [X _]. congruence. Qed.

Lemma scalar_num a : numv a = true -> all_at a.
Proof.
  intros Na. repeat split.
  - intros b c E. assert (Nb : numv b = true) by (rewrite <- (veq_numv a b E); exact Na).
    rewrite veq_num' in E by assumption. destruct (num_cmp_congr a b c E) as [C1 C2].
    destruct (numv c) eqn:Nc.
    + rewrite !vlt_num by assumption. rewrite C1. reflexivity.
    + destruct (vlt_num_other a c Na Nc) as [-> _]. destruct (vlt_num_other b c Nb Nc) as [-> _]. reflexivity.
  - intros b c E. pose proof (veq_numv b c E) as Nbc. destruct (numv b) eqn:Nb.
    + symmetry in Nbc. rewrite veq_num' in E by assumption. destruct (num_cmp_congr b c a E) as [_ C2].
      rewrite !vlt_num by assumption. rewrite C2. reflexivity.
    + symmetry in Nbc. destruct (vlt_num_other a b Na Nb) as [-> _]. destruct (vlt_num_other a c Na Nbc) as [-> _]. reflexivity.
  - intros b c H1 H2.
    assert (Nb : numv b = true) by (eapply numv_of_lt; eassumption).
    assert (Nc : numv c = true) by (eapply numv_of_lt; eassumption).
    rewrite vlt_num in * by assumption. unfold num_cmp in *.
    destruct (rank a) as [x|], (rank b) as [y|], (rank c) as [z|]; try discriminate.
    destruct (exr_cmp x y) eqn:E1; try discriminate. destruct (exr_cmp y z) eqn:E2; try discriminate.
    rewrite (exr_cmp_lt_trans x y z E1 E2). reflexivity.
  - assert (Nb : numv b = true) by (eapply numv_of_lt; eassumption).
    rewrite vlt_num in * by assumption. rewrite (num_cmp_antisym a b).
    destruct (num_cmp a b) as [[]|]; try discriminate. reflexivity.
  - assert (Nb : numv b = true) by (eapply numv_of_lt; eassumption).
    rewrite veq_num' by assumption. rewrite vlt_num in H by assumption.
    destruct (num_cmp a b) as [[]|]; try discriminate; reflexivity.
  - intros b NFa NFb H1 H2.
    assert (Nb : numv b = true) by (eapply numv_of_lt'; eassumption).
    rewrite veq_num' by assumption. rewrite vlt_num in * by assumption. rewrite (num_cmp_antisym a b) in H2.
    assert (exists x, rank a = Some x) as [x Hx].
    { destruct a; try discriminate; cbn; [eauto|]. apply nan_free_rank. exact NFa. }
    assert (exists y, rank b = Some y) as [y Hy].
    { destruct b; try discriminate; cbn; [eauto|]. apply nan_free_rank. exact NFb. }
    unfold num_cmp in *. rewrite Hx, Hy in *. cbn in *. destruct (exr_cmp x y); try discriminate; reflexivity.
Qed.

(* kinds whose order is never defined by the model (NULL, sets, maps) *)
Lemma never_at a : (forall c, vlt a c = None) -> (forall b, veq a b = true -> forall c, vlt b c = None) -> all_at a.
Proof.
  intros N1 N2. repeat split.
  - intros b c E. rewrite N1, (N2 b E). reflexivity.
  - intros b c _. rewrite !N1. reflexivity.
  - intros b c H. rewrite N1 in H. discriminate.
  - rewrite N1 in H. discriminate.
  - rewrite N1 in H. discriminate.
  - intros b _ _ H. rewrite N1 in H. discriminate.
Qed.

Lemma list_all (l : list dval) : (forall x, In x l -> all_at x) -> all_at (DList l).
Proof.
  intros IH. repeat split.
  - (* congruence, left *)
    intros b c E. destruct b as [| | | | | | | m | |]; try discriminate. rewrite veq_list in E.
    destruct c as [| | | | | | | n | |]; try reflexivity. rewrite !vlt_list.
    revert m n E. induction l as [|x l IHl]; intros [|y m] [|z n] E; cbn [list_eq list_lt] in *; try discriminate; try reflexivity.
    apply andb_true_iff in E. destruct E as [E1 E2].
    destruct (IH x (or_introl eq_refl)) as [CL _].
    rewrite (veq_congr x y E1 z), (CL y z E1).
    destruct (veq y z); [|reflexivity]. apply (IHl (fun w Hw => IH w (or_intror Hw))). exact E2.
  - (* congruence, right *)
    intros b c E. destruct b as [| | | | | | | m | |]; destruct c as [| | | | | | | n | |]; try discriminate; try reflexivity.
    rewrite veq_list in E. rewrite !vlt_list.
    revert m n E. induction l as [|x l IHl]; intros [|y m] [|z n] E; cbn [list_eq list_lt] in *; try discriminate; try reflexivity.
    apply andb_true_iff in E. destruct E as [E1 E2].
    destruct (IH x (or_introl eq_refl)) as [_ [CR _]].
    rewrite (veq_congr_r y z E1 x), (CR y z E1).
    destruct (veq x z); [|reflexivity]. apply (IHl (fun w Hw => IH w (or_intror Hw))). exact E2.
  - (* transitivity *)
    intros b c H1 H2. destruct b as [| | | | | | | m | |]; try discriminate. destruct c as [| | | | | | | n | |]; try discriminate.
    rewrite vlt_list in *.
    revert m n H1 H2. induction l as [|x l IHl]; intros [|y m] [|z n] H1 H2; cbn [list_lt] in *; try discriminate; try reflexivity.
    destruct (IH x (or_introl eq_refl)) as [CL [CR [Tx [Ax _]]]].
    destruct (veq x y) eqn:Exy; destruct (veq y z) eqn:Eyz.
    + rewrite (veq_trans x y z Exy Eyz). apply (IHl (fun w Hw => IH w (or_intror Hw)) m n H1 H2).
    + rewrite (veq_congr x y Exy z), Eyz, (CL y z Exy). exact H2.
    + rewrite <- (veq_congr_r y z Eyz x), Exy. rewrite <- (CR y z Eyz). exact H1.
    + pose proof (Tx y z H1 H2) as T. destruct (Ax z T) as [_ Exz]. rewrite Exz. exact T.
  - (* asymmetry *)
    destruct b as [| | | | | | | m | |]; try discriminate. rewrite vlt_list in *.
    revert m H. induction l as [|x l IHl]; intros [|y m] H; cbn [list_lt] in *; try discriminate; try reflexivity.
    destruct (IH x (or_introl eq_refl)) as [_ [_ [_ [Ax _]]]].
    rewrite (veq_sym y x). destruct (veq x y) eqn:Exy.
    + apply (IHl (fun w Hw => IH w (or_intror Hw)) m H).
    + apply (Ax y H).
  - destruct b as [| | | | | | | m | |]; try discriminate. rewrite vlt_list in H. rewrite veq_list.
    revert m H. induction l as [|x l IHl]; intros [|y m] H; cbn [list_lt list_eq] in *; try discriminate; try reflexivity.
    destruct (IH x (or_introl eq_refl)) as [_ [_ [_ [Ax _]]]].
    destruct (veq x y) eqn:Exy; [|reflexivity]. cbn [andb].
    apply (IHl (fun w Hw => IH w (or_intror Hw)) m H).
  - (* trichotomy *)
    intros b NFa NFb H1 H2. destruct b as [| | | | | | | m | |]; try discriminate. rewrite vlt_list in *. rewrite veq_list.
    cbn [nan_free] in NFa, NFb.
    revert m NFb H1 H2. induction l as [|x l IHl]; intros [|y m] NFb H1 H2; cbn [list_lt list_eq] in *; try discriminate; try reflexivity.
    cbn [forallb] in NFa, NFb. apply andb_true_iff in NFa, NFb. destruct NFa as [Nx Nl], NFb as [Ny Nm].
    destruct (IH x (or_introl eq_refl)) as [_ [_ [_ [_ Trx]]]].
    rewrite (veq_sym y x) in H2. destruct (veq x y) eqn:Exy.
    + cbn [andb]. apply (IHl (fun w Hw => IH w (or_intror Hw)) Nl m Nm H1 H2).
    + exfalso. rewrite (Trx y Nx Ny H1 H2) in Exy. discriminate.
Qed.

Theorem all_order : forall a, all_at a.
Proof.
  induction a as [| b0 | z | f | s | t | s | l IH | l IH | l IH] using dval_ind'.
  - apply never_at; [reflexivity|]. intros b E. destruct b; try discriminate. reflexivity.
  - (* booleans *)
    repeat split.
    + intros b c E. destruct b as [| b' | | | | | | | |]; try discriminate. cbn in E. apply eqb_prop in E. subst. reflexivity.
    + intros b c E. destruct b as [| b' | | | | | | | |]; destruct c as [| b'' | | | | | | | |]; try discriminate; try reflexivity.
      cbn in E. apply eqb_prop in E. subst. reflexivity.
    + intros b c H1 H2. destruct b as [| b' | | | | | | | |]; try discriminate. destruct c as [| b'' | | | | | | | |]; try discriminate.
      cbn in *. destruct b0, b', b''; try discriminate; reflexivity.
    + destruct b as [| b' | | | | | | | |]; try discriminate. cbn in *. destruct b0, b'; try discriminate; reflexivity.
    + destruct b as [| b' | | | | | | | |]; try discriminate. cbn in *. destruct b0, b'; try discriminate; reflexivity.
    + intros b _ _ H1 H2. destruct b as [| b' | | | | | | | |]; try discriminate. cbn in *. destruct b0, b'; try discriminate; reflexivity.
  - apply scalar_num. reflexivity.
  - apply scalar_num. reflexivity.
  - (* strings *)
    repeat split.
    + intros b c E. destruct b as [| | | | s' | | | | |]; try discriminate. cbn in E. apply str_eqb_eq in E. subst. reflexivity.
    + intros b c E. destruct b as [| | | | s' | | | | |]; destruct c as [| | | | s'' | | | | |]; try discriminate; try reflexivity.
      cbn in E. apply str_eqb_eq in E. subst. reflexivity.
    + intros b c H1 H2. destruct b as [| | | | s' | | | | |]; try discriminate. destruct c as [| | | | s'' | | | | |]; try discriminate.
      cbn in *. injection H1 as A. injection H2 as B. rewrite (str_ltb_trans _ _ _ A B). reflexivity.
    + destruct b as [| | | | s' | | | | |]; try discriminate. cbn in *. injection H as A. rewrite (str_ltb_asym _ _ A). reflexivity.
    + destruct b as [| | | | s' | | | | |]; try discriminate. cbn in *. injection H as A.
      destruct (str_eqb s s') eqn:E; [|reflexivity]. apply str_eqb_eq in E. subst. rewrite str_ltb_irrefl in A. discriminate.
    + intros b _ _ H1 H2. destruct b as [| | | | s' | | | | |]; try discriminate. cbn in *. injection H1 as A. injection H2 as B.
      apply str_eqb_eq. apply str_trichotomy; assumption.
  - (* dates *)
    repeat split.
    + intros b c E. destruct b as [| | | | | t' | | | |]; try discriminate. cbn in E. apply Z.eqb_eq in E. subst. reflexivity.
    + intros b c E. destruct b as [| | | | | t' | | | |]; destruct c as [| | | | | t'' | | | |]; try discriminate; try reflexivity.
      cbn in E. apply Z.eqb_eq in E. subst. reflexivity.
    + intros b c H1 H2. destruct b as [| | | | | t' | | | |]; try discriminate. destruct c as [| | | | | t'' | | | |]; try discriminate.
      cbn in *. inversion H1 as [A]. inversion H2 as [B]. rewrite A. f_equal. apply Z.ltb_lt in A, B. apply Z.ltb_lt. lia.
    + destruct b as [| | | | | t' | | | |]; try discriminate. cbn in *. inversion H as [A]. f_equal. apply Z.ltb_lt in A. apply Z.ltb_ge. lia.
    + destruct b as [| | | | | t' | | | |]; try discriminate. cbn in *. inversion H as [A]. apply Z.ltb_lt in A. apply Z.eqb_neq. lia.
    + intros b _ _ H1 H2. destruct b as [| | | | | t' | | | |]; try discriminate. cbn in *. inversion H1 as [A]. inversion H2 as [B].
      apply Z.ltb_ge in A, B. apply Z.eqb_eq. lia.
  - (* patterns *)
    repeat split.
    + intros b c E. destruct b as [| | | | | | s' | | |]; try discriminate. cbn in E. apply str_eqb_eq in E. subst. reflexivity.
    + intros b c E. destruct b as [| | | | | | s' | | |]; destruct c as [| | | | | | s'' | | |]; try discriminate; try reflexivity.
      cbn in E. apply str_eqb_eq in E. subst. reflexivity.
    + intros b c H1 H2. destruct b as [| | | | | | s' | | |]; try discriminate. destruct c as [| | | | | | s'' | | |]; try discriminate.
      cbn in *. injection H1 as A. injection H2 as B. rewrite (str_ltb_trans _ _ _ A B). reflexivity.
    + destruct b as [| | | | | | s' | | |]; try discriminate. cbn in *. injection H as A. rewrite (str_ltb_asym _ _ A). reflexivity.
    + destruct b as [| | | | | | s' | | |]; try discriminate. cbn in *. injection H as A.
      destruct (str_eqb s s') eqn:E; [|reflexivity]. apply str_eqb_eq in E. subst. rewrite str_ltb_irrefl in A. discriminate.
    + intros b _ _ H1 H2. destruct b as [| | | | | | s' | | |]; try discriminate. cbn in *. injection H1 as A. injection H2 as B.
      apply str_eqb_eq. apply str_trichotomy; assumption.
  - apply list_all. rewrite Forall_forall in IH. exact IH.
  - apply never_at; [reflexivity|]. intros b E. destruct b; try discriminate. reflexivity.
  - apply never_at; [reflexivity|]. intros b E. destruct b; try discriminate. reflexivity.
Qed.
