(* Finite, computed facts about the binary64 path of the generated date
   kernels: for the listed day numbers and every second of the day (or the
   stated stride) the float tail of to_oa_date followed by the floor / round
   prefix of to_date gives back exactly the day number and the millisecond
   count.  Bounds are in the statements; nothing is claimed beyond them. *)
From Coq Require Import String.
From Coq Require Import ZArith List Bool Lia.
From Coq Require Import PrimFloat.
From Ckl Require Import Prelude.PyPrelude Prelude.PyDatetime Gen.Date.
Import ListNotations.
Open Scope Z_scope.

Definition float_time_ok (D sec : Z) : bool :=
  let dt := mkdt 0 0 0 (sec / 3600) ((sec / 60) mod 60) (sec mod 60) 0 in
  let f := to_oa_date_tail dt D in
  match f_floor f with
  | Ok days =>
    match f_round (PrimFloat.mul (PrimFloat.sub f (Z2F days)) (Z2F MILLIS_PER_DAY)) with
    | Ok millis => (days =? D) && (millis =? sec * 1000)
    | _ => false
    end
  | _ => false
  end.

Fixpoint stride_nat (a step : Z) (n : nat) : list Z :=
  match n with O => [] | S k => a :: stride_nat (a + step) step k end.

(* day numbers: 1900-01-01, 1970-01-01, 2000-02-29, 2079-06-05/06 (2^16), 9999-12-31 *)
Definition all_seconds_days : list Z := [36585; 2958465].
Definition strided_days : list Z := [2; 25569; 65535; 65536; 2958464].

Lemma float_time_all_seconds :
  forallb (fun D => forallb (float_time_ok D) (zrange 0 86400)) all_seconds_days = true.
Proof. vm_compute. reflexivity. Qed.

Lemma float_time_strided :
  forallb (fun D => forallb (float_time_ok D) (stride_nat 0 13 6646)) strided_days = true.
Proof. vm_compute. reflexivity. Qed.
