(* C10 / C11: invariants of the session / module state machine, for every module graph, command and history. *)
From Coq Require Import ZArith List Bool Lia.
From Ckl Require Import Model.Session.
Import ListNotations.
Open Scope Z_scope.

(* ------------------------------------------------------------------ the load stack is restored, success or failure *)
(* an out-of-fuel run is not an outcome of the real loader (recursion is bounded by the cycle check): excluded by [no_fuel] *)

Definition no_fuel {A} (r : res A) : Prop := match r with RFuel => False | _ => True end.

Lemma run_body_stack_exact rq m stmts : (forall g k, no_fuel (snd (rq g k)) -> stack (fst (rq g k)) = stack g) ->
  forall g menv, no_fuel (snd (run_body rq m stmts g menv)) -> stack (fst (run_body rq m stmts g menv)) = stack g.
Proof.
  intros H. induction stmts as [|s r IH]; intros g menv; [reflexivity|].
  destruct s as [x v|f m2| | |f m2 x0]; cbn [run_body].
  - apply IH.
  - pose proof (H g m2) as K. destruct (rq g m2) as [g' [menv2|e|]]; cbn [fst snd] in *.
    + intros N. rewrite IH by exact N. apply K. exact I.
    + intros _. apply K. exact I.
    + intros [].
  - reflexivity.
  - intros N. rewrite IH by exact N. reflexivity.
  - pose proof (H g m2) as K. destruct (rq g m2) as [g' [menv2|e|]]; cbn [fst snd] in *.
    + intros N. rewrite IH by exact N. apply K. exact I.
    + destruct (e =? 7); [intros _; apply K; exact I|intros N; rewrite IH by exact N; apply K; exact I].
    + intros [].
Qed.

(* the statement used below: whenever require returns (a module or an error), the stack is exactly what it was *)
Theorem req_stack_restored fuel p g m : no_fuel (snd (req fuel p g m)) -> stack (fst (req fuel p g m)) = stack g.
Proof.
  revert g m. induction fuel as [|f IH]; intros g m; [intros []|]. cbn [req].
  destruct (memz m (stack g)); [reflexivity|].
  destruct (lookup m (cache g)); [reflexivity|].
  destruct (lookup m p) as [md|]; [|reflexivity].
  destruct (negb (m_parses md)); [reflexivity|].
  pose proof (run_body_stack_exact (req f p) m (m_body md) IH (with_stack (m :: stack g) g) []) as K.
  destruct (run_body (req f p) m (m_body md) (with_stack (m :: stack g) g) []) as [g2 [menv|e|]]; cbn [fst snd stack with_stack] in *.
  - intros _. rewrite K by exact I. reflexivity.
  - intros _. rewrite K by exact I. reflexivity.
  - intros [].
Qed.

(* ------------------------------------------------------------------ a module's top-level code runs to its end at most once *)
Definition dom {V} (l : list (Z * V)) : list Z := map fst l.

Lemma lookup_dom {V} k (l : list (Z * V)) : lookup k l = None <-> ~ In k (dom l).
Proof.
  induction l as [|[k' v] r IH]; cbn; [tauto|]. destruct (k =? k') eqn:E.
  - apply Z.eqb_eq in E. subst. split; [discriminate|intros H; exfalso; apply H; left; reflexivity].
  - apply Z.eqb_neq in E. rewrite IH. split; [intros H [A|A]; [congruence|tauto]|tauto].
Qed.

Lemma dom_put {V} k (v : V) l x : In x (dom (put k v l)) <-> x = k \/ In x (dom l).
Proof.
  induction l as [|[k' v'] r IH]; cbn; [intuition|]. destruct (k =? k') eqn:E.
  - apply Z.eqb_eq in E. subst. cbn. intuition.
  - cbn. rewrite IH. intuition.
Qed.

Lemma memz_in k l : memz k l = true <-> In k l.
Proof. unfold memz. rewrite existsb_exists. split; [intros [x [H E]]; apply Z.eqb_eq in E; subst; exact H|intros H; exists k; split; [exact H|apply Z.eqb_refl]]. Qed.

(* what is on the stack is not loaded underneath: its cache entry and completion record do not change *)
Definition frozen (x : Z) (g g' : gstate) : Prop :=
  (In x (dom (cache g')) -> In x (dom (cache g))) /\ (In x (done g') -> In x (done g)).

Lemma run_body_frozen rq m stmts x :
  (forall g k, In x (stack g) -> no_fuel (snd (rq g k)) -> frozen x g (fst (rq g k)) /\ stack (fst (rq g k)) = stack g) ->
  forall g menv, In x (stack g) -> no_fuel (snd (run_body rq m stmts g menv)) -> frozen x g (fst (run_body rq m stmts g menv)).
Proof.
  intros H. induction stmts as [|s r IH]; intros g menv Hx; [intros _; split; auto|].
  destruct s as [y v|f m2| | |f m2 x0]; cbn [run_body].
  - apply IH. exact Hx.
  - pose proof (H g m2 Hx) as K. destruct (rq g m2) as [g' [menv2|e|]]; cbn [fst snd] in *.
    + intros N. destruct (K I) as [[C D] S]. assert (Hx' : In x (stack g')) by (rewrite S; exact Hx).
      destruct (IH g' (bind f m2 menv2 menv) Hx' N) as [A B]. split; auto.
    + intros _. apply (K I).
    + intros [].
  - intros _. split; auto.
  - intros N. apply (IH (mk_g (cache g) (stack g) (log g ++ [m]) (done g) (cells g)) menv Hx N).
  - pose proof (H g m2 Hx) as K. destruct (rq g m2) as [g' [menv2|e|]]; cbn [fst snd] in *.
    + intros N. destruct (K I) as [[C D] S]. assert (Hx' : In x (stack g')) by (rewrite S; exact Hx).
      destruct (IH g' (put x0 (SInt 1) (bind f m2 menv2 menv)) Hx' N) as [A B]. split; auto.
    + destruct (e =? 7); [intros _; apply (K I)|].
      intros N. destruct (K I) as [[C D] S]. assert (Hx' : In x (stack g')) by (rewrite S; exact Hx).
      destruct (IH g' (put x0 (SInt 0) menv) Hx' N) as [A B]. split; auto.
    + intros [].
Qed.

Lemma req_frozen fuel p x : forall g m, In x (stack g) -> no_fuel (snd (req fuel p g m)) -> frozen x g (fst (req fuel p g m)).
Proof.
  induction fuel as [|f IH]; intros g m Hx; [intros []|]. cbn [req].
  destruct (memz m (stack g)) eqn:M; [intros _; split; auto|].
  destruct (lookup m (cache g)); [intros _; split; auto|].
  destruct (lookup m p) as [md|]; [|intros _; split; auto].
  destruct (negb (m_parses md)); [intros _; split; auto|].
  assert (Hm : x <> m). { intros ->. apply memz_in in Hx. congruence. }
  set (g1 := with_stack (m :: stack g) g).
  assert (Hx1 : In x (stack g1)) by (right; exact Hx).
  pose proof (run_body_frozen (req f p) m (m_body md) x
               (fun g0 k H0 N => conj (IH g0 k H0 N) (req_stack_restored f p g0 k N)) g1 [] Hx1) as RB.
  destruct (run_body (req f p) m (m_body md) g1 []) as [g2 [menv|e|]]; cbn [fst snd] in *.
  - intros _. destruct (RB I) as [A B]. split; cbn [cache done].
    + intros H. apply dom_put in H. destruct H as [H|H]; [congruence|]. apply A. exact H.
    + intros H. apply in_app_or in H. destruct H as [H|[H|[]]]; [apply B; exact H|congruence].
  - intros _. destruct (RB I) as [A B]. split; cbn [cache done with_stack]; auto.
  - intros [].
Qed.

(* the invariant: completed loads are exactly the cached modules, each recorded once *)
Definition once (g : gstate) : Prop := NoDup (done g) /\ (forall m, In m (done g) <-> In m (dom (cache g))).

Lemma run_body_once rq m stmts :
  (forall g k, once g -> no_fuel (snd (rq g k)) -> once (fst (rq g k))) ->
  forall g menv, once g -> no_fuel (snd (run_body rq m stmts g menv)) -> once (fst (run_body rq m stmts g menv)).
Proof.
  intros H. induction stmts as [|s r IH]; intros g menv O; [intros _; exact O|].
  destruct s as [y v|f m2| | |f m2 x0]; cbn [run_body].
  - apply IH. exact O.
  - pose proof (H g m2 O) as K. destruct (rq g m2) as [g' [menv2|e|]]; cbn [fst snd] in *.
    + intros N. apply IH; [apply K; exact I|exact N].
    + intros _. apply K. exact I.
    + intros [].
  - intros _. exact O.
  - intros N. apply (IH (mk_g (cache g) (stack g) (log g ++ [m]) (done g) (cells g)) menv); [exact O|exact N].
  - pose proof (H g m2 O) as K. destruct (rq g m2) as [g' [menv2|e|]]; cbn [fst snd] in *.
    + intros N. apply IH; [apply K; exact I|exact N].
    + destruct (e =? 7); [intros _; apply K; exact I|intros N; apply IH; [apply K; exact I|exact N]].
    + intros [].
Qed.

Theorem req_once fuel p : forall g m, once g -> no_fuel (snd (req fuel p g m)) -> once (fst (req fuel p g m)).
Proof.
  induction fuel as [|f IH]; intros g m O; [intros []|]. cbn [req].
  destruct (memz m (stack g)) eqn:M; [intros _; exact O|].
  destruct (lookup m (cache g)) eqn:L; [intros _; exact O|].
  destruct (lookup m p) as [md|]; [|intros _; exact O].
  destruct (negb (m_parses md)); [intros _; exact O|].
  set (g1 := with_stack (m :: stack g) g).
  assert (O1 : once g1) by exact O.
  pose proof (run_body_once (req f p) m (m_body md) IH g1 [] O1) as RB.
  pose proof (run_body_frozen (req f p) m (m_body md) m
               (fun g0 k H0 N => conj (req_frozen f p m g0 k H0 N) (req_stack_restored f p g0 k N)) g1 [] (or_introl eq_refl)) as FZ.
  destruct (run_body (req f p) m (m_body md) g1 []) as [g2 [menv|e|]]; cbn [fst snd] in *.
  - intros _. destruct (RB I) as [N E]. destruct (FZ I) as [A B].
    assert (Nm : ~ In m (done g2)). { intros H. apply B in H. cbn in H. apply (proj1 O) || idtac. destruct O as [_ O2]. apply O2 in H. apply lookup_dom in L. exact (L H). }
    split; cbn [cache done].
    + apply NoDup_app_intro || idtac.
      assert (ND : NoDup (done g2 ++ [m])).
      { clear - N Nm. induction (done g2) as [|a l IHl]; cbn; [constructor; [intros []|constructor]|].
        inversion N as [|? ? Na Nl]; subst. constructor.
        - intros H. apply in_app_or in H. destruct H as [H|[H|[]]]; [exact (Na H)|subst; apply Nm; left; reflexivity].
        - apply IHl; [exact Nl|intros H; apply Nm; right; exact H]. }
      exact ND.
    + intros k. rewrite dom_put, in_app_iff. cbn [In]. rewrite E. intuition.
  - intros _. exact (RB I).
  - intros [].
Qed.

(* ------------------------------------------------------------------ require binds exactly the requested names *)
Lemma lookup_put_same {V} k (v : V) l : lookup k (put k v l) = Some v.
Proof. induction l as [|[k' v'] r IH]; cbn; [rewrite Z.eqb_refl; reflexivity|]. destruct (k =? k') eqn:E; cbn; [rewrite Z.eqb_refl; reflexivity|rewrite E; exact IH]. Qed.
Lemma lookup_put_other {V} k k2 (v : V) l : k2 <> k -> lookup k2 (put k v l) = lookup k2 l.
Proof.
  intros N. induction l as [|[k' v'] r IH]; cbn.
  - destruct (k2 =? k) eqn:E; [apply Z.eqb_eq in E; congruence|reflexivity].
  - destruct (k =? k') eqn:E; cbn.
    + apply Z.eqb_eq in E. subst k'. destruct (k2 =? k) eqn:E2; [apply Z.eqb_eq in E2; congruence|reflexivity].
    + destruct (k2 =? k'); [reflexivity|exact IH].
Qed.

(* the names a require statement may bind in the requiring scope *)
Definition introduced (f : form) (m : Z) (menv : env) (n : Z) : Prop :=
  match f with
  | FUnqual => In n (dom menv) /\ private n = false
  | FImport l => exists a, lookup a l = Some n /\ In a (dom menv) /\ private a = false
  | FQual alias => n = match alias with Some a => a | None => modvar m end
  end.

Lemma bind_unqual_other menv : forall target n, ~ (In n (dom menv) /\ private n = false) -> lookup n (bind_unqual menv target) = lookup n target.
Proof.
  induction menv as [|[k v] r IH]; intros target n H; [reflexivity|]. cbn [bind_unqual]. rewrite IH.
  - destruct (private k) eqn:P; [reflexivity|]. apply lookup_put_other. intros ->. apply H. split; [left; reflexivity|exact P].
  - intros [A B]. apply H. split; [right; exact A|exact B].
Qed.
Lemma bind_import_other l menv : forall target n, ~ (exists a, lookup a l = Some n /\ In a (dom menv) /\ private a = false) ->
  lookup n (bind_import l menv target) = lookup n target.
Proof.
  induction menv as [|[k v] r IH]; intros target n H; [reflexivity|]. cbn [bind_import]. rewrite IH.
  - destruct (private k) eqn:P; [reflexivity|]. destruct (lookup k l) as [a|] eqn:L; [|reflexivity].
    apply lookup_put_other. intros ->. apply H. exists k. split; [exact L|split; [left; reflexivity|exact P]].
  - intros [a [A [B C]]]. apply H. exists a. split; [exact A|split; [right; exact B|exact C]].
Qed.

(* nothing but the requested names changes in the importer's scope; private names are never among them *)
Theorem bind_exact f m menv target n : ~ introduced f m menv n -> lookup n (bind f m menv target) = lookup n target.
Proof.
  destruct f as [alias|l|]; cbn [bind introduced]; intros H.
  - apply lookup_put_other. exact H.
  - apply bind_import_other. exact H.
  - apply bind_unqual_other. exact H.
Qed.

Theorem private_never_exported m menv target n : private n = true -> In n (dom menv) ->
  lookup n (bind FUnqual m menv target) = lookup n target /\ ~ In n (dom (exports_of menv)).
Proof.
  intros P _. split; [apply bind_exact; cbn; intros [_ Q]; congruence|].
  induction menv as [|[k [z|id ex]] r IH]; cbn; [tauto| |exact IH].
  destruct (private k) eqn:Pk; [exact IH|]. cbn. intros [H|H]; [congruence|exact (IH H)].
Qed.

(* a member of a module object is a public int definition of the module *)
Theorem exports_public menv n z : lookup n (exports_of menv) = Some z -> private n = false.
Proof.
  induction menv as [|[k [v|id ex]] r IH]; cbn; [discriminate| |exact IH].
  destruct (private k) eqn:P; [exact IH|]. cbn. destruct (n =? k) eqn:E; [apply Z.eqb_eq in E; subst; intros _; exact P|exact IH].
Qed.

(* ------------------------------------------------------------------ sessions *)
Definition clean (s : sstate) : Prop := stack (genv s) = [] /\ once (genv s).

Lemma clean_init : clean s_init.
Proof. split; [reflexivity|]. split; [constructor|]. intros m. cbn. tauto. Qed.

(* whatever a command does - succeed, fail in the middle, fail to parse, fail to load a module - the load stack is
   empty again afterwards and no module has run twice *)
Theorem cmd_clean p c s : clean s -> no_fuel (snd (run_cmd p c s)) -> clean (fst (run_cmd p c s)).
Proof.
  intros [S O]. destruct c; cbn [run_cmd]; try (intros _; split; assumption).
  - destruct (lookup x (senv s)); intros _; split; assumption.
  - destruct (lookup x (senv s)) as [[z|id ex]|]; intros _; split; assumption.
  - destruct (lookup x (senv s)) as [[z|id ex]|]; intros _; split; assumption.
  - pose proof (req_stack_restored FUEL p (genv s) m) as A. pose proof (req_once FUEL p (genv s) m O) as B.
    destruct (req FUEL p (genv s) m) as [g' [menv|k|]]; cbn [fst snd] in *; intros N.
    + split; cbn [genv fst]; [rewrite (A I); exact S|exact (B I)].
    + split; cbn [genv fst]; [rewrite (A I); exact S|exact (B I)].
    + destruct N.
  - destruct (lookup x (senv s)) as [[z|id ex]|]; intros _; split; first [assumption | exact O | exact S].
  - destruct (lookup x (senv s)) as [[z|id ex]|]; intros _; split; assumption.
  - destruct (lookup x (senv s)) as [[z|id ex]|]; [intros _; split; assumption| |intros _; split; assumption].
    destruct (lookup y ex); intros _; split; assumption.
Qed.

(* a failed command leaves every session definition in place; a failed require changes no binding at all *)
Definition writes (c : cmd) (x : Z) : Prop :=
  match c with
  | CDef y _ | CAssign y _ | CDefThenFail y _ | CLoopAbort y => x = y
  | _ => False
  end.

Theorem failed_cmd_keeps_definitions p c s k x :
  snd (run_cmd p c s) = RErr k -> ~ writes c x -> lookup x (senv (fst (run_cmd p c s))) = lookup x (senv s).
Proof.
  destruct c; cbn [run_cmd writes]; intros E W; try reflexivity; try discriminate.
  - destruct (lookup x0 (senv s)); cbn in *; [discriminate|reflexivity].
  - destruct (lookup x0 (senv s)) as [[z|id ex]|]; reflexivity.
  - cbn. apply lookup_put_other. exact W.
  - destruct (lookup x0 (senv s)) as [[z|id ex]|]; cbn; try reflexivity. apply lookup_put_other. exact W.
  - destruct (req FUEL p (genv s) m) as [g' [menv|e|]]; cbn in *; [discriminate|reflexivity|reflexivity].
  - destruct (lookup x0 (senv s)) as [[z|id ex]|]; reflexivity.
  - destruct (lookup x0 (senv s)) as [[z|id ex]|]; reflexivity.
  - destruct (lookup x0 (senv s)) as [[z|id ex]|]; try reflexivity. destruct (lookup y ex); reflexivity.
Qed.

(* a successful require changes only the names it introduces *)
Theorem require_binds_exactly p f m s x :
  (forall menv, ~ introduced f m menv x) -> lookup x (senv (fst (run_cmd p (CReq f m) s))) = lookup x (senv s).
Proof.
  intros H. cbn [run_cmd]. destruct (req FUEL p (genv s) m) as [g' [menv|e|]]; cbn; [|reflexivity|reflexivity].
  apply bind_exact. apply H.
Qed.

(* interpreter instances are separate: what one is told changes nothing in the other *)
Theorem instances_separate p cs : forall s0 s1, fst (fst (run_hist p (map (pair true) cs) s0 s1)) = s0.
Proof.
  induction cs as [|c cs IH]; intros s0 s1; [reflexivity|]. cbn [map run_hist].
  destruct (run_cmd p c s1) as [s1' o]. specialize (IH s0 s1'). destruct (run_hist p (map (pair true) cs) s0 s1') as [[a b] os]. exact IH.
Qed.

(* every state reached by a history is clean (unless the model ran out of fuel, which the correspondence never sees) *)
Fixpoint all_no_fuel (os : list (res Z)) : Prop := match os with [] => True | o :: r => no_fuel o /\ all_no_fuel r end.
Theorem history_clean p h : forall s0 s1, clean s0 -> clean s1 ->
  all_no_fuel (snd (run_hist p h s0 s1)) -> clean (fst (fst (run_hist p h s0 s1))) /\ clean (snd (fst (run_hist p h s0 s1))).
Proof.
  induction h as [|[[|] c] r IH]; intros s0 s1 C0 C1; [intros _; split; assumption| |]; cbn [run_hist].
  - pose proof (cmd_clean p c s1 C1) as K. destruct (run_cmd p c s1) as [s1' o]. cbn [fst snd] in K.
    specialize (IH s0 s1' C0). destruct (run_hist p r s0 s1') as [[a b] os]. cbn [fst snd] in *. intros [N1 N2]. apply IH; [apply K; exact N1|exact N2].
  - pose proof (cmd_clean p c s0 C0) as K. destruct (run_cmd p c s0) as [s0' o]. cbn [fst snd] in K.
    specialize (IH s0' s1). destruct (run_hist p r s0' s1) as [[a b] os]. cbn [fst snd] in *. intros [N1 N2]. apply IH; [apply K; exact N1|exact C1|exact N2].
Qed.
