(* C16: natives other than the documented mutators never change an existing heap cell. *)
From Coq Require Import String.
From Coq Require Import ZArith List Bool Lia.
From Ckl Require Import Prelude.PyPrelude Model.Values Model.Containers Model.Sorting Model.Arith Model.SeqModel Model.Coll Model.Eval.
Import ListNotations.
Open Scope Z_scope.

Definition ext (st st' : state) : Prop := exists extra, st' = st ++ extra.
Lemma ext_refl st : ext st st.
Proof. exists []. symmetry. apply app_nil_r. Qed.
Lemma ext_alloc st c : ext st (fst (alloc st c)).
Proof. exists [c]. reflexivity. Qed.
Lemma ext_rd st st' l : ext st st' -> (l < length st)%nat -> rd st' l = rd st l.
Proof. intros [extra ->] H. unfold rd. apply nth_error_app1. exact H. Qed.

Definition mutator (nm : string) : bool :=
  (nm =? "append")%string || (nm =? "put")%string || (nm =? "insert_at")%string || (nm =? "delete_at")%string ||
  (nm =? "remove")%string.

Lemma as_list_ext st v st' w : as_list st v = Some (st', w) -> ext st st'.
Proof.
  unfold as_list, alloc. intros H.
  repeat match type of H with
         | context [match ?x with _ => _ end] => destruct x
         | context [let '(a, b) := ?x in _] => destruct x
         end; try discriminate; inversion H; subst; try apply ext_refl; try (eexists; reflexivity).
Qed.

Ltac crunch :=
  repeat match goal with
         | |- ext ?s ?s => apply ext_refl
         | |- ext ?s (?s ++ [?c]) => exists [c]; reflexivity
         | |- ext _ (fst (let '(a, b) := ?x in _)) => destruct x
         | |- ext ?st (fst (match as_list ?st ?x with _ => _ end)) =>
           let E := fresh "E" in destruct (as_list st x) as [[? ?]|] eqn:E; [cbn [fst]; eapply as_list_ext; exact E | ]
         | |- ext _ (fst (match ?x with _ => _ end)) => destruct x
         | |- ext _ (fst (if ?x then _ else _)) => destruct x
         | |- ext _ (fst (_, _)) => cbn [fst]
         end.

Theorem native_frame name bs st :
  mutator (string_of_cps name) = false -> ext st (fst (native name bs st)).
Proof.
  unfold mutator. intros M. apply orb_false_iff in M. destruct M as [M Mr]. apply orb_false_iff in M. destruct M as [M Md].
  apply orb_false_iff in M. destruct M as [M Mi]. apply orb_false_iff in M. destruct M as [Ma Mp].
  unfold native. cbv zeta.
  destruct (aop_of (string_of_cps name)).
  - unfold alloc. crunch.
  - rewrite Ma, Mp, Mi, Md.
    repeat match goal with
           | |- ext _ (fst (if ?c then _ else _)) => destruct c
           end.
    all: unfold alloc; crunch.
Qed.


(* ---- the documented mutators change exactly the targeted cell ---- *)
Definition cps := cps_of_string.

Theorem append_effect st l vs x :
  rd st l = Some (CList vs) ->
  native (cps "append") [(cps "lst", VRef KList l); (cps "element", x)] st = (wr st l (CList (vs ++ [x])), OV (VRef KList l)).
Proof. intros H. unfold native, cps. vm_compute. vm_compute in H. rewrite H. reflexivity. Qed.

Theorem insert_at_effect st l vs i v :
  rd st l = Some (CList vs) ->
  native (cps "insert_at") [(cps "lst", VRef KList l); (cps "index", VInt i); (cps "value", v)] st =
  (wr st l (CList (insert_at vs i v)), OV (VRef KList l)).
Proof.
  intros H. unfold native, cps. cbv zeta.
  replace (aop_of (string_of_cps (cps_of_string "insert_at"))) with (@None Arith.aop) by (vm_compute; reflexivity).
  replace (string_of_cps (cps_of_string "insert_at")) with "insert_at"%string by (vm_compute; reflexivity).
  cbn [String.eqb Ascii.eqb Bool.eqb].
  replace (arg [(cps_of_string "lst", VRef KList l); (cps_of_string "index", VInt i); (cps_of_string "value", v)] "lst")
    with (Some (VRef KList l)) by (vm_compute; reflexivity).
  replace (arg [(cps_of_string "lst", VRef KList l); (cps_of_string "index", VInt i); (cps_of_string "value", v)] "index")
    with (Some (VInt i)) by (vm_compute; reflexivity).
  replace (arg [(cps_of_string "lst", VRef KList l); (cps_of_string "index", VInt i); (cps_of_string "value", v)] "value")
    with (Some v) by (vm_compute; reflexivity).
  rewrite H. reflexivity.
Qed.

(* a write changes exactly one cell: every other location keeps its content, so a mutation is visible
   through every holder of the reference and through nothing else *)
Theorem mutation_visible_through_every_alias st l c l' :
  (l < length st)%nat ->
  rd (wr st l c) l = Some c /\ (l' <> l -> rd (wr st l c) l' = rd st l').
Proof.
  intros H. split.
  - unfold rd, wr. clear l'. revert l H. induction st as [|h t IH]; intros [|n] H; cbn in *; try lia; [reflexivity|]. apply IH. lia.
  - intros N. unfold rd, wr. clear H. revert l l' N. induction st as [|h t IH]; intros [|n] [|m] N; cbn; try reflexivity; try lia.
    apply IH. lia.
Qed.
