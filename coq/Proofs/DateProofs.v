(* Lemmas about the generated date kernels (Gen/Date.v).  Every statement is
   about the definitions the translator produced from src/ckl/date.py on this
   run; nothing here restates the code. *)
From Coq Require Import String.
From Coq Require Import ZArith List Bool Lia ZifyBool.
From Coq Require Import PrimFloat.
From Ckl Require Import Prelude.PyPrelude Prelude.PyDatetime Gen.Date.
Import ListNotations.
Open Scope Z_scope.
Ltac Zify.zify_post_hook ::= Z.to_euclidean_division_equations.

(* ------------------------------------------------------------ calendar spec *)

(* number of leap years in [1, y-1], the textbook closed form *)
Definition leaps_before (y : Z) : Z := (y - 1) / 4 - (y - 1) / 100 + (y - 1) / 400.
(* days from 1900-01-01 to y-01-01 *)
Definition dby (y : Z) : Z := 365 * (y - 1900) + leaps_before y - leaps_before 1900.

Definition mdays (leap : bool) (m : Z) : Z :=
  if leap && (m =? 1) then 29 else nth (Z.to_nat m) DAYS_PER_MONTH 0.
(* days before month m (0-based) *)
Definition dbm (leap : bool) (m : Z) : Z :=
  fold_left (fun acc k => acc + mdays leap k) (zrange 0 m) 0.
Definition ydays (leap : bool) : Z := if leap then 366 else 365.

(* the integer day number of a calendar date, as a closed form *)
Definition daynum (y m d : Z) : Z := 1 + dby y + dbm (is_leap_year y) (m - 1) + d.

Lemma is_leap_gregorian y :
  is_leap_year y = true <-> (y mod 4 = 0 /\ (y mod 100 <> 0 \/ y mod 400 = 0)).
Proof. unfold is_leap_year. lia. Qed.

Lemma is_leap_cpy y : is_leap_year y = cpy_is_leap y.
Proof. reflexivity. Qed.

Lemma year_days_val y : year_days y = ydays (is_leap_year y).
Proof. reflexivity. Qed.

Lemma year_days_range y : 365 <= year_days y <= 366.
Proof. unfold year_days. destruct (is_leap_year y); lia. Qed.

Lemma dby_succ y : dby (y + 1) = dby y + year_days y.
Proof.
  unfold dby, leaps_before, year_days, is_leap_year.
  destruct ((y mod 4 =? 0) && (negb (y mod 100 =? 0) || (y mod 400 =? 0))) eqn:E; lia.
Qed.

Lemma dby_1900 : dby 1900 = 0.
Proof. reflexivity. Qed.

Lemma dby_mono a b : a <= b -> dby a <= dby b.
Proof. unfold dby, leaps_before. lia. Qed.

Lemma month_days_ok y m : 0 <= m < 12 -> month_days y m = Ok (mdays (is_leap_year y) m).
Proof.
  intros H. unfold month_days, mdays.
  assert (C : m = 0 \/ m = 1 \/ m = 2 \/ m = 3 \/ m = 4 \/ m = 5 \/ m = 6 \/ m = 7 \/
              m = 8 \/ m = 9 \/ m = 10 \/ m = 11) by lia.
  destruct (is_leap_year y);
  repeat (destruct C as [C | C]; [subst m; reflexivity |]); subst m; reflexivity.
Qed.

Lemma mdays_sum leap : dbm leap 12 = ydays leap.
Proof. destruct leap; reflexivity. Qed.

(* evaluate [mdays b k] / [dbm b k] on closed arguments *)
Ltac is_znum v := lazymatch v with Z0 => idtac | Zpos _ => idtac | Zneg _ => idtac end.
Ltac calc_tables :=
  repeat match goal with
  | |- context [mdays ?l ?m] =>
      let v := eval vm_compute in (mdays l m) in is_znum v; change (mdays l m) with v
  | |- context [dbm ?l ?m] =>
      let v := eval vm_compute in (dbm l m) in is_znum v; change (dbm l m) with v
  | H : context [mdays ?l ?m] |- _ =>
      let v := eval vm_compute in (mdays l m) in is_znum v; change (mdays l m) with v in H
  | H : context [dbm ?l ?m] |- _ =>
      let v := eval vm_compute in (dbm l m) in is_znum v; change (dbm l m) with v in H
  end.
Ltac month_cases m C :=
  repeat (destruct C as [C | C]; [subst m; calc_tables; lia |]); subst m; calc_tables; lia.

(* ------------------------------------------------------------ to_oa_date *)

Lemma fold_years n : forall a acc,
  fold_left (fun result y => result + year_days y) (zrange_nat a n) acc
  = acc + dby (a + Z.of_nat n) - dby a.
Proof.
  induction n as [|n IH]; intros a acc.
  - cbn [zrange_nat fold_left]. replace (a + Z.of_nat 0) with a by lia. lia.
  - cbn [zrange_nat fold_left]. rewrite IH. rewrite dby_succ.
    replace (a + 1 + Z.of_nat n) with (a + Z.of_nat (S n)) by lia. lia.
Qed.

Lemma fold_years_range y acc : 1900 <= y ->
  fold_left (fun result y => result + year_days y) (zrange 1900 y) acc = acc + dby y.
Proof.
  intros H. unfold zrange. rewrite fold_years.
  replace (1900 + Z.of_nat (Z.to_nat (y - 1900))) with y by lia. rewrite dby_1900. lia.
Qed.

Lemma fold_mdays_shift leap : forall xs acc,
  fold_left (fun a k => a + mdays leap k) xs acc = acc + fold_left (fun a k => a + mdays leap k) xs 0.
Proof.
  induction xs as [|x xs IH]; intros acc; cbn [fold_left]; [lia|].
  rewrite IH. rewrite (IH (0 + mdays leap x)). lia.
Qed.

Lemma for_months_gen y : forall xs acc, (forall m, In m xs -> 0 <= m < 12) ->
  for_res xs
    (fun m0 result => (month_days y m0 >>= fun t_2 => Ok (result + t_2)) >>= fun result => Ok result) acc
  = Ok (fold_left (fun a k => a + mdays (is_leap_year y) k) xs acc).
Proof.
  induction xs as [|x xs IH]; intros acc H; cbn [for_res fold_left]; [reflexivity|].
  rewrite month_days_ok by (apply H; left; reflexivity). cbn [bind].
  apply IH. intros m Hm. apply H. right. exact Hm.
Qed.

Lemma in_zrange_nat n : forall a x, a <= x < a + Z.of_nat n <-> In x (zrange_nat a n).
Proof.
  induction n as [|n IH]; intros a x; cbn [zrange_nat In]; [lia|].
  rewrite <- IH. lia.
Qed.

Lemma in_zrange a b x : a <= x < b <-> In x (zrange a b).
Proof. unfold zrange. rewrite <- in_zrange_nat. lia. Qed.

Lemma for_months y : forall m acc, 0 <= m <= 12 ->
  for_res (zrange 0 m)
    (fun m0 result => (month_days y m0 >>= fun t_2 => Ok (result + t_2)) >>= fun result => Ok result) acc
  = Ok (acc + dbm (is_leap_year y) m).
Proof.
  intros m acc H. rewrite for_months_gen.
  - unfold dbm. rewrite fold_mdays_shift. reflexivity.
  - intros k Hk. rewrite <- in_zrange in Hk. lia.
Qed.

Lemma to_oa_date_days_val y m d h mi s us :
  1900 <= y -> 1 <= m <= 12 ->
  to_oa_date_days (mkdt y m d h mi s us) = Ok (daynum y m d).
Proof.
  intros Hy Hm. unfold to_oa_date_days, daynum. cbn [datetime_year datetime_month datetime_day].
  cbv zeta. rewrite fold_years_range by lia.
  rewrite for_months by lia. cbn [bind]. f_equal; lia.
Qed.

(* the generated function is its whole-day prefix followed by its float tail *)
Lemma to_oa_date_split dt :
  to_oa_date dt = to_oa_date_days dt >>= fun r => Ok (to_oa_date_tail dt r).
Proof.
  unfold to_oa_date, to_oa_date_days, to_oa_date_tail.
  destruct (for_res _ _ _); reflexivity.
Qed.

(* ------------------------------------------------------------ to_date: year loop *)

Definition ycond : Z * Z -> bool := fun '(value, year) => value >=? year_days year.
Definition ybody : Z * Z -> Z * Z :=
  fun '(value, year) => let value := value - year_days year in let year := year + 1 in (value, year).

Lemma year_loop (n : nat) : forall y r extra,
  0 <= r < year_days (y + Z.of_nat n) ->
  while_pure (S n + extra) ycond ybody (dby (y + Z.of_nat n) - dby y + r, y) = Ok (r, y + Z.of_nat n).
Proof.
  induction n as [|n IH]; intros y r extra Hr.
  - cbn [while_pure Nat.add ycond]. replace (y + Z.of_nat 0) with y in * by lia.
    replace (dby y - dby y + r) with r by lia.
    destruct (r >=? year_days y) eqn:E; [lia | reflexivity].
  - cbn [while_pure Nat.add ycond].
    assert (Hm : dby (y + 1) <= dby (y + Z.of_nat (S n))) by (apply dby_mono; lia).
    rewrite dby_succ in Hm.
    destruct (dby (y + Z.of_nat (S n)) - dby y + r >=? year_days y) eqn:E; [|lia].
    cbn [ybody].
    replace (y + Z.of_nat (S n)) with (y + 1 + Z.of_nat n) in * by lia.
    specialize (IH (y + 1) r extra Hr).
    rewrite dby_succ in IH.
    replace (dby (y + 1 + Z.of_nat n) - dby y + r - year_days y)
      with (dby (y + 1 + Z.of_nat n) - (dby y + year_days y) + r) by lia.
    exact IH.
Qed.

(* existence direction: the loop always stops on a (year, offset) pair *)
Lemma year_loop_inv (fuel : nat) : forall v y,
  0 <= v < 365 * Z.of_nat fuel ->
  exists r k, while_pure fuel ycond ybody (v, y) = Ok (r, y + Z.of_nat k)
              /\ 0 <= r < year_days (y + Z.of_nat k)
              /\ v = dby (y + Z.of_nat k) - dby y + r /\ (k < fuel)%nat.
Proof.
  induction fuel as [|f IH]; intros v y Hv; [lia|].
  cbn [while_pure ycond].
  pose proof (year_days_range y) as Hy.
  destruct (v >=? year_days y) eqn:E.
  - cbn [ybody].
    destruct (IH (v - year_days y) (y + 1)) as (r & k & Hw & Hr & Hv' & Hk); [lia|].
    exists r, (S k). rewrite Hw.
    replace (y + Z.of_nat (S k)) with (y + 1 + Z.of_nat k) by lia.
    repeat split; try lia. rewrite dby_succ in Hv'. lia.
  - exists v, 0%nat. replace (y + Z.of_nat 0) with y by lia. repeat split; lia.
Qed.

(* ------------------------------------------------------------ to_date: month loop *)

Definition mcond (year : Z) : Z * Z -> res bool :=
  fun '(value, month) => month_days year month >>= fun t_1 => Ok (value >=? t_1).
Definition mbody (year : Z) : Z * Z -> res (Z * Z) :=
  fun '(value, month) => (month_days year month >>= fun t_2 => Ok (value - t_2)) >>= fun value =>
    Ok (let month := month + 1 in (value, month)).

(* The month loop depends on the year only through its leap flag; the loop over
   one year is a finite object (2 x 366 start values), checked by computation. *)
Definition mcond' (leap : bool) : Z * Z -> res bool :=
  fun '(value, month) =>
    (if leap && (month =? 1) then Ok 29 else py_getitem DAYS_PER_MONTH month) >>= fun t_1 => Ok (value >=? t_1).
Definition mbody' (leap : bool) : Z * Z -> res (Z * Z) :=
  fun '(value, month) =>
    ((if leap && (month =? 1) then Ok 29 else py_getitem DAYS_PER_MONTH month) >>= fun t_2 => Ok (value - t_2))
      >>= fun value => Ok (let month := month + 1 in (value, month)).

Lemma mloop_leap fuel y : forall s,
  while_res fuel (mcond y) (mbody y) s = while_res fuel (mcond' (is_leap_year y)) (mbody' (is_leap_year y)) s.
Proof. intros s. reflexivity. Qed.

Definition month_table_ok (leap : bool) : bool :=
  forallb (fun m =>
    forallb (fun r =>
      match while_res 13 (mcond' leap) (mbody' leap) (dbm leap m + r, 0) with
      | Ok (r', m') => (r' =? r) && (m' =? m)
      | _ => false
      end) (zrange 0 (mdays leap m))) (zrange 0 12).

Lemma month_table leap : month_table_ok leap = true.
Proof. destruct leap; vm_compute; reflexivity. Qed.

Lemma month_loop y m r : 0 <= m < 12 -> 0 <= r < mdays (is_leap_year y) m ->
  while_res 13 (mcond y) (mbody y) (dbm (is_leap_year y) m + r, 0) = Ok (r, m).
Proof.
  intros Hm Hr. rewrite mloop_leap.
  pose proof (month_table (is_leap_year y)) as T. unfold month_table_ok in T.
  rewrite forallb_forall in T.
  assert (Im : In m (zrange 0 12)) by (apply in_zrange; lia).
  specialize (T m Im). rewrite forallb_forall in T.
  assert (Ir : In r (zrange 0 (mdays (is_leap_year y) m))) by (apply in_zrange; lia).
  specialize (T r Ir).
  destruct (while_res 13 (mcond' (is_leap_year y)) (mbody' (is_leap_year y)) (dbm (is_leap_year y) m + r, 0))
    as [[r' m'] | | |]; try discriminate.
  f_equal. f_equal; lia.
Qed.

(* every offset inside a year is (month, day) for exactly one month *)
Definition month_cover_ok (leap : bool) : bool :=
  forallb (fun v =>
    existsb (fun m => (dbm leap m <=? v) && (v <? dbm leap m + mdays leap m)) (zrange 0 12))
    (zrange 0 (ydays leap)).
Lemma month_cover leap : month_cover_ok leap = true.
Proof. destruct leap; vm_compute; reflexivity. Qed.

Lemma month_of_offset leap v : 0 <= v < ydays leap ->
  exists m, 0 <= m < 12 /\ dbm leap m <= v < dbm leap m + mdays leap m.
Proof.
  intros Hv. pose proof (month_cover leap) as C. unfold month_cover_ok in C.
  rewrite forallb_forall in C. specialize (C v). rewrite <- in_zrange in C.
  specialize (C ltac:(lia)). rewrite existsb_exists in C. destruct C as (m & Im & Hm).
  rewrite <- in_zrange in Im. exists m. lia.
Qed.

(* ------------------------------------------------------------ time split *)

Lemma time_split ms : 0 <= ms < 86400000 ->
  let hours := ms / 3600000 in
  let ms1 := ms - hours * 3600000 in
  let minutes := ms1 / 60000 in
  let ms2 := ms1 - minutes * 60000 in
  let seconds := ms2 / 1000 in
  let ms3 := ms2 - seconds * 1000 in
  valid_time hours minutes seconds (ms3 * 1000) = true /\
  ((hours * 60 + minutes) * 60 + seconds) * 1000 + ms3 = ms.
Proof. intros H. cbv zeta. unfold valid_time. lia. Qed.

(* ------------------------------------------------------------ to_date_core *)

Definition time_of_millis (ms : Z) : Z * Z * Z * Z :=
  let hours := ms / 3600000 in
  let ms1 := ms - hours * 3600000 in
  let minutes := ms1 / 60000 in
  let ms2 := ms1 - minutes * 60000 in
  let seconds := ms2 / 1000 in
  let ms3 := ms2 - seconds * 1000 in
  (hours, minutes, seconds, ms3 * 1000).

Definition enough_fuel (fuel : nat) (y : Z) : Prop := (Z.to_nat (y - 1900) + 13 <= fuel)%nat.

Lemma while_pure_more {S} (cond : S -> bool) (body : S -> S) : forall f s r extra,
  while_pure f cond body s = Ok r -> while_pure (f + extra) cond body s = Ok r.
Proof.
  induction f as [|f IH]; intros s r extra H; [discriminate|].
  cbn [while_pure Nat.add] in *. destruct (cond s); [apply IH; exact H | exact H].
Qed.

Lemma while_res_more {S} (cond : S -> res bool) (body : S -> res S) : forall f s r extra,
  while_res f cond body s = Ok r -> while_res (f + extra) cond body s = Ok r.
Proof.
  induction f as [|f IH]; intros s r extra H; [discriminate|].
  cbn [while_res Nat.add] in *. destruct (cond s) as [c| | |]; cbn [bind] in *; try discriminate.
  destruct c; [|exact H].
  destruct (body s) as [s'| | |]; cbn [bind] in *; try discriminate. apply IH; exact H.
Qed.

Ltac calc_eqb :=
  repeat match goal with
  | |- context [?a =? ?b] => is_znum a; is_znum b;
      let v := eval vm_compute in (a =? b) in change (a =? b) with v
  | H : context [?a =? ?b] |- _ => is_znum a; is_znum b;
      let v := eval vm_compute in (a =? b) in change (a =? b) with v in H
  end; cbv iota beta in *; cbn [orb andb] in *.
Ltac month_cases' m C :=
  repeat (destruct C as [C | C]; [subst m; calc_tables; calc_eqb; lia |]); subst m; calc_tables; calc_eqb; lia.

Lemma valid_date_iff y m d : 1 <= y <= 9999 ->
  valid_date y m d = true <-> (1 <= m <= 12 /\ 0 <= d - 1 < mdays (is_leap_year y) (m - 1)).
Proof.
  intros Hy. unfold valid_date, cpy_days_in_month. rewrite <- is_leap_cpy.
  destruct (Z_le_dec 1 m) as [H1|H1]; [|lia].
  destruct (Z_le_dec m 12) as [H2|H2]; [|lia].
  assert (C : m = 1 \/ m = 2 \/ m = 3 \/ m = 4 \/ m = 5 \/ m = 6 \/ m = 7 \/
              m = 8 \/ m = 9 \/ m = 10 \/ m = 11 \/ m = 12) by lia.
  destruct (is_leap_year y); month_cases' m C.
Qed.

Lemma offset_in_year y m d : 0 <= m < 12 -> 0 <= d < mdays (is_leap_year y) m ->
  0 <= dbm (is_leap_year y) m + d < year_days y.
Proof.
  intros Hm Hd. rewrite year_days_val. unfold ydays.
  assert (C : m = 0 \/ m = 1 \/ m = 2 \/ m = 3 \/ m = 4 \/ m = 5 \/ m = 6 \/ m = 7 \/
              m = 8 \/ m = 9 \/ m = 10 \/ m = 11) by lia.
  destruct (is_leap_year y); month_cases m C.
Qed.

(* core: a day offset and a millisecond count give exactly that date and time *)
Lemma to_date_core_val fuel y m d ms :
  1900 <= y <= 9999 -> 0 <= m < 12 -> 0 <= d < mdays (is_leap_year y) m ->
  0 <= ms < 86400000 -> enough_fuel fuel y ->
  to_date_core fuel (2 + dby y + dbm (is_leap_year y) m + d) ms =
  let '(h, mi, s, us) := time_of_millis ms in Ok (mkdt y (m + 1) (d + 1) h mi s us).
Proof.
  intros Hy Hm Hd Hms Hf. unfold to_date_core, enough_fuel in *.
  unfold MILLIS_PER_DAY, DAYS_1900, DAYS_MAX.
  destruct (ms >=? 24 * 60 * 60 * 1000) eqn:E; [lia|]. clear E.
  set (n := Z.to_nat (y - 1900)).
  pose proof (offset_in_year y m d Hm Hd) as Hmd.
  pose proof (dby_mono 1900 y ltac:(lia)) as M1. rewrite dby_1900 in M1.
  pose proof (dby_mono (y + 1) 10000 ltac:(lia)) as M2. rewrite dby_succ in M2.
  assert (D10k : dby 10000 = 2958464) by reflexivity.
  destruct ((2 + dby y + dbm (is_leap_year y) m + d <? 2)
            || (2 + dby y + dbm (is_leap_year y) m + d >? 2958465)) eqn:E; [lia|]. clear E.
  pose proof (year_loop n 1900 (dbm (is_leap_year y) m + d) (fuel - S n)) as YL.
  replace (1900 + Z.of_nat n) with y in YL by lia.
  rewrite dby_1900 in YL. specialize (YL Hmd).
  replace (S n + (fuel - S n))%nat with fuel in YL by lia.
  replace (2 + dby y + dbm (is_leap_year y) m + d - 2)
    with (dby y - 0 + (dbm (is_leap_year y) m + d)) by lia.
  fold ycond. fold ybody. rewrite YL. cbn [bind].
  fold (mcond y). fold (mbody y).
  pose proof (month_loop y m d Hm Hd) as ML.
  apply while_res_more with (extra := (fuel - 13)%nat) in ML.
  replace (13 + (fuel - 13))%nat with fuel in ML by lia.
  rewrite ML. cbn [bind].
  pose proof (time_split ms Hms) as TS. cbv zeta in TS. destruct TS as [TV _].
  unfold time_of_millis, mk_datetime.
  assert (VD : valid_date y (m + 1) (d + 1) = true).
  { apply valid_date_iff; [lia|]. replace (m + 1 - 1) with m by lia. lia. }
  cbv zeta. rewrite VD. rewrite TV. reflexivity.
Qed.

(* ------------------------------------------------------------ main lemmas *)

Lemma to_date_z_core fuel n : to_date_z fuel n = to_date_core fuel n 0.
Proof. unfold to_date_z, to_date_core. rewrite Z.sub_diag. reflexivity. Qed.

(* the float instance is floor / round followed by the integer core *)
Lemma to_date_float_core fuel f :
  to_date fuel f =
  f_floor f >>= fun days =>
  f_round (PrimFloat.mul (PrimFloat.sub f (Z2F days)) (Z2F MILLIS_PER_DAY)) >>= fun millis =>
  to_date_core fuel days millis.
Proof. reflexivity. Qed.

Lemma to_date_core_carry fuel n : to_date_core fuel n 86400000 = to_date_core fuel (n + 1) 0.
Proof. reflexivity. Qed.

Lemma daynum_alt y m d : daynum y m d = 2 + dby y + dbm (is_leap_year y) (m - 1) + (d - 1).
Proof. unfold daynum. lia. Qed.

Lemma roundtrip_days fuel y m d :
  1900 <= y -> valid_date y m d = true -> enough_fuel fuel y ->
  to_date_z fuel (daynum y m d) = Ok (mkdt y m d 0 0 0 0).
Proof.
  intros Hy V Hf. assert (Hy' : 1 <= y <= 9999) by (unfold valid_date in V; lia).
  apply valid_date_iff in V; [|exact Hy'].
  rewrite to_date_z_core, daynum_alt.
  rewrite to_date_core_val by first [lia | exact Hf].
  cbn. replace (m - 1 + 1) with m by lia. replace (d - 1 + 1) with d by lia. reflexivity.
Qed.

Definition next_day (y m d : Z) : Z * Z * Z :=
  if d <? mdays (is_leap_year y) (m - 1) then (y, m, d + 1)
  else if m <? 12 then (y, m + 1, 1) else (y + 1, 1, 1).

Lemma dbm_succ leap m : 0 <= m < 12 -> dbm leap (m + 1) = dbm leap m + mdays leap m.
Proof.
  intros Hm.
  assert (C : m = 0 \/ m = 1 \/ m = 2 \/ m = 3 \/ m = 4 \/ m = 5 \/ m = 6 \/ m = 7 \/
              m = 8 \/ m = 9 \/ m = 10 \/ m = 11) by lia.
  destruct leap; month_cases m C.
Qed.

Lemma daynum_next y m d : 1 <= y <= 9999 -> valid_date y m d = true ->
  let '(y', m', d') := next_day y m d in daynum y' m' d' = daynum y m d + 1.
Proof.
  intros Hy V. apply valid_date_iff in V; [|exact Hy]. destruct V as [Hm Hd].
  unfold next_day.
  destruct (d <? mdays (is_leap_year y) (m - 1)) eqn:E1.
  - unfold daynum. lia.
  - destruct (m <? 12) eqn:E2.
    + unfold daynum. replace (m + 1 - 1) with (m - 1 + 1) by lia. rewrite dbm_succ by lia. lia.
    + unfold daynum. assert (m = 12) by lia. subst m.
      rewrite dby_succ. rewrite year_days_val.
      change (1 - 1) with 0. change (12 - 1) with 11 in *.
      change (dbm (is_leap_year (y + 1)) 0) with 0.
      assert (T : dbm (is_leap_year y) 11 + mdays (is_leap_year y) 11 = ydays (is_leap_year y))
        by (destruct (is_leap_year y); reflexivity).
      lia.
Qed.

Lemma next_day_valid y m d : 1 <= y < 9999 -> valid_date y m d = true ->
  let '(y', m', d') := next_day y m d in valid_date y' m' d' = true.
Proof.
  intros Hy V. pose proof V as V0. apply valid_date_iff in V; [|lia]. destruct V as [Hm Hd].
  unfold next_day.
  destruct (d <? mdays (is_leap_year y) (m - 1)) eqn:E1.
  - apply valid_date_iff; lia.
  - destruct (m <? 12) eqn:E2.
    + apply valid_date_iff; [lia|]. split; [lia|]. replace (m + 1 - 1) with m by lia.
      assert (C : m = 1 \/ m = 2 \/ m = 3 \/ m = 4 \/ m = 5 \/ m = 6 \/ m = 7 \/
                  m = 8 \/ m = 9 \/ m = 10 \/ m = 11) by lia. clear - C.
      destruct (is_leap_year y); month_cases m C.
    + apply valid_date_iff; [lia|]. change (1 - 1) with 0. split; [lia|].
      destruct (is_leap_year (y + 1)); calc_tables; lia.
Qed.

(* every day number from 1900-01-01 (2) to 9999-12-31 is the number of exactly one valid date *)
Lemma inverse_days fuel n :
  2 <= n < 2 + dby 10000 -> (Z.to_nat n + 13 <= fuel)%nat ->
  exists y m d, 1900 <= y /\ valid_date y m d = true /\ daynum y m d = n /\
                to_date_z fuel n = Ok (mkdt y m d 0 0 0 0).
Proof.
  intros Hn Hf.
  destruct (year_loop_inv (Z.to_nat n) (n - 2) 1900) as (r & k & _ & Hr & Hv & Hk); [lia|].
  set (y := 1900 + Z.of_nat k) in *. rewrite dby_1900 in Hv.
  assert (Hy : y < 10000).
  { destruct (Z_lt_dec y 10000); [assumption|]. pose proof (dby_mono 10000 y ltac:(lia)). lia. }
  rewrite year_days_val in Hr.
  destruct (month_of_offset (is_leap_year y) r Hr) as (m & Hm & Hrm).
  exists y, (m + 1), (r - dbm (is_leap_year y) m + 1).
  assert (V : valid_date y (m + 1) (r - dbm (is_leap_year y) m + 1) = true).
  { apply valid_date_iff; [lia|]. replace (m + 1 - 1) with m by lia. lia. }
  assert (D : daynum y (m + 1) (r - dbm (is_leap_year y) m + 1) = n).
  { unfold daynum. replace (m + 1 - 1) with m by lia. lia. }
  repeat split; try assumption; try lia.
  rewrite <- D at 1. apply roundtrip_days; [lia | exact V |].
  unfold enough_fuel. lia.
Qed.

Lemma daynum_inj fuel y1 m1 d1 y2 m2 d2 :
  1900 <= y1 -> 1900 <= y2 -> valid_date y1 m1 d1 = true -> valid_date y2 m2 d2 = true ->
  enough_fuel fuel y1 -> enough_fuel fuel y2 ->
  daynum y1 m1 d1 = daynum y2 m2 d2 -> (y1, m1, d1) = (y2, m2, d2).
Proof.
  intros H1 H2 V1 V2 F1 F2 E.
  pose proof (roundtrip_days fuel y1 m1 d1 H1 V1 F1) as R1.
  pose proof (roundtrip_days fuel y2 m2 d2 H2 V2 F2) as R2.
  rewrite E in R1. rewrite R1 in R2. inversion R2. reflexivity.
Qed.

Lemma daynum_range y m d : 1900 <= y -> valid_date y m d = true -> 2 <= daynum y m d < 2 + dby 10000.
Proof.
  intros Hy V. assert (Hy' : 1 <= y <= 9999) by (unfold valid_date in V; lia).
  apply valid_date_iff in V; [|exact Hy']. destruct V as [Hm Hd].
  pose proof (offset_in_year y (m - 1) (d - 1) ltac:(lia) Hd) as O.
  pose proof (dby_mono 1900 y ltac:(lia)) as M1. rewrite dby_1900 in M1.
  pose proof (dby_mono (y + 1) 10000 ltac:(lia)) as M2. rewrite dby_succ in M2.
  unfold daynum. lia.
Qed.

(* outside the supported range the conversion fails at once, for any fuel *)
Lemma to_date_out_of_range fuel n : n < 2 \/ 2958465 < n -> to_date_z fuel n = Host ValueError.
Proof.
  intros H. unfold to_date_z. rewrite Z.sub_diag.
  unfold MILLIS_PER_DAY, DAYS_1900, DAYS_MAX.
  change (0 * (24 * 60 * 60 * 1000) >=? 24 * 60 * 60 * 1000) with false. cbv iota.
  destruct ((n <? 2) || (n >? 2958465)) eqn:E; [reflexivity | lia].
Qed.
