From Coq Require Import List Bool Permutation Sorting.Sorted Lia.
From Ckl Require Import Model.Sorting.
Import ListNotations.

Section S.
Context {A : Type}.
Variable lt : A -> A -> bool.

Lemma ins_perm x rp : Permutation (x :: rp) (ins lt x rp).
Proof.
  induction rp as [|y rp IH]; cbn; [apply Permutation_refl|].
  destruct (lt x y); [|apply Permutation_refl].
  eapply Permutation_trans; [apply perm_swap|]. apply perm_skip. exact IH.
Qed.

Lemma sort_rev_perm l acc : Permutation (rev l ++ acc) (fold_left (fun rp x => ins lt x rp) l acc).
Proof.
  revert acc. induction l as [|x l IH]; intros acc; cbn [fold_left rev]; [apply Permutation_refl|].
  eapply Permutation_trans; [|apply IH]. rewrite <- app_assoc. cbn [app].
  apply Permutation_app_head. apply ins_perm.
Qed.

(* the result is a permutation of the input, for any comparison function *)
Theorem sorted_perm l : Permutation l (sorted lt l).
Proof.
  unfold sorted, sort_rev. eapply Permutation_trans; [|apply Permutation_rev].
  eapply Permutation_trans; [|apply sort_rev_perm]. rewrite app_nil_r. apply Permutation_rev.
Qed.

(* ordered: no element is strictly less than its left neighbour; needs only asymmetry of lt *)
Hypothesis lt_asym : forall a b, lt a b = true -> lt b a = false.

Definition desc (rp : list A) := Sorted (fun a b => lt a b = false) rp.   (* rightmost first *)

Lemma ins_desc x rp : desc rp -> desc (ins lt x rp).
Proof.
  induction rp as [|y rp IH]; intros D; cbn.
  - repeat constructor.
  - destruct (lt x y) eqn:E.
    + inversion D as [|? ? D' Hd]; subst. constructor; [apply IH; exact D'|].
      destruct rp as [|z rp]; cbn.
      * constructor. apply lt_asym. exact E.
      * destruct (lt x z); constructor.
        -- inversion Hd; subst. assumption.
        -- apply lt_asym. exact E.
    + constructor; [exact D|]. constructor. exact E.
Qed.

Lemma sort_rev_desc l acc : desc acc -> desc (fold_left (fun rp x => ins lt x rp) l acc).
Proof. revert acc. induction l as [|x l IH]; intros acc D; cbn; [exact D|]. apply IH. apply ins_desc. exact D. Qed.

Lemma sorted_rev_adj (rp : list A) : desc rp -> Sorted (fun a b => lt b a = false) (rev rp).
Proof.
  intros D. induction D as [|y rp D IH Hd]; cbn; [constructor|].
  (* appending y on the right of an ascending list whose last element is the head of rp *)
  clear D. revert IH Hd. generalize (rev_involutive rp). generalize (rev rp) as r. intros r Hr IH Hd.
  assert (Last : forall z, In z (match rp with [] => [] | z :: _ => [z] end) -> lt y z = false).
  { intros z Hz. destruct rp as [|z' rp']; [destruct Hz|]. destruct Hz as [<-|[]]. inversion Hd; subst. assumption. }
  assert (HL : forall z, (exists r', r = r' ++ [z]) -> lt y z = false).
  { intros z [r' Hr']. apply Last. subst r. rewrite rev_app_distr in Hr. cbn in Hr. rewrite <- Hr. left. reflexivity. }
  clear Hr Hd Last. induction r as [|a r IHr]; cbn; [repeat constructor|].
  inversion IH as [|? ? S Ha]; subst. constructor.
  - apply IHr; [exact S|]. intros z [r' Hr']. apply HL. exists (a :: r'). cbn. rewrite Hr'. reflexivity.
  - destruct r as [|b r]; cbn.
    + constructor. apply HL. exists []. reflexivity.
    + constructor. inversion Ha; subst. assumption.
Qed.

Theorem sorted_ordered l : Sorted (fun a b => lt b a = false) (sorted lt l).
Proof. unfold sorted, sort_rev. apply sorted_rev_adj. apply sort_rev_desc. constructor. Qed.

(* stable: any class of mutually non-less elements keeps its original relative order *)
Lemma filter_ins p x rp :
  (forall a b, p a = true -> p b = true -> lt a b = false) ->
  filter p (ins lt x rp) = (if p x then [x] else []) ++ filter p rp.
Proof.
  intros C. induction rp as [|y rp IH]; cbn.
  - destruct (p x); reflexivity.
  - destruct (lt x y) eqn:E; cbn [filter].
    + rewrite IH. destruct (p x) eqn:Px, (p y) eqn:Py; cbn; try reflexivity.
      rewrite (C x y Px Py) in E. discriminate.
    + destruct (p x); reflexivity.
Qed.

Lemma filter_sort_rev p l acc :
  (forall a b, p a = true -> p b = true -> lt a b = false) ->
  filter p (fold_left (fun rp x => ins lt x rp) l acc) = rev (filter p l) ++ filter p acc.
Proof.
  intros C. revert acc. induction l as [|x l IH]; intros acc; cbn [fold_left filter]; [reflexivity|].
  rewrite IH, filter_ins by exact C. destruct (p x); cbn [rev]; [|reflexivity].
  rewrite <- app_assoc. reflexivity.
Qed.

Lemma filter_rev' (p : A -> bool) l : filter p (rev l) = rev (filter p l).
Proof.
  induction l as [|x l IH]; [reflexivity|]. cbn [rev filter]. rewrite filter_app, IH. cbn [filter].
  destruct (p x); cbn [rev]; [reflexivity|]. rewrite app_nil_r. reflexivity.
Qed.

Theorem sorted_stable p l :
  (forall a b, p a = true -> p b = true -> lt a b = false) ->
  filter p (sorted lt l) = filter p l.
Proof.
  intros C. unfold sorted, sort_rev. rewrite filter_rev', filter_sort_rev by exact C.
  rewrite app_nil_r. apply rev_involutive.
Qed.
End S.
