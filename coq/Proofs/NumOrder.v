(* The exact-value comparison of numbers is a total order (pure Z reasoning). *)
From Coq Require Import ZArith List Bool Lia.
From Ckl Require Import Prelude.PyPrelude Model.Values.
Import ListNotations.
Open Scope Z_scope.

Lemma cmp_scale a b k : 0 <= k -> (a * 2 ^ k ?= b * 2 ^ k) = (a ?= b).
Proof.
  intros Hk. assert (0 < 2 ^ k) by (apply Z.pow_pos_nonneg; lia).
  destruct (Z.compare_spec a b) as [E|L|G].
  - subst. apply Z.compare_refl.
  - apply Z.compare_lt_iff. nia.
  - apply Z.compare_gt_iff. nia.
Qed.

Lemma fin_cmp_at m1 e1 m2 e2 e :
  e <= e1 -> e <= e2 ->
  exr_cmp (Fin m1 e1) (Fin m2 e2) = (m1 * 2 ^ (e1 - e) ?= m2 * 2 ^ (e2 - e)).
Proof.
  intros H1 H2. cbn [exr_cmp]. set (e0 := Z.min e1 e2).
  assert (He0 : e <= e0) by (unfold e0; lia).
  replace (e1 - e) with ((e1 - e0) + (e0 - e)) by lia.
  replace (e2 - e) with ((e2 - e0) + (e0 - e)) by lia.
  rewrite !Z.pow_add_r by (unfold e0; lia).
  rewrite !Z.mul_assoc. rewrite cmp_scale by lia. reflexivity.
Qed.

(* order-embedding of the extended values into Z x Z (lexicographic) at a common exponent *)
Definition key (e : Z) (x : exr) : Z * Z :=
  match x with NegInf => (0, 0) | Fin m ex => (1, m * 2 ^ (ex - e)) | PosInf => (2, 0) end.
Definition below (e : Z) (x : exr) : Prop := match x with Fin _ ex => e <= ex | _ => True end.
Definition lexcmp (k1 k2 : Z * Z) : comparison :=
  match fst k1 ?= fst k2 with Eq => snd k1 ?= snd k2 | c => c end.

Lemma exr_cmp_key e x y : below e x -> below e y -> exr_cmp x y = lexcmp (key e x) (key e y).
Proof.
  destruct x as [|m1 e1|], y as [|m2 e2|]; cbn [below key]; intros H1 H2; try reflexivity.
  unfold lexcmp. cbn [fst snd]. rewrite Z.compare_refl. apply fin_cmp_at; assumption.
Qed.

Lemma lexcmp_eq k1 k2 : lexcmp k1 k2 = Eq <-> k1 = k2.
Proof.
  destruct k1 as [t1 v1], k2 as [t2 v2]. unfold lexcmp. cbn [fst snd].
  destruct (Z.compare_spec t1 t2); split; intros H0; try discriminate.
  - apply Z.compare_eq in H0. congruence.
  - inversion H0; subst. apply Z.compare_refl.
  - inversion H0; lia.
  - inversion H0; lia.
Qed.

Lemma lexcmp_lt k1 k2 :
  lexcmp k1 k2 = Lt <-> (fst k1 < fst k2 \/ (fst k1 = fst k2 /\ snd k1 < snd k2)).
Proof.
  destruct k1 as [t1 v1], k2 as [t2 v2]. unfold lexcmp. cbn [fst snd].
  destruct (Z.compare_spec t1 t2); split; intros H0; try discriminate; try lia.
  - right. split; [assumption|]. apply Z.compare_lt_iff. exact H0.
  - destruct H0 as [|[_ H0]]; [lia|]. apply Z.compare_lt_iff. exact H0.
  - reflexivity.
Qed.

Lemma lexcmp_gt k1 k2 :
  lexcmp k1 k2 = Gt <-> (fst k2 < fst k1 \/ (fst k1 = fst k2 /\ snd k2 < snd k1)).
Proof.
  destruct k1 as [t1 v1], k2 as [t2 v2]. unfold lexcmp. cbn [fst snd].
  destruct (Z.compare_spec t1 t2); split; intros H0; try discriminate; try lia.
  - right. split; [assumption|]. apply Z.compare_gt_iff. exact H0.
  - destruct H0 as [|[_ H0]]; [lia|]. apply Z.compare_gt_iff. exact H0.
  - reflexivity.
Qed.

Definition expo (x : exr) : Z := match x with Fin _ e => e | _ => 0 end.
Lemma below_min x e : e <= expo x -> below e x.
Proof. destruct x; cbn; auto. Qed.

Lemma exr_cmp_refl x : exr_cmp x x = Eq.
Proof.
  rewrite (exr_cmp_key (expo x)) by (apply below_min; lia). apply lexcmp_eq. reflexivity.
Qed.

Lemma exr_cmp_antisym x y : exr_cmp y x = CompOpp (exr_cmp x y).
Proof.
  set (e := Z.min (expo x) (expo y)).
  rewrite !(exr_cmp_key e) by (apply below_min; unfold e; lia).
  destruct (lexcmp (key e x) (key e y)) eqn:E; cbn [CompOpp].
  - apply lexcmp_eq in E. apply lexcmp_eq. congruence.
  - apply lexcmp_lt in E. apply lexcmp_gt. destruct E as [|[? ?]]; [left; assumption|right; split; [congruence|assumption]].
  - apply lexcmp_gt in E. apply lexcmp_lt. destruct E as [|[? ?]]; [left; assumption|right; split; [congruence|assumption]].
Qed.

Ltac keys3 x y z :=
  let e := fresh "e" in
  set (e := Z.min (expo x) (Z.min (expo y) (expo z)));
  rewrite !(exr_cmp_key e) by (apply below_min; unfold e; lia);
  rewrite ?lexcmp_eq, ?lexcmp_lt, ?lexcmp_gt.

Lemma exr_cmp_eq_l x y z : exr_cmp x y = Eq -> exr_cmp x z = exr_cmp y z.
Proof.
  set (e := Z.min (expo x) (Z.min (expo y) (expo z))).
  rewrite !(exr_cmp_key e) by (apply below_min; unfold e; lia).
  intros H. apply lexcmp_eq in H. rewrite H. reflexivity.
Qed.

Lemma exr_cmp_eq_r x y z : exr_cmp y z = Eq -> exr_cmp x y = exr_cmp x z.
Proof.
  set (e := Z.min (expo x) (Z.min (expo y) (expo z))).
  rewrite !(exr_cmp_key e) by (apply below_min; unfold e; lia).
  intros H. apply lexcmp_eq in H. rewrite H. reflexivity.
Qed.

Lemma exr_cmp_lt_trans x y z : exr_cmp x y = Lt -> exr_cmp y z = Lt -> exr_cmp x z = Lt.
Proof.
  set (e := Z.min (expo x) (Z.min (expo y) (expo z))).
  rewrite !(exr_cmp_key e) by (apply below_min; unfold e; lia).
  rewrite !lexcmp_lt. lia.
Qed.

(* ---- the same facts for num_cmp on NaN-free numeric values ---- *)
Lemma num_cmp_some a b : rank a <> None -> rank b <> None -> exists c, num_cmp a b = Some c.
Proof.
  unfold num_cmp. destruct (rank a), (rank b); try congruence. eauto.
Qed.

Lemma num_cmp_refl a x : rank a = Some x -> num_cmp a a = Some Eq.
Proof. intros H. unfold num_cmp. rewrite H, exr_cmp_refl. reflexivity. Qed.

Lemma num_cmp_antisym a b : num_cmp b a = option_map CompOpp (num_cmp a b).
Proof.
  unfold num_cmp. destruct (rank a), (rank b); try reflexivity. cbn. rewrite exr_cmp_antisym. reflexivity.
Qed.

Lemma num_eq_trans a b c : is_eq (num_cmp a b) = true -> is_eq (num_cmp b c) = true -> is_eq (num_cmp a c) = true.
Proof.
  unfold num_cmp. destruct (rank a) as [x|], (rank b) as [y|], (rank c) as [z|]; cbn; try discriminate.
  destruct (exr_cmp x y) eqn:E1; try discriminate. destruct (exr_cmp y z) eqn:E2; try discriminate.
  intros _ _. rewrite (exr_cmp_eq_l x y z E1), E2. reflexivity.
Qed.

Lemma num_eq_sym a b : is_eq (num_cmp a b) = is_eq (num_cmp b a).
Proof.
  rewrite (num_cmp_antisym a b). destruct (num_cmp a b) as [[]|]; reflexivity.
Qed.
