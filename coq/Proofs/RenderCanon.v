(* C08: the text of a set / map does not depend on the internal (insertion / hash) order; int numerals read back. *)
From Coq Require Import ZArith List Bool Lia Permutation.
From Ckl Require Import Prelude.PyPrelude Prelude.LexPrelude Model.Values Model.Arith Model.Sorting Model.Render
  Proofs.SortProofs Proofs.PermProofs.
Import ListNotations.
Open Scope Z_scope.

Section SortMap.
Context {A B : Type} (ltA : A -> A -> bool) (ltB : B -> B -> bool) (g : A -> B).
Hypothesis Hg : forall a b, ltB (g a) (g b) = ltA a b.

Lemma ins_map x rp : ins ltB (g x) (map g rp) = map g (ins ltA x rp).
Proof. induction rp as [|y rp IH]; cbn; [reflexivity|]. rewrite Hg. destruct (ltA x y); cbn; [rewrite IH|]; reflexivity. Qed.

Lemma sort_rev_map l : forall acc, fold_left (fun rp x => ins ltB x rp) (map g l) (map g acc) = map g (fold_left (fun rp x => ins ltA x rp) l acc).
Proof. induction l as [|x l IH]; intros acc; cbn; [reflexivity|]. rewrite ins_map. apply IH. Qed.

Lemma sorted_map l : sorted ltB (map g l) = map g (sorted ltA l).
Proof. unfold sorted, sort_rev. change (@nil B) with (map g []). rewrite (sort_rev_map l []). rewrite map_rev. reflexivity. Qed.
End SortMap.

Lemma ltv_lt_of : ltv = lt_of. Proof. reflexivity. Qed.

Section Canon.
Variable fr : PrimFloat.float -> str.
Variable dr : Z -> str.

Lemma render_set_sorted l :
  render fr dr (DSet l) = [60; 60] ++ pad_angle (join_comma (map (render fr dr) (sorted lt_of l))) ++ [62; 62].
Proof.
  cbn [render]. do 3 f_equal.
  rewrite (sorted_map lt_of (fun p q => ltv (fst p) (fst q)) (fun x => (x, render fr dr x))) by reflexivity.
  rewrite map_map. reflexivity.
Qed.

(* equal sets (same elements, any internal order) have the same text *)
Theorem render_set_canonical l1 l2 : good l1 -> Permutation l1 l2 -> render fr dr (DSet l1) = render fr dr (DSet l2).
Proof. intros G P. rewrite !render_set_sorted. rewrite (sorted_enum_perm l1 l2 G P). reflexivity. Qed.

(* maps: entries sorted by key *)
Definition ltk (p q : dval * dval) : bool := lt_of (fst p) (fst q).

Lemma render_map_sorted l :
  render fr dr (DMap l) = [60; 60; 60]
     ++ pad_angle (join_comma (map (fun kv => render fr dr (fst kv) ++ [32; 61; 62; 32] ++ render fr dr (snd kv)) (sorted ltk l))) ++ [62; 62; 62].
Proof.
  cbn [render]. do 3 f_equal.
  rewrite (sorted_map ltk (fun p q => ltv (fst p) (fst q))
            (fun kv => (fst kv, render fr dr (fst kv) ++ [32; 61; 62; 32] ++ render fr dr (snd kv)))) by reflexivity.
  rewrite map_map. reflexivity.
Qed.

Lemma assoc_unique (l1 : list (dval * dval)) : forall l2,
  map fst l1 = map fst l2 -> NoDup (map fst l1) -> Permutation l1 l2 -> l1 = l2.
Proof.
  induction l1 as [|[k v] l1 IH]; intros [|[k2 v2] l2] E N P; try discriminate; [reflexivity|].
  cbn in E. injection E as Ek Et. subst k2. inversion N as [|? ? Nk Nt]; subst.
  assert (v = v2).
  { assert (I : In (k, v) ((k, v2) :: l2)) by (eapply Permutation_in; [exact P|left; reflexivity]).
    destruct I as [I|I]; [congruence|]. exfalso. apply Nk. rewrite Et. apply (in_map fst) in I. exact I. }
  subst v2. f_equal. apply IH; [exact Et|exact Nt|]. eapply Permutation_cons_inv. exact P.
Qed.

Lemma good_nodup l : good l -> NoDup l -> NoDup l. Proof. auto. Qed.

(* equal maps (same entries, any internal order; keys pairwise distinct and comparable) have the same text *)
Theorem render_map_canonical l1 l2 :
  good (map fst l1) -> NoDup (map fst l1) -> Permutation l1 l2 -> render fr dr (DMap l1) = render fr dr (DMap l2).
Proof.
  intros G N P. rewrite !render_map_sorted.
  assert (E : sorted ltk l1 = sorted ltk l2).
  { apply assoc_unique.
    - rewrite <- !(sorted_map ltk lt_of fst) by reflexivity. apply sorted_enum_perm; [exact G|apply Permutation_map; exact P].
    - eapply Permutation_NoDup; [|exact N]. apply Permutation_map. apply sorted_perm.
    - eapply Permutation_trans; [apply Permutation_sym, sorted_perm|]. eapply Permutation_trans; [exact P|apply sorted_perm]. }
  rewrite E. reflexivity.
Qed.
End Canon.

(* ---------------------------------------------------------------- int numerals *)
Definition dv10 (acc : Z) (s : str) : Z := fold_left (fun a c => a * 10 + digit_value c) s acc.

Lemma digits_pos_value fuel : forall n acc, 0 <= n < 2 ^ Z.of_nat fuel -> dv10 0 (digits_pos fuel n acc) = dv10 n acc.
Proof.
  induction fuel as [|f IH]; intros n acc H.
  - cbn in H. assert (n = 0) by lia. subst. reflexivity.
  - cbn [digits_pos]. destruct (n <? 10) eqn:E.
    + apply Z.ltb_lt in E. unfold dv10. cbn [fold_left]. f_equal.
      unfold digit_value. replace ((48 <=? 48 + n) && (48 + n <=? 57)) with true by (symmetry; apply andb_true_iff; split; apply Z.leb_le; lia). lia.
    + apply Z.ltb_ge in E. rewrite IH.
      * unfold dv10. cbn [fold_left]. f_equal. unfold digit_value.
        pose proof (Z.mod_pos_bound n 10 ltac:(lia)) as M.
        replace ((48 <=? 48 + n mod 10) && (48 + n mod 10 <=? 57)) with true by (symmetry; apply andb_true_iff; split; apply Z.leb_le; lia).
        pose proof (Z.div_mod n 10 ltac:(lia)). lia.
      * split; [apply Z.div_pos; lia|]. rewrite Nat2Z.inj_succ, Z.pow_succ_r in H by lia.
        apply Z.div_lt_upper_bound; lia.
Qed.

(* the decimal numeral of every non-negative int has the int as its value (int(str(n)) == n) *)
Theorem int_numeral_round_trip n : 0 <= n -> digits_value 10 (int_str n) = n.
Proof.
  intros H. unfold int_str. replace (n <? 0) with false by (symmetry; apply Z.ltb_ge; exact H).
  change (digits_value 10 ?s) with (dv10 0 s). rewrite digits_pos_value; [reflexivity|].
  split; [exact H|]. destruct (Z.eq_dec n 0) as [->|Hn]; [cbn; lia|].
  rewrite Nat2Z.inj_succ, Z2Nat.id by (apply Z.log2_nonneg). apply Z.log2_spec. lia.
Qed.

(* and the numeral of a negative int is a minus sign before the numeral of its absolute value *)
Theorem int_numeral_negative n : n < 0 -> int_str n = 45 :: int_str (- n).
Proof.
  intros H. unfold int_str. replace (n <? 0) with true by (symmetry; apply Z.ltb_lt; exact H).
  replace (- n <? 0) with false by (symmetry; apply Z.ltb_ge; lia). reflexivity.
Qed.
