(* C02 / C14: the other readings of the operator core - comparison chains, the unary signs, redundant parentheses. *)
From Coq Require Import ZArith List Bool Lia.
From Ckl Require Import Model.ExprParse Proofs.ExprParseTotal Proofs.ExprParseRT.
Import ListNotations.

(* a r1 b r2 c ...: the conjunction of the adjacent pairs *)
Fixpoint clauses (lhs : expr) (l : list (Z * expr)) : list expr :=
  match l with [] => [] | (r, b) :: t => ECmp r lhs b :: clauses b t end.
Fixpoint chain_tail (l : list (Z * expr)) : list tok :=
  match l with [] => [] | (r, b) :: t => TRel r :: render_at 5 b ++ chain_tail t end.

Lemma chain_tail_stops l rest : stops 4 rest -> stops 5 (chain_tail l ++ rest).
Proof. destruct l as [|[r b] t]; cbn [chain_tail app]; [intros H; apply (stops_mono 4); [exact H|lia]|intros _; cbn [stops tlev]; lia]. Qed.

Lemma rel_chain n : forall l lhs acc k rest, Forall (fun p => Sany (snd p)) l ->
  (forall p, In p l -> (length (render_at 5 (snd p)) < n)%nat) -> (length (chain_tail l ++ rest) <= k)%nat -> stops 4 rest ->
  rel_loop (p_prim n) k lhs acc (chain_tail l ++ rest) = Ok (simplified (acc ++ clauses lhs l)) rest.
Proof.
  induction l as [|[r b] t IH]; intros lhs acc k rest F Len Hk St.
  - cbn [chain_tail app clauses]. rewrite app_nil_r. apply rel_stop. exact St.
  - inversion F as [|? ? Fb Ft]; subst. cbn [snd] in Fb.
    cbn [chain_tail app clauses] in *. rewrite <- app_assoc in *.
    destruct k as [|k]; [cbn [length] in Hk; lia|]. cbn [rel_loop].
    pose proof (Fb n 5%nat (chain_tail t ++ rest) ltac:(lia) (Len (r, b) (or_introl eq_refl)) (chain_tail_stops t rest St)) as K.
    cbn [P] in K. rewrite K.
    rewrite (IH b (acc ++ [ECmp r lhs b]) k rest Ft); [rewrite <- app_assoc; reflexivity|intros p Hp; apply Len; right; exact Hp| |exact St].
    cbn [length] in Hk. rewrite app_length in Hk. lia.
Qed.

Lemma in_chain_length l p : In p l -> (length (render_at 5 (snd p)) <= length (chain_tail l))%nat.
Proof.
  induction l as [|[r b] t IH]; [intros []|]. intros [<-|H]; cbn [chain_tail length snd]; rewrite app_length; [lia|specialize (IH H); lia].
Qed.

Theorem parse_chain a l : wf a = true -> forallb (fun p => wf (snd p)) l = true -> l <> [] ->
  parse (render_at 5 a ++ chain_tail l) = Ok (simplified (clauses a l)) [].
Proof.
  intros Wa Wl NE. unfold parse, parse_fuel. set (ts := render_at 5 a ++ chain_tail l). set (n := Datatypes.S (length ts)).
  assert (F : Forall (fun p => Sany (snd p)) l).
  { clear NE ts n. induction l as [|p t IH]; [constructor|]. cbn [forallb] in Wl. apply andb_true_iff in Wl. destruct Wl as [Wp Wt].
    constructor; [apply (all_good (snd p) Wp)|apply IH; exact Wt]. }
  destruct (all_good a Wa) as [Sa _].
  assert (Lts : length ts = (length (render_at 5 a) + length (chain_tail l))%nat) by (unfold ts; apply app_length).
  assert (K4 : P n 4 ts = Ok (simplified (clauses a l)) []).
  { cbn [P]. unfold p_rel.
    pose proof (Sa n 5%nat (chain_tail l ++ []) ltac:(lia) ltac:(unfold n; lia) (chain_tail_stops l [] I)) as K. cbn [P] in K.
    rewrite app_nil_r in K. fold ts in K. rewrite K.
    pose proof (rel_chain n l a [] (length (chain_tail l)) [] F) as RL. rewrite !app_nil_r in RL. cbn [app] in RL.
    assert (Len : forall p, In p l -> (length (render_at 5 (snd p)) < n)%nat).
    { intros p Hp. pose proof (in_chain_length l p Hp). unfold n. lia. }
    specialize (RL Len (Nat.le_refl _) I).
    destruct l as [|[r b] t]; [contradiction|]. cbn [chain_tail] in *. exact RL. }
  pose proof (lift n 3 1 ts _ [] ltac:(lia) ltac:(lia) K4) as K1. cbn [P] in K1. rewrite K1; [reflexivity| |exact I].
  intros L' HL'. unfold ts.
  apply (hdc_of_head L' (Nat.max 5 (level a))); [apply render_at_head; apply raw_head; exact Wa|pose proof (level_range a); lia].
Qed.

(* the unary signs *)
Definition literal_nat (e : expr) : bool := match e with EInt z => negb (z <? 0)%Z | _ => false end.

Lemma callee_head e : wf e = true -> callee_like e = true -> exists t r, raw e = t :: r /\ (forall z, t <> TInt z).
Proof.
  induction e as [z|b|v|o a b IHa IHb|r a b IHa IHb|a IHa|l IHl|l IHl|f args IHf IHargs] using expr_ind2; intros W C; try discriminate.
  - exists (TId v), []. split; [reflexivity|intros z; discriminate].
  - cbn [wf] in W. apply andb_true_iff in W. destruct W as [Wf _]. rewrite raw_call. unfold wrap. destruct (callee_like f) eqn:CL; cbn [negb].
    + destruct (IHf Wf eq_refl) as [t [r [E H]]]. rewrite E. exists t, (r ++ TLP :: sep TComma (map (render_at 1) args) ++ [TRP]). split; [reflexivity|exact H].
    + unfold paren. cbn [app]. eexists TLP, _. split; [reflexivity|intros z; discriminate].
Qed.

Lemma render8_head e : wf e = true -> literal_nat e = false -> exists t r, render_at 8 e = t :: r /\ (forall z, t <> TInt z).
Proof.
  intros W Ln. unfold render_at, wrap. destruct (Nat.ltb (level e) 8) eqn:E.
  - unfold paren. eexists TLP, _. split; [reflexivity|intros z; discriminate].
  - apply Nat.ltb_ge in E. destruct e as [z0|b0|v0|o0 a0 b0|r0 a0 b0|a0|l0|l0|f0 args0]; cbn [level literal_nat] in *; try lia; try (destruct (_ <? _)%Z; lia).
    + exists (TBool b0), []. split; [reflexivity|intros z; discriminate].
    + exists (TId v0), []. split; [reflexivity|intros z; discriminate].
    + apply callee_head; [exact W|reflexivity].
Qed.

Lemma hdc_tok t L ts : t <> TNot -> (L <> 7)%nat -> hdc L (t :: ts).
Proof. intros H N. split; intros ->; [contradiction|exact H]. Qed.

(* - e is sub(0, e) unless e is a literal, which is negated *)
Theorem parse_neg e : wf e = true -> literal_nat e = false -> parse (TMinus :: render_at 8 e) = Ok (EBin 1 (EInt 0) e) [].
Proof.
  intros W Ln. unfold parse, parse_fuel. set (n := Datatypes.S (length (TMinus :: render_at 8 e))).
  destruct (all_good e W) as [Se _].
  assert (K7 : P n 7 (TMinus :: render_at 8 e) = Ok (EBin 1 (EInt 0) e) []).
  { cbn [P]. pose proof (Se n 8%nat [] ltac:(lia) ltac:(unfold n; cbn [length]; lia) I) as K. cbn [P] in K. rewrite app_nil_r in K.
    destruct (render8_head e W Ln) as [t [r [E Ht]]]. rewrite E in *. unfold p_unary.
    destruct t; try (rewrite K; reflexivity). exfalso. apply (Ht z). reflexivity. }
  pose proof (lift n 6 1 _ _ [] ltac:(lia) ltac:(lia) K7) as K1. cbn [P] in K1. rewrite K1; [reflexivity| |exact I].
  intros L' HL'. apply hdc_tok; [discriminate|lia].
Qed.

Theorem parse_neg_literal z : parse [TMinus; TInt z] = Ok (EInt (- z)) [].
Proof. reflexivity. Qed.

(* + e is e *)
Theorem parse_pos e : wf e = true -> parse (TPlus :: render_at 8 e) = Ok e [].
Proof.
  intros W. unfold parse, parse_fuel. set (n := Datatypes.S (length (TPlus :: render_at 8 e))).
  destruct (all_good e W) as [Se _].
  assert (K7 : P n 7 (TPlus :: render_at 8 e) = Ok e []).
  { cbn [P]. pose proof (Se n 8%nat [] ltac:(lia) ltac:(unfold n; cbn [length]; lia) I) as K. cbn [P] in K. rewrite app_nil_r in K. exact K. }
  pose proof (lift n 6 1 _ _ [] ltac:(lia) ltac:(lia) K7) as K1. cbn [P] in K1. rewrite K1; [reflexivity| |exact I].
  intros L' HL'. apply hdc_tok; [discriminate|lia].
Qed.

(* redundant parentheses around a whole expression do not change the tree *)
Theorem parse_paren e : wf e = true -> parse (paren (render e)) = Ok e [].
Proof.
  intros W. unfold parse, parse_fuel, render. set (n := Datatypes.S (length (paren (raw e)))).
  destruct (all_good e W) as [Se _].
  assert (R : RawOk e).
  { intros m rest Hm St. pose proof (level_range e) as LR. pose proof (Se m (level e) rest LR) as K. unfold render_at, wrap in K.
    rewrite Nat.ltb_irrefl in K. apply K; [exact Hm|exact St]. }
  assert (K8 : P n 8 (paren (raw e)) = Ok e []).
  { cbn [P]. pose proof (paren_prim e R (raw_head e W) n [] ltac:(unfold n, paren; cbn [length]; rewrite app_length; cbn [length]; lia) I) as K.
    unfold paren. exact K. }
  pose proof (lift n 7 1 _ _ [] ltac:(lia) ltac:(lia) K8) as K1. cbn [P] in K1. rewrite K1; [reflexivity| |exact I].
  intros L' _. unfold paren. apply hdc_lp.
Qed.
