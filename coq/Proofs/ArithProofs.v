From Coq Require Import String Ascii.
From Coq Require Import ZArith List Bool Lia.
From Coq Require Import PrimFloat.
From Ckl Require Import Prelude.PyPrelude Model.Values Model.Arith Gen.PredTable.
Import ListNotations.
Open Scope Z_scope.

(* ------------------------------------------------------------ exact integer arithmetic *)
Lemma int_div_quot a b : b <> 0 -> int_div a b = Z.quot a b.
Proof.
  intros Hb. unfold int_div.
  assert (Habs : Z.abs a / Z.abs b = Z.quot (Z.abs a) (Z.abs b)).
  { symmetry. apply Z.quot_div_nonneg; lia. }
  rewrite Habs.
  destruct (Z.ltb_spec a 0), (Z.ltb_spec b 0); cbn [Bool.eqb negb].
  - rewrite (Z.abs_neq a), (Z.abs_neq b) by lia. rewrite Z.quot_opp_opp by lia. reflexivity.
  - rewrite (Z.abs_neq a), (Z.abs_eq b) by lia. rewrite Z.quot_opp_l by lia. lia.
  - rewrite (Z.abs_eq a), (Z.abs_neq b) by lia. rewrite Z.quot_opp_r by lia. lia.
  - rewrite (Z.abs_eq a), (Z.abs_eq b) by lia. reflexivity.
Qed.

Lemma arith_int op a b : arith op (DInt a) (DInt b) = zop op a b.
Proof. destruct op; reflexivity. Qed.

Theorem int_exact a b :
  arith Add (DInt a) (DInt b) = OVal (DInt (a + b)) /\
  arith Sub (DInt a) (DInt b) = OVal (DInt (a - b)) /\
  arith Mul (DInt a) (DInt b) = OVal (DInt (a * b)) /\
  (b <> 0 -> arith Div (DInt a) (DInt b) = OVal (DInt (Z.quot a b))) /\
  (b <> 0 -> exists r, arith Mod (DInt a) (DInt b) = OVal (DInt r) /\ Z.abs r < Z.abs b /\ (b | a - r)) /\
  (b = 0 -> arith Div (DInt a) (DInt b) = OErr /\ arith Mod (DInt a) (DInt b) = OErr).
Proof.
  rewrite !arith_int. cbn [zop]. repeat split.
  - intros Hb. destruct (Z.eqb_spec b 0); [contradiction|]. rewrite int_div_quot by assumption. reflexivity.
  - intros Hb. destruct (Z.eqb_spec b 0); [contradiction|]. exists (a mod b). split; [reflexivity|]. split.
    + destruct (Z.lt_ge_cases 0 b).
      * pose proof (Z.mod_pos_bound a b ltac:(lia)). lia.
      * pose proof (Z.mod_neg_bound a b ltac:(lia)). lia.
    + exists (a / b). pose proof (Z.div_mod a b Hb). lia.
  - subst. reflexivity.
  - subst. reflexivity.
Qed.

Definition is_int (v : dval) := match v with DInt _ => true | _ => false end.

(* the result of + - * / on numbers is an int exactly when both operands are ints *)
Theorem int_iff op a b v :
  op <> Mod -> is_num a = true -> is_num b = true -> arith op a b = OVal v ->
  (is_int v = true <-> is_int a = true /\ is_int b = true).
Proof.
  intros Hop Ha Hb H.
  destruct a as [| |x|f| | | | | |]; try discriminate; destruct b as [| |y|g| | | | | |]; try discriminate.
  - (* int int *)
    rewrite arith_int in H. destruct op; cbn [zop] in H; try congruence;
      try (inversion H; subst; cbn; tauto);
      (destruct (y =? 0); [discriminate|]; inversion H; subst; cbn; tauto).
  - (* int dec *)
    assert (is_int v = false).
    { destruct op; try congruence; cbn in H;
        repeat match type of H with
               | context [if ?c then _ else _] => destruct c
               | context [match ?o with Some _ => _ | None => _ end] => destruct o
               end; try discriminate; inversion H; reflexivity. }
    cbn. rewrite H0. split; [discriminate|]. intros [_ ?]. discriminate.
  - assert (is_int v = false).
    { destruct op; try congruence; cbn in H;
        repeat match type of H with
               | context [if ?c then _ else _] => destruct c
               | context [match ?o with Some _ => _ | None => _ end] => destruct o
               end; try discriminate; inversion H; reflexivity. }
    cbn. rewrite H0. split; [discriminate|]. intros [? _]. discriminate.
  - assert (is_int v = false).
    { destruct op; try congruence; cbn in H;
        repeat match type of H with
               | context [if ?c then _ else _] => destruct c
               end; try discriminate; inversion H; reflexivity. }
    cbn. rewrite H0. split; [discriminate|]. intros [? _]. discriminate.
Qed.

Definition num_or_null (v : dval) := is_num v || is_null v.

(* arithmetic on NULL gives NULL *)
Theorem null_absorbs op a b :
  num_or_null a = true -> num_or_null b = true -> is_null a || is_null b = true ->
  arith op a b = OVal DNull.
Proof.
  intros Ha Hb Hn.
  destruct a; try discriminate; destruct b; try discriminate; try discriminate Hn; destruct op; reflexivity.
Qed.

(* ------------------------------------------------------------ and / or / not / chains *)
Section E.
Variable env : list dval.

Definition otrue := OVal (DBool true).
Definition ofalse := OVal (DBool false).

Lemma and_cons c es :
  eval env (XAnd (c :: es)) =
  match eval env c with
  | OVal (DBool true) => eval env (XAnd es)
  | OVal (DBool false) => ofalse
  | OVal _ => OErr
  | o => o
  end.
Proof. reflexivity. Qed.

Lemma or_cons c es :
  eval env (XOr (c :: es)) =
  match eval env c with
  | OVal (DBool false) => eval env (XOr es)
  | OVal (DBool true) => otrue
  | OVal _ => OErr
  | o => o
  end.
Proof. reflexivity. Qed.

(* short circuit: the clauses after the deciding one do not matter *)
Theorem and_short es1 c es2 :
  Forall (fun e => eval env e = otrue) es1 -> eval env c = ofalse ->
  eval env (XAnd (es1 ++ c :: es2)) = ofalse.
Proof.
  intros H Hc. induction H as [|e es1 He _ IH]; cbn [app]; rewrite and_cons.
  - rewrite Hc. reflexivity.
  - rewrite He. exact IH.
Qed.

Theorem or_short es1 c es2 :
  Forall (fun e => eval env e = ofalse) es1 -> eval env c = otrue ->
  eval env (XOr (es1 ++ c :: es2)) = otrue.
Proof.
  intros H Hc. induction H as [|e es1 He _ IH]; cbn [app]; rewrite or_cons.
  - rewrite Hc. reflexivity.
  - rewrite He. exact IH.
Qed.

Theorem and_all_true es :
  Forall (fun e => eval env e = otrue) es -> eval env (XAnd es) = otrue.
Proof. intros H. induction H as [|e es He _ IH]; [reflexivity|]. rewrite and_cons, He. exact IH. Qed.

Theorem or_all_false es :
  Forall (fun e => eval env e = ofalse) es -> eval env (XOr es) = ofalse.
Proof. intros H. induction H as [|e es He _ IH]; [reflexivity|]. rewrite or_cons, He. exact IH. Qed.

Definition is_bool_val (v : dval) := match v with DBool _ => true | _ => false end.

(* and / or / not accept only booleans *)
Theorem and_non_boolean es1 c es2 v :
  Forall (fun e => eval env e = otrue) es1 -> eval env c = OVal v -> is_bool_val v = false ->
  eval env (XAnd (es1 ++ c :: es2)) = OErr.
Proof.
  intros H Hc Hv. induction H as [|e es1 He _ IH]; cbn [app]; rewrite and_cons.
  - rewrite Hc. destruct v; try reflexivity; discriminate.
  - rewrite He. exact IH.
Qed.

Theorem or_non_boolean es1 c es2 v :
  Forall (fun e => eval env e = ofalse) es1 -> eval env c = OVal v -> is_bool_val v = false ->
  eval env (XOr (es1 ++ c :: es2)) = OErr.
Proof.
  intros H Hc Hv. induction H as [|e es1 He _ IH]; cbn [app]; rewrite or_cons.
  - rewrite Hc. destruct v; try reflexivity; discriminate.
  - rewrite He. exact IH.
Qed.

Theorem not_spec e :
  (forall b, eval env e = OVal (DBool b) -> eval env (XNot e) = OVal (DBool (negb b))) /\
  (forall v, eval env e = OVal v -> is_bool_val v = false -> eval env (XNot e) = OErr).
Proof.
  split.
  - intros b H. cbn [eval]. rewrite H. reflexivity.
  - intros v H Hv. cbn [eval]. rewrite H. destruct v; try reflexivity; discriminate.
Qed.

(* a comparison chain is the conjunction of its adjacent pairs *)
Theorem chain_unfold e0 op e1 rest :
  eval env (XChain e0 ((op, e1) :: rest)) =
  match bind2 (eval env e0) (eval env e1) (rel op) with
  | OVal (DBool true) => eval env (XChain e1 rest)
  | OVal (DBool false) => ofalse
  | OVal _ => OErr
  | o => o
  end.
Proof. reflexivity. Qed.

Theorem chain_is_and_of_pairs e0 o1 e1 o2 e2 :
  eval env (XChain e0 [(o1, e1); (o2, e2)]) =
  eval env (XAnd [XChain e0 [(o1, e1)]; XChain e1 [(o2, e2)]]).
Proof.
  rewrite and_cons, !chain_unfold.
  destruct (bind2 (eval env e0) (eval env e1) (rel o1)) as [[| [|] | | | | | | | |]| | |]; try reflexivity.
  rewrite and_cons, chain_unfold.
  destruct (bind2 (eval env e1) (eval env e2) (rel o2)) as [[| [|] | | | | | | | |]| | |]; reflexivity.
Qed.
End E.

(* ------------------------------------------------------------ `is not P` = not (`is P`) *)
(* first word group of a key: the text before the first comma that is outside brackets
   (the tokentype arguments may differ: matchIf("in") accepts identifier or keyword) *)
Fixpoint key_word (s : string) (depth : nat) : string :=
  match s with
  | EmptyString => EmptyString
  | String c s' =>
    if Ascii.eqb c "["%char then String c (key_word s' (S depth))
    else if Ascii.eqb c "]"%char then String c (key_word s' (pred depth))
    else if Ascii.eqb c ","%char && Nat.eqb depth 0 then EmptyString
    else String c (key_word s' depth)
  end.

Fixpoint forall2b {A B} (f : A -> B -> bool) (l : list A) (m : list B) : bool :=
  match l, m with
  | [], [] => true
  | x :: l', y :: m' => f x y && forall2b f l' m'
  | _, _ => false
  end.

Lemma forall2b_Forall2 {A B} (f : A -> B -> bool) l m :
  forall2b f l m = true -> Forall2 (fun x y => f x y = true) l m.
Proof.
  revert m. induction l as [|x l IH]; intros [|y m] H; cbn in H; try discriminate; [constructor|].
  apply andb_true_iff in H. destruct H. constructor; auto.
Qed.

Definition negates (n p : string * string) : bool :=
  String.eqb (key_word (fst n) 0) (key_word (fst p) 0) &&
  String.eqb (snd n) ("NodeNot(" ++ snd p ++ ", pos)").

Lemma neg_table_negates : forall2b negates neg_table pos_table = true.
Proof. vm_compute. reflexivity. Qed.

Definition lookup (k : string) (t : list (string * string)) : option string :=
  match find (fun p => String.eqb (fst p) k) t with Some p => Some (snd p) | None => None end.

Definition top_pair_ok (p : string * string) : bool :=
  match lookup (fst p) top_table, lookup (snd p) top_table with
  | Some n, Some q => String.eqb n ("NodeNot(" ++ q ++ ", pos)")
  | _, _ => false
  end.

Lemma top_pairs_negate : forallb top_pair_ok top_neg_pairs = true.
Proof. vm_compute. reflexivity. Qed.
