(* C02: the parser model reads the canonical text of every tree back as that tree - precedence
   or < and < not < comparison < additive < multiplicative < unary < call, left association of + - and * / %,
   flat clause lists for and / or - for trees of any depth, and parentheses exactly where [render] puts them. *)
From Coq Require Import ZArith List Bool Lia.
From Ckl Require Import Model.ExprParse Proofs.ExprParseTotal.
Import ListNotations.

(* ------------------------------------------------------------------ levels *)
Definition P (n L : nat) : list tok -> res :=
  match L with
  | 1 => p_or (p_prim n) | 2 => p_and (p_prim n) | 3 => p_not (p_prim n) | 4 => p_rel (p_prim n)
  | 5 => p_add (p_prim n) | 6 => p_mul (p_prim n) | 7 => p_unary (p_prim n) | _ => p_prim n
  end%nat.

(* the level of the loop a token continues *)
Definition tlev (t : tok) : nat :=
  match t with TLP => 8 | TMul _ => 6 | TPlus | TMinus => 5 | TRel _ => 4 | TAnd => 2 | TOr => 1 | _ => 0 end%nat.
Definition stops (L : nat) (rest : list tok) : Prop := match rest with [] => True | t :: _ => (tlev t < L)%nat end.

Lemma stops_mono L L' rest : stops L rest -> (L <= L')%nat -> stops L' rest.
Proof. destruct rest as [|t r]; cbn; [auto|lia]. Qed.

Section Loops.
  Variable prim : list tok -> res.

  Lemma mul_stop k acc rest : stops 6 rest -> mul_loop prim k acc rest = Ok acc rest.
  Proof. destruct rest as [|t r]; [destruct k; reflexivity|]. destruct t; cbn [stops tlev]; intros H; try lia; destruct k; reflexivity. Qed.
  Lemma add_stop k acc rest : stops 5 rest -> add_loop prim k acc rest = Ok acc rest.
  Proof. destruct rest as [|t r]; [destruct k; reflexivity|]. destruct t; cbn [stops tlev]; intros H; try lia; destruct k; reflexivity. Qed.
  Lemma rel_stop k lhs acc rest : stops 4 rest -> rel_loop prim k lhs acc rest = Ok (simplified acc) rest.
  Proof. destruct rest as [|t r]; [destruct k; reflexivity|]. destruct t; cbn [stops tlev]; intros H; try lia; destruct k; reflexivity. Qed.
  Lemma and_stop k acc rest : stops 2 rest -> and_loop prim k acc rest = Ok (EAndL acc) rest.
  Proof. destruct rest as [|t r]; [destruct k; reflexivity|]. destruct t; cbn [stops tlev]; intros H; try lia; destruct k; reflexivity. Qed.
  Lemma or_stop k acc rest : stops 1 rest -> or_loop prim k acc rest = Ok (EOrL acc) rest.
  Proof. destruct rest as [|t r]; [destruct k; reflexivity|]. destruct t; cbn [stops tlev]; intros H; try lia; destruct k; reflexivity. Qed.
  Lemma postfix_stop k f rest : stops 8 rest -> postfix prim k f rest = Ok f rest.
  Proof. destruct rest as [|t r]; [destruct k; reflexivity|]. destruct t; cbn [stops tlev]; intros H; try lia; destruct k; reflexivity. Qed.

  (* a loop counter that is at least the length of the input is as good as any other *)
  Hypothesis Hp : prog prim.

  Lemma mul_irrel k1 : forall k2 acc ts, (length ts <= k1)%nat -> (length ts <= k2)%nat -> mul_loop prim k1 acc ts = mul_loop prim k2 acc ts.
  Proof.
    induction k1 as [|k1 IH]; intros k2 acc ts L1 L2; destruct ts as [|t ts']; cbn [length] in *; try lia.
    - destruct k2; reflexivity.
    - destruct k2; reflexivity.
    - destruct k2 as [|k2]; [lia|]. cbn [mul_loop]. destruct t; try reflexivity.
      destruct (p_unary prim ts') as [pe pr| |] eqn:E; try reflexivity.
      apply (p_unary_prog _ Hp) in E. apply IH; lia.
  Qed.
  Lemma add_irrel k1 : forall k2 acc ts, (length ts <= k1)%nat -> (length ts <= k2)%nat -> add_loop prim k1 acc ts = add_loop prim k2 acc ts.
  Proof.
    induction k1 as [|k1 IH]; intros k2 acc ts L1 L2; destruct ts as [|t ts']; cbn [length] in *; try lia.
    - destruct k2; reflexivity.
    - destruct k2; reflexivity.
    - destruct k2 as [|k2]; [lia|]. cbn [add_loop]. destruct (add_op t); try reflexivity.
      destruct (p_mul prim ts') as [pe pr| |] eqn:E; try reflexivity.
      apply (p_mul_prog _ Hp) in E. apply IH; lia.
  Qed.
  Lemma postfix_irrel k1 : forall k2 f ts, (length ts <= k1)%nat -> (length ts <= k2)%nat -> postfix prim k1 f ts = postfix prim k2 f ts.
  Proof.
    induction k1 as [|k1 IH]; intros k2 f ts L1 L2; destruct ts as [|t ts']; cbn [length] in *; try lia.
    - destruct k2; reflexivity.
    - destruct k2; reflexivity.
    - destruct k2 as [|k2]; [lia|]. cbn [postfix]. destruct t; try reflexivity.
      destruct (args_loop prim (length ts') [] ts') as [pl pr| |] eqn:E; try reflexivity.
      apply (args_loop_prog _ Hp) in E. apply IH; lia.
  Qed.
End Loops.

(* ------------------------------------------------------------------ from one level to the next lower one *)
Definition hd_tok (ts : list tok) : tok := hd TRP ts.
Definition hdc (L : nat) (ts : list tok) : Prop :=
  (L = 7%nat -> hd_tok ts <> TPlus /\ hd_tok ts <> TMinus) /\ (L = 3%nat -> hd_tok ts <> TNot).

Lemma step n L ts e r : (1 <= L < 8)%nat -> P n (S L) ts = Ok e r -> hdc L ts -> stops L r -> P n L ts = Ok e r.
Proof.
  intros HL H [H7 H3] St.
  destruct L as [|[|[|[|[|[|[|[|L]]]]]]]]; try lia; cbn [P] in *.
  - unfold p_or. rewrite H. destruct r as [|t r']; [reflexivity|]. destruct t; cbn [stops tlev] in St; try lia; reflexivity.
  - unfold p_and. rewrite H. destruct r as [|t r']; [reflexivity|]. destruct t; cbn [stops tlev] in St; try lia; reflexivity.
  - unfold p_not. specialize (H3 eq_refl). destruct ts as [|t ts']; [exact H|]. destruct t; try exact H. exfalso. apply H3. reflexivity.
  - unfold p_rel. rewrite H. destruct r as [|t r']; [reflexivity|]. destruct t; cbn [stops tlev] in St; try lia; reflexivity.
  - unfold p_add. rewrite H. apply add_stop. exact St.
  - unfold p_mul. rewrite H. apply mul_stop. exact St.
  - unfold p_unary. destruct (H7 eq_refl) as [A B]. destruct ts as [|t ts']; [exact H|]. destruct t; try exact H; exfalso; [apply A|apply B]; reflexivity.
Qed.

Lemma lift n d : forall L ts e r, (1 <= L)%nat -> (L + d <= 8)%nat -> P n (L + d) ts = Ok e r ->
  (forall L', (L <= L' < L + d)%nat -> hdc L' ts) -> stops L r -> P n L ts = Ok e r.
Proof.
  induction d as [|d IH]; intros L ts e r H1 H8 H Hh St.
  - rewrite Nat.add_0_r in H. exact H.
  - apply step; [lia| |apply Hh; lia|exact St].
    apply (IH (S L)); [lia|lia| | |apply (stops_mono L); [exact St|lia]].
    + replace (S L + d)%nat with (L + S d)%nat by lia. exact H.
    + intros L' HL'. apply Hh. lia.
Qed.

(* ------------------------------------------------------------------ induction over trees (lists of subtrees) *)
Section ExprInd.
  Variable Q : expr -> Prop.
  Hypothesis HInt : forall z, Q (EInt z).
  Hypothesis HBool : forall b, Q (EBool b).
  Hypothesis HVar : forall v, Q (EVar v).
  Hypothesis HBin : forall o a b, Q a -> Q b -> Q (EBin o a b).
  Hypothesis HCmp : forall r a b, Q a -> Q b -> Q (ECmp r a b).
  Hypothesis HNot : forall a, Q a -> Q (ENot a).
  Hypothesis HAnd : forall l, Forall Q l -> Q (EAndL l).
  Hypothesis HOr : forall l, Forall Q l -> Q (EOrL l).
  Hypothesis HCall : forall f args, Q f -> Forall Q args -> Q (ECall f args).
  Fixpoint expr_ind2 (e : expr) : Q e :=
    let fix go (l : list expr) : Forall Q l :=
      match l with [] => Forall_nil Q | x :: t => Forall_cons x (expr_ind2 x) (go t) end in
    match e with
    | EInt z => HInt z | EBool b => HBool b | EVar v => HVar v
    | EBin o a b => HBin o a b (expr_ind2 a) (expr_ind2 b)
    | ECmp r a b => HCmp r a b (expr_ind2 a) (expr_ind2 b)
    | ENot a => HNot a (expr_ind2 a)
    | EAndL l => HAnd l (go l)
    | EOrL l => HOr l (go l)
    | ECall f args => HCall f args (expr_ind2 f) (go args)
    end.
End ExprInd.

(* ------------------------------------------------------------------ the text of a tree *)
Lemma raw_bin o a b : raw (EBin o a b) =
  if (o <? 2)%Z then render_at 5 a ++ bin_tok o :: render_at 6 b else render_at 6 a ++ bin_tok o :: render_at 7 b.
Proof. reflexivity. Qed.
Lemma raw_cmp r a b : raw (ECmp r a b) = render_at 5 a ++ TRel r :: render_at 5 b.
Proof. reflexivity. Qed.
Lemma raw_not a : raw (ENot a) = TNot :: render_at 4 a.
Proof. reflexivity. Qed.
Lemma raw_and l : raw (EAndL l) = sep TAnd (map (render_at 3) l).
Proof. reflexivity. Qed.
Lemma raw_or l : raw (EOrL l) = sep TOr (map (render_at 2) l).
Proof. reflexivity. Qed.
Definition callee_like (e : expr) : bool := match e with EVar _ | ECall _ _ => true | _ => false end.
Lemma raw_call f args : raw (ECall f args) = wrap (negb (callee_like f)) (raw f) ++ TLP :: sep TComma (map (render_at 1) args) ++ [TRP].
Proof. destruct f; reflexivity. Qed.

Definition starter (t : tok) : bool := match t with TInt _ | TBool _ | TId _ | TLP | TMinus | TNot => true | _ => false end.

Definition head_facts (L : nat) (ts : list tok) : Prop :=
  exists t r, ts = t :: r /\ starter t = true /\ ((4 <= L)%nat -> t <> TNot) /\ (L = 8%nat -> t <> TMinus).

Lemma head_facts_app L ts more : head_facts L ts -> head_facts L (ts ++ more).
Proof. intros [t [r [E H]]]. exists t, (r ++ more). subst. split; [reflexivity|exact H]. Qed.

Lemma head_facts_weaken L L' ts : head_facts L ts -> (L' <= L)%nat -> (L' = 8%nat -> L = 8%nat) -> head_facts L' ts.
Proof. intros [t [r [E [A [B C]]]]] H1 H2. exists t, r. repeat split; auto. intros H. apply B. lia. Qed.

Lemma level_range e : (1 <= level e <= 8)%nat.
Proof. destruct e; cbn [level]; try lia; destruct (_ <? _)%Z; lia. Qed.

Lemma render_at_head L e : head_facts (level e) (raw e) -> head_facts (Nat.max L (level e)) (render_at L e).
Proof.
  intros H. unfold render_at, wrap. destruct (Nat.ltb (level e) L) eqn:E.
  - exists TLP, (raw e ++ [TRP]). repeat split; discriminate.
  - apply Nat.ltb_ge in E. replace (Nat.max L (level e)) with (level e) by lia. exact H.
Qed.

Lemma sep_cons2 s (x y : list tok) t : sep s (x :: y :: t) = x ++ s :: sep s (y :: t).
Proof. reflexivity. Qed.
Lemma sep_cons_ne s (x : list tok) m : m <> [] -> sep s (x :: m) = x ++ s :: sep s m.
Proof. destruct m; [contradiction|reflexivity]. Qed.
Lemma map_ne {A B} (f : A -> B) x t : map f (x :: t) <> [].
Proof. discriminate. Qed.

Lemma raw_head e : wf e = true -> head_facts (level e) (raw e).
Proof.
  induction e as [z|b|v|o a b IHa IHb|r a b IHa IHb|a IHa|l IHl|l IHl|f args IHf IHargs] using expr_ind2; intros W.
  - cbn [raw level]. destruct (z <? 0)%Z.
    + exists TMinus, [TInt (- z)]. repeat split; try discriminate; try (intros H; discriminate H).
    + exists (TInt z), []. repeat split; discriminate.
  - exists (TBool b), []. repeat split; discriminate.
  - exists (TId v), []. repeat split; discriminate.
  - cbn [wf] in W. apply andb_true_iff in W. destruct W as [W Wb]. apply andb_true_iff in W. destruct W as [_ Wa].
    rewrite raw_bin. cbn [level]. destruct (o <? 2)%Z.
    + apply head_facts_app. apply (head_facts_weaken (Nat.max 5 (level a))); [apply render_at_head; apply IHa; exact Wa|lia|intros H; discriminate].
    + apply head_facts_app. apply (head_facts_weaken (Nat.max 6 (level a))); [apply render_at_head; apply IHa; exact Wa|lia|intros H; discriminate].
  - cbn [wf] in W. apply andb_true_iff in W. destruct W as [W Wb]. apply andb_true_iff in W. destruct W as [_ Wa].
    rewrite raw_cmp. cbn [level]. apply head_facts_app.
    apply (head_facts_weaken (Nat.max 5 (level a))); [apply render_at_head; apply IHa; exact Wa|lia|intros H; discriminate].
  - rewrite raw_not. exists TNot, (render_at 4 a). cbn [level]. repeat split; try lia; try (intros H; discriminate H).
  - cbn [wf] in W. apply andb_true_iff in W. destruct W as [Wl Wf].
    destruct l as [|x [|y t]]; try discriminate. rewrite raw_and. cbn [map]. rewrite sep_cons2. apply head_facts_app.
    inversion IHl as [|? ? Hx _]; subst. cbn [forallb] in Wf. apply andb_true_iff in Wf. destruct Wf as [Wx _].
    apply (head_facts_weaken (Nat.max 3 (level x))); [apply render_at_head; apply Hx; exact Wx|cbn [level]; lia|cbn [level]; intros H; discriminate].
  - cbn [wf] in W. apply andb_true_iff in W. destruct W as [Wl Wf].
    destruct l as [|x [|y t]]; try discriminate. rewrite raw_or. cbn [map]. rewrite sep_cons2. apply head_facts_app.
    inversion IHl as [|? ? Hx _]; subst. cbn [forallb] in Wf. apply andb_true_iff in Wf. destruct Wf as [Wx _].
    apply (head_facts_weaken (Nat.max 2 (level x))); [apply render_at_head; apply Hx; exact Wx|cbn [level]; lia|cbn [level]; intros H; discriminate].
  - cbn [wf] in W. apply andb_true_iff in W. destruct W as [Wf Wa].
    rewrite raw_call. apply head_facts_app. cbn [level]. unfold wrap. destruct (callee_like f) eqn:C; cbn [negb].
    + assert (Lf : level f = 8%nat) by (destruct f; try discriminate; reflexivity).
      rewrite <- Lf. apply IHf. exact Wf.
    + exists TLP, (raw f ++ [TRP]). repeat split; discriminate.
Qed.

Lemma hdc_of_head L M ts more : head_facts M ts -> (L < M <= 8)%nat -> hdc L (ts ++ more).
Proof.
  intros [t [r [E [St [A B]]]]] H. subst. split; intros ->; cbn [hd_tok hd app].
  - split; [intros X; subst; discriminate|]. apply B. lia.
  - apply A. lia.
Qed.

(* lengths *)
Lemma render_at_length L e : (length (raw e) <= length (render_at L e) <= length (raw e) + 2)%nat.
Proof. unfold render_at, wrap, paren. destruct (Nat.ltb _ _); cbn [length]; rewrite ?app_length; cbn [length]; lia. Qed.

Lemma sep_length_in s (l : list (list tok)) x : In x l -> (length x <= length (sep s l))%nat.
Proof.
  induction l as [|y t IH]; [intros []|]. intros [->|H].
  - destruct t; [cbn [sep]; lia|rewrite sep_cons2, app_length; lia].
  - destruct t as [|z t']; [destruct H|]. rewrite sep_cons2, app_length. cbn [length]. specialize (IH H). lia.
Qed.

(* ------------------------------------------------------------------ what is shown for every tree *)
Definition RawOk (e : expr) : Prop := forall n rest, (length (raw e) < n)%nat -> stops (level e) rest -> P n (level e) (raw e ++ rest) = Ok e rest.
Definition Raw6 (e : expr) : Prop := forall n rest, (length (raw e) < n)%nat -> stops 7 rest ->
  p_mul (p_prim n) (raw e ++ rest) = mul_loop (p_prim n) (length rest) e rest.
Definition Raw5 (e : expr) : Prop := forall n rest, (length (raw e) < n)%nat -> stops 6 rest ->
  p_add (p_prim n) (raw e ++ rest) = add_loop (p_prim n) (length rest) e rest.

Definition Sany (e : expr) : Prop := forall n L rest, (1 <= L <= 8)%nat -> (length (render_at L e) < n)%nat -> stops L rest ->
  P n L (render_at L e ++ rest) = Ok e rest.
Definition S6 (e : expr) : Prop := forall n rest, (length (render_at 6 e) < n)%nat -> stops 7 rest ->
  p_mul (p_prim n) (render_at 6 e ++ rest) = mul_loop (p_prim n) (length rest) e rest.
Definition S5 (e : expr) : Prop := forall n rest, (length (render_at 5 e) < n)%nat -> stops 6 rest ->
  p_add (p_prim n) (render_at 5 e ++ rest) = add_loop (p_prim n) (length rest) e rest.
(* a callee: the call suffixes that follow are read by the same loop *)
Definition S8 (e : expr) : Prop := callee_like e = true -> forall n rest, (length (raw e) <= n)%nat ->
  p_prim (S n) (raw e ++ rest) = postfix (p_prim n) (length rest) e rest.

Lemma hdc_lp L ts : hdc L (TLP :: ts).
Proof. split; intros ->; cbn [hd_tok hd]; [split|]; discriminate. Qed.

Lemma lift_raw e : RawOk e -> head_facts (level e) (raw e) ->
  forall n L rest, (1 <= L <= level e)%nat -> (length (raw e) < n)%nat -> stops L rest -> P n L (raw e ++ rest) = Ok e rest.
Proof.
  intros R H n L rest HL Hn St. pose proof (level_range e) as LR.
  apply (lift n (level e - L) L); [lia|lia| | |exact St].
  - replace (L + (level e - L))%nat with (level e) by lia. apply R; [exact Hn|apply (stops_mono L); [exact St|lia]].
  - intros L' HL'. apply (hdc_of_head L' (level e)); [exact H|lia].
Qed.

Lemma paren_prim e : RawOk e -> head_facts (level e) (raw e) ->
  forall n rest, (length (raw e) + 2 < n)%nat -> stops 8 rest -> p_prim n (TLP :: raw e ++ TRP :: rest) = Ok e rest.
Proof.
  intros R H n rest Hn St. destruct n as [|n]; [lia|]. cbn [p_prim].
  pose proof (lift_raw e R H n 1 (TRP :: rest)) as K. cbn [P] in K. rewrite K.
  - apply postfix_stop. exact St.
  - pose proof (level_range e). lia.
  - lia.
  - cbn [stops tlev]. lia.
Qed.

Lemma paren_app (ts rest : list tok) : paren ts ++ rest = TLP :: ts ++ TRP :: rest.
Proof. unfold paren. cbn [app]. rewrite <- app_assoc. reflexivity. Qed.

Lemma wrap_S e : RawOk e -> head_facts (level e) (raw e) -> Sany e.
Proof.
  intros R H n L rest HL Hn St. unfold render_at, wrap in *. destruct (Nat.ltb (level e) L) eqn:E.
  - rewrite paren_app. unfold paren in Hn. cbn [length] in Hn. rewrite app_length in Hn. cbn [length] in Hn.
    apply (lift n (8 - L) L); [lia|lia| | |exact St].
    + replace (L + (8 - L))%nat with 8%nat by lia. cbn [P]. apply paren_prim; [exact R|exact H|lia|apply (stops_mono L); [exact St|lia]].
    + intros L' _. apply hdc_lp.
  - apply Nat.ltb_ge in E. apply lift_raw; [exact R|exact H|lia|exact Hn|exact St].
Qed.

Lemma wrap_S6 e : RawOk e -> head_facts (level e) (raw e) -> (level e = 6%nat -> Raw6 e) -> S6 e.
Proof.
  intros R H R6 n rest Hn St. pose proof (wrap_S e R H) as Se.
  destruct (Nat.eq_dec (level e) 6) as [E6|N6].
  - specialize (R6 E6). unfold render_at, wrap in *. rewrite E6 in *. cbn [Nat.ltb Nat.leb] in *. apply R6; [exact Hn|exact St].
  - assert (E : render_at 6 e = render_at 7 e).
    { unfold render_at. destruct (Nat.ltb (level e) 6) eqn:A, (Nat.ltb (level e) 7) eqn:B; try reflexivity.
      - apply Nat.ltb_lt in A. apply Nat.ltb_ge in B. lia.
      - apply Nat.ltb_ge in A. apply Nat.ltb_lt in B. lia. }
    rewrite E in *. pose proof (Se n 7%nat rest ltac:(lia) Hn St) as K. cbn [P] in K.
    unfold p_mul. rewrite K. reflexivity.
Qed.

Lemma wrap_S5 e : RawOk e -> head_facts (level e) (raw e) -> (level e = 5%nat -> Raw5 e) -> S5 e.
Proof.
  intros R H R5 n rest Hn St. pose proof (wrap_S e R H) as Se.
  destruct (Nat.eq_dec (level e) 5) as [E5|N5].
  - specialize (R5 E5). unfold render_at, wrap in *. rewrite E5 in *. cbn [Nat.ltb Nat.leb] in *. apply R5; [exact Hn|exact St].
  - assert (E : render_at 5 e = render_at 6 e).
    { unfold render_at. destruct (Nat.ltb (level e) 5) eqn:A, (Nat.ltb (level e) 6) eqn:B; try reflexivity.
      - apply Nat.ltb_lt in A. apply Nat.ltb_ge in B. lia.
      - apply Nat.ltb_ge in A. apply Nat.ltb_lt in B. lia. }
    rewrite E in *. pose proof (Se n 6%nat rest ltac:(lia) Hn St) as K. cbn [P] in K.
    unfold p_add. rewrite K. reflexivity.
Qed.

(* ------------------------------------------------------------------ clause lists and argument lists *)
Lemma render_at_1 e : render_at 1 e = raw e.
Proof. unfold render_at, wrap. pose proof (level_range e). destruct (Nat.ltb (level e) 1) eqn:E; [apply Nat.ltb_lt in E; lia|reflexivity]. Qed.

Lemma and_sep n : forall l acc k rest, l <> [] -> Forall Sany l -> (forall x, In x l -> (length (render_at 3 x) < n)%nat) ->
  (length (TAnd :: sep TAnd (map (render_at 3) l) ++ rest) <= k)%nat -> stops 2 rest ->
  and_loop (p_prim n) k acc (TAnd :: sep TAnd (map (render_at 3) l) ++ rest) = Ok (EAndL (acc ++ l)) rest.
Proof.
  induction l as [|y t IH]; intros acc k rest NE F Len Hk St; [contradiction|].
  inversion F as [|? ? Fy Ft]; subst.
  destruct k as [|k]; [cbn [length] in Hk; lia|]. cbn [and_loop].
  destruct t as [|z t'].
  - cbn [map sep].
    pose proof (Fy n 3%nat rest ltac:(lia) (Len y (or_introl eq_refl)) (stops_mono 2 3 rest St ltac:(lia))) as K. cbn [P] in K. rewrite K.
    apply and_stop. exact St.
  - rewrite map_cons, sep_cons_ne by apply map_ne. rewrite <- app_assoc. cbn [app].
    pose proof (Fy n 3%nat (TAnd :: sep TAnd (map (render_at 3) (z :: t')) ++ rest) ltac:(lia) (Len y (or_introl eq_refl))) as K. cbn [P] in K.
    rewrite K; [|cbn [stops tlev]; lia].
    rewrite (IH (acc ++ [y]) k rest); [rewrite <- app_assoc; reflexivity|discriminate|exact Ft|intros x Hx; apply Len; right; exact Hx| |exact St].
    rewrite map_cons, sep_cons_ne in Hk by apply map_ne. cbn [length] in *. rewrite <- app_assoc in Hk. rewrite app_length in Hk. cbn [length app] in Hk. lia.
Qed.

Lemma or_sep n : forall l acc k rest, l <> [] -> Forall Sany l -> (forall x, In x l -> (length (render_at 2 x) < n)%nat) ->
  (length (TOr :: sep TOr (map (render_at 2) l) ++ rest) <= k)%nat -> stops 1 rest ->
  or_loop (p_prim n) k acc (TOr :: sep TOr (map (render_at 2) l) ++ rest) = Ok (EOrL (acc ++ l)) rest.
Proof.
  induction l as [|y t IH]; intros acc k rest NE F Len Hk St; [contradiction|].
  inversion F as [|? ? Fy Ft]; subst.
  destruct k as [|k]; [cbn [length] in Hk; lia|]. cbn [or_loop].
  destruct t as [|z t'].
  - cbn [map sep].
    pose proof (Fy n 2%nat rest ltac:(lia) (Len y (or_introl eq_refl)) (stops_mono 1 2 rest St ltac:(lia))) as K. cbn [P] in K. rewrite K.
    apply or_stop. exact St.
  - rewrite map_cons, sep_cons_ne by apply map_ne. rewrite <- app_assoc. cbn [app].
    pose proof (Fy n 2%nat (TOr :: sep TOr (map (render_at 2) (z :: t')) ++ rest) ltac:(lia) (Len y (or_introl eq_refl))) as K. cbn [P] in K.
    rewrite K; [|cbn [stops tlev]; lia].
    rewrite (IH (acc ++ [y]) k rest); [rewrite <- app_assoc; reflexivity|discriminate|exact Ft|intros x Hx; apply Len; right; exact Hx| |exact St].
    rewrite map_cons, sep_cons_ne in Hk by apply map_ne. cbn [length] in *. rewrite <- app_assoc in Hk. rewrite app_length in Hk. cbn [length app] in Hk. lia.
Qed.

Lemma args_step prim k acc t r : starter t = true ->
  args_loop prim (Datatypes.S k) acc (t :: r) =
  match p_or prim (t :: r) with
  | Ok e r0 => match r0 with
               | TRP :: _ => args_loop prim k (acc ++ [e]) r0
               | TComma :: r' => args_loop prim k (acc ++ [e]) r'
               | _ => ErrL
               end
  | Err => ErrL | Fuel => FuelL
  end.
Proof. destruct t; try discriminate; reflexivity. Qed.

Lemma args_done prim k acc rest : args_loop prim k acc (TRP :: rest) = OkL acc rest.
Proof. destruct k; reflexivity. Qed.

Lemma args_sep n : forall l acc k rest, Forall Sany l -> (forall x, In x l -> wf x = true) ->
  (forall x, In x l -> (length (render_at 1 x) < n)%nat) ->
  (length (sep TComma (map (render_at 1) l) ++ TRP :: rest) <= k)%nat ->
  args_loop (p_prim n) k acc (sep TComma (map (render_at 1) l) ++ TRP :: rest) = OkL (acc ++ l) rest.
Proof.
  induction l as [|y t IH]; intros acc k rest F W Len Hk.
  - cbn [map sep app]. rewrite args_done, app_nil_r. reflexivity.
  - inversion F as [|? ? Fy Ft]; subst.
    pose proof (raw_head y (W y (or_introl eq_refl))) as [t0 [r0 [E0 [St0 _]]]].
    pose proof (Len y (or_introl eq_refl)) as Ly. rewrite render_at_1, E0 in Ly.
    destruct k as [|k].
    { rewrite render_at_1 in Hk || idtac. destruct t; cbn [map sep] in Hk; rewrite ?sep_cons2, ?render_at_1, E0 in Hk; cbn [length app] in Hk; lia. }
    destruct t as [|z t'].
    + cbn [map sep] in *. rewrite render_at_1 in *. rewrite E0 in *. cbn [app]. rewrite args_step by exact St0.
      pose proof (Fy n 1%nat (TRP :: rest) ltac:(lia)) as K. rewrite render_at_1, E0 in K. cbn [P app] in K.
      rewrite K; [|exact Ly|cbn [stops tlev]; lia].
      apply args_done.
    + rewrite map_cons, sep_cons_ne by apply map_ne. rewrite map_cons, sep_cons_ne in Hk by apply map_ne.
      rewrite <- app_assoc. rewrite <- app_assoc in Hk. cbn [app]. cbn [app] in Hk.
      pose proof (Fy n 1%nat (TComma :: sep TComma (map (render_at 1) (z :: t')) ++ TRP :: rest) ltac:(lia)) as K.
      cbn [P] in K. rewrite render_at_1, E0 in K. rewrite render_at_1, E0. rewrite render_at_1, E0 in Hk. cbn [app] in K, Hk |- *.
      rewrite args_step by exact St0.
      rewrite K; [|exact Ly|cbn [stops tlev]; lia].
      rewrite (IH (acc ++ [y]) k rest); [rewrite <- app_assoc; reflexivity|exact Ft|intros x Hx; apply W; right; exact Hx|intros x Hx; apply Len; right; exact Hx|].
      cbn [length] in Hk. rewrite app_length in Hk. cbn [length] in Hk. lia.
Qed.

(* ------------------------------------------------------------------ the main induction *)
Definition Good (e : expr) : Prop := wf e = true -> Sany e /\ S5 e /\ S6 e /\ S8 e.

Lemma finish e : wf e = true -> RawOk e -> (level e = 5%nat -> Raw5 e) -> (level e = 6%nat -> Raw6 e) -> S8 e -> Sany e /\ S5 e /\ S6 e /\ S8 e.
Proof.
  intros W R R5 R6 C. pose proof (raw_head e W) as H.
  repeat split; [apply wrap_S|apply wrap_S5|apply wrap_S6|exact C]; assumption.
Qed.

Lemma not_callee e : callee_like e = false -> S8 e.
Proof. intros H C. congruence. Qed.

Lemma forall_good l : Forall Good l -> forallb wf l = true -> Forall Sany l /\ (forall x, In x l -> wf x = true).
Proof.
  induction 1 as [|x t Hx Ht IH]; intros W; [split; [constructor|intros ? []]|].
  cbn [forallb] in W. apply andb_true_iff in W. destruct W as [Wx Wt]. destruct (IH Wt) as [A B]. split.
  - constructor; [apply (Hx Wx)|exact A].
  - intros y [<-|Hy]; [exact Wx|apply B; exact Hy].
Qed.

Lemma prim_prog n : prog (p_prim n). Proof. apply p_prim_prog. Qed.

Theorem all_good e : Good e.
Proof.
  induction e as [z|b|v|o a b IHa IHb|r a b IHa IHb|a IHa|l IHl|l IHl|f args IHf IHargs] using expr_ind2; intros W.
  - (* EInt *)
    apply finish; [exact W| | | |apply not_callee; reflexivity].
    + intros n rest Hn St. cbn [raw level] in *. destruct (z <? 0)%Z eqn:Z0.
      * cbn [P app]. unfold p_unary. rewrite Z.opp_involutive. reflexivity.
      * cbn [length] in Hn. destruct n as [|n]; [lia|]. reflexivity.
    + cbn [level]. destruct (z <? 0)%Z; discriminate.
    + cbn [level]. destruct (z <? 0)%Z; discriminate.
  - (* EBool *)
    apply finish; [exact W| | | |apply not_callee; reflexivity]; try (cbn [level]; discriminate).
    intros n rest Hn St. cbn [raw length] in Hn. destruct n as [|n]; [lia|]. reflexivity.
  - (* EVar *)
    apply finish; [exact W| | | |]; try (cbn [level]; discriminate).
    + intros n rest Hn St. cbn [raw length] in Hn. destruct n as [|n]; [lia|]. cbn [raw level P app p_prim]. apply postfix_stop. exact St.
    + intros _ n rest Hn. reflexivity.
  - (* EBin *)
    cbn [wf] in W. apply andb_true_iff in W. destruct W as [W Wb]. apply andb_true_iff in W. destruct W as [Wo Wa].
    apply andb_true_iff in Wo. destruct Wo as [O0 O4]. apply Z.leb_le in O0. apply Z.leb_le in O4.
    destruct (IHa Wa) as [Sa [S5a [S6a _]]]. destruct (IHb Wb) as [Sb _].
    assert (W : wf (EBin o a b) = true).
    { cbn [wf]. rewrite Wa, Wb. replace (0 <=? o)%Z with true by (symmetry; apply Z.leb_le; lia). replace (o <=? 4)%Z with true by (symmetry; apply Z.leb_le; lia). reflexivity. }
    destruct (o <? 2)%Z eqn:O2.
    + apply Z.ltb_lt in O2.
      assert (R5 : Raw5 (EBin o a b)).
      { intros n rest Hn St. rewrite raw_bin in *. replace (o <? 2)%Z with true in * by (symmetry; apply Z.ltb_lt; lia).
        rewrite app_length in Hn. cbn [length] in Hn. rewrite <- app_assoc. cbn [app].
        assert (Bt : (bin_tok o = TPlus /\ o = 0%Z) \/ (bin_tok o = TMinus /\ o = 1%Z)).
        { assert (o = 0 \/ o = 1)%Z as [->| ->] by lia; [left|right]; split; reflexivity. }
        rewrite (S5a n (bin_tok o :: render_at 6 b ++ rest)); [|lia|destruct Bt as [[-> _]|[-> _]]; cbn [stops tlev]; lia].
        pose proof (Sb n 6%nat rest ltac:(lia) ltac:(lia) St) as K. cbn [P] in K.
        destruct Bt as [[-> ->]|[-> ->]]; cbn [length add_loop add_op]; rewrite K;
          apply (add_irrel _ (prim_prog n)); rewrite ?app_length; lia. }
      apply finish; [exact W| |intros _; exact R5|cbn [level]; replace (o <? 2)%Z with true by (symmetry; apply Z.ltb_lt; lia); discriminate|apply not_callee; reflexivity].
      intros n rest Hn St. cbn [level] in *. replace (o <? 2)%Z with true in * by (symmetry; apply Z.ltb_lt; lia). cbn [P].
      rewrite (R5 n rest Hn (stops_mono 5 6 rest St ltac:(lia))). apply add_stop. exact St.
    + apply Z.ltb_ge in O2.
      assert (R6 : Raw6 (EBin o a b)).
      { intros n rest Hn St. rewrite raw_bin in *. replace (o <? 2)%Z with false in * by (symmetry; apply Z.ltb_ge; lia).
        rewrite app_length in Hn. cbn [length] in Hn. rewrite <- app_assoc. cbn [app].
        assert (Bt : bin_tok o = TMul (o - 2)).
        { unfold bin_tok. replace (o =? 0)%Z with false by (symmetry; apply Z.eqb_neq; lia). replace (o =? 1)%Z with false by (symmetry; apply Z.eqb_neq; lia). reflexivity. }
        rewrite Bt.
        rewrite (S6a n (TMul (o - 2) :: render_at 7 b ++ rest)); [|lia|cbn [stops tlev]; lia].
        pose proof (Sb n 7%nat rest ltac:(lia) ltac:(lia) St) as K. cbn [P] in K.
        cbn [length mul_loop]. rewrite K. replace (2 + (o - 2))%Z with o by lia.
        apply (mul_irrel _ (prim_prog n)); rewrite ?app_length; lia. }
      apply finish; [exact W| |cbn [level]; replace (o <? 2)%Z with false by (symmetry; apply Z.ltb_ge; lia); discriminate|intros _; exact R6|apply not_callee; reflexivity].
      intros n rest Hn St. cbn [level] in *. replace (o <? 2)%Z with false in * by (symmetry; apply Z.ltb_ge; lia). cbn [P].
      rewrite (R6 n rest Hn (stops_mono 6 7 rest St ltac:(lia))). apply mul_stop. exact St.
  - (* ECmp *)
    pose proof W as W0. cbn [wf] in W. apply andb_true_iff in W. destruct W as [W Wb]. apply andb_true_iff in W. destruct W as [_ Wa].
    destruct (IHa Wa) as [Sa _]. destruct (IHb Wb) as [Sb _].
    apply finish; [exact W0| | | |apply not_callee; reflexivity]; try (cbn [level]; discriminate).
    intros n rest Hn St. cbn [level P] in *. rewrite raw_cmp in *. rewrite app_length in Hn. cbn [length] in Hn.
    rewrite <- app_assoc. cbn [app]. unfold p_rel.
    pose proof (Sa n 5%nat (TRel r :: render_at 5 b ++ rest) ltac:(lia) ltac:(lia)) as Ka. cbn [P] in Ka. rewrite Ka by (cbn [stops tlev]; lia).
    cbn [length rel_loop].
    pose proof (Sb n 5%nat rest ltac:(lia) ltac:(lia) (stops_mono 4 5 rest St ltac:(lia))) as Kb. cbn [P] in Kb. rewrite Kb.
    rewrite rel_stop by exact St. reflexivity.
  - (* ENot *)
    pose proof W as W0. cbn [wf] in W. destruct (IHa W) as [Sa _].
    apply finish; [exact W0| | | |apply not_callee; reflexivity]; try (cbn [level]; discriminate).
    intros n rest Hn St. cbn [level P] in *. rewrite raw_not in *. cbn [length] in Hn. cbn [app]. unfold p_not.
    pose proof (Sa n 4%nat rest ltac:(lia) ltac:(lia) (stops_mono 3 4 rest St ltac:(lia))) as K. cbn [P] in K. rewrite K. reflexivity.
  - (* EAndL *)
    pose proof W as W0. cbn [wf] in W. apply andb_true_iff in W. destruct W as [Wl Wf].
    destruct (forall_good l IHl Wf) as [Fs Fw].
    apply finish; [exact W0| | | |apply not_callee; reflexivity]; try (cbn [level]; discriminate).
    intros n rest Hn St. cbn [level P] in *. rewrite raw_and in *.
    assert (Len : forall x, In x l -> (length (render_at 3 x) < n)%nat).
    { intros x Hx. pose proof (sep_length_in TAnd (map (render_at 3) l) (render_at 3 x) (in_map _ _ _ Hx)). lia. }
    destruct l as [|x [|y t]]; try discriminate.
    rewrite map_cons, sep_cons_ne in * by apply map_ne. rewrite <- app_assoc. cbn [app]. unfold p_and.
    inversion Fs as [|? ? Fx Ft]; subst.
    pose proof (Fx n 3%nat (TAnd :: sep TAnd (map (render_at 3) (y :: t)) ++ rest) ltac:(lia) (Len x (or_introl eq_refl))) as K. cbn [P] in K.
    rewrite K by (cbn [stops tlev]; lia).
    rewrite (and_sep n (y :: t) [x] _ rest); [reflexivity|discriminate|exact Ft|intros z Hz; apply Len; right; exact Hz|apply Nat.le_refl|exact St].
  - (* EOrL *)
    pose proof W as W0. cbn [wf] in W. apply andb_true_iff in W. destruct W as [Wl Wf].
    destruct (forall_good l IHl Wf) as [Fs Fw].
    apply finish; [exact W0| | | |apply not_callee; reflexivity]; try (cbn [level]; discriminate).
    intros n rest Hn St. cbn [level P] in *. rewrite raw_or in *.
    assert (Len : forall x, In x l -> (length (render_at 2 x) < n)%nat).
    { intros x Hx. pose proof (sep_length_in TOr (map (render_at 2) l) (render_at 2 x) (in_map _ _ _ Hx)). lia. }
    destruct l as [|x [|y t]]; try discriminate.
    rewrite map_cons, sep_cons_ne in * by apply map_ne. rewrite <- app_assoc. cbn [app]. unfold p_or.
    inversion Fs as [|? ? Fx Ft]; subst.
    pose proof (Fx n 2%nat (TOr :: sep TOr (map (render_at 2) (y :: t)) ++ rest) ltac:(lia) (Len x (or_introl eq_refl))) as K. cbn [P] in K.
    rewrite K by (cbn [stops tlev]; lia).
    rewrite (or_sep n (y :: t) [x] _ rest); [reflexivity|discriminate|exact Ft|intros z Hz; apply Len; right; exact Hz|apply Nat.le_refl|exact St].
  - (* ECall *)
    pose proof W as W0. cbn [wf] in W. apply andb_true_iff in W. destruct W as [Wf Wa].
    destruct (IHf Wf) as [Sf [_ [_ S8f]]]. destruct (forall_good args IHargs Wa) as [Fs Fw].
    assert (C : S8 (ECall f args)).
    { intros _ n rest Hn. rewrite raw_call in *. rewrite <- app_assoc. cbn [app]. rewrite <- app_assoc. cbn [app].
      set (A := sep TComma (map (render_at 1) args)) in *.
      pose proof (raw_head f Wf) as [t0 [r0 [E0 _]]].
      rewrite !app_length in Hn. cbn [length] in Hn. rewrite app_length in Hn. cbn [length] in Hn.
      assert (LenA : forall x, In x args -> (length (render_at 1 x) < n)%nat).
      { intros x Hx. pose proof (sep_length_in TComma (map (render_at 1) args) (render_at 1 x) (in_map _ _ _ Hx)). fold A in H.
        assert (1 <= length (wrap (negb (callee_like f)) (raw f)))%nat by (unfold wrap, paren; destruct (negb _); [cbn [length]; lia|rewrite E0; cbn [length]; lia]). lia. }
      assert (Step : forall R, R = TLP :: A ++ TRP :: rest ->
                p_prim (Datatypes.S n) (wrap (negb (callee_like f)) (raw f) ++ R) = postfix (p_prim n) (length R) f R).
      { intros R ER. unfold wrap. destruct (callee_like f) eqn:CL; cbn [negb].
        - apply S8f; [exact CL|]. cbn [negb wrap] in Hn. unfold wrap in Hn. lia.
        - rewrite paren_app. cbn [p_prim]. unfold wrap, paren in Hn. cbn [negb length] in Hn. rewrite app_length in Hn. cbn [length] in Hn.
          pose proof (Sf n 1%nat (TRP :: R) ltac:(lia)) as K. rewrite render_at_1 in K. cbn [P] in K.
          rewrite K; [reflexivity|lia|cbn [stops tlev]; lia]. }
      rewrite (Step _ eq_refl). cbn [length postfix]. subst A.
      rewrite (args_sep n args [] _ rest Fs Fw LenA (Nat.le_refl _)). cbn [app].
      apply (postfix_irrel _ (prim_prog n)); rewrite ?app_length; cbn [length]; lia. }
    apply finish; [exact W0| | | |exact C]; try (cbn [level]; discriminate).
    intros n rest Hn St. cbn [level P]. destruct n as [|n]; [lia|].
    rewrite (C eq_refl n rest ltac:(lia)). apply postfix_stop. exact St.
Qed.

(* ------------------------------------------------------------------ the statements used in Props *)
Theorem parse_render e : wf e = true -> parse (render e) = Ok e [].
Proof.
  intros W. destruct (all_good e W) as [Se _]. unfold parse, parse_fuel, render.
  pose proof (Se (Datatypes.S (length (raw e))) 1%nat [] ltac:(lia)) as K. rewrite render_at_1, app_nil_r in K. cbn [P] in K.
  rewrite K; [reflexivity|lia|exact I].
Qed.

(* two texts that are read as the same tree: the canonical text is a normal form *)
Corollary render_injective a b : wf a = true -> wf b = true -> render a = render b -> a = b.
Proof. intros Wa Wb E. pose proof (parse_render a Wa) as Pa. rewrite E, (parse_render b Wb) in Pa. congruence. Qed.
