(* C14: ANY gap - blanks, tabs, CR, LF and '#' comments up to their line feed, in any number and order - read in ANY
   scanner state outside strings, patterns and comments is worth exactly one blank: the rest of the text yields the same
   token values and types.  Facts about the GENERATED scanner step, re-proved on every run. *)
From Coq Require Import ZArith List Bool Lia.
From Ckl Require Import Prelude.PyPrelude Prelude.LexPrelude Gen.LexGen Model.LexRun Proofs.LexProofs Proofs.LexLayout.
Import ListNotations.
Open Scope Z_scope.

(* the states in which a token is being read: identifier, operators, '/', numbers *)
Definition scan_state (st : Z) : bool := mem_z st [1; 2; 21; 5; 7; 70; 71; 72; 8; 10].
Lemma scan_not_literal st : scan_state st = true -> literal_state st = false /\ (st =? 0) = false.
Proof.
  unfold scan_state. cbn. repeat rewrite orb_true_iff. intros H.
  repeat match goal with H : _ \/ _ |- _ => destruct H as [H|H] end; try discriminate; apply Z.eqb_eq in H; subst st; split; reflexivity.
Qed.
(* in the blank state and right after a '/' no token text has been collected *)
Definition tidy (s : lstate) : Prop := l_state s = 0 \/ l_state s = 5 -> l_token s = [].

Ltac absurd_scan :=
  match goal with
  | L : scan_state ?st = true |- _ => is_var st; unfold scan_state in L; cbn in L;
      repeat match goal with H : (st =? _) = false |- _ => rewrite H in L end; discriminate L
  end.
Ltac absurd_bool :=
  match goal with
  | H : _ && false = true |- _ => rewrite andb_false_r in H; discriminate H
  | H : false && _ = true |- _ => discriminate H
  | H : true = false |- _ => discriminate H
  | H : false = true |- _ => discriminate H
  end.

(* while a token is being read a '#' ends it exactly as a blank does (and is read again) *)
Lemma hash_like_blank s : scan_state (l_state s) = true -> erase_res (lex_step s 35) = erase_res (lex_step s 32).
Proof.
  intros L. destruct s as [st tk tb ln cl sl sc up]. cbn [l_state] in L.
  unfold lex_step; cbn [l_state l_token l_tempbuf l_line l_col l_sline l_scol l_upd];
    eval_closed_tests; crunch_if; try reflexivity; try absurd_scan; know_state; try discriminate; try absurd_bool.
Qed.

(* what a blank does while a token is being read: it ends the token, is read again - in the blank state or in another
   token state -, and no token text is left over where there should be none *)
Definition blank_facts (s : lstate) : Prop :=
  match lex_step s 32 with
  | Step s' e c => c = false /\ tidy s' /\ ((l_state s' =? 0) = true \/ scan_state (l_state s') = true)
  | LexError _ => True
  end.
Lemma blank_step_facts s : scan_state (l_state s) = true -> tidy s -> blank_facts s.
Proof.
  intros L W. destruct s as [st tk tb ln cl sl sc up]. unfold tidy in W. cbn [l_state l_token] in L, W. unfold blank_facts, tidy, lex_step.
  cbn [l_state l_token l_tempbuf l_line l_col l_sline l_scol l_upd];
    eval_closed_tests; crunch_if; try exact I; try absurd_scan; know_state; try discriminate; try absurd_bool;
    try match goal with H : negb (is_empty ?t) = false |- _ => destruct t; [|discriminate H] end;
    try match goal with W : ?a = ?a \/ _ -> _ = [] |- _ => specialize (W (or_introl eq_refl)); subst end;
    try match goal with W : _ \/ ?a = ?a -> _ = [] |- _ => specialize (W (or_intror eq_refl)); subst end;
    (split; [reflexivity|]); (split; [cbn; intros [H|H]; first [reflexivity | discriminate H]|cbn; first [left; reflexivity | right; reflexivity]]).
Qed.

Lemma lstep f s ch rest acc s' e : lex_step s ch = Step s' e true -> lex_loop (S f) s (ch :: rest) acc = lex_loop f s' rest (acc ++ e).
Proof. intros H. cbn [lex_loop]. rewrite H. reflexivity. Qed.

(* the blank state, whether or not the position counters are to be advanced for the next character *)
Definition blank0 (s : lstate) : Prop := l_state s = 0 /\ l_token s = [].
Lemma blank0_ws s ch : blank0 s -> mem_z ch [32; 9; 13; 10] = true -> exists s', lex_step s ch = Step s' [] true /\ clean s' /\ l_tempbuf s' = l_tempbuf s.
Proof.
  intros [A B] H. destruct s as [st tk tb ln cl sl sc up]. cbn in A, B. subst.
  cbn in H. repeat rewrite orb_true_iff in H.
  destruct H as [H|[H|[H|[H|H]]]]; try discriminate; apply Z.eqb_eq in H; subst ch; destruct up;
    eexists; (split; [vm_compute; reflexivity|]); repeat split.
Qed.
Lemma blank0_hash s : blank0 s -> exists s', lex_step s 35 = Step s' [] true /\ in_comment s' /\ l_tempbuf s' = l_tempbuf s.
Proof.
  intros [A B]. destruct s as [st tk tb ln cl sl sc up]. cbn in A, B. subst.
  destruct up; eexists; (split; [vm_compute; reflexivity|]); repeat split.
Qed.
Lemma blank0_erase s s2 : erase_state s = erase_state s2 -> blank0 s -> blank0 s2.
Proof. unfold erase_state, blank0. intros H [A B]. injection H as H1 H2 H3 H4. split; congruence. Qed.

(* a gap read from the blank state leaves the blank state clean and emits nothing *)
Lemma gap_from_blank0 g : forall s rest acc f, gap_ok false g = true -> g <> [] -> blank0 s ->
  exists s', lex_loop (length g + f) s (g ++ rest) acc = lex_loop f s' rest acc /\ clean s' /\ l_tempbuf s' = l_tempbuf s.
Proof.
  destruct g as [|c g]; intros s rest acc f G N B; [congruence|]. cbn [gap_ok] in G. cbn [length app Nat.add].
  destruct (c =? 35) eqn:E35.
  - apply Z.eqb_eq in E35. subst c. destruct (blank0_hash s B) as [s1 [S1 [K1 T1]]].
    rewrite (lstep _ _ _ _ _ _ _ S1), app_nil_r.
    destruct (gap_run g true s1 rest acc f G K1) as [s2 [R2 [C2 T2]]]. exists s2. rewrite R2. repeat split; try apply C2. congruence.
  - apply andb_true_iff in G. destruct G as [G1 G2].
    destruct (blank0_ws s c B G1) as [s1 [S1 [K1 T1]]]. rewrite (lstep _ _ _ _ _ _ _ S1), app_nil_r.
    destruct (gap_run g false s1 rest acc f G2 K1) as [s2 [R2 [C2 T2]]]. exists s2. rewrite R2. repeat split; try apply C2. congruence.
Qed.

Lemma gap_head c g : gap_ok false (c :: g) = true -> c = 35 \/ mem_z c [32; 9; 13; 10] = true.
Proof. cbn [gap_ok]. destruct (c =? 35) eqn:E; [left; apply Z.eqb_eq; exact E|]. intros H. apply andb_true_iff in H. right. apply H. Qed.

Lemma clean_states_erase s1 s3 t : clean s1 -> clean s3 -> l_tempbuf s1 = t -> l_tempbuf s3 = t -> erase_state s1 = erase_state s3.
Proof. intros [A1 [A2 A3]] [B1 [B2 B3]] T1 T3. unfold erase_state. rewrite A1, A2, A3, B1, B2, B3, T1, T3. reflexivity. Qed.

Lemma erase_tempbuf s s2 : erase_state s = erase_state s2 -> l_tempbuf s = l_tempbuf s2.
Proof. unfold erase_state. intros H. injection H. auto. Qed.

Lemma tidy_erase s s2 : erase_state s = erase_state s2 -> tidy s -> tidy s2.
Proof. unfold erase_state, tidy. intros H T. injection H as H1 H2 H3 H4. rewrite <- H1, <- H2. exact T. Qed.

(* [r]: slack for the at most two re-reads of a character on the way to the blank state *)
Theorem gap_equiv : forall r s, (rank s <= r)%nat -> (l_state s =? 0) = true \/ scan_state (l_state s) = true -> tidy s ->
  forall g rest acc1 acc2 s2 f, erase_state s = erase_state s2 -> map erase_tok acc1 = map erase_tok acc2 ->
  gap_ok false g = true -> g <> [] ->
  erase_lexres (lex_loop (length g + f + r) s (g ++ rest) acc1) = erase_lexres (lex_loop (1 + f + r) s2 (32 :: rest) acc2).
Proof.
  induction r as [|r IH]; intros s Hr HS Td g rest acc1 acc2 s2 f Hs Ha Hg Hne.
  - assert (Z0 : (l_state s =? 0) = true).
    { unfold rank in Hr. destruct (l_state s =? 70); [lia|]. destruct (l_state s =? 0); [reflexivity|lia]. }
    assert (B : blank0 s) by (split; [apply Z.eqb_eq; exact Z0|apply Td; left; apply Z.eqb_eq; exact Z0]).
    rewrite !Nat.add_0_r.
    destruct (gap_from_blank0 g s rest acc1 f Hg Hne B) as [s1 [R1 [C1 T1]]]. rewrite R1.
    destruct (blank0_ws s2 32 (blank0_erase s s2 Hs B) eq_refl) as [s3 [S3 [C3 T3]]].
    cbn [Nat.add]. rewrite (lstep _ _ _ _ _ _ _ S3), app_nil_r.
    apply loop_erase; [|exact Ha]. apply (clean_states_erase s1 s3 (l_tempbuf s)); try assumption. rewrite T3. symmetry. apply erase_tempbuf. exact Hs.
  - destruct (l_state s =? 0) eqn:Z0.
    + assert (B : blank0 s) by (split; [apply Z.eqb_eq; exact Z0|apply Td; left; apply Z.eqb_eq; exact Z0]).
      replace (length g + f + S r)%nat with (length g + (f + S r))%nat by lia.
      destruct (gap_from_blank0 g s rest acc1 (f + S r) Hg Hne B) as [s1 [R1 [C1 T1]]]. rewrite R1.
      destruct (blank0_ws s2 32 (blank0_erase s s2 Hs B) eq_refl) as [s3 [S3 [C3 T3]]].
      replace (1 + f + S r)%nat with (S (f + S r)) by lia. rewrite (lstep _ _ _ _ _ _ _ S3), app_nil_r.
      apply loop_erase; [|exact Ha]. apply (clean_states_erase s1 s3 (l_tempbuf s)); try assumption. rewrite T3. symmetry. apply erase_tempbuf. exact Hs.
    + destruct HS as [HS|HS]; [congruence|].
      destruct (scan_not_literal _ HS) as [HL _].
      destruct g as [|c g]; [congruence|].
      assert (E1 : erase_res (lex_step s c) = erase_res (lex_step s 32)).
      { destruct (gap_head c g Hg) as [->|W]; [apply hash_like_blank; exact HS|].
        cbn in W. repeat rewrite orb_true_iff in W. destruct W as [W|[W|[W|[W|W]]]]; try discriminate.
        - apply Z.eqb_eq in W. subst c. reflexivity.
        - apply ws_like_blank; [cbn; rewrite W; reflexivity|exact HL].
        - apply ws_like_blank; [cbn; rewrite W, ?orb_true_r; reflexivity|exact HL].
        - apply ws_like_blank; [cbn; rewrite W, ?orb_true_r; reflexivity|exact HL]. }
      pose proof (step_erase s 32) as E2. pose proof (step_erase s2 32) as E3. rewrite Hs in E2. rewrite <- E3 in E2. clear E3.
      pose proof (blank_step_facts s HS Td) as BF. unfold blank_facts in BF.
      pose proof (step_shape s 32) as SH. unfold step_ok in SH.
      replace (length (c :: g) + f + S r)%nat with (S (length (c :: g) + f + r)) by lia. replace (1 + f + S r)%nat with (S (1 + f + r)) by lia.
      cbn [lex_loop app].
      destruct (lex_step s 32) as [b1 eb cb|lb] eqn:SB.
      2:{ cbn in E1, E2. destruct (lex_step s c); [discriminate|]. destruct (lex_step s2 32); [discriminate|]. reflexivity. }
      destruct BF as [-> [Td' HS']]. destruct SH as [SH _]. destruct (SH eq_refl) as [Rk _].
      destruct (lex_step s c) as [a1 e1 c1|l1] eqn:S1; [|discriminate].
      destruct (lex_step s2 32) as [a2 e2 c2|l2] eqn:S2; [|discriminate].
      cbn in E1, E2. injection E1 as A1 A2 A3 A4 A5 A6. injection E2 as B1 B2 B3 B4 B5 B6. subst c1 c2.
      assert (Hs1 : erase_state a1 = erase_state b1) by (unfold erase_state; congruence).
      assert (Hs2 : erase_state b1 = erase_state a2) by (unfold erase_state; congruence).
      change (c :: g ++ rest) with ((c :: g) ++ rest). apply IH.
      * unfold rank in *. rewrite A1. lia.
      * rewrite A1. exact HS'.
      * apply (tidy_erase b1 a1); [symmetry; exact Hs1|exact Td'].
      * congruence.
      * rewrite !map_app, Ha, A5, B5. reflexivity.
      * exact Hg.
      * discriminate.
Qed.
