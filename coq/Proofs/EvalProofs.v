(* Control-flow, scoping and heap-frame theorems about the evaluator's combinators.
   Everything in Section Sem of Model/Eval.v is parametric in [ev], the meaning of
   sub-expressions: the theorems hold for every body, handler and nesting. *)
From Coq Require Import String.
From Coq Require Import ZArith List Bool Lia.
From Ckl Require Import Prelude.PyPrelude Model.Values Model.Containers Model.Sorting Model.Arith Model.SeqModel Model.Coll Model.Eval.
Import ListNotations.
Open Scope Z_scope.

Section P.
Variable ev : state -> loc -> expr -> state * outcome.

Definition is_val (o : outcome) : bool := match o with OV _ => true | _ => false end.
Definition is_loop_exit (o : outcome) : bool := match o with OBrk | OCont => true | _ => false end.
Definition is_fun_exit (o : outcome) : bool := match o with OBrk | OCont | ORet _ => true | _ => false end.

(* ------------------------------------------------------------ blocks (C05) *)
Lemma run_seq_app st env pre post last :
  run_seq ev st env (pre ++ post) last =
  let '(st1, o1) := run_seq ev st env pre last in
  match o1 with OV v => run_seq ev st1 env post v | _ => (st1, o1) end.
Proof.
  revert st last. induction pre as [|e pre IH]; intros st last; cbn [app run_seq]; [reflexivity|].
  destruct (ev st env e) as [st1 o]. destruct o; try reflexivity. apply IH.
Qed.

(* no statement after the failing (or exiting) one runs: the block's statements stop at the first
   statement whose outcome is not a plain value, in the state that statement left *)
Theorem no_later_statement st env pre e post last st1 v1 st2 o :
  run_seq ev st env pre last = (st1, OV v1) -> ev st1 env e = (st2, o) -> is_val o = false ->
  run_seq ev st env (pre ++ e :: post) last = (st2, o).
Proof.
  intros H1 H2 H3. rewrite run_seq_app, H1. cbn [run_seq]. rewrite H2. destruct o; try reflexivity; discriminate.
Qed.

(* the finally part runs exactly once, after the body and (if an error was raised) the handler
   selection, whatever the way the block is left: value, return, break, continue, caught or uncaught error *)
Theorem finally_exactly_once st env body catches fin :
  block_sem ev st env body catches fin =
  let '(st1, o1) := run_seq ev st env body vtrue in
  if is_artefact o1 then (st1, o1) else
  let '(st2, o2) := match o1 with OErr v => try_catches ev st1 env v catches | _ => (st1, o1) end in
  if is_artefact o2 then (st2, o2) else
  let '(st3, f) := run_finally ev st2 env fin in
  (st3, match f with Some bad => bad | None => o2 end).
Proof. reflexivity. Qed.

(* blocks pass return / break / continue through unchanged (after finally) *)
Theorem block_passes_exits st env body catches fin st1 o st3 :
  run_seq ev st env body vtrue = (st1, o) -> is_fun_exit o = true ->
  run_finally ev st1 env fin = (st3, None) ->
  block_sem ev st env body catches fin = (st3, o).
Proof.
  intros H1 H2 H3. unfold block_sem. rewrite H1. destruct o; try discriminate; cbn [is_artefact]; rewrite H3; reflexivity.
Qed.

(* handler selection *)
Theorem catch_none st env v : try_catches ev st env v [] = (st, OErr v).
Proof. reflexivity. Qed.

Theorem catch_all st env v h t : try_catches ev st env v ((None, h) :: t) = ev st env h.
Proof. reflexivity. Qed.

Theorem catch_match st env v c h t st1 w :
  ev st env c = (st1, OV w) -> veqV st1 v w = Some true ->
  try_catches ev st env v ((Some c, h) :: t) = ev st1 env h.
Proof. intros H1 H2. cbn [try_catches]. rewrite H1. cbn [operand]. rewrite H2. reflexivity. Qed.

Theorem catch_skip st env v c h t st1 w :
  ev st env c = (st1, OV w) -> veqV st1 v w = Some false ->
  try_catches ev st env v ((Some c, h) :: t) = try_catches ev st1 env v t.
Proof. intros H1 H2. cbn [try_catches]. rewrite H1. cbn [operand]. rewrite H2. reflexivity. Qed.

(* an error no handler matches continues outward unchanged: if every catch value is a value different
   from the error value (the catch expressions being evaluated in sequence), the outcome is the same error *)
Inductive all_skip (v : value) : state -> loc -> list (option expr * expr) -> state -> Prop :=
| skip_nil st env : all_skip v st env [] st
| skip_cons st env c h t st1 w st2 :
    ev st env c = (st1, OV w) -> veqV st1 v w = Some false -> all_skip v st1 env t st2 ->
    all_skip v st env ((Some c, h) :: t) st2.

Theorem unmatched_error_continues v st env catches st' :
  all_skip v st env catches st' -> try_catches ev st env v catches = (st', OErr v).
Proof.
  intros H. induction H as [|st env c h t st1 w st2 H1 H2 _ IH]; [reflexivity|].
  rewrite (catch_skip st env v c h t st1 w H1 H2). exact IH.
Qed.

(* the value of the first matching handler becomes the value of the block *)
Theorem caught_error_value st env body catches fin st1 v st2 o2 st3 :
  run_seq ev st env body vtrue = (st1, OErr v) ->
  try_catches ev st1 env v catches = (st2, o2) -> is_artefact o2 = false ->
  run_finally ev st2 env fin = (st3, None) ->
  block_sem ev st env body catches fin = (st3, o2).
Proof. intros H1 H2 A H3. unfold block_sem. rewrite H1. cbn [is_artefact]. rewrite H2, A, H3. reflexivity. Qed.

(* an error raised by a finally statement replaces the outcome of the block *)
Theorem finally_error_replaces st env body catches fin st1 o1 st2 o2 st3 bad :
  run_seq ev st env body vtrue = (st1, o1) -> is_artefact o1 = false ->
  (match o1 with OErr v => try_catches ev st1 env v catches | _ => (st1, o1) end) = (st2, o2) -> is_artefact o2 = false ->
  run_finally ev st2 env fin = (st3, Some bad) ->
  block_sem ev st env body catches fin = (st3, bad).
Proof. intros H1 A1 H2 A2 H3. unfold block_sem. rewrite H1, A1, H2, A2, H3. reflexivity. Qed.

(* ------------------------------------------------------------ conditionals (C04) *)
Theorem if_true st env c b t els st1 :
  ev st env c = (st1, OV (VBool true)) -> if_sem ev st env ((c, b) :: t) els = ev st1 env b.
Proof. intros H. cbn [if_sem]. rewrite H. reflexivity. Qed.
Theorem if_false st env c b t els st1 :
  ev st env c = (st1, OV (VBool false)) -> if_sem ev st env ((c, b) :: t) els = if_sem ev st1 env t els.
Proof. intros H. cbn [if_sem]. rewrite H. reflexivity. Qed.
Theorem if_else st env els : if_sem ev st env [] els = ev st env els.
Proof. reflexivity. Qed.
Theorem if_non_boolean st env c b t els st1 v :
  ev st env c = (st1, OV v) -> (forall x, v <> VBool x) -> if_sem ev st env ((c, b) :: t) els = (st1, oerr).
Proof. intros H N. cbn [if_sem]. rewrite H. destruct v; try reflexivity. exfalso. eapply N. reflexivity. Qed.

(* ------------------------------------------------------------ loops (C04) *)
(* break / continue never leave a loop; return does *)
Theorem loop_items_absorbs st env xs items body result :
  is_loop_exit (snd (loop_items ev st env xs items body result)) = false.
Proof.
  revert st result. induction items as [|it t IH]; intros st result; cbn [loop_items]; [reflexivity|].
  destruct (bind_loop st env xs it) as [st0|]; [|reflexivity].
  destruct (ev st0 env body) as [st1 o]. destruct o; try reflexivity; apply IH.
Qed.

Theorem loop_chars_absorbs st env x cs body result :
  is_loop_exit (snd (loop_chars ev st env x cs body result)) = false.
Proof.
  revert st result. induction cs as [|c t IH]; intros st result; cbn [loop_chars]; [reflexivity|].
  destruct (ev (env_put st env x c) env body) as [st1 o]. destruct o; try reflexivity; apply IH.
Qed.

Theorem while_absorbs n st env c body result :
  is_loop_exit (snd (while_sem ev n st env c body result)) = false.
Proof.
  revert st result. induction n as [|n IH]; intros st result; cbn [while_sem]; [reflexivity|].
  destruct (ev st env c) as [st1 o]. destruct o as [v| | | | | | |]; try reflexivity.
  destruct v as [|[]| | | | | |]; try reflexivity.
  destruct (ev st1 env body) as [st2 ob]. destruct ob; try reflexivity; apply IH.
Qed.

Lemma operand_bad o bad : operand o = inr bad -> is_fun_exit bad = false.
Proof. destruct o; cbn; intros H; inversion H; reflexivity. Qed.

Lemma for_items_bad st c what bad : for_items st c what = inr bad -> is_fun_exit bad = false.
Proof.
  unfold for_items. intros H.
  repeat match type of H with
         | context [match ?x with _ => _ end] => destruct x
         | context [if ?x then _ else _] => destruct x
         end; inversion H; reflexivity.
Qed.

Lemma fun_exit_loop_exit o : is_fun_exit o = false -> is_loop_exit o = false.
Proof. destruct o; cbn; congruence. Qed.

Lemma for_core_absorbs st env xs coll body what :
  is_loop_exit (snd (for_core ev st env xs coll body what)) = false.
Proof.
  unfold for_core. destruct (ev st env coll) as [st1 o].
  destruct (operand o) as [c|bad] eqn:Eo.
  - destruct (for_items st1 c what) as [[[st2 items]|]|bad] eqn:Ef.
    + pose proof (loop_items_absorbs st2 env xs items body vtrue) as A.
      destruct (loop_items ev st2 env xs items body vtrue) as [st3 r]. cbn [snd] in A.
      destruct (is_normal_exit r); exact A.
    + destruct c; try reflexivity. destruct xs; [reflexivity|]. apply loop_chars_absorbs.
    + cbn [snd]. apply fun_exit_loop_exit. eapply for_items_bad. exact Ef.
  - cbn [snd]. apply fun_exit_loop_exit. eapply operand_bad. exact Eo.
Qed.

Theorem for_absorbs st env xs coll body what :
  is_loop_exit (snd (for_sem ev st env xs coll body what)) = false.
Proof.
  unfold for_sem. pose proof (for_core_absorbs st env xs coll body what) as A.
  destruct (for_core ev st env xs coll body what) as [st1 r]. exact A.
Qed.

(* the loop visits the items in order; the body's outcome decides what happens next *)
Theorem loop_step st env xs it t body result st0 st1 o :
  bind_loop st env xs it = Some st0 -> ev st0 env body = (st1, o) ->
  loop_items ev st env xs (it :: t) body result =
  match o with
  | OV v => loop_items ev st1 env xs t body v
  | OCont => loop_items ev st1 env xs t body vtrue
  | OBrk => (st1, OV vtrue)
  | ORet v => (st1, ORet v)
  | bad => (st1, bad)
  end.
Proof. intros H1 H2. cbn [loop_items]. rewrite H1, H2. destruct o; reflexivity. Qed.

(* while re-tests its condition before every iteration *)
Theorem while_unfold n st env c body result :
  while_sem ev (S n) st env c body result =
  let '(st1, o) := ev st env c in
  match operand o with
  | inr bad => (st1, bad)
  | inl (VBool false) => (st1, OV result)
  | inl (VBool true) =>
    let '(st2, ob) := ev st1 env body in
    match ob with
    | OV v => while_sem ev n st2 env c body v
    | OCont => while_sem ev n st2 env c body vtrue
    | OBrk => (st2, OV vtrue)
    | ORet v => (st2, ORet v)
    | bad => (st2, bad)
    end
  | inl _ => (st1, oerr)
  end.
Proof. reflexivity. Qed.

(* ------------------------------------------------------------ calls (C03, C04) *)
(* return leaves only the innermost function; break / continue never cross a function boundary *)
Theorem call_absorbs st params body lex nvs :
  is_fun_exit (snd (call_closure ev st params body lex nvs)) = false.
Proof.
  unfold call_closure. destruct (set_args (map fst params) nvs) as [[bound rest]|]; [|reflexivity].
  destruct (alloc st (CFrame [] (Some lex))) as [st1 fr].
  assert (B : forall ps st0 st2 o, bind_params ev st0 fr ps bound rest = (st2, Some o) -> is_fun_exit o = false).
  { induction ps as [|[p d] ps IH]; intros st0 st2 o H; cbn [bind_params] in H; [discriminate|].
    destruct (ends_dots p).
    - destruct (alloc st0 (CList rest)) as [sa n]. eapply IH. exact H.
    - destruct (assoc_get p bound); [eapply IH; exact H|].
      destruct d as [de|]; [|inversion H; reflexivity].
      destruct (ev st0 fr de) as [sb ob]. destruct (operand ob) as [v|bad] eqn:E.
      + eapply IH. exact H.
      + inversion H; subst. eapply operand_bad. exact E. }
  destruct (bind_params ev st1 fr params bound rest) as [st2 [o|]] eqn:E.
  - cbn [snd]. eapply B. exact E.
  - destruct (ev st2 fr body) as [st3 o]. destruct o; reflexivity.
Qed.

(* every call gets a fresh frame whose parent is the frame the closure was created in - not the caller's *)
Theorem call_fresh_frame st params body lex nvs bound rest :
  set_args (map fst params) nvs = Some (bound, rest) ->
  call_closure ev st params body lex nvs =
  let fr := length st in
  let st1 := st ++ [CFrame [] (Some lex)] in
  let '(st2, bad) := bind_params ev st1 fr params bound rest in
  match bad with
  | Some o => (st2, o)
  | None => let '(st3, o) := ev st2 fr body in
            (st3, match o with ORet v => OV v | OBrk | OCont => oerr | o => o end)
  end.
Proof. intros H. unfold call_closure. rewrite H. reflexivity. Qed.
End P.

(* ------------------------------------------------------------ environments (C03) and the heap frame (C16) *)
Lemma upd_length {A} (l : list A) n x : length (upd l n x) = length l.
Proof. revert n. induction l as [|h t IH]; intros [|n]; cbn; auto. Qed.
Lemma upd_other {A} (l : list A) n m x : n <> m -> nth_error (upd l n x) m = nth_error l m.
Proof.
  revert n m. induction l as [|h t IH]; intros [|n] [|m] H; cbn; try reflexivity; try lia. apply IH. lia.
Qed.
Lemma upd_same {A} (l : list A) n x : (n < length l)%nat -> nth_error (upd l n x) n = Some x.
Proof. revert n. induction l as [|h t IH]; intros [|n] H; cbn in *; try lia; [reflexivity|]. apply IH. lia. Qed.

(* writing one heap cell leaves every other cell unchanged *)
Theorem wr_frame st l c l' : l <> l' -> rd (wr st l c) l' = rd st l'.
Proof. unfold rd, wr. apply upd_other. Qed.
Theorem wr_length st l c : length (wr st l c) = length st.
Proof. apply upd_length. Qed.

(* allocation leaves every existing cell unchanged and returns a location that did not exist *)
Theorem alloc_frame st c l : (l < length st)%nat -> rd (fst (alloc st c)) l = rd st l.
Proof. intros H. unfold alloc, rd. cbn [fst]. apply nth_error_app1. exact H. Qed.
Theorem alloc_fresh st c : snd (alloc st c) = length st /\ rd (fst (alloc st c)) (length st) = Some c.
Proof.
  unfold alloc, rd. cbn. split; [reflexivity|]. rewrite nth_error_app2 by lia. rewrite Nat.sub_diag. reflexivity.
Qed.

(* def binds in the given frame only *)
Theorem env_put_frame st env x v l : l <> env -> rd (env_put st env x v) l = rd st l.
Proof.
  intros H. unfold env_put. destruct (rd st env) as [[]|]; try reflexivity. apply wr_frame. auto.
Qed.

Theorem env_put_binds st env x v bs p :
  rd st env = Some (CFrame bs p) -> rd (env_put st env x v) env = Some (CFrame (assoc_set x v bs) p).
Proof.
  intros H. unfold env_put. rewrite H. unfold rd, wr in *. apply upd_same.
  apply nth_error_Some. congruence.
Qed.

(* assignment updates the nearest enclosing binding and never creates one *)
Theorem assign_never_creates st env x v : env_defined st env x = false -> env_set st env x v = None.
Proof. unfold env_defined, env_set. destruct (env_find _ st env x); [discriminate|reflexivity]. Qed.

Theorem assign_nearest st env x v st' :
  env_set st env x v = Some st' ->
  exists fr, env_find (S (length st)) st env x = Some fr /\ st' = env_put st fr x v /\
             forall l, l <> fr -> rd st' l = rd st l.
Proof.
  unfold env_set. destruct (env_find (S (length st)) st env x) as [fr|] eqn:E; [|discriminate].
  intros H. inversion H. exists fr. split; [reflexivity|]. split; [reflexivity|].
  intros l Hl. apply env_put_frame. exact Hl.
Qed.

(* the frame found is the first one on the parent chain that binds the name *)
Theorem env_find_nearest fuel st env x fr :
  env_find fuel st env x = Some fr ->
  (fr = env /\ exists bs p, rd st env = Some (CFrame bs p) /\ assoc_get x bs <> None) \/
  (exists bs p fuel', rd st env = Some (CFrame bs (Some p)) /\ assoc_get x bs = None /\ env_find fuel' st p x = Some fr).
Proof.
  destruct fuel as [|f]; cbn [env_find]; [discriminate|].
  destruct (rd st env) as [[| | | |bs p|]|]; try discriminate.
  destruct (assoc_get x bs) eqn:E.
  - intros H. inversion H. left. split; [reflexivity|]. exists bs, p. split; [reflexivity|]. congruence.
  - destruct p as [q|]; [|discriminate]. intros H. right. exists bs, q, f. auto.
Qed.
