(* C12: the sorted enumeration of a set (or of map keys) does not depend on the internal order. *)
From Coq Require Import ZArith List Bool Lia Permutation Sorting.Sorted.
From Ckl Require Import Prelude.PyPrelude Model.Values Model.Containers Model.Sorting
  Proofs.NumOrder Proofs.EqProofs Proofs.OrdProofs Proofs.SortProofs.
Import ListNotations.

Definition lt_of (a b : dval) : bool := match vlt a b with Some true => true | _ => false end.

Lemma lt_of_asym a b : lt_of a b = true -> lt_of b a = false.
Proof.
  unfold lt_of. destruct (vlt a b) as [[]|] eqn:E; try discriminate. intros _.
  destruct (all_order a) as [_ [_ [_ [A _]]]]. destruct (A b E) as [H _]. rewrite H. reflexivity.
Qed.

(* the elements of a set representation: pairwise comparable, NaN free, no two equal *)
Definition good (l : list dval) : Prop :=
  (forall a b, In a l -> In b l -> vlt a b <> None) /\
  (forall a, In a l -> nan_free a = true) /\
  (forall a b, In a l -> In b l -> veq a b = true -> a = b).

Lemma nodupv_leibniz l : nodupv l = true -> forall a b, In a l -> In b l -> veq a b = true -> a = b.
Proof.
  induction l as [|x l IH]; intros N a b Ha Hb E; [destruct Ha|].
  cbn [nodupv] in N. apply andb_true_iff in N. destruct N as [N1 N2]. apply negb_true_iff in N1.
  assert (M : forall y, In y l -> veq y x = false).
  { intros y Hy. destruct (veq y x) eqn:Ey; [|reflexivity]. exfalso.
    unfold set_mem in N1. assert (existsb (fun y0 => veq y0 x) l = true) by (apply existsb_exists; exists y; auto). congruence. }
  destruct Ha as [<-|Ha], Hb as [<-|Hb].
  - reflexivity.
  - rewrite veq_sym in E. rewrite (M b Hb) in E. discriminate.
  - rewrite (M a Ha) in E. discriminate.
  - apply IH; assumption.
Qed.

Definition R (a b : dval) : Prop := lt_of b a = false.

Lemma R_trans_on l : good l -> forall a b c, In a l -> In b l -> In c l -> R a b -> R b c -> R a c.
Proof.
  intros [C [NF _]] a b c Ha Hb Hc Rab Rbc. unfold R, lt_of in *.
  destruct (vlt c a) as [[]|] eqn:Eca; try reflexivity. exfalso.
  destruct (vlt b a) as [[]|] eqn:Eba; try discriminate; [|exact (C b a Hb Ha Eba)].
  destruct (vlt c b) as [[]|] eqn:Ecb; try discriminate; [|exact (C c b Hc Hb Ecb)].
  destruct (vlt a b) as [[]|] eqn:Eab; [| |exact (C a b Ha Hb Eab)].
  - destruct (all_order c) as [_ [_ [T _]]]. rewrite (T a b Eca Eab) in Ecb. discriminate.
  - destruct (all_order a) as [_ [_ [_ [_ Tri]]]].
    pose proof (Tri b (NF a Ha) (NF b Hb) Eab Eba) as E.
    destruct (all_order c) as [_ [CR _]]. rewrite (CR a b E) in Eca. congruence.
Qed.

Lemma sorted_strong (s : list dval) :
  (forall a b c, In a s -> In b s -> In c s -> R a b -> R b c -> R a c) -> Sorted R s -> StronglySorted R s.
Proof.
  intros T S. induction S as [|x s S IH Hx]; [constructor|].
  assert (IH' : StronglySorted R s) by (apply IH; intros; eapply T; eauto; right; assumption).
  constructor; [exact IH'|].
  destruct Hx as [|y s' Hy]; [constructor|].
  inversion IH' as [|? ? SS Fy]; subst. constructor; [exact Hy|].
  rewrite Forall_forall in *. intros z Hz. apply (T x y z); [left; reflexivity|right; left; reflexivity|right; right; exact Hz|exact Hy|apply Fy; exact Hz].
Qed.

Lemma strong_unique (s1 s2 : list dval) :
  good s1 -> StronglySorted R s1 -> StronglySorted R s2 -> Permutation s1 s2 -> s1 = s2.
Proof.
  intros G S1. revert s2 G. induction S1 as [|x s1 S1 IH Hx]; intros s2 G S2 P.
  - apply Permutation_nil in P. subst. reflexivity.
  - destruct S2 as [|y s2 S2 Hy]; [apply Permutation_sym, Permutation_nil in P; discriminate|].
    destruct G as [C [NF L]].
    assert (Hxin : In x (y :: s2)) by (eapply Permutation_in; [exact P|left; reflexivity]).
    assert (Hyin : In y (x :: s1)) by (eapply Permutation_in; [apply Permutation_sym; exact P|left; reflexivity]).
    assert (E : x = y).
    { rewrite Forall_forall in Hx, Hy.
      destruct Hxin as [->|Hx2]; [reflexivity|]. destruct Hyin as [->|Hy1]; [reflexivity|].
      pose proof (Hx y Hy1) as Rxy. pose proof (Hy x Hx2) as Ryx. unfold R, lt_of in *.
      assert (Ix : In x (x :: s1)) by (left; reflexivity). assert (Iy : In y (x :: s1)) by (right; exact Hy1).
      destruct (vlt y x) as [[]|] eqn:E1; try discriminate; [|exfalso; exact (C y x Iy Ix E1)].
      destruct (vlt x y) as [[]|] eqn:E2; try discriminate; [|exfalso; exact (C x y Ix Iy E2)].
      destruct (all_order x) as [_ [_ [_ [_ Tri]]]].
      apply (L x y Ix Iy). apply Tri; auto. }
    subst y. f_equal. apply IH; [|exact S2|eapply Permutation_cons_inv; exact P].
    repeat split.
    + intros a b Ha Hb. apply C; right; assumption.
    + intros a Ha. apply NF. right. exact Ha.
    + intros a b Ha Hb. apply L; right; assumption.
Qed.

Lemma good_perm l l' : good l -> Permutation l l' -> good l'.
Proof.
  intros [C [NF L]] P. assert (I : forall a, In a l' -> In a l) by (intros a H; eapply Permutation_in; [apply Permutation_sym; exact P|exact H]).
  repeat split; intros; [apply C|apply NF|apply L]; auto.
Qed.

(* sets and map keys enumerate in the same order whatever their internal (hash / insertion) order *)
Theorem sorted_enum_perm l1 l2 : good l1 -> Permutation l1 l2 -> sorted lt_of l1 = sorted lt_of l2.
Proof.
  intros G P.
  assert (P1 : Permutation l1 (sorted lt_of l1)) by apply sorted_perm.
  assert (P2 : Permutation l2 (sorted lt_of l2)) by apply sorted_perm.
  assert (G1 : good (sorted lt_of l1)) by (apply (good_perm l1); assumption).
  assert (G2 : good (sorted lt_of l2)) by (apply (good_perm l2); [apply (good_perm l1); assumption|exact P2]).
  apply (strong_unique _ _ G1).
  - apply sorted_strong; [apply R_trans_on; exact G1|]. apply (sorted_ordered lt_of lt_of_asym).
  - apply sorted_strong; [apply R_trans_on; exact G2|]. apply (sorted_ordered lt_of lt_of_asym).
  - eapply Permutation_trans; [apply Permutation_sym; exact P1|]. eapply Permutation_trans; [exact P|exact P2].
Qed.

(* ... and the enumeration really is ascending *)
Theorem sorted_enum_ascending l : Sorted (fun a b => lt_of b a = false) (sorted lt_of l).
Proof. apply (sorted_ordered lt_of lt_of_asym). Qed.

(* a duplicate-free set representation (what add/remove produce, C06_set_nodup) of comparable NaN-free values is good *)
Theorem nodupv_good l :
  nodupv l = true -> (forall a b, In a l -> In b l -> vlt a b <> None) -> (forall a, In a l -> nan_free a = true) -> good l.
Proof. intros N C NF. repeat split; auto. apply nodupv_leibniz. exact N. Qed.

(* the seeded random generator: a function of the seed and the number of draws only *)
Definition rnd_step (seed : Z) : Z := ((seed * 9301 + 49297) mod 233280)%Z.
Fixpoint rnd_seq (n : nat) (seed : Z) : list Z :=
  match n with O => [] | S k => let s := rnd_step seed in s :: rnd_seq k s end.
Theorem rnd_deterministic n seed1 seed2 : seed1 = seed2 -> rnd_seq n seed1 = rnd_seq n seed2.
Proof. intros ->. reflexivity. Qed.
