(* Facts about the GENERATED scanner step (Gen/LexGen.v): they are re-proved against whatever
   src/ckl/lexer.py says now.  All by case analysis over the branch conditions of the step. *)
From Coq Require Import ZArith List Bool Lia.
From Ckl Require Import Prelude.PyPrelude Prelude.LexPrelude Gen.LexGen Model.LexRun.
Import ListNotations.
Open Scope Z_scope.

Ltac crunch_if :=
  repeat match goal with
         | |- context [if ?c then _ else _] => let E := fresh "E" in destruct c eqn:E
         end.

Definition advance (p : Z * Z) (ch : Z) : Z * Z := if ch =? 10 then (fst p + 1, 0) else (fst p, snd p + 1).

(* 70 ("0" seen) may hand the character to 7 (number), every state may hand it to 0 (blank), 0 always consumes *)
Definition rank (s : lstate) : nat := if l_state s =? 70 then 2%nat else if l_state s =? 0 then 0%nat else 1%nat.

(* one step: shape of the result *)
Definition step_ok (s : lstate) (ch : Z) : Prop :=
  match lex_step s ch with
  | LexError _ => True
  | Step s' e consumed =>
    (* a character is read again (`pos -= 1`) only on the way to the blank state: the rank drops *)
    (consumed = false -> (rank s' < rank s)%nat /\ l_upd s' = false) /\
    (consumed = true -> l_upd s' = true) /\
    (* the line / column counters follow the characters read, whatever the scanner state *)
    ((l_line s', l_col s') = if l_upd s then advance (l_line s, l_col s) ch else (l_line s, l_col s)) /\
    (* a token carries the position remembered when the scanner last left the blank state *)
    (forall t, In t e -> t_line t = l_sline s' /\ t_col t = l_scol s') /\
    ((l_sline s', l_scol s') = if l_state s =? 0 then (l_line s', l_col s') else (l_sline s, l_scol s))
  end.

Ltac know_state :=
  repeat match goal with
         | H : (?x =? ?k) = true |- _ => is_var x; apply Z.eqb_eq in H; subst x
         end.

Lemma step_shape s ch : step_ok s ch.
Proof.
  unfold step_ok, lex_step. destruct s as [st tk tb ln cl sl sc up].
  cbn [l_state l_token l_tempbuf l_line l_col l_sline l_scol l_upd].
  crunch_if; try exact I; know_state;
    cbv [rank advance l_state l_token l_tempbuf l_line l_col l_sline l_scol l_upd fst snd];
    (repeat split; intros;
     first [ reflexivity | discriminate
           | match goal with H : In _ _ |- _ => cbn in H; intuition (subst; reflexivity) end
           | cbn; lia
           | cbn; try match goal with H : (ch =? 10) = _ |- _ => rewrite H end;
             try match goal with H : up = _ |- _ => rewrite ?H end; cbn; reflexivity ]).
Qed.

(* ------------------------------------------------------------ the scanner terminates on every text *)
Lemma lex_loop_total fuel s input acc :
  (3 * length input + rank s < fuel)%nat -> lex_loop fuel s input acc <> LexFuel.
Proof.
  revert s input acc. induction fuel as [|f IH]; intros s input acc H; [lia|].
  cbn [lex_loop]. destruct input as [|ch rest]; [discriminate|].
  pose proof (step_shape s ch) as S. unfold step_ok in S.
  destruct (lex_step s ch) as [s' e consumed|l]; [|discriminate].
  destruct S as [S1 [S2 _]]. destruct consumed.
  - apply IH. cbn [length] in H. assert (rank s' <= 2)%nat by (unfold rank; repeat destruct (_ =? _); lia). lia.
  - destruct (S1 eq_refl) as [R _]. apply IH. lia.
Qed.

Theorem lex_total src : lex src <> LexFuel.
Proof.
  unfold lex, lex_fuel. apply lex_loop_total. rewrite app_length. cbn [length rank lex_init l_state Z.eqb]. lia.
Qed.

(* ------------------------------------------------------------ token positions *)
Definition posfold (p : list Z) : Z * Z := fold_left advance p (1, 0).

Lemma posfold_snoc p ch : posfold (p ++ [ch]) = advance (posfold p) ch.
Proof. unfold posfold. rewrite fold_left_app. reflexivity. Qed.

(* the line of a position is 1 + the number of line feeds read so far *)
Lemma posfold_line p : fst (posfold p) = 1 + Z.of_nat (count_occ Z.eq_dec p 10).
Proof.
  induction p as [|c p IH] using rev_ind; [reflexivity|].
  rewrite posfold_snoc. unfold advance. rewrite count_occ_app. cbn [count_occ].
  destruct (Z.eqb_spec c 10) as [->|N]; cbn [fst].
  - destruct (Z.eq_dec 10 10); [|congruence]. rewrite IH. lia.
  - destruct (Z.eq_dec c 10); [congruence|]. rewrite IH. lia.
Qed.

Definition is_prefix (q w : list Z) : Prop := exists r, w = q ++ r.
Definition at_char (w : list Z) (p : Z * Z) : Prop := exists q, q <> [] /\ is_prefix q w /\ p = posfold q.

Definition inv (w : list Z) (s : lstate) (pre input : list Z) : Prop :=
  w = pre ++ input /\
  (l_line s, l_col s) = posfold (if l_upd s then pre else pre ++ firstn 1 input) /\
  (l_upd s = false -> input <> []) /\
  (l_state s <> 0 -> at_char w (l_sline s, l_scol s)).

Lemma lex_loop_positions w fuel s pre input acc toks :
  inv w s pre input ->
  Forall (fun t => at_char w (t_line t, t_col t)) acc ->
  lex_loop fuel s input acc = LexOk toks ->
  Forall (fun t => at_char w (t_line t, t_col t)) toks.
Proof.
  revert s pre input acc. induction fuel as [|f IH]; intros s pre input acc I A H; [discriminate|].
  cbn [lex_loop] in H. destruct input as [|ch rest]; [inversion H; subst; exact A|].
  pose proof (step_shape s ch) as S. unfold step_ok in S.
  destruct (lex_step s ch) as [s' e consumed|l] eqn:E; [|discriminate].
  destruct S as [S1 [S2 [S3 [S4 S5]]]]. destruct I as [I1 [I2 [I3 I4]]].
  (* the position after this step is the position of ch *)
  assert (P' : (l_line s', l_col s') = posfold (pre ++ [ch])).
  { rewrite S3. destruct (l_upd s) eqn:U.
    - rewrite posfold_snoc. rewrite <- I2. reflexivity.
    - rewrite I2. reflexivity. }
  assert (Q : at_char w (l_line s', l_col s')).
  { exists (pre ++ [ch]). split; [destruct pre; discriminate|]. split; [exists rest; rewrite I1, <- app_assoc; reflexivity|exact P']. }
  (* start position of s' *)
  assert (ST : at_char w (l_sline s', l_scol s')).
  { rewrite S5. destruct (Z.eqb_spec (l_state s) 0) as [Z0|NZ]; [exact Q|apply I4; exact NZ]. }
  assert (A' : Forall (fun t => at_char w (t_line t, t_col t)) (acc ++ e)).
  { apply Forall_app. split; [exact A|]. apply Forall_forall. intros t Ht. destruct (S4 t Ht) as [-> ->]. exact ST. }
  destruct consumed.
  - apply (IH s' (pre ++ [ch]) rest (acc ++ e)); [|exact A'|exact H].
    repeat split.
    + rewrite I1, <- app_assoc. reflexivity.
    + rewrite (S2 eq_refl). exact P'.
    + rewrite (S2 eq_refl). discriminate.
    + intros _. exact ST.
  - destruct (S1 eq_refl) as [_ U']. apply (IH s' pre (ch :: rest) (acc ++ e)); [|exact A'|exact H].
    repeat split.
    + exact I1.
    + rewrite U'. cbn [firstn]. exact P'.
    + intros _. discriminate.
    + intros _. exact ST.
Qed.

(* every token carries the position of a character of the text: 1 + the number of line feeds before it, and
   the distance to the last line feed - for every text (CRLF, comments, strings spanning lines included) *)
Theorem lex_positions src toks :
  lex src = LexOk toks -> Forall (fun t => at_char (src ++ [32]) (t_line t, t_col t)) toks.
Proof.
  unfold lex. apply (lex_loop_positions (src ++ [32]) _ lex_init [] (src ++ [32]) []); [|constructor].
  repeat split; try reflexivity; try discriminate. intros H. exfalso. apply H. reflexivity.
Qed.

Corollary lex_token_line src toks :
  lex src = LexOk toks ->
  Forall (fun t => exists q, q <> [] /\ is_prefix q (src ++ [32]) /\ t_line t = 1 + Z.of_nat (count_occ Z.eq_dec q 10)) toks.
Proof.
  intros H. eapply Forall_impl; [|apply lex_positions; exact H].
  intros t [q [Q1 [Q2 Q3]]]. exists q. repeat split; try assumption.
  rewrite <- posfold_line, <- Q3. reflexivity.
Qed.

(* ------------------------------------------------------------ layout (C14) *)
(* positions do not influence what the scanner does: erase them and the step is the same *)
Definition erase_state (s : lstate) : lstate := mk_lstate (l_state s) (l_token s) (l_tempbuf s) 0 0 0 0 (l_upd s).
Definition erase_tok (t : tok) : tok := mk_tok (t_value t) (t_type t) 0 0.
Definition erase_res (r : lres) : lres :=
  match r with Step s e c => Step (erase_state s) (map erase_tok e) c | LexError _ => LexError 0 end.
Definition erase_lexres (r : lexres) : lexres :=
  match r with LexOk ts => LexOk (map erase_tok ts) | LexErr _ => LexErr 0 | LexFuel => LexFuel end.

Lemma step_erase s ch : erase_res (lex_step s ch) = erase_res (lex_step (erase_state s) ch).
Proof.
  destruct s as [st tk tb ln cl sl sc up]. unfold erase_state, lex_step.
  cbn [l_state l_token l_tempbuf l_line l_col l_sline l_scol l_upd].
  crunch_if; reflexivity.
Qed.

Lemma loop_erase fuel s1 s2 input acc1 acc2 :
  erase_state s1 = erase_state s2 -> map erase_tok acc1 = map erase_tok acc2 ->
  erase_lexres (lex_loop fuel s1 input acc1) = erase_lexres (lex_loop fuel s2 input acc2).
Proof.
  revert s1 s2 input acc1 acc2. induction fuel as [|f IH]; intros s1 s2 input acc1 acc2 Hs Ha; [reflexivity|].
  cbn [lex_loop]. destruct input as [|ch rest]; [cbn; rewrite Ha; reflexivity|].
  pose proof (step_erase s1 ch) as E1. pose proof (step_erase s2 ch) as E2. rewrite Hs in E1. rewrite <- E2 in E1.
  destruct (lex_step s1 ch) as [a1 e1 c1|l1], (lex_step s2 ch) as [a2 e2 c2|l2]; cbn in E1; try discriminate; [|reflexivity].
  injection E1 as H1 H2 H3 H4 H5 H6. subst c2.
  assert (Hs' : erase_state a1 = erase_state a2) by (unfold erase_state; congruence).
  destruct c1; apply IH; first [exact Hs' | rewrite !map_app, Ha, H5; reflexivity].
Qed.

(* a gap: blanks, tabs, CR, LF and `#` comments up to (and including) the line feed *)
Fixpoint gap_ok (incomment : bool) (g : list Z) : bool :=
  match g with
  | [] => negb incomment
  | c :: g' => if incomment then gap_ok (negb (c =? 10)) g'
               else if c =? 35 then gap_ok true g'
               else mem_z c [32; 9; 13; 10] && gap_ok false g'
  end.

Definition clean (s : lstate) : Prop := l_state s = 0 /\ l_token s = [] /\ l_upd s = true.
Definition in_comment (s : lstate) : Prop := l_state s = 9 /\ l_token s = [] /\ l_upd s = true.

Lemma ws_step s ch : clean s -> mem_z ch [32; 9; 13; 10] = true ->
  exists s', lex_step s ch = Step s' [] true /\ clean s' /\ l_tempbuf s' = l_tempbuf s.
Proof.
  intros [A [B C]] H. destruct s as [st tk tb ln cl sl sc up]. cbn in A, B, C. subst.
  cbn in H. repeat rewrite orb_true_iff in H.
  destruct H as [H|[H|[H|[H|H]]]]; try discriminate; apply Z.eqb_eq in H; subst ch;
    eexists; (split; [vm_compute; reflexivity|]); repeat split.
Qed.

Lemma hash_step s : clean s -> exists s', lex_step s 35 = Step s' [] true /\ in_comment s' /\ l_tempbuf s' = l_tempbuf s.
Proof.
  intros [A [B C]]. destruct s as [st tk tb ln cl sl sc up]. cbn in A, B, C. subst.
  eexists. split; [vm_compute; reflexivity|]. repeat split.
Qed.

Lemma comment_step s ch : in_comment s ->
  exists s', lex_step s ch = Step s' [] true /\ l_tempbuf s' = l_tempbuf s /\
             (if ch =? 10 then clean s' else in_comment s').
Proof.
  intros [A [B C]]. destruct s as [st tk tb ln cl sl sc up]. cbn in A, B, C. subst.
  unfold lex_step. cbn [l_state l_token l_tempbuf l_line l_col l_sline l_scol l_upd].
  destruct (ch =? 10) eqn:E; eexists; (split; [vm_compute; rewrite ?E; reflexivity|]); repeat split.
Qed.

Lemma gap_run g : forall incomment s rest acc f,
  gap_ok incomment g = true -> (if incomment then in_comment s else clean s) ->
  exists s', lex_loop (length g + f) s (g ++ rest) acc = lex_loop f s' rest acc /\ clean s' /\ l_tempbuf s' = l_tempbuf s.
Proof.
  induction g as [|c g IH]; intros incomment s rest acc f G S.
  - destruct incomment; [discriminate|]. exists s. repeat split; try reflexivity; apply S.
  - cbn [gap_ok] in G. cbn [length app Nat.add lex_loop]. destruct incomment.
    + destruct (comment_step s c S) as [s' [E [T K]]]. rewrite E, app_nil_r.
      destruct (IH (negb (c =? 10)) s' rest acc f G) as [s'' [R [Cl Tb]]].
      { destruct (c =? 10); exact K. }
      exists s''. repeat split; try assumption; try apply Cl. congruence.
    + destruct (c =? 35) eqn:E35.
      * apply Z.eqb_eq in E35. subst c. destruct (hash_step s S) as [s' [E [K T]]]. rewrite E, app_nil_r.
        destruct (IH true s' rest acc f G K) as [s'' [R [Cl Tb]]].
        exists s''. repeat split; try assumption; try apply Cl. congruence.
      * apply andb_true_iff in G. destruct G as [G1 G2].
        destruct (ws_step s c S G1) as [s' [E [K T]]]. rewrite E, app_nil_r.
        destruct (IH false s' rest acc f G2 K) as [s'' [R [Cl Tb]]].
        exists s''. repeat split; try assumption; try apply Cl. congruence.
Qed.

(* in the blank state a gap changes nothing but positions: the tokens that follow have the same values and types *)
Theorem gap_irrelevant g s rest acc f :
  gap_ok false g = true -> clean s ->
  erase_lexres (lex_loop (length g + f) s (g ++ rest) acc) = erase_lexres (lex_loop f s rest acc).
Proof.
  intros G S. destruct (gap_run g false s rest acc f G S) as [s' [R [[C1 [C2 C3]] T]]]. rewrite R.
  apply loop_erase; [|reflexivity]. destruct S as [S1 [S2 S3]]. unfold erase_state. congruence.
Qed.

(* more fuel does not change a result that was reached *)
Lemma fuel_mono f k s input acc : lex_loop f s input acc <> LexFuel -> lex_loop (f + k) s input acc = lex_loop f s input acc.
Proof.
  revert s input acc. induction f as [|f IH]; intros s input acc H; [exfalso; apply H; reflexivity|].
  cbn [Nat.add lex_loop] in *. destruct input as [|ch rest]; [reflexivity|].
  destruct (lex_step s ch) as [s' e c|l]; [|reflexivity]. destruct c; apply IH; exact H.
Qed.

(* leading layout (blank lines, indentation, comments) never changes the token values and types of a text *)
Theorem leading_gap_irrelevant g src : gap_ok false g = true -> erase_lexres (lex (g ++ src)) = erase_lexres (lex src).
Proof.
  intros G. unfold lex. rewrite <- app_assoc.
  assert (C : clean lex_init) by (repeat split).
  pose proof (lex_total src) as T. unfold lex in T.
  replace (lex_fuel (g ++ src)) with (length g + (lex_fuel src + 2 * length g))%nat by (unfold lex_fuel; rewrite app_length; lia).
  rewrite (gap_irrelevant g lex_init (src ++ [32]) [] _ G C).
  rewrite fuel_mono by exact T. reflexivity.
Qed.
