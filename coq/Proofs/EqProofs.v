(* C06: value equality is an equivalence respected by sets and maps. *)
From Coq Require Import ZArith List Bool Lia Permutation.
From Ckl Require Import Prelude.PyPrelude Model.Values Model.Containers Proofs.NumOrder.
Import ListNotations.
Open Scope Z_scope.

Lemma str_eqb_refl s : str_eqb s s = true.
Proof. induction s as [|x s IH]; cbn; [reflexivity|]. rewrite Z.eqb_refl, IH. reflexivity. Qed.
Lemma str_eqb_eq s t : str_eqb s t = true <-> s = t.
Proof.
  revert t. induction s as [|x s IH]; intros [|y t]; cbn; split; intros H; try discriminate; try reflexivity.
  - apply andb_true_iff in H. destruct H as [H1 H2]. apply Z.eqb_eq in H1. apply IH in H2. congruence.
  - inversion H; subst. rewrite Z.eqb_refl. apply IH. reflexivity.
Qed.
Lemma str_eqb_sym s t : str_eqb s t = str_eqb t s.
Proof.
  destruct (str_eqb s t) eqn:E.
  - apply str_eqb_eq in E. subst. symmetry. apply str_eqb_refl.
  - destruct (str_eqb t s) eqn:E2; [|reflexivity]. apply str_eqb_eq in E2. subst. rewrite str_eqb_refl in E. discriminate.
Qed.

Lemma forallb_ext_in {A} (f g : A -> bool) l : (forall x, In x l -> f x = g x) -> forallb f l = forallb g l.
Proof.
  induction l as [|x l IH]; intros H; [reflexivity|]. cbn. rewrite (H x (or_introl eq_refl)), IH; [reflexivity|].
  intros y Hy. apply H. right. exact Hy.
Qed.
Lemma existsb_ext_in {A} (f g : A -> bool) l : (forall x, In x l -> f x = g x) -> existsb f l = existsb g l.
Proof.
  induction l as [|x l IH]; intros H; [reflexivity|]. cbn. rewrite (H x (or_introl eq_refl)), IH; [reflexivity|].
  intros y Hy. apply H. right. exact Hy.
Qed.

Lemma forallb_ext {A} (f g : A -> bool) l : (forall x, f x = g x) -> forallb f l = forallb g l.
Proof. intros H. apply forallb_ext_in. intros x _. apply H. Qed.
Lemma existsb_ext {A} (f g : A -> bool) l : (forall x, f x = g x) -> existsb f l = existsb g l.
Proof. intros H. apply existsb_ext_in. intros x _. apply H. Qed.
Lemma existsb_map' {A B} (f : A -> B) (p : B -> bool) l : existsb p (map f l) = existsb (fun x => p (f x)) l.
Proof. induction l as [|x l IH]; [reflexivity|]. cbn. rewrite IH. reflexivity. Qed.

(* unfolding equations for the nested fixpoints *)
Fixpoint list_eq (l m : list dval) : bool :=
  match l, m with
  | [], [] => true
  | x :: l', y :: m' => veq x y && list_eq l' m'
  | _, _ => false
  end.
Lemma veq_list l m : veq (DList l) (DList m) = list_eq l m.
Proof.
  cbn [veq]. revert m. induction l as [|x l IH]; intros [|y m]; reflexivity.
Qed.

Definition set_incl (l m : list dval) : bool := forallb (fun x => existsb (fun y => veq x y) m) l.
Definition set_incl' (l m : list dval) : bool := forallb (fun y => existsb (fun x => veq x y) l) m.
Lemma veq_set l m : veq (DSet l) (DSet m) = set_incl l m && set_incl' l m.
Proof. reflexivity. Qed.

Definition pair_eq (kv kv' : dval * dval) : bool := veq (fst kv) (fst kv') && veq (snd kv) (snd kv').
Definition map_incl (l m : list (dval * dval)) : bool := forallb (fun kv => existsb (fun kv' => pair_eq kv kv') m) l.
Definition map_incl' (l m : list (dval * dval)) : bool := forallb (fun kv' => existsb (fun kv => pair_eq kv kv') l) m.
Lemma veq_map l m : veq (DMap l) (DMap m) = map_incl l m && map_incl' l m.
Proof.
  cbn [veq]. unfold map_incl, map_incl', pair_eq. f_equal.
  - apply forallb_ext. intros [k v]. reflexivity.
  - apply forallb_ext. intros kv'. apply existsb_ext. intros [k v]. reflexivity.
Qed.

Lemma set_incl_spec l m : set_incl l m = true <-> forall x, In x l -> exists y, In y m /\ veq x y = true.
Proof.
  unfold set_incl. rewrite forallb_forall. split; intros H x Hx; specialize (H x Hx).
  - apply existsb_exists in H. exact H.
  - apply existsb_exists. exact H.
Qed.
Lemma set_incl'_spec l m : set_incl' l m = true <-> forall y, In y m -> exists x, In x l /\ veq x y = true.
Proof.
  unfold set_incl'. rewrite forallb_forall. split; intros H y Hy; specialize (H y Hy).
  - apply existsb_exists in H. exact H.
  - apply existsb_exists. exact H.
Qed.
Lemma map_incl_spec l m : map_incl l m = true <-> forall kv, In kv l -> exists kv', In kv' m /\ pair_eq kv kv' = true.
Proof.
  unfold map_incl. rewrite forallb_forall. split; intros H x Hx; specialize (H x Hx).
  - apply existsb_exists in H. exact H.
  - apply existsb_exists. exact H.
Qed.
Lemma map_incl'_spec l m : map_incl' l m = true <-> forall kv', In kv' m -> exists kv, In kv l /\ pair_eq kv kv' = true.
Proof.
  unfold map_incl'. rewrite forallb_forall. split; intros H y Hy; specialize (H y Hy).
  - apply existsb_exists in H. exact H.
  - apply existsb_exists. exact H.
Qed.

(* ------------------------------------------------------------ reflexivity *)
Lemma nan_free_rank f : negb (is_nan f) = true -> exists x, rank (DDec f) = Some x.
Proof. unfold is_nan. cbn [rank]. destruct (rank_float f); [eauto|discriminate]. Qed.

Theorem veq_refl : forall v, nan_free v = true -> veq v v = true.
Proof.
  induction v as [| b | z | f | s | t | s | l IH | l IH | l IH] using dval_ind'; intros NF.
  - reflexivity.
  - cbn. apply eqb_reflx.
  - cbn [veq]. rewrite (num_cmp_refl (DInt z) (Fin z 0)); reflexivity.
  - cbn [veq]. destruct (nan_free_rank f NF) as [x Hx]. rewrite (num_cmp_refl (DDec f) x Hx). reflexivity.
  - cbn. apply str_eqb_refl.
  - cbn. apply Z.eqb_refl.
  - cbn. apply str_eqb_refl.
  - rewrite veq_list. cbn [nan_free] in NF. rewrite forallb_forall in NF. rewrite Forall_forall in IH.
    induction l as [|x l IHl]; [reflexivity|]. cbn [list_eq].
    rewrite (IH x (or_introl eq_refl) (NF x (or_introl eq_refl))). cbn [andb].
    apply IHl; intros y Hy; [apply IH|apply NF]; right; exact Hy.
  - rewrite veq_set. cbn [nan_free] in NF. rewrite forallb_forall in NF. rewrite Forall_forall in IH.
    apply andb_true_iff. split.
    + apply set_incl_spec. intros x Hx. exists x. split; [exact Hx|]. apply IH; [exact Hx|apply NF; exact Hx].
    + apply set_incl'_spec. intros x Hx. exists x. split; [exact Hx|]. apply IH; [exact Hx|apply NF; exact Hx].
  - rewrite veq_map. cbn [nan_free] in NF. rewrite forallb_forall in NF. rewrite Forall_forall in IH.
    assert (P : forall kv, In kv l -> pair_eq kv kv = true).
    { intros kv Hkv. specialize (IH kv Hkv). specialize (NF kv Hkv). apply andb_true_iff in NF.
      unfold pair_eq. apply andb_true_iff. split; [apply IH|apply IH]; tauto. }
    apply andb_true_iff. split.
    + apply map_incl_spec. intros kv Hkv. exists kv. split; [exact Hkv|apply P; exact Hkv].
    + apply map_incl'_spec. intros kv Hkv. exists kv. split; [exact Hkv|apply P; exact Hkv].
Qed.

(* ------------------------------------------------------------ symmetry *)
Theorem veq_sym : forall a b, veq a b = veq b a.
Proof.
  induction a as [| b | z | f | s | t | s | l IH | l IH | l IH] using dval_ind'; intros c;
    destruct c as [| b' | z' | f' | s' | t' | s' | m | m | m]; try reflexivity.
  - cbn. destruct b, b'; reflexivity.
  - cbn [veq]. apply num_eq_sym.
  - cbn [veq]. apply num_eq_sym.
  - cbn [veq]. apply num_eq_sym.
  - cbn [veq]. apply num_eq_sym.
  - cbn. apply str_eqb_sym.
  - cbn. apply Z.eqb_sym.
  - cbn. apply str_eqb_sym.
  - rewrite !veq_list. rewrite Forall_forall in IH. revert m.
    induction l as [|x l IHl]; intros [|y m]; cbn [list_eq]; try reflexivity.
    rewrite (IH x (or_introl eq_refl) y). f_equal. apply IHl. intros z Hz. apply IH. right. exact Hz.
  - rewrite !veq_set. rewrite Forall_forall in IH. rewrite andb_comm. f_equal.
    + unfold set_incl', set_incl. apply forallb_ext. intros y. apply existsb_ext_in. intros x Hx. apply IH. exact Hx.
    + unfold set_incl', set_incl. apply forallb_ext_in. intros x Hx. apply existsb_ext. intros y. apply IH. exact Hx.
  - rewrite !veq_map. rewrite Forall_forall in IH. rewrite andb_comm.
    assert (P : forall kv kv', In kv l -> pair_eq kv kv' = pair_eq kv' kv).
    { intros kv kv' Hkv. unfold pair_eq. destruct (IH kv Hkv) as [H1 H2]. rewrite H1, H2. reflexivity. }
    f_equal.
    + unfold map_incl', map_incl. apply forallb_ext. intros y. apply existsb_ext_in. intros x Hx. apply P. exact Hx.
    + unfold map_incl', map_incl. apply forallb_ext_in. intros x Hx. apply existsb_ext. intros y. apply P. exact Hx.
Qed.

(* ------------------------------------------------------------ transitivity *)
Theorem veq_trans : forall a b c, veq a b = true -> veq b c = true -> veq a c = true.
Proof.
  induction a as [| b0 | z | f | s | t | s | l IH | l IH | l IH] using dval_ind'; intros b c Hab Hbc;
    destruct b as [| b' | z' | f' | s' | t' | s' | m | m | m]; try discriminate Hab;
    destruct c as [| b'' | z'' | f'' | s'' | t'' | s'' | n | n | n]; try discriminate Hbc; try reflexivity.
  - cbn in *. destruct b0, b', b''; try discriminate; reflexivity.
  - cbn [veq] in *. eapply num_eq_trans; eassumption.
  - cbn [veq] in *. eapply num_eq_trans; eassumption.
  - cbn [veq] in *. eapply num_eq_trans; eassumption.
  - cbn [veq] in *. eapply num_eq_trans; eassumption.
  - cbn [veq] in *. eapply num_eq_trans; eassumption.
  - cbn [veq] in *. eapply num_eq_trans; eassumption.
  - cbn [veq] in *. eapply num_eq_trans; eassumption.
  - cbn [veq] in *. eapply num_eq_trans; eassumption.
  - cbn in *. apply str_eqb_eq in Hab, Hbc. subst. apply str_eqb_refl.
  - cbn in *. apply Z.eqb_eq in Hab, Hbc. subst. apply Z.eqb_refl.
  - cbn in *. apply str_eqb_eq in Hab, Hbc. subst. apply str_eqb_refl.
  - rewrite veq_list in *. rewrite Forall_forall in IH. revert m n Hab Hbc.
    induction l as [|x l IHl]; intros [|y m] [|z n] Hab Hbc; cbn [list_eq] in *; try discriminate; try reflexivity.
    apply andb_true_iff in Hab, Hbc. destruct Hab as [A1 A2], Hbc as [B1 B2].
    rewrite (IH x (or_introl eq_refl) y z A1 B1). cbn [andb].
    apply (IHl (fun w Hw => IH w (or_intror Hw)) m n A2 B2).
  - rewrite veq_set in *. rewrite Forall_forall in IH.
    apply andb_true_iff in Hab, Hbc. destruct Hab as [A1 A2], Hbc as [B1 B2].
    rewrite set_incl_spec in A1, B1. rewrite set_incl'_spec in A2, B2.
    apply andb_true_iff. split.
    + apply set_incl_spec. intros x Hx. destruct (A1 x Hx) as [y [Hy E1]]. destruct (B1 y Hy) as [z [Hz E2]].
      exists z. split; [exact Hz|]. apply (IH x Hx y z E1 E2).
    + apply set_incl'_spec. intros z Hz. destruct (B2 z Hz) as [y [Hy E2]]. destruct (A2 y Hy) as [x [Hx E1]].
      exists x. split; [exact Hx|]. apply (IH x Hx y z E1 E2).
  - rewrite veq_map in *. rewrite Forall_forall in IH.
    apply andb_true_iff in Hab, Hbc. destruct Hab as [A1 A2], Hbc as [B1 B2].
    rewrite map_incl_spec in A1, B1. rewrite map_incl'_spec in A2, B2.
    assert (P : forall kv kv' kv'', In kv l -> pair_eq kv kv' = true -> pair_eq kv' kv'' = true -> pair_eq kv kv'' = true).
    { intros kv kv' kv'' Hkv E1 E2. unfold pair_eq in *. apply andb_true_iff in E1, E2.
      destruct (IH kv Hkv) as [I1 I2]. apply andb_true_iff. split; [eapply I1|eapply I2]; intuition eauto. }
    apply andb_true_iff. split.
    + apply map_incl_spec. intros x Hx. destruct (A1 x Hx) as [y [Hy E1]]. destruct (B1 y Hy) as [z [Hz E2]].
      exists z. split; [exact Hz|]. apply (P x y z Hx E1 E2).
    + apply map_incl'_spec. intros z Hz. destruct (B2 z Hz) as [y [Hy E2]]. destruct (A2 y Hy) as [x [Hx E1]].
      exists x. split; [exact Hx|]. apply (P x y z Hx E1 E2).
Qed.

(* ------------------------------------------------------------ kinds *)
Theorem veq_kind a b : veq a b = true -> kind a = kind b.
Proof. destruct a, b; cbn; intros H; try discriminate; reflexivity. Qed.

(* ints and decimals are equal exactly when their exact values are *)
Theorem veq_num a b x y : rank a = Some x -> rank b = Some y -> veq a b = match exr_cmp x y with Eq => true | _ => false end.
Proof.
  intros Ha Hb. destruct a; try discriminate; destruct b; try discriminate; cbn [veq]; unfold num_cmp; rewrite Ha, Hb; reflexivity.
Qed.

(* ------------------------------------------------------------ equal values are interchangeable *)
Lemma veq_congr a b : veq a b = true -> forall z, veq a z = veq b z.
Proof.
  intros H z. destruct (veq a z) eqn:E1; destruct (veq b z) eqn:E2; try reflexivity.
  - rewrite veq_sym in H. rewrite (veq_trans b a z H E1) in E2. discriminate.
  - rewrite (veq_trans a b z H E2) in E1. discriminate.
Qed.
Lemma veq_congr_r a b : veq a b = true -> forall z, veq z a = veq z b.
Proof. intros H z. rewrite (veq_sym z a), (veq_sym z b). apply veq_congr. exact H. Qed.

Theorem set_mem_respects a b l : veq a b = true -> set_mem a l = set_mem b l.
Proof. intros H. unfold set_mem. apply existsb_ext. intros y. apply veq_congr_r. exact H. Qed.

Theorem set_remove_respects a b l : veq a b = true -> set_remove a l = set_remove b l.
Proof. intros H. unfold set_remove. apply filter_ext. intros y. f_equal. apply veq_congr_r. exact H. Qed.

Theorem map_get_respects a b m : veq a b = true -> map_get a m = map_get b m.
Proof.
  intros H. unfold map_get. induction m as [|[k v] m IH]; [reflexivity|]. cbn [find fst].
  rewrite (veq_congr_r a b H k). destruct (veq k b); [reflexivity|exact IH].
Qed.

Theorem map_remove_respects a b m : veq a b = true -> map_remove a m = map_remove b m.
Proof. intros H. unfold map_remove. apply filter_ext. intros y. f_equal. apply veq_congr_r. exact H. Qed.

(* == on containers gives the same answer whichever equal representative is stored *)
Theorem set_eq_respects a b l m : veq a b = true -> veq (DSet (a :: l)) (DSet m) = veq (DSet (b :: l)) (DSet m).
Proof.
  intros H. rewrite !veq_set. unfold set_incl, set_incl'. cbn [forallb existsb]. f_equal.
  - f_equal. apply existsb_ext. intros y. apply veq_congr. exact H.
  - apply forallb_ext. intros y. f_equal. apply veq_congr. exact H.
Qed.

(* ------------------------------------------------------------ order insensitivity *)
Theorem set_perm_eq l1 l2 : Permutation l1 l2 -> nan_free (DSet l1) = true -> veq (DSet l1) (DSet l2) = true.
Proof.
  intros P NF. rewrite veq_set. cbn [nan_free] in NF. rewrite forallb_forall in NF.
  apply andb_true_iff. split.
  - apply set_incl_spec. intros x Hx. exists x. split; [eapply Permutation_in; eassumption|]. apply veq_refl. apply NF. exact Hx.
  - apply set_incl'_spec. intros x Hx. exists x. assert (In x l1) by (eapply Permutation_in; [apply Permutation_sym|]; eassumption).
    split; [assumption|]. apply veq_refl. apply NF. assumption.
Qed.

Theorem map_perm_eq l1 l2 : Permutation l1 l2 -> nan_free (DMap l1) = true -> veq (DMap l1) (DMap l2) = true.
Proof.
  intros P NF. rewrite veq_map. cbn [nan_free] in NF. rewrite forallb_forall in NF.
  assert (R : forall kv, In kv l1 -> pair_eq kv kv = true).
  { intros kv H. specialize (NF kv H). apply andb_true_iff in NF. unfold pair_eq. apply andb_true_iff.
    split; apply veq_refl; tauto. }
  apply andb_true_iff. split.
  - apply map_incl_spec. intros x Hx. exists x. split; [eapply Permutation_in; eassumption|]. apply R. exact Hx.
  - apply map_incl'_spec. intros x Hx. exists x. assert (In x l1) by (eapply Permutation_in; [apply Permutation_sym|]; eassumption).
    split; [assumption|]. apply R. assumption.
Qed.

(* ------------------------------------------------------------ a set never holds two equal elements *)
Lemma set_mem_app x l m : set_mem x (l ++ m) = set_mem x l || set_mem x m.
Proof. unfold set_mem. apply existsb_app. Qed.

Lemma nodupv_snoc l x : nodupv l = true -> set_mem x l = false -> nodupv (l ++ [x]) = true.
Proof.
  induction l as [|y l IH]; intros N M; [reflexivity|]. cbn [app nodupv] in *.
  apply andb_true_iff in N. destruct N as [N1 N2]. unfold set_mem in M. cbn [existsb] in M.
  apply orb_false_iff in M. destruct M as [M1 M2].
  apply andb_true_iff. split.
  - rewrite set_mem_app. apply negb_true_iff in N1. rewrite N1. cbn [orb]. unfold set_mem. cbn [existsb].
    rewrite orb_false_r. rewrite veq_sym. rewrite M1. reflexivity.
  - apply IH; assumption.
Qed.

Lemma set_mem_filter x p l : set_mem x (filter p l) = true -> set_mem x l = true.
Proof.
  unfold set_mem. rewrite !existsb_exists. intros [y [Hy E]]. apply filter_In in Hy. exists y. tauto.
Qed.

Lemma nodupv_filter p l : nodupv l = true -> nodupv (filter p l) = true.
Proof.
  induction l as [|y l IH]; intros N; [reflexivity|]. cbn [nodupv] in N. apply andb_true_iff in N. destruct N as [N1 N2].
  cbn [filter]. destruct (p y).
  - cbn [nodupv]. apply andb_true_iff. split; [|apply IH; exact N2].
    apply negb_true_iff. apply negb_true_iff in N1. destruct (set_mem y (filter p l)) eqn:E; [|reflexivity].
    apply set_mem_filter in E. congruence.
  - apply IH. exact N2.
Qed.

Theorem set_step_nodup l o : nodupv l = true -> nodupv (set_step l o) = true.
Proof.
  intros N. destruct o as [x|x]; cbn [set_step].
  - unfold set_add. destruct (set_mem x l) eqn:E; [exact N|]. apply nodupv_snoc; assumption.
  - apply nodupv_filter. exact N.
Qed.

Theorem set_ops_nodup ops : nodupv (fold_left set_step ops []) = true.
Proof.
  assert (G : forall l, nodupv l = true -> nodupv (fold_left set_step ops l) = true).
  { induction ops as [|o ops IH]; intros l N; [exact N|]. cbn [fold_left]. apply IH. apply set_step_nodup. exact N. }
  apply G. reflexivity.
Qed.

(* maps: at most one entry per key, for every sequence of put/remove *)
Definition keys (m : list (dval * dval)) := map fst m.

Lemma map_put_keys k v m :
  keys (map_put k v m) = if map_has k m then keys m else keys m ++ [k].
Proof.
  induction m as [|[k' v'] m IH]; [reflexivity|]. cbn [map_put map_has existsb fst].
  destruct (veq k' k) eqn:E; cbn [orb]; [reflexivity|]. unfold keys in *. cbn [map fst]. rewrite IH.
  unfold map_has. destruct (existsb _ m); reflexivity.
Qed.

Lemma map_has_keys k m : map_has k m = set_mem k (keys m).
Proof. unfold map_has, set_mem, keys. rewrite existsb_map'. reflexivity. Qed.

Lemma keys_filter k m : keys (map_remove k m) = set_remove k (keys m).
Proof.
  unfold keys, map_remove, set_remove. induction m as [|[k' v'] m IH]; [reflexivity|]. cbn [filter map fst].
  destruct (veq k' k); cbn [negb map fst]; rewrite IH; reflexivity.
Qed.

Theorem map_step_nodup m o : nodupv (keys m) = true -> nodupv (keys (map_step m o)) = true.
Proof.
  intros N. destruct o as [k v|k]; cbn [map_step].
  - rewrite map_put_keys, map_has_keys. destruct (set_mem k (keys m)) eqn:E; [exact N|]. apply nodupv_snoc; assumption.
  - rewrite keys_filter. apply nodupv_filter. exact N.
Qed.

Theorem map_ops_nodup ops : nodupv (keys (fold_left map_step ops [])) = true.
Proof.
  assert (G : forall m, nodupv (keys m) = true -> nodupv (keys (fold_left map_step ops m)) = true).
  { induction ops as [|o ops IH]; intros l N; [exact N|]. cbn [fold_left]. apply IH. apply map_step_nodup. exact N. }
  apply G. reflexivity.
Qed.

(* after put k v, lookup of any key equal to k gives v; other keys are unaffected *)
Theorem map_get_put k v m k2 :
  map_get k2 (map_put k v m) = if veq k k2 then (if map_has k m then Some v else Some v) else map_get k2 m.
Proof.
  destruct (veq k k2) eqn:E.
  - replace (if map_has k m then Some v else Some v) with (Some v) by (destruct (map_has k m); reflexivity).
    induction m as [|[k' v'] m IH]; cbn [map_put].
    + unfold map_get. cbn [find fst snd]. rewrite E. reflexivity.
    + destruct (veq k' k) eqn:E2.
      * unfold map_get. cbn [find fst snd]. rewrite (veq_trans k' k k2 E2 E). reflexivity.
      * unfold map_get in *. cbn [find fst snd]. destruct (veq k' k2) eqn:E3; [|exact IH].
        exfalso. rewrite veq_sym in E. rewrite (veq_trans k' k2 k E3 E) in E2. discriminate.
  - induction m as [|[k' v'] m IH]; cbn [map_put].
    + unfold map_get. cbn [find fst]. rewrite E. reflexivity.
    + destruct (veq k' k) eqn:E2.
      * unfold map_get. cbn [find fst snd]. destruct (veq k' k2) eqn:E3; [|reflexivity].
        exfalso. rewrite veq_sym in E2. rewrite (veq_trans k k' k2 E2 E3) in E. discriminate.
      * unfold map_get in *. cbn [find fst snd]. destruct (veq k' k2); [reflexivity|exact IH].
Qed.
