(* C03: argument binding (Args.setArgs) *)
From Coq Require Import String.
From Coq Require Import ZArith List Bool Lia.
From Ckl Require Import Prelude.PyPrelude Model.Values Model.Eval.
Import ListNotations.
Open Scope Z_scope.

Lemma str_eqb_refl' s : str_eqb s s = true.
Proof. induction s as [|x s IH]; cbn; [reflexivity|]. rewrite Z.eqb_refl, IH. reflexivity. Qed.

(* an unknown argument name is an error, wherever it stands *)
Theorem unknown_name_error argNames n v t b :
  existsb (str_eqb n) argNames = false -> bind_named argNames ((Some n, v) :: t) b = None.
Proof. intros H. cbn. rewrite H. reflexivity. Qed.

(* a positional argument after a named one is an error *)
Theorem positional_after_named_error argNames hasRest v t bound rest :
  bind_positional argNames hasRest ((None, v) :: t) true bound rest = None.
Proof. reflexivity. Qed.

(* named arguments are bound first: the first pass binds every named argument and nothing else *)
Theorem named_first argNames n v t b :
  existsb (str_eqb n) argNames = true ->
  bind_named argNames ((Some n, v) :: t) b = bind_named argNames t (assoc_set n v b).
Proof. intros H. cbn. rewrite H. reflexivity. Qed.
Theorem named_pass_skips_positionals argNames v t b :
  bind_named argNames ((None, v) :: t) b = bind_named argNames t b.
Proof. reflexivity. Qed.

(* a positional argument goes to the first parameter (in declaration order) not bound yet ... *)
Theorem positional_to_next_free argNames hasRest v t bound rest a :
  next_positional argNames bound = Some a ->
  bind_positional argNames hasRest ((None, v) :: t) false bound rest =
  bind_positional argNames hasRest t false (assoc_set a v bound) rest.
Proof. intros H. cbn. rewrite H. reflexivity. Qed.

(* ... a surplus positional goes to the rest parameter, in order, or is an error when there is none *)
Theorem surplus_to_rest argNames v t bound rest :
  next_positional argNames bound = None ->
  bind_positional argNames true ((None, v) :: t) false bound rest = bind_positional argNames true t false bound (rest ++ [v]) /\
  bind_positional argNames false ((None, v) :: t) false bound rest = None.
Proof. intros H. cbn. rewrite H. split; reflexivity. Qed.

(* the first free parameter: every earlier parameter is bound *)
Theorem next_positional_spec argNames bound a :
  next_positional argNames bound = Some a ->
  exists pre post, argNames = pre ++ a :: post /\ assoc_get a bound = None /\
                   forall p, In p pre -> assoc_get p bound <> None.
Proof.
  induction argNames as [|x t IH]; cbn; [discriminate|].
  destruct (assoc_get x bound) eqn:E.
  - intros H. destruct (IH H) as [pre [post [E1 [E2 E3]]]]. exists (x :: pre), post.
    split; [cbn; congruence|]. split; [exact E2|]. intros p [<-|Hp]; [congruence|auto].
  - intros H. inversion H; subst. exists [], t. split; [reflexivity|]. split; [exact E|]. intros p [].
Qed.

Definition s := cps_of_string.
(* non-vacuity / worked instances: f(a, b, c, rest...) called as f(1, c = 3, 2, 4, 5) is an error (positional
   after named); f(1, 2, c = 3) binds in order; f(b = 2, 1, 3, 4) fills a, then c, then the rest *)
Example bind_examples :
  set_args [s "a"; s "b"; s "c"; s "rest..."] [(None, VInt 1); (Some (s "c"), VInt 3); (None, VInt 2)] = None /\
  set_args [s "a"; s "b"; s "c"] [(None, VInt 1); (None, VInt 2); (Some (s "c"), VInt 3)]
    = Some ([(s "c", VInt 3); (s "a", VInt 1); (s "b", VInt 2)], []) /\
  set_args [s "a"; s "b"; s "c"; s "rest..."] [(None, VInt 1); (None, VInt 3); (None, VInt 4); (None, VInt 5); (None, VInt 6)]
    = Some ([(s "a", VInt 1); (s "b", VInt 3); (s "c", VInt 4)], [VInt 5; VInt 6]) /\
  set_args [s "a"; s "b"] [(None, VInt 1); (None, VInt 2); (None, VInt 3)] = None /\
  set_args [s "a"] [(Some (s "zz"), VInt 1)] = None.
Proof. vm_compute. repeat split; reflexivity. Qed.
