(* C18: the algebra of strings, for all strings. *)
From Coq Require Import ZArith List Bool Lia.
From Ckl Require Import Prelude.PyPrelude Model.SeqModel Model.StrSpec Proofs.SeqProofs.
Import ListNotations.
Open Scope Z_scope.

Lemma join_cons sep x r : r <> [] -> join sep (x :: r) = x ++ sep ++ join sep r.
Proof. destruct r; [congruence|reflexivity]. Qed.

Lemma split_fuel_nonempty f s sep cur : split_fuel f s sep cur <> [].
Proof. revert s cur. induction f as [|f IH]; intros s cur; cbn; [discriminate|]. destruct s; [discriminate|]. destruct (prefixb sep (z :: s)); [discriminate|apply IH]. Qed.

Lemma prefixb_skipn (p s : str) : prefixb p s = true -> s = p ++ skipn (length p) s.
Proof. intros H. apply prefixb_app in H. destruct H as [b ->]. rewrite skipn_app, skipn_all, Nat.sub_diag. reflexivity. Qed.

Lemma join_split_fuel sep : sep <> [] -> forall f s cur, (length s < f)%nat -> join sep (split_fuel f s sep cur) = rev cur ++ s.
Proof.
  intros Hs. induction f as [|f IH]; intros s cur L; [lia|]. cbn [split_fuel].
  destruct s as [|c s]; [cbn; rewrite app_nil_r; reflexivity|].
  destruct (prefixb sep (c :: s)) eqn:E.
  - rewrite join_cons by apply split_fuel_nonempty.
    pose proof (prefixb_skipn _ _ E) as K.
    rewrite IH.
    + cbn [rev app]. rewrite <- K. reflexivity.
    + rewrite K in L. rewrite app_length in L. destruct sep; [congruence|]. cbn [length] in *. lia.
  - rewrite IH by (cbn [length] in L; lia). cbn [rev]. rewrite <- app_assoc. reflexivity.
Qed.

(* joining the pieces of a split with the separator gives the string back *)
Theorem join_split (s sep : str) : sep <> [] -> join sep (split_lit s sep) = s.
Proof. intros H. unfold split_lit. rewrite join_split_fuel by (auto; lia). reflexivity. Qed.

Theorem join_ckl_split (s sep : str) : sep <> [] -> join sep (ckl_split s sep) = s.
Proof. intros H. destruct s; [reflexivity|]. apply join_split. exact H. Qed.

(* no piece of a split contains the separator: the split is the finest one *)
(* replace = join of the split with the new text *)
Lemma replace_split_fuel a b : a <> [] -> forall f s cur, (length s < f)%nat ->
  join b (split_fuel f s a cur) = rev cur ++ str_replace_fuel f s a b.
Proof.
  intros Ha. induction f as [|f IH]; intros s cur L; [lia|]. cbn [split_fuel str_replace_fuel].
  destruct s as [|c s]; [cbn; rewrite app_nil_r; reflexivity|].
  destruct (prefixb a (c :: s)) eqn:E.
  - rewrite join_cons by apply split_fuel_nonempty. rewrite IH.
    + reflexivity.
    + pose proof (prefixb_skipn _ _ E) as K. rewrite K in L. rewrite app_length in L. destruct a; [congruence|]. cbn [length] in *. lia.
  - rewrite IH by (cbn [length] in L; lia). cbn [rev]. rewrite <- app_assoc. reflexivity.
Qed.

Theorem replace_is_join_split (s a b : str) : a <> [] -> str_replace s a b = join b (split_lit s a).
Proof.
  intros H. unfold str_replace, split_lit. destruct a as [|x a]; [congruence|].
  rewrite (replace_split_fuel (x :: a) b H (S (length s)) s []) by lia. reflexivity.
Qed.

(* replacing a text by itself changes nothing *)
Theorem replace_self (s a : str) : a <> [] -> str_replace s a a = s.
Proof. intros H. rewrite replace_is_join_split by exact H. apply join_split. exact H. Qed.

(* a string in which the text does not occur is unchanged *)
Lemma replace_fuel_absent a b f : forall s, (forall k, (k <= length s)%nat -> prefixb a (skipn k s) = false) -> str_replace_fuel f s a b = s.
Proof.
  induction f as [|f IH]; intros s H; [reflexivity|]. cbn [str_replace_fuel]. destruct s as [|c s]; [reflexivity|].
  pose proof (H 0%nat ltac:(lia)) as H0. cbn [skipn] in H0. rewrite H0. f_equal. apply IH. intros k Hk. apply (H (S k)). cbn [length]. lia.
Qed.

Theorem replace_absent (s a b : str) : a <> [] -> str_find s a = -1 -> str_replace s a b = s.
Proof.
  intros Ha H. unfold str_replace. destruct a as [|x a]; [congruence|]. apply replace_fuel_absent.
  unfold str_find in H. destruct (find_from_spec (x :: a) s 0 ltac:(lia)) as [[_ N]|[k [R _]]]; [exact N|lia].
Qed.

(* reverse *)
Theorem reverse_involution (s : str) : rev (rev s) = s. Proof. apply rev_involutive. Qed.
Theorem reverse_length (s : str) : length (rev s) = length s. Proof. apply rev_length. Qed.
Theorem reverse_concat (s t : str) : rev (s ++ t) = rev t ++ rev s. Proof. apply rev_app_distr. Qed.

(* contains / find / starts_with / ends_with / concatenation *)
Theorem contains_find_occurs (s t : str) :
  (contains s t = true <-> 0 <= str_find s t) /\ (0 <= str_find s t <-> exists a b, s = a ++ t ++ b).
Proof.
  split; [unfold contains; apply Z.leb_le|]. symmetry. apply (contains_iff_find s t).
Qed.

Theorem starts_with_iff (s t : str) : str_startswith s t = true <-> exists b, s = t ++ b.
Proof. apply prefixb_app. Qed.

Theorem ends_with_iff (s t : str) : str_endswith s t = true <-> exists a, s = a ++ t.
Proof.
  unfold str_endswith. rewrite prefixb_app. split.
  - intros [b E]. exists (rev b). rewrite <- (rev_involutive s), E, rev_app_distr, rev_involutive. reflexivity.
  - intros [a ->]. exists (rev a). apply rev_app_distr.
Qed.

Theorem starts_with_contains (s t : str) : str_startswith s t = true -> contains s t = true.
Proof. intros H. apply starts_with_iff in H. destruct H as [b ->]. apply contains_find_occurs. apply contains_find_occurs. exists [], b. reflexivity. Qed.

Theorem ends_with_contains (s t : str) : str_endswith s t = true -> contains s t = true.
Proof. intros H. apply ends_with_iff in H. destruct H as [a ->]. apply contains_find_occurs. apply contains_find_occurs. exists a, []. rewrite app_nil_r. reflexivity. Qed.

Theorem concat_contains (a t b : str) : contains (a ++ t ++ b) t = true.
Proof. apply contains_find_occurs. apply contains_find_occurs. exists a, b. reflexivity. Qed.

Theorem concat_length (s t : str) : zlen (s ++ t) = zlen s + zlen t.
Proof. unfold zlen. rewrite app_length. lia. Qed.

(* trimming, for every notion of white space *)
Section TrimP.
Variable ws : Z -> bool.
Lemma dropws_idem s : dropws ws (dropws ws s) = dropws ws s.
Proof. induction s as [|c s IH]; [reflexivity|]. cbn [dropws]. destruct (ws c) eqn:E; [exact IH|]. cbn [dropws]. rewrite E. reflexivity. Qed.

Lemma dropws_head s : match dropws ws s with [] => True | c :: _ => ws c = false end.
Proof. induction s as [|c s IH]; [exact I|]. cbn [dropws]. destruct (ws c) eqn:E; [exact IH|exact E]. Qed.

Lemma dropws_fix s : match s with [] => True | c :: _ => ws c = false end -> dropws ws s = s.
Proof. destruct s as [|c s]; [reflexivity|]. intros H. cbn [dropws]. rewrite H. reflexivity. Qed.

(* dropping trailing white space keeps a non-blank head *)
Lemma rdrop_head s : (match s with [] => True | c :: _ => ws c = false end) ->
  match rev (dropws ws (rev s)) with [] => True | c :: _ => ws c = false end.
Proof.
  destruct s as [|c s]; [intros _; exact I|]. intros H.
  assert (K : exists t, rev (dropws ws (rev (c :: s))) = c :: t).
  { cbn [rev]. generalize (rev s). intros r. induction r as [|d r IH]; cbn [app dropws].
    - rewrite H. exists []. reflexivity.
    - destruct (ws d); [exact IH|]. exists (rev r ++ [d]). cbn [rev]. rewrite rev_app_distr. reflexivity. }
  destruct K as [t ->]. exact H.
Qed.

Theorem trim_idempotent s : trim ws (trim ws s) = trim ws s.
Proof.
  unfold trim. set (a := dropws ws s).
  assert (Ha : match a with [] => True | c :: _ => ws c = false end) by apply dropws_head.
  rewrite (dropws_fix (rev (dropws ws (rev a)))) by (apply rdrop_head; exact Ha).
  rewrite rev_involutive, dropws_idem. reflexivity.
Qed.
End TrimP.

(* case mapping: idempotent for every per-character map that is idempotent; the ASCII maps are *)
Theorem map_idempotent (f : Z -> Z) : (forall c, f (f c) = f c) -> forall s : str, map f (map f s) = map f s.
Proof. intros H s. rewrite map_map. apply map_ext. exact H. Qed.
Lemma up_ascii_idem c : up_ascii (up_ascii c) = up_ascii c.
Proof. unfold up_ascii. destruct ((97 <=? c) && (c <=? 122)) eqn:E; [|rewrite E; reflexivity].
  apply andb_true_iff in E. destruct E as [A B]. apply Z.leb_le in A, B.
  replace ((97 <=? c - 32) && (c - 32 <=? 122)) with false; [reflexivity|]. symmetry. apply andb_false_iff. left. apply Z.leb_gt. lia. Qed.
Lemma lo_ascii_idem c : lo_ascii (lo_ascii c) = lo_ascii c.
Proof. unfold lo_ascii. destruct ((65 <=? c) && (c <=? 90)) eqn:E; [|rewrite E; reflexivity].
  apply andb_true_iff in E. destruct E as [A B]. apply Z.leb_le in A, B.
  replace ((65 <=? c + 32) && (c + 32 <=? 90)) with false; [reflexivity|]. symmetry. apply andb_false_iff. right. apply Z.leb_gt. lia. Qed.
Theorem upper_idempotent (s : str) : map up_ascii (map up_ascii s) = map up_ascii s.
Proof. apply map_idempotent, up_ascii_idem. Qed.
Theorem lower_idempotent (s : str) : map lo_ascii (map lo_ascii s) = map lo_ascii s.
Proof. apply map_idempotent, lo_ascii_idem. Qed.

(* placeholders: the value is kept whole, padded to the width; the surrounding text is untouched *)
Theorem fmt_pad_length m z w v : length (fmt_pad m z w v) = Nat.max w (length v).
Proof. unfold fmt_pad, pad_left, pad_right. destruct z, m; rewrite app_length, repeat_length; lia. Qed.
Theorem fmt_pad_value m z w v : exists a b, fmt_pad m z w v = a ++ v ++ b /\ (forall c, In c (a ++ b) -> c = 32 \/ c = 48).
Proof.
  unfold fmt_pad, pad_left, pad_right. destruct z; [|destruct m].
  - exists (repeat 48 (w - length v)), []. rewrite !app_nil_r. split; [reflexivity|]. intros c H. apply repeat_spec in H. auto.
  - exists [], (repeat 32 (w - length v)). split; [reflexivity|]. intros c H. apply repeat_spec in H. auto.
  - exists (repeat 32 (w - length v)), []. rewrite !app_nil_r. split; [reflexivity|]. intros c H. apply repeat_spec in H. auto.
Qed.
Theorem interp_lit_only ts : interp (map Lit ts) = concat ts.
Proof. unfold interp. induction ts as [|t ts IH]; [reflexivity|]. cbn. rewrite IH. reflexivity. Qed.
Theorem interp_app ps qs : interp (ps ++ qs) = interp ps ++ interp qs.
Proof. unfold interp. apply flat_map_app. Qed.
