(* C09: in secure mode no sequence of bindings, aliases and copies makes an insecure built-in reachable; and
   (finite theorem over the generated table) every built-in that touches files, directories, processes or scripts is insecure. *)
From Coq Require Import ZArith List Bool Lia.
From Ckl Require Import Gen.SecureTable Model.Secure.
Import ListNotations.
Open Scope Z_scope.

Lemma bind_fun_inv s cls alias : flag s = true -> all_secure s -> flag (bind_fun s cls alias) = true /\ all_secure (bind_fun s cls alias).
Proof.
  intros F A. unfold bind_fun. rewrite F. cbn [andb]. destruct (class_secure cls) eqn:E; cbn [negb]; [|split; assumption].
  split; [reflexivity|]. intros x c H. cbn [bound] in H. apply in_app_or in H. destruct H as [H|H].
  - destruct alias as [a|]; [destruct H as [H|[]]; injection H as _ <-; exact E|destruct H].
  - destruct H as [H|H]; [injection H as _ <-; exact E|exact (A x c H)].
Qed.

Lemma cmd_inv s c : flag s = true -> all_secure s -> flag (run_cmd s c) = true /\ all_secure (run_cmd s c).
Proof.
  intros F A. destruct c as [n alias|x y|b|x]; cbn [run_cmd].
  - generalize (native_classes n natives). intros l. revert s F A. induction l as [|cls l IH]; intros s F A; [split; assumption|].
    cbn [fold_left]. destruct (bind_fun_inv s cls alias F A) as [F' A']. apply IH; assumption.
  - destruct (find (fun p => fst p =? x) (bound s)) as [[x' cls]|] eqn:E; [|split; assumption]. split; [exact F|].
    apply find_some in E. destruct E as [E _]. intros z c [H|H]; [injection H as _ <-; exact (A x' cls E)|exact (A z c H)].
  - split; assumption.
  - split; [exact F|]. intros z c H. cbn [bound] in H. apply filter_In in H. exact (A z c (proj1 H)).
Qed.

(* every state a secure interpreter can reach holds only secure built-ins, under whatever names; the flag stays on *)
Theorem secure_reachable cs : forall s, flag s = true -> all_secure s -> flag (run cs s) = true /\ all_secure (run cs s).
Proof.
  unfold run. induction cs as [|c cs IH]; intros s F A; [split; assumption|]. cbn [fold_left].
  destruct (cmd_inv s c F A) as [F' A']. apply IH; assumption.
Qed.

(* the generated table: no built-in that calls a file / directory / process / script facility is flagged secure *)
Theorem dangerous_is_insecure : forallb (fun r => let '(_, s, d) := r in implb d (negb s)) classes = true.
Proof. vm_compute. reflexivity. Qed.

Lemma class_row_in c l s d : class_row c l = Some (s, d) -> In (c, s, d) l.
Proof.
  induction l as [|[[i s'] d'] r IH]; cbn; [discriminate|]. destruct (c =? i) eqn:E.
  - apply Z.eqb_eq in E. subst. intros H. injection H as -> ->. left. reflexivity.
  - intros H. right. exact (IH H).
Qed.

Theorem secure_not_dangerous c : class_secure c = true -> class_dangerous c = false.
Proof.
  unfold class_secure, class_dangerous. destruct (class_row c classes) as [[s d]|] eqn:E; [|discriminate]. intros ->.
  apply class_row_in in E. pose proof dangerous_is_insecure as T. rewrite forallb_forall in T. specialize (T _ E). cbn in T.
  destruct d; [discriminate|reflexivity].
Qed.

(* hence: whatever a secure-mode program binds, aliases, copies or shadows, no function value it can reach
   touches files, directories, processes or script files *)
Theorem secure_mode_denies cs x c :
  In (x, c) (bound (run cs (mk_sst true []))) -> class_dangerous c = false.
Proof.
  intros H. destruct (secure_reachable cs (mk_sst true []) eq_refl) as [_ A]; [intros ? ? []|].
  apply secure_not_dangerous. exact (A x c H).
Qed.
