(* C01 / C02: the model of the operator core of the parser is total - every parser of every level consumes at least one token
   when it succeeds, hence no loop counter and no nesting fuel ever runs out: parse ts is a tree or a syntax error for every ts. *)
From Coq Require Import ZArith List Bool Lia.
From Ckl Require Import Model.ExprParse.
Import ListNotations.

Definition prog (p : list tok -> res) : Prop := forall ts e r, p ts = Ok e r -> (length r < length ts)%nat.
Definition nofuel (p : list tok -> res) (m : nat) : Prop := forall ts, (length ts < m)%nat -> p ts <> Fuel.

Ltac inv H := inversion H; subst; clear H.

Section Progress.
  Variable prim : list tok -> res.
  Hypothesis Hp : prog prim.

  Lemma p_unary_prog : prog (p_unary prim).
  Proof.
    intros ts e r. unfold p_unary. destruct ts as [|t ts']; [intros H; apply Hp in H; exact H|].
    destruct t; try (intros H; apply Hp in H; exact H).
    - intros H. apply Hp in H. cbn [length]. lia.
    - destruct ts' as [|pt2 pts2]; [discriminate|].
      destruct pt2; try (destruct (prim _) as [pe pr| |] eqn:E; [intros H; inv H; apply Hp in E; cbn [length] in *; lia|discriminate|discriminate]).
      intros H. inv H. cbn [length]. lia.
  Qed.

  Lemma mul_loop_prog k : forall acc ts e r, mul_loop prim k acc ts = Ok e r -> (length r <= length ts)%nat.
  Proof.
    induction k as [|k IH]; intros acc ts e r; destruct ts as [|t ts']; cbn [mul_loop]; try (intros H; inv H; lia);
      destruct t; try (intros H; inv H; lia); try discriminate.
    destruct (p_unary prim ts') as [pe pr| |] eqn:E; try discriminate.
    intros H. apply IH in H. apply p_unary_prog in E. cbn [length]. lia.
  Qed.

  Lemma p_mul_prog : prog (p_mul prim).
  Proof.
    intros ts e r. unfold p_mul. destruct (p_unary prim ts) as [pe pr| |] eqn:E; try discriminate.
    intros H. apply mul_loop_prog in H. apply p_unary_prog in E. lia.
  Qed.

  Lemma add_loop_prog k : forall acc ts e r, add_loop prim k acc ts = Ok e r -> (length r <= length ts)%nat.
  Proof.
    induction k as [|k IH]; intros acc ts e r; destruct ts as [|t ts']; cbn [add_loop]; try (intros H; inv H; lia);
      destruct (add_op t); try (intros H; inv H; lia); try discriminate.
    destruct (p_mul prim ts') as [pe pr| |] eqn:E; try discriminate.
    intros H. apply IH in H. apply p_mul_prog in E. cbn [length]. lia.
  Qed.

  Lemma p_add_prog : prog (p_add prim).
  Proof.
    intros ts e r. unfold p_add. destruct (p_mul prim ts) as [pe pr| |] eqn:E; try discriminate.
    intros H. apply add_loop_prog in H. apply p_mul_prog in E. lia.
  Qed.

  Lemma rel_loop_prog k : forall lhs acc ts e r, rel_loop prim k lhs acc ts = Ok e r -> (length r <= length ts)%nat.
  Proof.
    induction k as [|k IH]; intros lhs acc ts e r; destruct ts as [|t ts']; cbn [rel_loop]; try (intros H; inv H; lia);
      destruct t; try (intros H; inv H; lia); try discriminate.
    destruct (p_add prim ts') as [pe pr| |] eqn:E; try discriminate.
    intros H. apply IH in H. apply p_add_prog in E. cbn [length]. lia.
  Qed.

  Lemma p_rel_prog : prog (p_rel prim).
  Proof.
    intros ts e r. unfold p_rel. destruct (p_add prim ts) as [pe pr| |] eqn:E; try discriminate.
    apply p_add_prog in E.
    destruct pr as [|t pr1]; [intros H; inv H; lia|].
    destruct t; try (intros H; inv H; lia).
    intros H. apply rel_loop_prog in H. lia.
  Qed.

  Lemma p_not_prog : prog (p_not prim).
  Proof.
    intros ts e r. unfold p_not. destruct ts as [|t ts']; [apply p_rel_prog|].
    destruct t; try apply p_rel_prog.
    destruct (p_rel prim ts') as [pe pr| |] eqn:E; try discriminate.
    intros H. inv H. apply p_rel_prog in E. cbn [length]. lia.
  Qed.

  Lemma and_loop_prog k : forall acc ts e r, and_loop prim k acc ts = Ok e r -> (length r <= length ts)%nat.
  Proof.
    induction k as [|k IH]; intros acc ts e r; destruct ts as [|t ts']; cbn [and_loop]; try (intros H; inv H; lia);
      destruct t; try (intros H; inv H; lia); try discriminate.
    destruct (p_not prim ts') as [pe pr| |] eqn:E; try discriminate.
    intros H. apply IH in H. apply p_not_prog in E. cbn [length]. lia.
  Qed.

  Lemma p_and_prog : prog (p_and prim).
  Proof.
    intros ts e r. unfold p_and. destruct (p_not prim ts) as [pe pr| |] eqn:E; try discriminate.
    apply p_not_prog in E.
    destruct pr as [|t pr1]; [intros H; inv H; lia|].
    destruct t; try (intros H; inv H; lia).
    intros H. apply and_loop_prog in H. lia.
  Qed.

  Lemma or_loop_prog k : forall acc ts e r, or_loop prim k acc ts = Ok e r -> (length r <= length ts)%nat.
  Proof.
    induction k as [|k IH]; intros acc ts e r; destruct ts as [|t ts']; cbn [or_loop]; try (intros H; inv H; lia);
      destruct t; try (intros H; inv H; lia); try discriminate.
    destruct (p_and prim ts') as [pe pr| |] eqn:E; try discriminate.
    intros H. apply IH in H. apply p_and_prog in E. cbn [length]. lia.
  Qed.

  Lemma p_or_prog : prog (p_or prim).
  Proof.
    intros ts e r. unfold p_or. destruct (p_and prim ts) as [pe pr| |] eqn:E; try discriminate.
    apply p_and_prog in E.
    destruct pr as [|t pr1]; [intros H; inv H; lia|].
    destruct t; try (intros H; inv H; lia).
    intros H. apply or_loop_prog in H. lia.
  Qed.

  Lemma args_loop_prog k : forall acc ts l r, args_loop prim k acc ts = OkL l r -> (length r < length ts)%nat.
  Proof.
    induction k as [|k IH]; intros acc ts l r; destruct ts as [|t ts']; cbn [args_loop]; try discriminate.
    - destruct t; try discriminate. intros H. inv H. cbn [length]. lia.
    - assert (G : forall ts0, ts0 = t :: ts' ->
                 match p_or prim ts0 with
                 | Ok e pr => match pr with
                              | TRP :: _ => args_loop prim k (acc ++ [e]) pr
                              | TComma :: r' => args_loop prim k (acc ++ [e]) r'
                              | _ => ErrL
                              end
                 | Err => ErrL | Fuel => FuelL
                 end = OkL l r -> (length r < length ts0)%nat).
      { intros ts0 E0. destruct (p_or prim ts0) as [pe pr| |] eqn:E; try discriminate.
        apply p_or_prog in E. destruct pr as [|pt1 pr1]; try discriminate.
        destruct pt1; try discriminate; intros H; apply IH in H; cbn [length] in *; lia. }
      destruct t; try (apply G; reflexivity).
      intros H. inv H. cbn [length]. lia.
  Qed.

  Lemma postfix_prog k : forall f ts e r, postfix prim k f ts = Ok e r -> (length r <= length ts)%nat.
  Proof.
    induction k as [|k IH]; intros f ts e r; destruct ts as [|t ts']; cbn [postfix]; try (intros H; inv H; lia);
      destruct t; try (intros H; inv H; lia); try discriminate.
    destruct (args_loop prim (length ts') [] ts') as [l pr| |] eqn:E; try discriminate.
    intros H. apply IH in H. apply args_loop_prog in E. cbn [length]. lia.
  Qed.
End Progress.

Theorem p_prim_prog n : prog (p_prim n).
Proof.
  induction n as [|n IH]; intros ts e r; cbn [p_prim]; [discriminate|].
  destruct ts as [|t ts']; [discriminate|].
  destruct t; try discriminate.
  - intros H. inv H. cbn [length]. lia.
  - intros H. inv H. cbn [length]. lia.
  - intros H. apply (postfix_prog _ IH) in H. cbn [length]. lia.
  - destruct (p_or (p_prim n) ts') as [pe pr| |] eqn:E; try discriminate.
    apply (p_or_prog _ IH) in E.
    destruct pr as [|pt1 pr1]; try discriminate. destruct pt1; try discriminate.
    intros H. apply (postfix_prog _ IH) in H. cbn [length] in *. lia.
Qed.

(* ------------------------------------------------------------------ no counter runs out *)
Section NoFuel.
  Variable prim : list tok -> res.
  Variable m : nat.
  Hypothesis Hp : prog prim.
  Hypothesis Hn : nofuel prim m.

  Lemma p_unary_nf : nofuel (p_unary prim) m.
  Proof.
    intros ts L. unfold p_unary. destruct ts as [|t ts']; [apply Hn; exact L|].
    destruct t; try (apply Hn; exact L); cbn [length] in L.
    - apply Hn. lia.
    - destruct ts' as [|pt2 pts2]; [discriminate|].
      destruct pt2; try discriminate;
        (destruct (prim _) as [pe pr| |] eqn:E; [discriminate|discriminate|]; exfalso; revert E; apply Hn; cbn [length] in *; lia).
  Qed.

  Lemma mul_loop_nf k : forall acc ts, (length ts <= k)%nat -> (length ts < m)%nat -> mul_loop prim k acc ts <> Fuel.
  Proof.
    induction k as [|k IH]; intros acc ts Lk Lm; destruct ts as [|t ts']; cbn [mul_loop]; try discriminate;
      destruct t; try discriminate; cbn [length] in *; try lia.
    destruct (p_unary prim ts') as [pe pr| |] eqn:E; try discriminate.
    - apply (p_unary_prog _ Hp) in E. apply IH; lia.
    - exfalso. revert E. apply p_unary_nf. lia.
  Qed.

  Lemma p_mul_nf : nofuel (p_mul prim) m.
  Proof.
    intros ts L. unfold p_mul. destruct (p_unary prim ts) as [pe pr| |] eqn:E; try discriminate.
    - apply (p_unary_prog _ Hp) in E. apply mul_loop_nf; lia.
    - exfalso. revert E. apply p_unary_nf. exact L.
  Qed.

  Lemma add_loop_nf k : forall acc ts, (length ts <= k)%nat -> (length ts < m)%nat -> add_loop prim k acc ts <> Fuel.
  Proof.
    induction k as [|k IH]; intros acc ts Lk Lm; destruct ts as [|t ts']; cbn [add_loop]; try discriminate;
      destruct (add_op t); try discriminate; cbn [length] in *; try lia.
    destruct (p_mul prim ts') as [pe pr| |] eqn:E; try discriminate.
    - apply (p_mul_prog _ Hp) in E. apply IH; lia.
    - exfalso. revert E. apply p_mul_nf. lia.
  Qed.

  Lemma p_add_nf : nofuel (p_add prim) m.
  Proof.
    intros ts L. unfold p_add. destruct (p_mul prim ts) as [pe pr| |] eqn:E; try discriminate.
    - apply (p_mul_prog _ Hp) in E. apply add_loop_nf; lia.
    - exfalso. revert E. apply p_mul_nf. exact L.
  Qed.

  Lemma rel_loop_nf k : forall lhs acc ts, (length ts <= k)%nat -> (length ts < m)%nat -> rel_loop prim k lhs acc ts <> Fuel.
  Proof.
    induction k as [|k IH]; intros lhs acc ts Lk Lm; destruct ts as [|t ts']; cbn [rel_loop]; try discriminate;
      destruct t; try discriminate; cbn [length] in *; try lia.
    destruct (p_add prim ts') as [pe pr| |] eqn:E; try discriminate.
    - apply (p_add_prog _ Hp) in E. apply IH; lia.
    - exfalso. revert E. apply p_add_nf. lia.
  Qed.

  Lemma p_rel_nf : nofuel (p_rel prim) m.
  Proof.
    intros ts L. unfold p_rel. destruct (p_add prim ts) as [pe pr| |] eqn:E; try discriminate.
    - apply (p_add_prog _ Hp) in E. destruct pr as [|t pr1]; try discriminate. destruct t; try discriminate.
      apply rel_loop_nf; lia.
    - exfalso. revert E. apply p_add_nf. exact L.
  Qed.

  Lemma p_not_nf : nofuel (p_not prim) m.
  Proof.
    intros ts L. unfold p_not. destruct ts as [|t ts']; [apply p_rel_nf; exact L|].
    destruct t; try (apply p_rel_nf; exact L).
    destruct (p_rel prim ts') as [pe pr| |] eqn:E; try discriminate.
    exfalso. revert E. apply p_rel_nf. cbn [length] in L. lia.
  Qed.

  Lemma and_loop_nf k : forall acc ts, (length ts <= k)%nat -> (length ts < m)%nat -> and_loop prim k acc ts <> Fuel.
  Proof.
    induction k as [|k IH]; intros acc ts Lk Lm; destruct ts as [|t ts']; cbn [and_loop]; try discriminate;
      destruct t; try discriminate; cbn [length] in *; try lia.
    destruct (p_not prim ts') as [pe pr| |] eqn:E; try discriminate.
    - apply (p_not_prog _ Hp) in E. apply IH; lia.
    - exfalso. revert E. apply p_not_nf. lia.
  Qed.

  Lemma p_and_nf : nofuel (p_and prim) m.
  Proof.
    intros ts L. unfold p_and. destruct (p_not prim ts) as [pe pr| |] eqn:E; try discriminate.
    - apply (p_not_prog _ Hp) in E. destruct pr as [|t pr1]; try discriminate. destruct t; try discriminate.
      apply and_loop_nf; lia.
    - exfalso. revert E. apply p_not_nf. exact L.
  Qed.

  Lemma or_loop_nf k : forall acc ts, (length ts <= k)%nat -> (length ts < m)%nat -> or_loop prim k acc ts <> Fuel.
  Proof.
    induction k as [|k IH]; intros acc ts Lk Lm; destruct ts as [|t ts']; cbn [or_loop]; try discriminate;
      destruct t; try discriminate; cbn [length] in *; try lia.
    destruct (p_and prim ts') as [pe pr| |] eqn:E; try discriminate.
    - apply (p_and_prog _ Hp) in E. apply IH; lia.
    - exfalso. revert E. apply p_and_nf. lia.
  Qed.

  Lemma p_or_nf : nofuel (p_or prim) m.
  Proof.
    intros ts L. unfold p_or. destruct (p_and prim ts) as [pe pr| |] eqn:E; try discriminate.
    - apply (p_and_prog _ Hp) in E. destruct pr as [|t pr1]; try discriminate. destruct t; try discriminate.
      apply or_loop_nf; lia.
    - exfalso. revert E. apply p_and_nf. exact L.
  Qed.

  Lemma args_loop_nf k : forall acc ts, (length ts <= k)%nat -> (length ts < m)%nat -> args_loop prim k acc ts <> FuelL.
  Proof.
    induction k as [|k IH]; intros acc ts Lk Lm; destruct ts as [|t ts']; cbn [args_loop]; try discriminate.
    - cbn [length] in Lk. lia.
    - assert (G : forall ts0, ts0 = t :: ts' ->
                 match p_or prim ts0 with
                 | Ok e pr => match pr with
                              | TRP :: _ => args_loop prim k (acc ++ [e]) pr
                              | TComma :: r' => args_loop prim k (acc ++ [e]) r'
                              | _ => ErrL
                              end
                 | Err => ErrL | Fuel => FuelL
                 end <> FuelL).
      { intros ts0 E0. destruct (p_or prim ts0) as [pe pr| |] eqn:E; try discriminate.
        - apply (p_or_prog _ Hp) in E. subst ts0. cbn [length] in *.
          destruct pr as [|pt1 pr1]; try discriminate. destruct pt1; try discriminate; apply IH; cbn [length] in *; lia.
        - exfalso. revert E. apply p_or_nf. subst ts0. exact Lm. }
      destruct t; try (apply G; reflexivity). discriminate.
  Qed.

  Lemma postfix_nf k : forall f ts, (length ts <= k)%nat -> (length ts < m)%nat -> postfix prim k f ts <> Fuel.
  Proof.
    induction k as [|k IH]; intros f ts Lk Lm; destruct ts as [|t ts']; cbn [postfix]; try discriminate;
      destruct t; try discriminate; cbn [length] in *; try lia.
    destruct (args_loop prim (length ts') [] ts') as [l pr| |] eqn:E; try discriminate.
    - apply (args_loop_prog _ Hp) in E. apply IH; lia.
    - exfalso. revert E. apply args_loop_nf; lia.
  Qed.
End NoFuel.

Theorem p_prim_nofuel n : nofuel (p_prim n) n.
Proof.
  induction n as [|n IH]; intros ts L; [lia|]. cbn [p_prim].
  pose proof (p_prim_prog n) as Hp.
  destruct ts as [|t ts']; [discriminate|]. cbn [length] in L.
  destruct t; try discriminate.
  - apply (postfix_nf _ n Hp IH); lia.
  - destruct (p_or (p_prim n) ts') as [pe pr| |] eqn:E.
    + apply (p_or_prog _ Hp) in E. destruct pr as [|pt1 pr1]; try discriminate. destruct pt1; try discriminate.
      apply (postfix_nf _ n Hp IH); cbn [length] in *; lia.
    + discriminate.
    + exfalso. revert E. apply (p_or_nf _ n Hp IH). lia.
Qed.

(* the parser of the modelled fragment terminates on every token list with a tree or a syntax error *)
Theorem parse_total ts : parse ts <> Fuel.
Proof.
  unfold parse, parse_fuel.
  pose proof (p_or_nf _ (S (length ts)) (p_prim_prog _) (p_prim_nofuel _) ts (Nat.lt_succ_diag_r _)) as N.
  destruct (p_or (p_prim (S (length ts))) ts) as [e r| |]; [destruct r; discriminate|discriminate|contradiction].
Qed.

(* ... and a tree it returns accounts for the whole input *)
Theorem parse_consumes ts e r : parse ts = Ok e r -> r = [].
Proof.
  unfold parse, parse_fuel. destruct (p_or _ ts) as [pe pr| |]; try discriminate. destruct pr; [intros H; inv H; reflexivity|discriminate].
Qed.
