From Coq Require Import String.
From Coq Require Import ZArith List Bool Lia.
From Ckl Require Import Prelude.PyPrelude Model.SeqModel.
Import ListNotations.
Open Scope Z_scope.

Ltac noif t := lazymatch t with context [if _ then _ else _] => fail | _ => idtac end.
Ltac dz := repeat match goal with
  | |- context [?a <? ?b] => noif a; noif b; destruct (Z.ltb_spec a b)
  | |- context [?a <=? ?b] => noif a; noif b; destruct (Z.leb_spec a b)
  | |- context [?a =? ?b] => noif a; noif b; destruct (Z.eqb_spec a b)
  end.

Ltac bdz := dz; first [reflexivity | lia | exfalso; lia].

Lemma zlen_nonneg {A} (l : list A) : 0 <= zlen l.
Proof. unfold zlen. lia. Qed.

Lemma znth_in_range {A} (l : list A) j : 0 <= j < zlen l -> exists x, znth l j = Some x.
Proof.
  intros H. unfold znth. destruct (nth_error l (Z.to_nat j)) eqn:E; [eauto|].
  apply nth_error_None in E. unfold zlen in H. lia.
Qed.

Lemma py_getitem_ok {A} (l : list A) j :
  0 <= j < zlen l -> exists x, py_getitem l j = Ok x /\ nth_error l (Z.to_nat j) = Some x.
Proof.
  intros H. unfold py_getitem. destruct (znth_in_range l j H) as [x Hx].
  exists x. cbv zeta. dz; try lia. cbn [orb]. rewrite Hx. split; [reflexivity|exact Hx].
Qed.

Section S.
Context {A : Type}.

(* ---------------------------------------------------------------- s[i] *)
Lemma deref_in_range (s : list A) i :
  - zlen s <= i < zlen s ->
  exists x, deref s i = Ok x /\ nth_error s (Z.to_nat (i mod zlen s)) = Some x.
Proof.
  intros H. pose proof (zlen_nonneg s). unfold deref. cbv zeta.
  set (n := zlen s) in *.
  assert (Hm : i mod n = if i <? 0 then i + n else i).
  { dz. - symmetry. apply Z.mod_unique with (q := -1); lia.
        - apply Z.mod_small; lia. }
  rewrite Hm.
  destruct (py_getitem_ok s (if i <? 0 then i + n else i)) as [x [E1 E2]].
  { fold n. dz; lia. }
  exists x. split; [|exact E2].
  replace ((if i <? 0 then i + n else i) <? 0) with false by bdz.
  replace (n <=? (if i <? 0 then i + n else i)) with false by bdz.
  cbn [orb]. exact E1.
Qed.

Lemma deref_out_of_range (s : list A) i :
  ~ (- zlen s <= i < zlen s) -> deref s i = LangErr "Index out of bounds".
Proof.
  intros H. unfold deref. cbv zeta. set (n := zlen s) in *.
  destruct (i <? 0) eqn:E1.
  - destruct (i + n <? 0) eqn:E2; [reflexivity|].
    destruct (n <=? i + n) eqn:E3; [reflexivity|]. lia.
  - destruct (n <=? i) eqn:E3; [rewrite orb_true_r; reflexivity|]. lia.
Qed.

(* ---------------------------------------------------------------- slices *)
Lemma py_clamp_nonneg n i : 0 <= n -> 0 <= i -> py_clamp_idx n i = Z.min n i.
Proof. intros. unfold py_clamp_idx. cbv zeta. dz; lia. Qed.

Lemma py_slice_run (s : list A) lo hi :
  0 <= lo -> 0 <= hi <= zlen s -> py_slice s lo hi = run s (clamp (zlen s) lo) hi.
Proof.
  intros Hlo Hhi. unfold py_slice, run, clamp. cbv zeta.
  pose proof (zlen_nonneg s) as Hn.
  rewrite !py_clamp_nonneg by lia.
  replace (Z.min (zlen s) hi) with hi by lia.
  replace (Z.max 0 (Z.min (zlen s) lo)) with (Z.min (zlen s) lo) by lia. reflexivity.
Qed.

Definition bound_or_len (n : Z) (b : option Z) := match b with Some e => e | None => n end.

Theorem slice_spec (s : list A) a b :
  let n := zlen s in
  slice s a b = run s (clamp n (norm_idx n a)) (clamp n (norm_idx n (bound_or_len n b))).
Proof.
  intro n. unfold slice. cbv zeta. fold n.
  pose proof (zlen_nonneg s) as Hn. fold n in Hn.
  set (e := match b with Some e => e | None => n end).
  replace (bound_or_len n b) with e by reflexivity.
  rewrite py_slice_run.
  - fold n. unfold norm_idx, clamp. f_equal.
    + dz; lia.
    + dz; lia.
  - dz; lia.
  - fold n. dz; lia.
Qed.

Theorem substr_is_slice (s : list A) a b : substr s a b = slice s a b.
Proof.
  rewrite slice_spec. unfold substr. cbv zeta.
  pose proof (zlen_nonneg s) as Hn. set (n := zlen s) in *.
  set (e := match b with Some e => e | None => n end).
  replace (bound_or_len n b) with e by reflexivity.
  set (st := if (if a <? 0 then n + a else a) <? 0 then 0 else (if a <? 0 then n + a else a)).
  destruct (Z.ltb_spec n st) as [Hgt|Hle].
  - (* start beyond the end: empty *)
    assert (E : Z.max 0 (Z.min n (if a <? 0 then a + n else a)) = n)
      by (revert Hgt; subst st; dz; intros; lia).
    unfold run, clamp, norm_idx. rewrite E.
    unfold zskipn. rewrite skipn_all2 by (unfold n, zlen; lia).
    unfold zfirstn. now rewrite firstn_nil.
  - rewrite py_slice_run.
    + fold n. unfold clamp, norm_idx. revert Hle. subst st. intros Hle. f_equal; revert Hle; dz; intros; lia.
    + subst st. dz; lia.
    + fold n. dz; lia.
Qed.

Lemma run_prefix (s : list A) c : 0 <= c <= zlen s -> run s 0 c = firstn (Z.to_nat c) s.
Proof. intros. unfold run, zskipn, zfirstn. cbn [Z.to_nat skipn]. f_equal. lia. Qed.

Lemma run_suffix (s : list A) c : 0 <= c <= zlen s -> run s c (zlen s) = skipn (Z.to_nat c) s.
Proof.
  intros. unfold run, zskipn, zfirstn. apply firstn_all2.
  rewrite skipn_length. unfold zlen in *. lia.
Qed.

Theorem slice_concat (s : list A) k : slice s 0 (Some k) ++ slice s k None = s.
Proof.
  rewrite !slice_spec. cbv zeta. cbn [bound_or_len].
  pose proof (zlen_nonneg s) as Hn. set (n := zlen s) in *.
  assert (E0 : clamp n (norm_idx n 0) = 0) by (unfold clamp, norm_idx; cbn; lia).
  assert (En : clamp n (norm_idx n n) = n) by (unfold clamp, norm_idx; dz; lia).
  rewrite E0, En. set (c := clamp n (norm_idx n k)).
  assert (Hc : 0 <= c <= n) by (unfold c, clamp; lia).
  rewrite run_prefix by exact Hc. unfold n. rewrite run_suffix by exact Hc.
  apply firstn_skipn.
Qed.

Theorem slice_length (s : list A) a b :
  let n := zlen s in
  zlen (slice s a b) =
  Z.max 0 (clamp n (norm_idx n (bound_or_len n b)) - clamp n (norm_idx n a)).
Proof.
  intro n. rewrite slice_spec. fold n.
  set (lo := clamp n (norm_idx n a)). set (hi := clamp n (norm_idx n (bound_or_len n b))).
  pose proof (zlen_nonneg s) as Hn. fold n in Hn.
  assert (0 <= lo <= n) by (unfold lo, clamp; lia).
  assert (0 <= hi <= n) by (unfold hi, clamp; lia).
  unfold run, zfirstn, zskipn, zlen. rewrite firstn_length, skipn_length.
  unfold n, zlen in *. lia.
Qed.

Lemma nth_error_firstn' (l : list A) n j : (j < n)%nat -> nth_error (firstn n l) j = nth_error l j.
Proof.
  revert n j. induction l as [|x l IH]; intros n j H.
  - rewrite firstn_nil. reflexivity.
  - destruct n as [|n]; [lia|]. destruct j as [|j]; cbn; [reflexivity|]. apply IH. lia.
Qed.

Lemma nth_error_skipn' (l : list A) n j : nth_error (skipn n l) j = nth_error l (n + j).
Proof.
  revert l. induction n as [|n IH]; intros l; [reflexivity|].
  destruct l as [|x l]; cbn [skipn]; [destruct j; reflexivity|]. apply IH.
Qed.

(* elements of a slice are the elements lo, lo+1, ... of s: contiguous, never wrapping *)
Theorem slice_nth (s : list A) a b (j : nat) :
  let n := zlen s in
  let lo := clamp n (norm_idx n a) in
  let hi := clamp n (norm_idx n (bound_or_len n b)) in
  (Z.of_nat j < hi - lo) ->
  nth_error (slice s a b) j = nth_error s (Z.to_nat lo + j).
Proof.
  intros n lo hi Hj. rewrite slice_spec. fold n lo hi.
  unfold run, zfirstn, zskipn.
  rewrite nth_error_firstn' by lia. apply nth_error_skipn'.
Qed.

(* ---------------------------------------------------------------- find in lists *)
Variable eqb : A -> A -> bool.

Lemma find_list_from_spec (l : list A) item off :
  0 <= off ->
  let r := find_list_from eqb l item off in
  (r = -1 /\ forall x, In x l -> eqb x item = false) \/
  (exists k x, r = off + Z.of_nat k /\ nth_error l k = Some x /\ eqb x item = true /\
               forall j y, (j < k)%nat -> nth_error l j = Some y -> eqb y item = false).
Proof.
  revert off. induction l as [|x l IH]; intros off Hoff; cbn [find_list_from].
  - left. split; [reflexivity|]. intros x [].
  - destruct (eqb x item) eqn:E.
    + right. exists O, x. repeat split; try reflexivity; try assumption; try lia.
    + destruct (IH (off + 1) ltac:(lia)) as [[R H]|[k [y [R [N [T M]]]]]].
      * left. split; [exact R|]. intros z [<-|Hz]; [exact E|auto].
      * right. exists (S k), y. repeat split; try assumption; try lia.
        intros j z Hj Hz. destruct j as [|j]; cbn in Hz.
        -- inversion Hz; subst; exact E.
        -- apply (M j z); [lia|exact Hz].
Qed.

Theorem find_list_spec (l : list A) item :
  let r := find_list eqb l item in
  (r = -1 /\ forall x, In x l -> eqb x item = false) \/
  (0 <= r < zlen l /\ exists x, nth_error l (Z.to_nat r) = Some x /\ eqb x item = true /\
     forall j y, (j < Z.to_nat r)%nat -> nth_error l j = Some y -> eqb y item = false).
Proof.
  unfold find_list. destruct (find_list_from_spec l item 0 ltac:(lia)) as [H|[k [x [R [N [T M]]]]]].
  - left. exact H.
  - right. rewrite R. replace (0 + Z.of_nat k) with (Z.of_nat k) by lia.
    rewrite Nat2Z.id. split.
    + assert (k < length l)%nat by (apply nth_error_Some; congruence). unfold zlen. lia.
    + exists x. repeat split; assumption.
Qed.

Lemma find_last_nat_spec (l : list A) item (k : nat) :
  let r := find_last_nat eqb l item k in
  (r = -1 /\ forall j y, (j < k)%nat -> nth_error l j = Some y -> eqb y item = false) \/
  (exists i x, r = Z.of_nat i /\ (i < k)%nat /\ nth_error l i = Some x /\ eqb x item = true /\
     forall j y, (i < j < k)%nat -> nth_error l j = Some y -> eqb y item = false).
Proof.
  induction k as [|k IH]; cbn [find_last_nat].
  - left. split; [reflexivity|]. intros; lia.
  - destruct (nth_error l k) as [x|] eqn:N.
    + destruct (eqb x item) eqn:E.
      * right. exists k, x. repeat split; try assumption; try lia.
      * destruct IH as [[R H]|[i [y [R [Hi [Ni [T M]]]]]]].
        -- left. split; [exact R|]. intros j y Hj Hy.
           destruct (Nat.eq_dec j k) as [->|]; [congruence|]. apply (H j y); [lia|exact Hy].
        -- right. exists i, y. repeat split; try assumption; try lia.
           intros j z Hj Hz. destruct (Nat.eq_dec j k) as [->|]; [congruence|].
           apply (M j z); [lia|exact Hz].
    + destruct IH as [[R H]|[i [y [R [Hi [Ni [T M]]]]]]].
      * left. split; [exact R|]. intros j y Hj Hy.
        destruct (Nat.eq_dec j k) as [->|]; [congruence|]. apply (H j y); [lia|exact Hy].
      * right. exists i, y. repeat split; try assumption; try lia.
        intros j z Hj Hz. destruct (Nat.eq_dec j k) as [->|]; [congruence|].
        apply (M j z); [lia|exact Hz].
Qed.

(* default start: the last position at which the item occurs, or -1 *)
Theorem find_last_list_spec (l : list A) item :
  let r := find_last_list eqb l item None in
  (r = -1 /\ forall x, In x l -> eqb x item = false) \/
  (0 <= r < zlen l /\ exists x, nth_error l (Z.to_nat r) = Some x /\ eqb x item = true /\
     forall j y, (Z.to_nat r < j)%nat -> nth_error l j = Some y -> eqb y item = false).
Proof.
  unfold find_last_list. cbv zeta. set (n := zlen l).
  replace (n - 1 <? n - 1) with false by bdz.
  replace (Z.to_nat (n - 1 + 1)) with (length l) by (unfold n, zlen; lia).
  destruct (find_last_nat_spec l item (length l)) as [[R H]|[i [x [R [Hi [Ni [T M]]]]]]].
  - left. split; [exact R|]. intros x Hx. apply In_nth_error in Hx. destruct Hx as [j Hj].
    apply (H j x); [|exact Hj]. apply nth_error_Some. congruence.
  - right. rewrite R, Nat2Z.id. split; [unfold n, zlen; lia|].
    exists x. repeat split; try assumption.
    intros j y Hj Hy. apply (M j y); [|exact Hy]. split; [exact Hj|].
    apply nth_error_Some. congruence.
Qed.

(* ---------------------------------------------------------------- insert / delete *)
Theorem insert_at_spec (l : list A) index v :
  let n := zlen l in
  let j := if index <? 0 then n + index + 1 else index in
  (0 <= j <= n -> insert_at l index v = firstn (Z.to_nat j) l ++ v :: skipn (Z.to_nat j) l) /\
  (~ (0 <= j <= n) -> insert_at l index v = l).
Proof.
  intros n j. pose proof (zlen_nonneg l) as Hn. fold n in Hn. unfold insert_at. cbv zeta. fold n.
  split; intros H.
  - subst j. destruct (Z.ltb_spec index 0) as [Hneg|Hpos].
    + destruct (Z.ltb_spec (n + index + 1) 0); [lia|]. cbn [andb].
      replace (n + index + 1 <? 0) with false by bdz.
      destruct (Z.ltb_spec n (n + index + 1)); [lia|].
      destruct (Z.eqb_spec (n + index + 1) n) as [E|NE].
      * rewrite E. unfold n, zlen. rewrite Nat2Z.id, firstn_all, skipn_all. reflexivity.
      * unfold py_insert, zfirstn, zskipn. cbv zeta. fold n.
        rewrite py_clamp_nonneg by lia. replace (Z.min n (n + index + 1)) with (n + index + 1) by lia. reflexivity.
    + cbn [andb]. replace (index <? 0) with false by bdz.
      destruct (Z.ltb_spec n index); [lia|].
      destruct (Z.eqb_spec index n) as [E|NE].
      * rewrite E. unfold n, zlen. rewrite Nat2Z.id, firstn_all, skipn_all. reflexivity.
      * unfold py_insert, zfirstn, zskipn. cbv zeta. fold n.
        rewrite py_clamp_nonneg by lia. replace (Z.min n index) with index by lia. reflexivity.
  - subst j. destruct (Z.ltb_spec index 0) as [Hneg|Hpos].
    + destruct (Z.ltb_spec (n + index + 1) 0); [reflexivity|]. lia.
    + cbn [andb]. replace (index <? 0) with false by bdz.
      destruct (Z.ltb_spec n index); [reflexivity|lia].
Qed.

Theorem delete_at_spec (l : list A) index :
  let n := zlen l in
  let j := if index <? 0 then n + index else index in
  (0 <= j < n -> exists x, nth_error l (Z.to_nat j) = Some x /\
      delete_at l index = Ok (firstn (Z.to_nat j) l ++ skipn (Z.to_nat j + 1) l, Some x)) /\
  (~ (0 <= j < n) -> delete_at l index = Ok (l, None)).
Proof.
  intros n j. unfold delete_at. cbv zeta. fold n. fold j. split; intros H.
  - assert (Hj : (j <? 0) = false) by (apply Z.ltb_ge; lia).
    assert (Hn2 : (n <=? j) = false) by (apply Z.leb_gt; lia).
    rewrite Hj, Hn2. cbn [orb].
    destruct (py_getitem_ok l j H) as [x [E N]]. exists x. split; [exact N|].
    rewrite E. cbn [bind]. unfold py_delitem. cbv zeta. fold n.
    rewrite !Hj. cbv iota. rewrite ?Hj, ?Hn2. cbn [orb bind].
    unfold zfirstn, zskipn. replace (Z.to_nat (j + 1)) with (Z.to_nat j + 1)%nat by lia. reflexivity.
  - destruct (Z.ltb_spec j 0); [reflexivity|]. destruct (Z.leb_spec n j); [reflexivity|]. lia.
Qed.

End S.

(* ---------------------------------------------------------------- string find *)
Lemma prefixb_app (p s : str) : prefixb p s = true <-> exists b, s = p ++ b.
Proof.
  revert s. induction p as [|x p IH]; intros s; cbn [prefixb].
  - split; [intros _; exists s; reflexivity|reflexivity].
  - destruct s as [|y s].
    + split; [discriminate|]. intros [b Hb]. discriminate.
    + rewrite andb_true_iff, Z.eqb_eq, IH. split.
      * intros [-> [b ->]]. exists b. reflexivity.
      * intros [b Hb]. cbn in Hb. inversion Hb; subst. split; [reflexivity|]. exists b. reflexivity.
Qed.

Lemma find_from_spec (p s : str) off :
  0 <= off ->
  let r := find_from p s off in
  (r = -1 /\ forall k, (k <= length s)%nat -> prefixb p (skipn k s) = false) \/
  (exists k, r = off + Z.of_nat k /\ (k <= length s)%nat /\ prefixb p (skipn k s) = true /\
             forall j, (j < k)%nat -> prefixb p (skipn j s) = false).
Proof.
  revert off. induction s as [|c s IH]; intros off Hoff; cbn [find_from].
  - destruct (prefixb p []) eqn:E.
    + right. exists O. cbn. repeat split; try lia; try assumption.
    + left. split; [reflexivity|]. intros k Hk. cbn in Hk. assert (k = 0)%nat by lia. subst. exact E.
  - destruct (prefixb p (c :: s)) eqn:E.
    + right. exists O. cbn [skipn]. repeat split; try lia; try assumption.
    + destruct (IH (off + 1) ltac:(lia)) as [[R H]|[k [R [Hk [T M]]]]].
      * left. split; [exact R|]. intros k Hk. destruct k as [|k]; [exact E|].
        cbn [skipn]. apply H. cbn in Hk. lia.
      * right. exists (S k). cbn [skipn length]. repeat split; try assumption; try lia.
        intros j Hj. destruct j as [|j]; [exact E|]. cbn [skipn]. apply M. lia.
Qed.

Lemma skipn_split (s : str) k : (k <= length s)%nat -> s = firstn k s ++ skipn k s /\ zlen (firstn k s) = Z.of_nat k.
Proof. intros. split; [symmetry; apply firstn_skipn|]. unfold zlen. rewrite firstn_length. lia. Qed.

Lemma occurs_at_iff (p s : str) k :
  occurs_at p s (Z.of_nat k) <-> (k <= length s)%nat /\ prefixb p (skipn k s) = true.
Proof.
  unfold occurs_at. split.
  - intros [_ [a [b [E L]]]]. assert (length a = k) by (unfold zlen in L; lia). subst k.
    split; [rewrite E, app_length; lia|].
    rewrite E. rewrite skipn_app, skipn_all, Nat.sub_diag. cbn [skipn app].
    apply prefixb_app. exists b. reflexivity.
  - intros [Hk Hp]. split; [lia|]. apply prefixb_app in Hp. destruct Hp as [b Hb].
    exists (firstn k s), b. destruct (skipn_split s k Hk) as [E L]. split; [|exact L].
    rewrite <- Hb. exact E.
Qed.

(* find: -1 iff the part does not occur; otherwise the first occurrence *)
Theorem find_str_spec (s p : str) :
  let r := find_str s p in
  (r = -1 /\ forall k, ~ occurs_at p s k) \/
  (0 <= r /\ occurs_at p s r /\ forall k, 0 <= k < r -> ~ occurs_at p s k).
Proof.
  unfold find_str, str_find.
  destruct (find_from_spec p s 0 ltac:(lia)) as [[R H]|[k [R [Hk [T M]]]]].
  - left. split; [exact R|]. intros k Ho. assert (Hk : 0 <= k) by (destruct Ho; assumption).
    rewrite <- (Z2Nat.id k Hk) in Ho. apply occurs_at_iff in Ho. destruct Ho as [Hl Hp].
    rewrite H in Hp by exact Hl. discriminate.
  - right. rewrite R. replace (0 + Z.of_nat k) with (Z.of_nat k) by lia.
    split; [lia|]. split; [apply occurs_at_iff; split; assumption|].
    intros j Hj Ho. rewrite <- (Z2Nat.id j) in Ho by lia. apply occurs_at_iff in Ho.
    destruct Ho as [_ Hp]. rewrite M in Hp by lia. discriminate.
Qed.

Theorem contains_iff_find (s p : str) :
  (exists a b, s = a ++ p ++ b) <-> 0 <= find_str s p.
Proof.
  split.
  - intros [a [b E]]. destruct (find_str_spec s p) as [[R H]|[R _]]; [|exact R].
    exfalso. apply (H (zlen a)). split; [apply zlen_nonneg|]. exists a, b. split; [exact E|reflexivity].
  - intros H. destruct (find_str_spec s p) as [[R _]|[_ [[_ [a [b [E _]]]] _]]]; [lia|]. exists a, b. exact E.
Qed.

(* rfind *)
Lemma rfind_from_spec (p s : str) off best limit :
  let r := rfind_from p s off best limit in
  (r = best /\ forall k, (k <= length s)%nat -> prefixb p (skipn k s) = true -> ~ (off + Z.of_nat k + zlen p <= limit)) \/
  (exists k, r = off + Z.of_nat k /\ (k <= length s)%nat /\ prefixb p (skipn k s) = true /\
             off + Z.of_nat k + zlen p <= limit /\
             forall j, (k < j <= length s)%nat -> prefixb p (skipn j s) = true -> ~ (off + Z.of_nat j + zlen p <= limit)).
Proof.
  revert off best. induction s as [|c s IH]; intros off best; cbn [rfind_from].
  - destruct (prefixb p []) eqn:E; cbn [andb].
    + destruct (Z.leb_spec (off + zlen p) limit).
      * right. exists O. cbn. repeat split; try lia; try assumption.
      * left. split; [reflexivity|]. intros k Hk _. cbn in Hk. lia.
    + left. split; [reflexivity|]. intros k Hk Hp. cbn in Hk. assert (k = 0)%nat by lia. subst. cbn in Hp. congruence.
  - set (best' := if prefixb p (c :: s) && (off + zlen p <=? limit) then off else best).
    destruct (IH (off + 1) best') as [[R H]|[k [R [Hk [T [L M]]]]]].
    + (* nothing later: result is best' *)
      rewrite R. unfold best'. destruct (prefixb p (c :: s)) eqn:E; cbn [andb].
      * destruct (Z.leb_spec (off + zlen p) limit).
        -- right. exists O. cbn [skipn length]. repeat split; try lia; try assumption.
           intros j Hj Hp. destruct j as [|j]; [lia|]. cbn [skipn] in Hp.
           specialize (H j ltac:(cbn in Hj; lia) Hp). lia.
        -- left. split; [reflexivity|]. intros k Hk Hp. destruct k as [|k]; [lia|].
           cbn [skipn] in Hp. specialize (H k ltac:(cbn in Hk; lia) Hp). lia.
      * left. split; [reflexivity|]. intros k Hk Hp. destruct k as [|k]; [cbn in Hp; congruence|].
        cbn [skipn] in Hp. specialize (H k ltac:(cbn in Hk; lia) Hp). lia.
    + right. exists (S k). cbn [skipn length]. rewrite R. repeat split; try assumption; try lia.
      intros j Hj Hp. destruct j as [|j]; [lia|]. cbn [skipn] in Hp.
      specialize (M j ltac:(lia) Hp). lia.
Qed.

(* find_last with the default start: -1 iff no occurrence, else the last occurrence *)
Theorem find_last_str_spec (s p : str) :
  s <> [] ->
  let r := find_last_str s p None in
  (r = -1 /\ forall k, occurs_at p s k -> ~ (k <= zlen s - 1)) \/
  (0 <= r /\ occurs_at p s r /\ r <= zlen s - 1 /\ forall k, r < k <= zlen s - 1 -> ~ occurs_at p s k).
Proof.
  intros Hne. unfold find_last_str. cbv zeta.
  assert (Hn : 1 <= zlen s) by (destruct s; [congruence|unfold zlen; cbn; lia]).
  replace (zlen s - 1 <? 0) with false by bdz.
  unfold str_rfind_end. cbv zeta. unfold py_clamp_idx.
  pose proof (zlen_nonneg p) as Hp0.
  set (lim := if (if zlen s - 1 + zlen p <? 0 then zlen s - 1 + zlen p + zlen s else zlen s - 1 + zlen p) <? 0 then 0
              else if zlen s <? (if zlen s - 1 + zlen p <? 0 then zlen s - 1 + zlen p + zlen s else zlen s - 1 + zlen p)
                   then zlen s else (if zlen s - 1 + zlen p <? 0 then zlen s - 1 + zlen p + zlen s else zlen s - 1 + zlen p)).
  assert (Hlim : lim = Z.min (zlen s) (zlen s - 1 + zlen p)) by (unfold lim; dz; lia).
  destruct (rfind_from_spec p s 0 (-1) lim) as [[R H]|[k [R [Hk [T [L M]]]]]].
  - left. split; [exact R|]. intros k Ho Hle.
    assert (Hk0 : 0 <= k) by (destruct Ho; assumption).
    rewrite <- (Z2Nat.id k Hk0) in Ho. pose proof Ho as Ho'. apply occurs_at_iff in Ho. destruct Ho as [Hl Hp].
    apply (H _ Hl Hp). rewrite Hlim.
    destruct Ho' as [_ [a [b [E La]]]]. assert (zlen s = zlen a + zlen p + zlen b) by (rewrite E; unfold zlen; rewrite !app_length; lia).
    pose proof (zlen_nonneg b). lia.
  - right. rewrite R. replace (0 + Z.of_nat k) with (Z.of_nat k) in * by lia.
    split; [lia|]. split; [apply occurs_at_iff; split; assumption|]. split; [lia|].
    intros j Hj Ho. rewrite <- (Z2Nat.id j) in Ho by lia. pose proof Ho as Ho'. apply occurs_at_iff in Ho.
    destruct Ho as [Hl Hp]. apply (M (Z.to_nat j)); [lia|exact Hp|].
    destruct Ho' as [_ [a [b [E La]]]]. assert (zlen s = zlen a + zlen p + zlen b) by (rewrite E; unfold zlen; rewrite !app_length; lia).
    pose proof (zlen_nonneg b). lia.
Qed.
