(* C08: a rendered string literal is read back by the GENERATED scanner step as one string token holding the original
   characters - for every string.  Re-proved on every run against the step regenerated from src/ckl/lexer.py. *)
From Coq Require Import ZArith List Bool Lia.
From Ckl Require Import Prelude.PyPrelude Prelude.LexPrelude Gen.LexGen Model.LexRun Model.Render Proofs.LexProofs.
Import ListNotations.
Open Scope Z_scope.

(* inside a single-quoted literal: state 4 (or 41 right after a backslash) *)
Definition in_sq (st : Z) (tk : str) (sl sc : Z) (s : lstate) : Prop :=
  l_state s = st /\ l_token s = tk /\ l_sline s = sl /\ l_scol s = sc /\ l_upd s = true.

Ltac open_state s H :=
  destruct s as [st0 tk0 tb0 ln0 cl0 sl0 sc0 up0]; destruct H as [H1 [H2 [H3 [H4 H5]]]]; cbn in H1, H2, H3, H4, H5; subst;
  unfold lex_step; cbn [l_state l_token l_tempbuf l_line l_col l_sline l_scol l_upd].

Lemma sq_plain tk sl sc s ch : in_sq 4 tk sl sc s -> (ch =? 39) = false -> (ch =? 92) = false ->
  exists s', lex_step s ch = Step s' [] true /\ in_sq 4 (tk ++ [ch]) sl sc s'.
Proof.
  intros H E1 E2. open_state s H. rewrite ?E1, ?E2.
  destruct (ch =? 10) eqn:E10; eexists; (split; [vm_compute; reflexivity|]); repeat split.
Qed.

Lemma sq_backslash tk sl sc s : in_sq 4 tk sl sc s -> exists s', lex_step s 92 = Step s' [] true /\ in_sq 41 tk sl sc s'.
Proof. intros H. open_state s H. eexists; (split; [vm_compute; reflexivity|]); repeat split. Qed.

Lemma sq_close tk sl sc s : in_sq 4 tk sl sc s ->
  exists s', lex_step s 39 = Step s' [mk_tok tk 2 sl sc] true /\ clean s'.
Proof. intros H. open_state s H. eexists; (split; [vm_compute; reflexivity|]); repeat split. Qed.

(* after a backslash: the character the renderer wrote, and the character it stands for *)
Definition unesc (c : Z) : Z := if c =? 110 then 10 else if c =? 114 then 13 else if c =? 116 then 9 else c.
Lemma sq_escaped tk sl sc s c : in_sq 41 tk sl sc s -> mem_z c [92; 39; 114; 110; 116] = true ->
  exists s', lex_step s c = Step s' [] true /\ in_sq 4 (tk ++ [unesc c]) sl sc s'.
Proof.
  intros H M. open_state s H. cbn in M. repeat rewrite orb_true_iff in M.
  destruct M as [M|[M|[M|[M|[M|M]]]]]; try discriminate; apply Z.eqb_eq in M; subst c;
    eexists; (split; [vm_compute; reflexivity|]); repeat split.
Qed.

(* one rendered character: one or two scanner steps, the original character is appended to the token *)
Lemma esc_char_run c tk sl sc s rest acc f : in_sq 4 tk sl sc s ->
  exists s', lex_loop (length (esc_char c) + f) s (esc_char c ++ rest) acc = lex_loop f s' rest acc /\ in_sq 4 (tk ++ [c]) sl sc s'.
Proof.
  intros H. unfold esc_char.
  assert (TWO : forall e, mem_z e [92; 39; 114; 110; 116] = true -> unesc e = c ->
     exists s', lex_loop (length [92; e] + f) s ([92; e] ++ rest) acc = lex_loop f s' rest acc /\ in_sq 4 (tk ++ [c]) sl sc s').
  { intros e M U. destruct (sq_backslash tk sl sc s H) as [s1 [S1 I1]].
    destruct (sq_escaped tk sl sc s1 e I1 M) as [s2 [S2 I2]].
    exists s2. cbn [length app Nat.add lex_loop]. rewrite S1, app_nil_r. cbn [lex_loop]. rewrite S2, app_nil_r. rewrite U in I2. split; [reflexivity|exact I2]. }
  destruct (c =? 92) eqn:E92; [apply Z.eqb_eq in E92; subst c; apply TWO; reflexivity|].
  destruct (c =? 39) eqn:E39; [apply Z.eqb_eq in E39; subst c; apply TWO; reflexivity|].
  destruct (c =? 13) eqn:E13; [apply Z.eqb_eq in E13; subst c; apply TWO; reflexivity|].
  destruct (c =? 10) eqn:E10; [apply Z.eqb_eq in E10; subst c; apply TWO; reflexivity|].
  destruct (c =? 9) eqn:E9; [apply Z.eqb_eq in E9; subst c; apply TWO; reflexivity|].
  destruct (sq_plain tk sl sc s c H E39 E92) as [s1 [S1 I1]].
  exists s1. cbn [length app Nat.add lex_loop]. rewrite S1, app_nil_r. split; [reflexivity|exact I1].
Qed.

Lemma esc_run body : forall tk sl sc s rest acc f, in_sq 4 tk sl sc s ->
  exists s', lex_loop (length (esc body) + f) s (esc body ++ rest) acc = lex_loop f s' rest acc /\ in_sq 4 (tk ++ body) sl sc s'.
Proof.
  induction body as [|c body IH]; intros tk sl sc s rest acc f H.
  - exists s. cbn. rewrite app_nil_r. split; [reflexivity|exact H].
  - unfold esc in *. cbn [flat_map]. rewrite app_length, <- !app_assoc, <- Nat.add_assoc.
    destruct (esc_char_run c tk sl sc s (flat_map esc_char body ++ rest) acc (length (flat_map esc_char body) + f)%nat H) as [s1 [R1 I1]].
    rewrite R1. destruct (IH (tk ++ [c]) sl sc s1 rest acc f I1) as [s2 [R2 I2]].
    exists s2. rewrite R2. rewrite <- app_assoc in I2. split; [reflexivity|exact I2].
Qed.

Lemma open_quote : exists s', lex_step lex_init 39 = Step s' [] true /\ in_sq 4 [] 1 1 s'.
Proof. eexists; (split; [vm_compute; reflexivity|]); repeat split. Qed.

Lemma blank_step s : clean s -> exists s', lex_step s 32 = Step s' [] true.
Proof. intros C. destruct (ws_step s 32 C eq_refl) as [s' [E _]]. exists s'. exact E. Qed.

Lemma loop_step f s ch rest acc s' e : lex_step s ch = Step s' e true -> lex_loop (S f) s (ch :: rest) acc = lex_loop f s' rest (acc ++ e).
Proof. intros H. cbn [lex_loop]. rewrite H. reflexivity. Qed.

(* the rendered text of ANY string scans to exactly one string token with the original characters, at 1:1 *)
Theorem string_literal_round_trip (body : str) : lex (render_string body) = LexOk [mk_tok body 2 1 1].
Proof.
  unfold lex, render_string.
  change ((39 :: esc body ++ [39]) ++ [32]) with (39 :: ((esc body ++ [39]) ++ [32])). rewrite <- app_assoc.
  replace (lex_fuel (39 :: esc body ++ [39])) with (S (length (esc body) + S (S (S (2 * length (esc body) + 6)))))
    by (unfold lex_fuel; cbn [length]; rewrite app_length; cbn [length]; lia).
  destruct open_quote as [s0 [S0 I0]]. rewrite (loop_step _ _ _ _ _ _ _ S0).
  destruct (esc_run body [] 1 1 s0 ([39] ++ [32]) ([] ++ []) (S (S (S (2 * length (esc body) + 6)))) I0) as [s1 [R1 I1]]. rewrite R1.
  change ([39] ++ [32]) with [39; 32].
  destruct (sq_close ([] ++ body) 1 1 s1 I1) as [s2 [S2 C2]]. rewrite (loop_step _ _ _ _ _ _ _ S2).
  destruct (blank_step s2 C2) as [s3 S3]. rewrite (loop_step _ _ _ _ _ _ _ S3).
  cbn [lex_loop app]. reflexivity.
Qed.
