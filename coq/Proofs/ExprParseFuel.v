(* C01: the answer of the parser model does not depend on the fuel it is given, as long as there is more of it than tokens:
   [parse] is a function of the token list alone. *)
From Coq Require Import ZArith List Bool Lia.
From Ckl Require Import Model.ExprParse Proofs.ExprParseTotal.
Import ListNotations.

Definition stable (p1 p2 : list tok -> res) : Prop := forall ts r, p1 ts = r -> r <> Fuel -> p2 ts = r.

Ltac step H E := first [rewrite (H _ _ E) by discriminate | idtac].

Section Stable.
  Variables prim1 prim2 : list tok -> res.
  Hypothesis H : stable prim1 prim2.

  Lemma unary_stable : stable (p_unary prim1) (p_unary prim2).
  Proof.
    intros ts r. unfold p_unary. destruct ts as [|t ts']; [apply H|].
    destruct t; try apply H.
    destruct ts' as [|pt2 pts2]; [auto|].
    destruct pt2; try (destruct (prim1 _) as [pe pr| |] eqn:E; step H E; intros <- N; [reflexivity|reflexivity|congruence]).
    auto.
  Qed.

  Lemma mul_loop_stable k : forall acc ts r, mul_loop prim1 k acc ts = r -> r <> Fuel -> mul_loop prim2 k acc ts = r.
  Proof.
    induction k as [|k IH]; intros acc ts r; destruct ts as [|t ts']; cbn [mul_loop]; auto; destruct t; auto.
    destruct (p_unary prim1 ts') as [pe pr| |] eqn:E; rewrite ?(unary_stable _ _ E) by discriminate; [apply IH|auto|intros <- N; congruence].
  Qed.
  Lemma mul_stable : stable (p_mul prim1) (p_mul prim2).
  Proof.
    intros ts r. unfold p_mul. destruct (p_unary prim1 ts) as [pe pr| |] eqn:E; rewrite ?(unary_stable _ _ E) by discriminate; [apply mul_loop_stable|auto|intros <- N; congruence].
  Qed.

  Lemma add_loop_stable k : forall acc ts r, add_loop prim1 k acc ts = r -> r <> Fuel -> add_loop prim2 k acc ts = r.
  Proof.
    induction k as [|k IH]; intros acc ts r; destruct ts as [|t ts']; cbn [add_loop]; auto; destruct (add_op t); auto.
    destruct (p_mul prim1 ts') as [pe pr| |] eqn:E; rewrite ?(mul_stable _ _ E) by discriminate; [apply IH|auto|intros <- N; congruence].
  Qed.
  Lemma add_stable : stable (p_add prim1) (p_add prim2).
  Proof.
    intros ts r. unfold p_add. destruct (p_mul prim1 ts) as [pe pr| |] eqn:E; rewrite ?(mul_stable _ _ E) by discriminate; [apply add_loop_stable|auto|intros <- N; congruence].
  Qed.

  Lemma rel_loop_stable k : forall lhs acc ts r, rel_loop prim1 k lhs acc ts = r -> r <> Fuel -> rel_loop prim2 k lhs acc ts = r.
  Proof.
    induction k as [|k IH]; intros lhs acc ts r; destruct ts as [|t ts']; cbn [rel_loop]; auto; destruct t; auto.
    destruct (p_add prim1 ts') as [pe pr| |] eqn:E; rewrite ?(add_stable _ _ E) by discriminate; [apply IH|auto|intros <- N; congruence].
  Qed.
  Lemma rel_stable : stable (p_rel prim1) (p_rel prim2).
  Proof.
    intros ts r. unfold p_rel. destruct (p_add prim1 ts) as [pe pr| |] eqn:E; rewrite ?(add_stable _ _ E) by discriminate; [|auto|intros <- N; congruence].
    destruct pr as [|t pr1]; auto. destruct t; auto. apply rel_loop_stable.
  Qed.

  Lemma not_stable : stable (p_not prim1) (p_not prim2).
  Proof.
    intros ts r. unfold p_not. destruct ts as [|t ts']; [apply rel_stable|]. destruct t; try apply rel_stable.
    destruct (p_rel prim1 ts') as [pe pr| |] eqn:E; rewrite ?(rel_stable _ _ E) by discriminate; [auto|auto|intros <- N; congruence].
  Qed.

  Lemma and_loop_stable k : forall acc ts r, and_loop prim1 k acc ts = r -> r <> Fuel -> and_loop prim2 k acc ts = r.
  Proof.
    induction k as [|k IH]; intros acc ts r; destruct ts as [|t ts']; cbn [and_loop]; auto; destruct t; auto.
    destruct (p_not prim1 ts') as [pe pr| |] eqn:E; rewrite ?(not_stable _ _ E) by discriminate; [apply IH|auto|intros <- N; congruence].
  Qed.
  Lemma and_stable : stable (p_and prim1) (p_and prim2).
  Proof.
    intros ts r. unfold p_and. destruct (p_not prim1 ts) as [pe pr| |] eqn:E; rewrite ?(not_stable _ _ E) by discriminate; [|auto|intros <- N; congruence].
    destruct pr as [|t pr1]; auto. destruct t; auto. apply and_loop_stable.
  Qed.

  Lemma or_loop_stable k : forall acc ts r, or_loop prim1 k acc ts = r -> r <> Fuel -> or_loop prim2 k acc ts = r.
  Proof.
    induction k as [|k IH]; intros acc ts r; destruct ts as [|t ts']; cbn [or_loop]; auto; destruct t; auto.
    destruct (p_and prim1 ts') as [pe pr| |] eqn:E; rewrite ?(and_stable _ _ E) by discriminate; [apply IH|auto|intros <- N; congruence].
  Qed.
  Lemma or_stable : stable (p_or prim1) (p_or prim2).
  Proof.
    intros ts r. unfold p_or. destruct (p_and prim1 ts) as [pe pr| |] eqn:E; rewrite ?(and_stable _ _ E) by discriminate; [|auto|intros <- N; congruence].
    destruct pr as [|t pr1]; auto. destruct t; auto. apply or_loop_stable.
  Qed.

  Lemma args_loop_stable k : forall acc ts r, args_loop prim1 k acc ts = r -> r <> FuelL -> args_loop prim2 k acc ts = r.
  Proof.
    induction k as [|k IH]; intros acc ts r; destruct ts as [|t ts']; cbn [args_loop]; auto.
    assert (G : forall ts0,
                 match p_or prim1 ts0 with
                 | Ok e r0 => match r0 with TRP :: _ => args_loop prim1 k (acc ++ [e]) r0 | TComma :: r' => args_loop prim1 k (acc ++ [e]) r' | _ => ErrL end
                 | Err => ErrL | Fuel => FuelL end = r -> r <> FuelL ->
                 match p_or prim2 ts0 with
                 | Ok e r0 => match r0 with TRP :: _ => args_loop prim2 k (acc ++ [e]) r0 | TComma :: r' => args_loop prim2 k (acc ++ [e]) r' | _ => ErrL end
                 | Err => ErrL | Fuel => FuelL end = r).
      { intros ts0. destruct (p_or prim1 ts0) as [pe pr| |] eqn:E; rewrite ?(or_stable _ _ E) by discriminate; [|auto|intros <- N; congruence].
        destruct pr as [|pt1 pr1]; auto. destruct pt1; auto; apply IH. }
    destruct t; try apply G. auto.
  Qed.

  Lemma postfix_stable k : forall f ts r, postfix prim1 k f ts = r -> r <> Fuel -> postfix prim2 k f ts = r.
  Proof.
    induction k as [|k IH]; intros f ts r; destruct ts as [|t ts']; cbn [postfix]; auto; destruct t; auto.
    destruct (args_loop prim1 (length ts') [] ts') as [pl pr| |] eqn:E; rewrite ?(args_loop_stable _ _ _ _ E) by discriminate; [apply IH|auto|intros <- N; congruence].
  Qed.
End Stable.

Lemma p_prim_S n ts : p_prim (S n) ts =
  match ts with
  | TLP :: ts' => match p_or (p_prim n) ts' with
                  | Ok e (TRP :: r) => postfix (p_prim n) (length r) e r
                  | Ok _ _ => Err
                  | x => x
                  end
  | TId v :: ts' => postfix (p_prim n) (length ts') (EVar v) ts'
  | TInt z :: ts' => Ok (EInt z) ts'
  | TBool b :: ts' => Ok (EBool b) ts'
  | _ => Err
  end.
Proof. reflexivity. Qed.

Lemma prim_stable_S n : stable (p_prim n) (p_prim (S n)).
Proof.
  induction n as [|n IH]; intros ts r; [cbn [p_prim]; intros <- N; congruence|].
  rewrite (p_prim_S n), (p_prim_S (S n)). destruct ts as [|t ts']; auto. destruct t; auto.
  - apply (postfix_stable _ _ IH).
  - destruct (p_or (p_prim n) ts') as [pe pr| |] eqn:E; rewrite ?(or_stable _ _ IH _ _ E) by discriminate; [|auto|intros <- N; congruence].
    destruct pr as [|pt1 pr1]; auto. destruct pt1; auto. apply (postfix_stable _ _ IH).
Qed.

Lemma prim_stable n m : (n <= m)%nat -> stable (p_prim n) (p_prim m).
Proof.
  induction 1 as [|m L IH]; [intros ts r E _; exact E|].
  intros ts r E N. apply prim_stable_S; [apply IH; assumption|exact N].
Qed.

(* more fuel than tokens is enough, and then the amount does not matter *)
Theorem parse_fuel_irrelevant n ts : (length ts < n)%nat -> parse_fuel n ts = parse ts.
Proof.
  intros L. unfold parse, parse_fuel.
  pose proof (p_or_nf _ (S (length ts)) (p_prim_prog _) (p_prim_nofuel _) ts (Nat.lt_succ_diag_r _)) as NF.
  rewrite (or_stable _ _ (prim_stable (S (length ts)) n L) ts _ eq_refl NF). reflexivity.
Qed.
