"""C20 - reported source lines are the lines where the reported construct starts.
Deciding method: theorems in coq/Props/C20.v about the scanner step regenerated from Lexer.scan on every run (the
line/column counters follow the characters in every scanner state; a token carries the position recorded when the
scanner left the blank state; hence every token of every text has the position of one of its characters), a
T-correspondence of the generated scanner with Lexer.scan, and the quantifier on the implementation: token kinds x
following characters, and programs with one planted fault under random multi-line layouts whose reported position
must be the true line of the planted token."""
import os
import tempfile

from checks import lexcheck
from vlib import core, lexrender, progen
from vlib.core import Report

TOKENS = ["x", "foo_bar", "if", "TRUE", "12", "0x1f", "0b11", "1_0", "2.5", "'s'", "\"d\"", "'a\\nb'", "//p//", "+", "-", "*", "/", "%", "==", "<>",
          "!=", "<", "<=", ">", ">=", "=", "+=", "-=", "*=", "/=", "%=", "!>", "->", "(", ")", "[", "]", ",", ";", "<<", ">>", "<<<", ">>>",
          "<*", "*>", "=>", "...", "x...", "a.b"]
FOLLOW = [" ", "\n", "\r\n", " # c\n", "\t", "(", ")", "[", ",", ";", "+", "<", "=", "", "'q'", "#", "\n\n", "x"]

def _f(text, accept, kind="runtime"):
    from vlib import lexrender
    return (text, accept, kind)


# (statement text, indices of the tokens at which the construct or the offending token begins, kind). Where the language
# reports a call at its opening parenthesis or an operation at its operator, both that token and the first token of the
# construct are accepted (the property says "the offending token or construct"): the check never demands more.
FAULTS = [
    _f("undefined_zz_q", "undefined_zz_q"), _f("error 'planted'", "error"), _f("not 5", "not 5"), _f("1 / 0", "1 /"), _f("[1][7]", "[ 7"),
    _f("if 1 then 2 else 3", "if 1"), _f("if TRUE then undefined_zz_q else 3", "undefined_zz_q"), _f("while 1 do 2 end", "while 1"),
    _f("for q_z in 5 do 2 end", "for 5"), _f("1 and TRUE", "1 and"), _f("TRUE and 1", "TRUE and 1"), _f("FALSE or 1", "FALSE or 1"),
    _f("[1, 2]['x']", "[ x"), _f("f_undefined_q(1)", "f_undefined_q ("), _f("- 'a'", "- a"), _f("'a' * 'b'", "a * b"),
    _f("def [a_q, b_q] = 5", "def [ 5"), _f("'a doc string' def [a_q, b_q] = 5", "def [ 5"), _f("'doc' def f_doc_q(x) x; f_doc_q()", "f_doc_q ("), _f("x_undef_q += 1", "x_undef_q +="), _f("x_undef_q = 1", "x_undef_q ="),
    _f("require NoSuchModuleZq", "require NoSuchModuleZq"), _f("[1 for x_q in 5]", "[ 1 5"), _f("<<1 for x_q in 5>>", "<< 1 5"),
    _f("<<<1 => 2 for x_q in 5>>>", "<<< 1 5"), _f("1 is undefined_zz_q", "1 is undefined_zz_q"), _f("<* a = 1 *> -> b()", "<* -> b ("),
    _f("[1] !> undefined_zz_q()", "[ undefined_zz_q ("), _f("[3] !> length(2, 3)", "[ length ("), _f("7 !> undefined_zz_q(1) !> string()", "7 undefined_zz_q ("),
    _f("'a' !> string() !> undefined_zz_q()", "a undefined_zz_q ("), _f("[a_u, b_u] = [1, 2]", "[ a_u"), _f("<<<1 => 2>>>[5]", "<<< [ 5"),
    _f("'abc'[10]", "abc [ 10"), _f("do error 1 finally undefined_zz_q end", "undefined_zz_q"), _f("date('x')", "date ( x"),
    _f("[1, undefined_zz_q]", "undefined_zz_q"), _f("<<1, undefined_zz_q>>", "undefined_zz_q"), _f("<<<1 => undefined_zz_q>>>", "undefined_zz_q"),
    _f("(fn(a) a + undefined_zz_q)(1)", "undefined_zz_q"), _f("length(1, 2, 3)", "length ("), _f("length(zz = 1)", "length ("),
    _f("return undefined_zz_q", "undefined_zz_q"), _f("def y_q = undefined_zz_q", "undefined_zz_q"), _f("[1, 2][0] = undefined_zz_q", "undefined_zz_q"),
    _f("[3, 2][5] = 1", "[ 5 ="),
    # the later operation of a chain on one precedence level: it is reported at its own operator (or at the first token of the construct),
    # not at an earlier operator of the chain
    _f("71 + 2 - 'x'", "71 -"), _f("72 + 2 + 5 - 'x' + 1", "72 -"), _f("73 * 3 / 'x'", "73 /"), _f("74 * 3 * 2 % 'x'", "74 %"),
    _f("75 + 2 * 3 - [] - 1", "75 -"), _f("76 - 2 - undefined_zz_q", "undefined_zz_q"),
    # a break / continue with no loop around it (top level, or the body of a function called from another line)
    _f("break", "break"), _f("continue", "continue"), _f("if TRUE then break", "break"), _f("if 1 == 1 then do 1; continue end", "continue"),
    _f("do 1; break end", "break"), _f("do continue catch all 2 end", "continue"),
    _f(")", ")", "syntax"), _f("then", "then", "syntax"), _f("def 5 = 1", "5", "syntax"), _f("for in", "in", "syntax"), _f("if 1 2", "2", "syntax"),
    _f("f(... 5)", "... 5", "syntax"), _f("1 if", "if", "syntax"), _f("def x_q 1", "1", "syntax"), _f("'\\xZZ'", "'\\xZZ'", "syntax"),
    _f("0x", "0x", "syntax"), _f("//[//", "//[//", "syntax"), _f("def if = 1", "if", "syntax"), _f("checkerlang_q = 1", "checkerlang_q =", "syntax"),
]
FAULTS = [f for f in FAULTS if f[2] != "none"]


def fault_tokens(text):
    """tokens of a fault statement; for texts the lexer rejects (lexical faults) one raw token"""
    from ckl.errors import CklSyntaxError
    try:
        return [(v, ty) for v, ty, _, _ in lexrender.real_tokens(text)]
    except CklSyntaxError:
        return [(text, "raw")]


def statement_boundaries(tokens):
    """indices i such that a statement may be inserted before token i at nesting depth 0"""
    out = [0]
    depth = 0
    for i, t in enumerate(tokens):
        v, ty = t[0], t[1]
        if ty == "interpunction" and v in ("(", "[", "<<", "<<<", "<*"):
            depth += 1
        elif ty == "interpunction" and v in (")", "]", ">>", ">>>", "*>"):
            depth -= 1
        elif ty == "keyword" and v == "do":
            depth += 1
        elif ty == "keyword" and v == "end":
            depth -= 1
        elif ty == "interpunction" and v == ";" and depth == 0:
            out.append(i + 1)
    return out


def main(tier, seed, replay=None):
    rep = Report("C20", tier, seed)
    core.setup_impl_path()
    from vlib import impl
    from ckl.errors import CklRuntimeError, CklSyntaxError
    from ckl.lexer import Lexer
    rnd = core.rng(seed, "C20")
    rep.rule = ("every token kind followed by every kind of following character (%d x %d texts) with the true position computed from the text; "
                "generated programs re-rendered under random multi-line layouts with one planted fault (undefined name, explicit error, type "
                "error, division by zero, bad index, stray token) at a top-level statement boundary: the reported file name and line must be "
                "those of the planted token; the same inside a called function (stack-trace entry) and inside a user module; distinct by text") % (
                    len(TOKENS), len(FOLLOW))
    rep.trusted += ["tools/translate/lexer_gen.py (fail-closed symbolic execution of the scanner loop body)",
                    "that syntax errors, runtime errors and stack-trace entries copy token positions is decided by the planted-fault run only"]
    if replay:
        rep.no_evidence = True
        rep.oblige("replay: re-run the check to reproduce (cases are regenerated from the seed)", True)
        return rep.finish()
    ok = core.standard_coq(rep, lexcheck.TARGETS, "Props/C20.v", regen=lexcheck.regen)
    texts = []
    dis = 0
    # (1) token kinds x following characters
    for t in TOKENS:
        for f in FOLLOW:
            for lead in ("", "\n  ", "a\r\n\t"):
                s = lead + t + f
                texts.append(s)
                # true position of the token t: after the lead
                line = 1 + lead.count("\n")
                col = len(lead) - (lead.rfind("\n") + 1) + 1
                try:
                    toks = Lexer(s, "name").scan().tokens
                except CklSyntaxError:
                    continue
                rep.count()
                # the token that starts at the expected offset must be reported there
                # ... and so must a token following the follower (look-ahead must not disturb the counters)
                s2 = s + "q_z"
                try:
                    toks2 = Lexer(s2, "name").scan().tokens
                except CklSyntaxError:
                    toks2 = []
                if toks2 and toks2[-1].value == "q_z":
                    texts.append(s2)
                    rep.count()
                    l2 = 1 + s.count("\n")
                    c2 = len(s) - (s.rfind("\n") + 1) + 1
                    if (toks2[-1].pos.line, toks2[-1].pos.column) != (l2, c2):
                        dis += 1
                        rep.violation("input", "token q_z after %r reported at %s, it starts at %d:%d" % (s, toks2[-1].pos, l2, c2), check="token-after", text=s2)
                skip = 1 if lead.startswith("a") else 0
                if len(toks) > skip:
                    tk = toks[skip]
                    if (tk.pos.line, tk.pos.column, tk.pos.filename) != (line, col, "name"):
                        dis += 1
                        rep.violation("input", "token %r in %r reported at %s, it starts at %d:%d" % (t, s, tk.pos, line, col), check="token", text=s)
    rep.oblige("%d token x follower texts: every token is reported at its true line and column" % len(texts), dis == 0, "%d wrong" % dis)
    # (2) planted faults under random layouts
    I = impl.new_interpreter(False, False)
    nprog = 400 if tier != "thorough" else 4000
    pd = 0
    done = 0
    used = {}
    while done < nprog:
        p = progen.generate(rnd, rnd.choice(["mix", "C04", "C03"]), 500)[0]
        I.environment = I.base_environment.newEnv()
        if impl.run_src(I, p)[0] != "val":
            continue
        toks = [(v, ty) for v, ty, _, _ in lexrender.real_tokens(p)]
        ftext, accept, kind = rnd.choice(FAULTS)
        fault = fault_tokens(ftext)
        which = 0
        inside = rnd.random() < (0.3 if fault[-1][0] not in ("break", "continue") and "break" not in ftext and "continue" not in ftext else 0.7) and kind == "runtime"
        b = rnd.choice(statement_boundaries(toks))
        if inside:
            planted = [("def", "keyword"), ("pf_q", "identifier"), ("(", "interpunction"), (")", "interpunction"), ("do", "keyword")] + fault + \
                [("end", "keyword"), (";", "interpunction"), ("pf_q", "identifier"), ("(", "interpunction"), (")", "interpunction"), (";", "interpunction")]
            base = b + 5
            callidx = b + 5 + len(fault) + 3     # the "(" of the call
        else:
            planted = fault + [(";", "interpunction")]
            base = b
            callidx = None
        newtoks = toks[:b] + planted + toks[b:]
        txt, pos = lexrender.render(newtoks, rnd, literal_spelling=False, parens=False, trailing_semicolon=False)
        texts.append(txt)
        done += 1
        rep.count()
        rep.nontriv(txt)
        I.environment = I.base_environment.newEnv()
        try:
            impl.with_timeout(lambda: I.interpret(txt, "prog.ckl"), 3.0)
            got = None
        except (CklRuntimeError, CklSyntaxError) as e:
            got = e
        except BaseException as e:
            got = e
        acc = accept.split(" ")
        want_lines = sorted({pos[base + k][0] for k, t in enumerate(fault) if t[0] in acc})
        used[ftext] = used.get(ftext, 0) + 1
        if not isinstance(got, (CklRuntimeError, CklSyntaxError)) or got.pos is None or got.pos.filename != "prog.ckl" or got.pos.line not in want_lines:
            pd += 1
            rep.violation("input", "planted fault %r (lines %s of the text) reported as %s in %r" % (ftext, want_lines, getattr(got, "pos", got), txt),
                          check="planted", fault=ftext, text=txt, want_lines=want_lines)
        elif callidx is not None and ("prog.ckl:%d:" % pos[callidx][0]) not in " ".join(got.stacktrace):
            pd += 1
            rep.violation("input", "stack trace %r does not name the call at line %d of %r" % (got.stacktrace, pos[callidx][0], txt), check="stack", text=txt, want_line=pos[callidx][0])
        elif isinstance(got, CklRuntimeError):
            # every entry of the trace is a call that belongs to this error: in this file, on a line of the planted statement or of the planted call
            import re as _re
            allowed = {pos[base + k][0] for k in range(len(fault))} | ({pos[callidx][0]} if callidx is not None else set())
            bad = [e for e in got.stacktrace if not (_re.search(r" prog\.ckl:(\d+):\d+$", e) and int(_re.search(r" prog\.ckl:(\d+):\d+$", e).group(1)) in allowed)]
            if bad or len(got.stacktrace) > len(fault) + 1:
                pd += 1
                rep.violation("input", "stack trace %r of the planted fault %r in %r has entries that are no calls of the failing statement (lines %s)" % (
                    got.stacktrace, ftext, txt, sorted(allowed)), check="stack-extra", text=txt, want_lines=sorted(allowed))
    rep.oblige("%d programs with a planted fault under random layouts: reported file and line are those of the planted token" % nprog, pd == 0,
               "%d wrong" % pd)
    rep.sample({"text": texts[-1][:300]})
    # (3) errors inside module code name the module and the line within the module
    d = tempfile.mkdtemp(prefix="c20_", dir=core.WORK if os.path.isdir(core.WORK) else None)
    md = 0
    try:
        from ckl.values import ValueList, ValueString
        for k in range(1, 6):
            pad = "".join("def v%d = %d;\n" % (i, i) for i in range(k - 1))
            open(os.path.join(d, "c20mod%d.ckl" % k), "w").write(pad + "def boom() do\n  undefined_in_module\nend;\n")
            open(os.path.join(d, "c20ld%d.ckl" % k), "w").write(pad + "def w = 1;\nundefined_at_load;\n")
            open(os.path.join(d, "c20sy%d.ckl" % k), "w").write(pad + "def w = 1;\n)\n")
            # (program, module whose code fails, line within the module): every way of requiring and reaching the module's code
            progs = [("require c20mod%d;\n\nc20mod%d->boom()" % (k, k), "c20mod%d" % k, k + 1),
                     ("require c20mod%d as zz;\nzz->boom()" % k, "c20mod%d" % k, k + 1),
                     ("require c20mod%d unqualified;\nboom()" % k, "c20mod%d" % k, k + 1),
                     ("require c20mod%d import [boom as bb];\nbb()" % k, "c20mod%d" % k, k + 1),
                     ("require c20mod%d as first; require c20mod%d;\nc20mod%d->boom()" % (k, k, k), "c20mod%d" % k, k + 1),
                     ("require c20ld%d" % k, "c20ld%d" % k, k + 1), ("require c20ld%d as q" % k, "c20ld%d" % k, k + 1),
                     ("require c20sy%d" % k, "c20sy%d" % k, k + 1), ("require c20sy%d as q" % k, "c20sy%d" % k, k + 1),
                     ("require c20sy%d unqualified" % k, "c20sy%d" % k, k + 1)]
            for src, modname, line in progs:
                I = impl.new_interpreter(False, False)
                I.base_environment.put("checkerlang_module_path", ValueList().addItem(ValueString(d)))
                try:
                    I.interpret(src, "main.ckl")
                    got = None
                except (CklRuntimeError, CklSyntaxError) as e:
                    got = e
                rep.count()
                if got is None or got.pos is None or got.pos.filename != "mod:" + modname or got.pos.line != line:
                    md += 1
                    rep.violation("input", "error in module %s line %d reached by %r is reported as %s" % (modname, line, src, getattr(got, "pos", got)), check="module", k=k, program=src)
    finally:
        import shutil
        shutil.rmtree(d, ignore_errors=True)
    rep.oblige("errors raised inside module code name the module and the line within it", md == 0, "%d wrong" % md)
    # (4) code read from text at run time (parse, eval): the file given to the interpreter, the line within the text
    pe = 0
    I2 = impl.new_interpreter(False, False)
    for k in range(0, 4):
        nl = "\\n" * k
        for src, line, tracefile in [("def n = parse(\"%s1 +\\n 'x' -\\n 2\");\n\neval(n)" % nl, k + 2, True), ("eval(\"%s1 +\\n\\n undefined_zz\")" % nl, k + 3, True),
                                     ("def n = parse(\"%sdef h_q(x) do\\n x +\\n undefined_zz\\nend;\\nh_q(1)\");\neval(n)" % nl, k + 3, True),
                                     ("def n = parse(\"%sdef k_q(x) do\\n\\n error x\\nend\"); eval(n);\n\nk_q(3)" % nl, k + 3, True),
                                     ("def n = parse(\"%s[1, 2][\\n7]\"); do eval(n) catch 'nomatch' 1 end" % nl, k + 1, True)]:
            I2.environment = I2.base_environment.newEnv()
            try:
                I2.interpret(src, "main.ckl")
                got = None
            except (CklRuntimeError, CklSyntaxError) as e:
                got = e
            rep.count()
            files = [] if got is None else [m.group(1) for m in (__import__("re").search(r" ([^ :]*):\d+:\d+$", x) for x in got.stacktrace) if m]
            if got is None or got.pos is None or (got.pos.filename, got.pos.line) != ("main.ckl", line) or any(f != "main.ckl" for f in files) or len(files) != len(got.stacktrace):
                pe += 1
                rep.violation("input", "error in text read at run time: %r reports %s with trace %r, the fault is at main.ckl line %d of the text" % (
                    src, getattr(got, "pos", None), getattr(got, "stacktrace", None), line), check="parsed-text", text=src, want_line=line)
    rep.oblige("errors in code read from text at run time (parse, eval) name the interpreter's file and the line within the text", pe == 0, "%d wrong" % pe)
    if ok:
        lexcheck.t_correspondence(rep, texts[::4][:500], "c20")
    if tier == "thorough":
        core.coqchk(rep, "Ckl.Props.C20")
    return rep.finish()
