"""C16 - only documented mutators change their arguments; aliases see mutations.
Deciding method: theorems in coq/Props/C16.v about the heap of the model evaluator (frame lemma for every
non-mutating native of the modelled fragment, exact effect of the mutators, sharing, freshness), tied to the
code by the evaluator correspondence on generated alias graphs driven by mutating and non-mutating
operations, plus an enumeration on the implementation: every function of the base environment and the bundled
modules applied to argument tuples from a value pool with all arguments snapshotted before and after."""
import itertools

from checks import evalcheck
from vlib import core

MUTATORS = {"append", "append_all", "insert_at", "delete_at", "remove", "put"}
SKIP = {"run", "execute", "file_output", "file_input", "file_delete", "file_copy", "file_move", "make_dir", "list_dir", "file_info",
        "file_exists", "read_file", "println", "print", "printf", "readln", "read", "read_all", "process_lines", "close", "bind_native",
        "eval", "parse", "timestamp", "now", "date", "set_seed", "random", "choice", "choices", "sample", "get_env", "which", "info", "ls",
        "str_input", "str_output", "get_output_string", "for_each", "body", "new", "parse_json", "exit"}
POOL = ["[3, 1, 2]", "[[1, 2], [3]]", "<<2, 1>>", "<<<'a' => 1, 'b' => [1]>>>", "'abc'", "2", "0", "[]", "<*x = [1]*>", "NULL", "1.5",
        "fn(x) x", "['b', 'a']", "TRUE"]


def enumerate_functions(rep, tier, impl):
    from ckl import values as V
    I = impl.new_interpreter(False, False)
    I.interpret("require List unqualified; require Set unqualified; require Stat unqualified; require Math unqualified; "
                "require String unqualified; require Type unqualified; require Predicate unqualified; require Date unqualified", "prelude")
    names = [s for s in I.environment.getSymbols() if isinstance(I.environment.get(s), V.ValueFunc)]
    names = [n for n in names if n not in SKIP and n not in MUTATORS and not n.startswith("checkerlang")]
    n = 0
    changed = {}
    for f in names:
        for arity in (1, 2):
            tuples = list(itertools.product(range(len(POOL)), repeat=arity))
            if arity == 2 and tier != "thorough":
                # a fifth of the pairs, and every pair of two containers (an argument can only be changed if it is one; the other may select what)
                cont = {i for i, v in enumerate(POOL) if v[0] in "[<"}
                tuples = [t for k, t in enumerate(tuples) if (k * 7 + len(f)) % 5 == 0 or (t[0] in cont and t[1] in cont)]
            for t in tuples:
                args = ", ".join("a%d" % i for i in range(arity))
                defs = "; ".join("def a%d = %s" % (i, POOL[j]) for i, j in enumerate(t))
                prog = "%s; def before = string([%s]); do %s(%s) catch all NULL end; [before, string([%s])]" % (defs, args, f, args, args)
                I.environment = I.base_environment.newEnv()
                I.interpret("require List unqualified; require Set unqualified; require Stat unqualified; require Math unqualified; "
                            "require String unqualified; require Type unqualified; require Predicate unqualified", "prelude")
                out = impl.run_src(I, prog, seconds=2.0)
                n += 1
                if out[0] == "val":
                    parts = out[1]
                    # (list (s ...) (s ...)): both renderings must be identical
                    body = parts[len("(list "):-1]
                    half = body.split(") (s")
                    if len(half) == 2 and half[0] + ")" != "(s" + half[1]:
                        changed.setdefault(f, prog)
    # ---- independence: a non-mutating function does not hand back one of its argument containers as its result.
    # Selections (the result IS one of the inputs by definition) and conversions of a value to its own kind are exempt.
    PASS_THROUGH = {"identity", "if_empty", "if_null", "if_null_or_empty", "max", "min", "non_empty", "non_zero", "list", "set", "map", "object", "esc", "replace"}
    APOOL = ["[]", "[5]", "[2, 1]", "[[2, 1]]", "<<>>", "<<1>>", "<<2, 1>>", "<<<>>>", "<<<1 => 2>>>", "<*x = 1*>", "'ab'", "2", "1", "8", "fn(x) x"]
    HOLDS_ARGUMENT = {"add"}          # [] + m is [m]: the element is the operand itself, by reference

    def direct_elements(r):
        if isinstance(r, (V.ValueList, V.ValueSet)):
            return list(r.value)
        if isinstance(r, V.ValueMap):
            return list(r.value.keys()) + list(r.value.values())
        if isinstance(r, V.ValueObject):
            return list(r.value.values())
        return []
    aliased = {}
    for f in names:
        if f in PASS_THROUGH:
            continue
        for arity in (1, 2):
            for t in itertools.product(range(len(APOOL)), repeat=arity):
                if arity == 2 and tier != "thorough" and (t[0] * 13 + t[1] + len(f)) % 3 != 0:
                    continue
                I.environment = I.base_environment.newEnv()
                I.interpret("require List unqualified; require Set unqualified; require Stat unqualified; require Math unqualified; "
                            "require String unqualified; require Type unqualified; require Predicate unqualified", "prelude")
                defs = "; ".join("def a%d = %s" % (i, APOOL[j]) for i, j in enumerate(t))
                args = ", ".join("a%d" % i for i in range(arity))
                out = impl.run_src(I, "%s; def r = do %s(%s) catch all NULL end; 0" % (defs, f, args), seconds=2.0)
                n += 1
                if out[0] != "val":
                    continue
                r = I.environment.map.get("r")
                argv = [I.environment.map.get("a%d" % i) for i in range(arity)]
                cont = [a for a in argv if isinstance(a, (V.ValueList, V.ValueSet, V.ValueMap, V.ValueObject))]
                if isinstance(r, (V.ValueList, V.ValueSet, V.ValueMap, V.ValueObject)) and any(r is a for a in cont):
                    aliased.setdefault(f, "%s; %s(%s)" % (defs, f, args))
                elif f not in HOLDS_ARGUMENT and any(e is a for e in direct_elements(r) for a in cont):
                    aliased.setdefault(f, "%s; %s(%s) (the result holds the argument itself as an element)" % (defs, f, args))
    for f, prog in sorted(aliased.items()):
        rep.violation("input", "%s returns its argument itself (a later mutation of the result changes the argument): %s" % (f, prog), check="alias", function=f, program=prog)
    rep.cov["alias_violations"] = len(aliased)
    for f, prog in sorted(changed.items()):
        rep.violation("input", "%s changes an argument: %s" % (f, prog), check="snapshot", function=f, program=prog, want="arguments unchanged")
    rep.count(n)
    rep.cov["functions_enumerated"] = len(names)
    rep.cov["snapshot_calls"] = n
    rep.sample({"kind": "snapshot", "function": names[len(names) // 2], "pool": POOL[:4]})


OPFORMS = ["a0 + a1", "a0 - a1", "a0 * a1", "a0 / a1", "a0 % a1", "a0 == a1", "a0 != a1", "a0 < a1", "a0 <= a1", "a0 > a1", "a0 >= a1", "a0 < a1 < a0", "a0 in a1",
           "a0 is in a1", "a0 is not in a1", "not a0", "a0 and a1", "a0 or a1", "- a0", "a0[a1]", "a0[a1, 'dflt']", "a0[a1, a1]", "a0[a1, []]", "a0['zz', a1]", "a0[0]",
           "a0[-1]", "a0[0 to 1]", "a0[1 to]", "a0[a1 to]", "a0->x", "a0->zz", "a0->x->y", "a0 is empty", "a0 is not empty", "a0 is zero", "a0 is list", "a0 is string",
           "a0 is NULL", "[...a0]", "[...a0, ...a1]", "<<<...a0>>>", "[x for x in a0]", "<<x for x in a0>>", "<<<string(x) => 1 for x in a0>>>", "[x for x in keys a0]",
           "[x for x in values a0]", "[x for x in entries a0]", "[[x, y] for x in a0 for y in a1]", "[[x, y] for x in a0 also for y in a1]", "for x in a0 do x end",
           "for x in a0 do for y in a1 do [x, y] end end", "def [p, q] = a0; [p, q]", "def p = 0; def q = 0; [p, q] = a0; [p, q]", "[a0, a1]", "<<a0, a1>>", "<<<'k' => a0, 'l' => a1>>>",
           "<*m = a0, n = a1*>", "a0 !> string()", "string(a0) + string(a1)", "s('{a0} {a1}')", "if a0 == a1 then a0 else a1", "def f(p, q = a1) [p, q]; f(a0)",
           "def f(p...) p; f(a0, a1)", "def f(p...) p; f(...a0)", "def f(p) p; f(p = a0)", "a0(a1)", "a1 !> a0()", "do error a0 catch a1 1 end", "do error a0 catch all 2 end",
           "while a0 == 77 do 1 end", "def t = [a0]; t[0] == a1", "def g() a0; g() == a1"]


def enumerate_operators(rep, tier, impl):
    """every operator and syntactic form that reads its operands, on all pairs of the pool, operands snapshotted before and after"""
    I = impl.new_interpreter(False, False)
    n = 0
    changed = {}
    for f in OPFORMS:
        for i, j in itertools.product(range(len(POOL)), repeat=2):
            prog = "def a0 = %s; def a1 = %s; def before = string([a0, a1]); do %s catch all NULL end; [before, string([a0, a1])]" % (POOL[i], POOL[j], f)
            I.environment = I.base_environment.newEnv()
            out = impl.run_src(I, prog, seconds=2.0)
            n += 1
            if out[0] != "val":
                if out[0] != "syntax":
                    changed.setdefault(f, (prog, "gives %s" % (out[:2],)))
                continue
            half = out[1][len("(list "):-1].split(") (s")
            if len(half) == 2 and half[0] + ")" != "(s" + half[1]:
                changed.setdefault(f, (prog, "changes an operand"))
    # the value such a form produces is a value of its own: changing it in place afterwards (append, element assignment, put) does not
    # reach the operands, and changing an operand does not reach it
    FRESH = ["a0 + a1", "a0 - a1", "a0 * a1", "a0 + []", "[] + a0", "a0 + <<>>", "<<>> + a0", "a0 - []", "a0 * 1", "a0[0 to 1]", "a0[0 to]", "a0[a1 to]", "[...a0]", "[...a0, ...a1]", "<<<...a0>>>",
             "[x for x in a0]", "<<x for x in a0>>", "[x for x in a0 for y in [1]]", "[a0, a1]", "<<a0, a1>>", "<<<'k' => a0>>>", "def f(p...) p...; f(...a0)", "string(a0) + ''"]
    for f in FRESH:
        for i, j in itertools.product(range(len(POOL)), repeat=2):
            if not (POOL[i][0] in "['" or (POOL[i].startswith("<<") and not POOL[i].startswith("<<<"))):
                continue          # a0 is a list, a set or a string (a map or object operand may legitimately be held by the result as an element)
            holds = f in ("[a0, a1]", "<<a0, a1>>", "<<<'k' => a0>>>")       # these hold the operands themselves: only the first half applies
            prog = ("def a0 = %s; def a1 = %s; def before = string([a0, a1]); def r = do %s catch all NULL end; do append(r, 99) catch all 0 end; do r[0] = 98 catch all 0 end; "
                    "do put(r, 'zz', 97) catch all 0 end; do insert_at(r, 0, 96) catch all 0 end; def mid = string([a0, a1]); def rs = string(r); "
                    "do append(a0, 95) catch all 0 end; do a0[0] = 94 catch all 0 end; [before == mid, rs == string(r)]") % (POOL[i], POOL[j], f)
            I.environment = I.base_environment.newEnv()
            out = impl.run_src(I, prog, seconds=2.0)
            n += 1
            if out[0] == "val" and out[1] != "(list (b 1) (b 1))" and not (holds and out[1] == "(list (b 1) (b 0))"):
                changed.setdefault("fresh:" + f, (prog, "gives a value that shares storage with an operand"))
    for f, (prog, what) in sorted(changed.items()):
        rep.violation("input", "the form %s %s: %s" % (f, what, prog), check="operator", function=f, program=prog, want="operands unchanged")
    rep.count(n)
    rep.cov["operator_forms"] = len(OPFORMS)
    rep.cov["operator_programs"] = n
    rep.oblige("%d operator / syntactic forms x %d operand pairs leave their operands unchanged" % (len(OPFORMS), len(POOL) ** 2), not changed, "%d forms change an operand" % len(changed))


def oracle(rep, rnd, tier, impl):
    cases = [
        ("def a = [1, 2]; def b = a; append(b, 3); def m = <<<1 => a>>>; append(m[1], 4); def f(p) append(p, 5); f(a); [a, b, m[1]]",
         "(list (list (i 1) (i 2) (i 3) (i 4) (i 5)) (list (i 1) (i 2) (i 3) (i 4) (i 5)) (list (i 1) (i 2) (i 3) (i 4) (i 5)))"),
        ("def a = [1, 2]; def b = a + [3]; def c = a[0 to 2]; def d = sublist(a, 0); def e = [x for x in a]; append(b, 9); append(c, 9); "
         "append(d, 9); append(e, 9); a", "(list (i 1) (i 2))"),
        ("def s = <<1>>; def t = s; append(t, 2); [s, t]", "(list (set (i 1) (i 2)) (set (i 1) (i 2)))"),
        # a default value is made anew for every call that leaves the argument out; an argument that is passed is shared with the caller
        ("def f(a = []) do append(a, 1); a end; def x = f(); def y = f(); def z = [5]; f(z); append(x, 9); [x, y, z, f()]", "(list (list (i 1) (i 9)) (list (i 1)) (list (i 5) (i 1)) (list (i 1)))"),
        ("def f(a = <<1>>, m = <<<>>>, o = <*n = 0*>) do append(a, 2); m['k'] = 1; o->n = o->n + 1; [a, m, o->n] end; f(); f()", "(list (set (i 1) (i 2)) (map ((s 107) (i 1))) (i 1))"),
        ("def g = fn(acc = [[0], [0]]) do append(acc[0], 9); acc end; g(); g()", "(list (list (i 0) (i 9)) (list (i 0)))"),
        ("def m = <<<1 => 2>>>; def n = m; put(n, 3, 4); m[5] = 6; [m, n]",
         "(list (map ((i 1) (i 2)) ((i 3) (i 4)) ((i 5) (i 6))) (map ((i 1) (i 2)) ((i 3) (i 4)) ((i 5) (i 6))))"),
        ("def o = <*x = 1*>; def p = o; p->x = 2; o->x", "(i 2)"),
        ("def base = <*count = 0*>; def a = <*_proto_ = base*>; def b = <*_proto_ = base*>; a->count = 5; [base->count, b->count, a->count]",
         "(list (i 0) (i 0) (i 5))"),
        ("def a = [3, 1, 2]; def b = sorted(a); append(b, 0); def c = a * 2; append(c, 0); def d = a - [1]; append(d, 7); a", "(list (i 3) (i 1) (i 2))"),
        ("def a = [1, 2, 3]; def mk() fn() a; def g = mk(); append(g(), 4); a", "(list (i 1) (i 2) (i 3) (i 4))"),
        ("def a = [1, 2]; insert_at(a, 0, 9); delete_at(a, -1); a[1] = 7; a", "(list (i 9) (i 7))"),
    ]
    n = evalcheck.programs_oracle(rep, impl, cases, "scenario")
    rep.cov["scenario_cases"] = n
    enumerate_functions(rep, tier, impl)
    enumerate_operators(rep, tier, impl)


def main(tier, seed, replay=None):
    return evalcheck.run(
        "C16", "C16", "Props/C16.v", tier, seed, replay,
        rule=("generated alias graphs (variables, parameters, nested containers, closures, maps) driven by random sequences of mutating "
              "(append, insert_at, delete_at, put, element assignment) and non-mutating (+, -, *, slices, sublist, comprehensions) operations, "
              "checked against the heap of the model evaluator; every function of the base environment and bundled modules (except I/O and the "
              "documented mutators) on argument tuples from a 14-value pool with before/after snapshots (arity 1 all, arity 2 a fifth; "
              "thorough: all); distinct by source text"),
        trusted=["functions written in the language are covered by the snapshot enumeration and the correspondence only (C16_library_partial)"],
        oracle=oracle, n_quick=400)
