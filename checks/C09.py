"""C09 - secure mode denies file, process and script-loading access to every program.
Deciding method: theorems in coq/Props/C09.v over a table regenerated from functions.py / values.py / interpreter.py on
every run (no built-in that calls a file / directory / process / script facility of the host is flagged secure; under
secure mode no sequence of bindings, aliases, copies and shadowings reaches an insecure built-in), with a translator that
fails closed unless the binder has exactly the modelled shape; and an audited run of secure interpreters (legacy and
non-legacy base) over the property's quantifier: every native name with and without alias, every symbol of every bundled
module called with path-like and command-like arguments, every syntactic way of defining or assigning the flag - Python
audit events, reachable function values, a canary directory and the base flag are observed."""
import json
import os
import subprocess

from vlib import core
from vlib.core import Report


def regen(rep):
    from tools.translate import secure_gen, pykernel
    try:
        text, meta = secure_gen.generate(core.SRC)
    except pykernel.Unsupported as e:
        rep.oblige("translate functions.py -> Gen/SecureTable.v", False, "translator failed closed: %s" % e)
        return None
    except Exception as e:
        rep.oblige("translate functions.py -> Gen/SecureTable.v", False, "translator error: %r" % e)
        return None
    with core.CoqLock():
        core.write_if_changed(os.path.join(core.COQ, "Gen", "SecureTable.v"), text)
    rep.oblige("translate functions.py -> Gen/SecureTable.v (binder, flag write and run registration have the modelled shape)", True)
    return meta


def main(tier, seed, replay=None):
    rep = Report("C09", tier, seed)
    core.setup_impl_path()
    big = tier == "thorough"
    rep.rule = ("secure interpreters on the legacy and the non-legacy base: bind_native(name), bind_native(name, alias) and a binding from inside a function for every name the "
                "binder knows; every function of every bundled module and of the base environment (required in every form) called with path-like and command-like arguments "
                "(0..3 arguments from a pool of file, directory, new-file, command and script paths); 27 syntactic ways of defining or assigning checkerlang_secure_mode x 10 "
                "escape attempts; observed: Python audit events, reachable function values, canary and working directory, the base flag")
    rep.trusted += ["tools/translate/secure_gen.py (fail-closed AST reading of the dispatch table, flags and host calls; the list of host facilities considered dangerous is in the translator)",
                    "Python audit events as the witness of host access (C extensions that bypass them would not be seen); module-source reads for require are allowed",
                    "what the evaluator can do with a function value is abstracted to bind / alias / copy / shadow / forget in Model/Secure.v"]
    if replay:
        rep.no_evidence = True
        rep.oblige("replay: re-run the check", True)
        return rep.finish()
    holder = {}

    def rg(r):
        holder["meta"] = regen(r)
        return holder["meta"] is not None
    core.standard_coq(rep, ["Proofs/SecureProofs.vo"], "Props/C09.v", regen=rg)
    meta = holder.get("meta")
    if meta is None:
        # the translator failed closed: still search the implementation, with the table of the last good generation if any
        from tools.translate import secure_gen
        try:
            import ast
            tree = ast.parse(open(os.path.join(core.SRC, "ckl", "functions.py")).read())
            classes = secure_gen.class_info(tree)
            table = secure_gen.dispatch(tree)
            meta = {"classes": {c: {"secure": v[0], "dangerous": v[1]} for c, v in classes.items()}, "natives": [{"name": n, "classes": cls} for n, cls, _ in table]}
        except Exception:
            meta = None
    if meta is not None:
        dangerous_secure = [c for c, d in meta["classes"].items() if d["dangerous"] and d["secure"]]
        for c in dangerous_secure:
            rep.violation("input", "built-in class %s calls %s but is flagged secure" % (c, meta["classes"][c].get("calls")), check="table", cls=c)
        env = dict(os.environ, PYTHONPATH=os.path.join(core.REPO, "src") + ":/verif/lib:/verif", PYTHONHASHSEED="0")
        for legacy in (False, True):
            outf = os.path.join(core.WORK, "c09_result_%d.json" % int(legacy))
            if os.path.exists(outf):
                os.remove(outf)
            job = {"legacy": legacy, "meta": meta, "seed": seed, "deep": big, "out": outf}
            try:
                p = subprocess.run([core.PY, os.path.join(core.VERIF, "tools", "c09worker.py")], input=json.dumps(job), capture_output=True, text=True, timeout=3000, env=env, cwd=core.VERIF)
                res = json.load(open(outf))
            except Exception as e:
                rep.oblige("audited run (%s base) completes" % ("legacy" if legacy else "non-legacy"), False, "%r %s" % (e, (p.stderr[-400:] if "p" in dir() else "")))
                continue
            c = res["counts"]
            rep.count(c["programs"])
            rep.nontriv("legacy=%s" % legacy)
            new_problems = 0
            for pr in res["problems"]:
                new_problems += 1 if rep.violation("input", "secure mode (%s base): %s in %r: %s" % ("legacy" if legacy else "non-legacy", pr["kind"], pr["program"], {k: v for k, v in pr.items() if k not in ("kind", "program")}),
                              check=pr["kind"], program=pr["program"], legacy=legacy) else 0
            if res["nproblems"] > len(res["problems"]):
                new_problems += res["nproblems"] - len(res["problems"])
            rep.oblige("audited run, %s base: %d programs (%d natives x 3 binding forms, %d module-function calls, %d flag attacks), %d reachable function values inspected: no host "
                       "access, no insecure function reachable, canary intact, flag on" % ("legacy" if legacy else "non-legacy", c["programs"], c["natives"], c["functions_called"],
                                                                                           c["flag_attacks"], c["reachable_checked"]), new_problems == 0, "%d problems" % new_problems)
            rep.sample(c)
    if big:
        core.coqchk(rep, "Ckl.Props.C09")
    return rep.finish()
