"""C15 - indexing, slicing and sub-sequence functions follow the sequence model.

Deciding method: theorems in coq/Props/C15.v about the hand model
coq/Model/SeqModel.v (written after the Python code), tied to /repo by a
vm_compute correspondence: the model and the interpreter are run on the same
(sequence, index...) cases and every result is diffed.  The model is proved
equal to the sequence specification, and the specification determines every
result, so a disagreement is a concrete failing input of the property."""
import itertools
import os

from vlib import core
from vlib.core import Report, zlit, zlist

SYM = "abc"
IMPORTS = "From Ckl Require Import Prelude.PyPrelude Prelude.Enc Model.SeqModel.\n" \
          "Definition eo (o : option Z) := match o with Some x => [1; x] | None => [0] end.\n" \
          "Definition er (r : res Z) := enc_res enc_z r.\n" \
          "Definition ed (r : res (list Z * option Z)) := enc_res (fun p => eo (snd p) ++ fst p) r.\n"


def seqs(maxlen):
    out = []
    for n in range(maxlen + 1):
        for t in itertools.product(range(3), repeat=n):
            out.append(t)
    return out


def str_lit(t):
    return "'" + "".join(SYM[i] for i in t) + "'"


def list_lit(t):
    return "[" + ", ".join(str(i + 1) for i in t) + "]"


def coq_str(t):
    return zlist([ord(SYM[i]) for i in t])


def coq_list(t):
    return zlist([i + 1 for i in t])


def enc_impl(out, kind):
    """canonical outcome of the implementation -> the model's encoding"""
    if out[0] == "val":
        v = out[1]
        if v.startswith("(s"):
            return [0] + [int(x) for x in v[2:-1].split()]
        if v.startswith("(list"):
            items = v[5:-1].split(") (") if v != "(list)" else []
            vals = []
            for it in v[5:-1].replace("(i ", "").replace(")", "").split():
                vals.append(int(it))
            return [0] + vals
        if v.startswith("(i "):
            return [0, int(v[3:-1])]
        if v == "null":
            return [0, "null"]
        return ["?", v]
    if out[0] == "err":
        return [1]
    if out[0] == "host":
        return [2, out[1]]
    return ["?", out]


HOSTCODE = {1: "IndexError", 2: "ValueError", 3: "ZeroDivisionError", 4: "TypeError", 5: "KeyError"}


def norm_model(m):
    if m and m[0] == 2:
        return [2, HOSTCODE.get(m[1], m[1])]
    return m


class Family:
    """one operation family: model term per case and program per case"""

    def __init__(self, name):
        self.name = name
        self.cases = []   # (program, expected-transform) per case, in model order
        self.evals = []   # Gallina terms, each producing a list (list Z) for a slice of cases


def build(tier, rnd):
    S = seqs(3 if tier != "thorough" else 4)
    extra = []
    pool = seqs(6)
    big = [t for t in pool if len(t) > (3 if tier != "thorough" else 4)]
    extra = rnd.sample(big, 25 if tier != "thorough" else 160)
    S = S + extra
    idx = list(range(-9, 10))
    idx_lit = zlist(idx)
    fams = []

    def fam(name):
        f = Family(name)
        fams.append(f)
        return f

    # one-index forms ------------------------------------------------
    f1 = fam("s[i] (string)")
    f2 = fam("l[i] (list)")
    f3 = fam("s[a to *]")
    f4 = fam("substr(s, a)")
    f5 = fam("sublist(l, a)")
    f6 = fam("delete_at(l, i)")
    f7 = fam("insert_at(l, i, 9)")
    for t in S:
        f1.evals.append("map (fun i => er (deref %s i)) %s" % (coq_str(t), idx_lit))
        f1.cases += [("%s[%d]" % (str_lit(t), i), "char") for i in idx]
        f2.evals.append("map (fun i => er (deref %s i)) %s" % (coq_list(t), idx_lit))
        f2.cases += [("%s[%d]" % (list_lit(t), i), "int") for i in idx]
        f3.evals.append("map (fun a => 0 :: slice %s a None) %s" % (coq_str(t), idx_lit))
        f3.cases += [("%s[%d to *]" % (str_lit(t), a), "str") for a in idx] if False else \
            [("%s[%d to length(%s)]" % (str_lit(t), a, str_lit(t)), "str") for a in idx]
        f4.evals.append("map (fun a => 0 :: substr %s a None) %s" % (coq_str(t), idx_lit))
        f4.cases += [("substr(%s, %d)" % (str_lit(t), a), "str") for a in idx]
        f5.evals.append("map (fun a => 0 :: substr %s a None) %s" % (coq_list(t), idx_lit))
        f5.cases += [("sublist(%s, %d)" % (list_lit(t), a), "list") for a in idx]
        f6.evals.append("map (fun i => ed (delete_at %s i)) %s" % (coq_list(t), idx_lit))
        f6.cases += [("def l = %s; def r = delete_at(l, %d); [if r == NULL then [0] else [1, r], l]" % (list_lit(t), i), "del")
                     for i in idx]
        f7.evals.append("map (fun i => 0 :: insert_at %s i 9) %s" % (coq_list(t), idx_lit))
        f7.cases += [("def l = %s; insert_at(l, %d, 9); l" % (list_lit(t), i), "list") for i in idx]
    # two-index forms ----------------------------------------------
    g1 = fam("s[a to b] (string)")
    g2 = fam("l[a to b] (list)")
    g3 = fam("substr(s, a, b)")
    g4 = fam("sublist(l, a, b)")
    S2 = S if tier == "thorough" else [t for t in S if len(t) <= 2] + rnd.sample([t for t in S if len(t) > 2], 14)
    pairs = "(list_prod %s %s)" % (idx_lit, idx_lit)
    for t in S2:
        g1.evals.append("map (fun p => 0 :: slice %s (fst p) (Some (snd p))) %s" % (coq_str(t), pairs))
        g1.cases += [("%s[%d to %d]" % (str_lit(t), a, b), "str") for a in idx for b in idx]
        g2.evals.append("map (fun p => 0 :: slice %s (fst p) (Some (snd p))) %s" % (coq_list(t), pairs))
        g2.cases += [("%s[%d to %d]" % (list_lit(t), a, b), "list") for a in idx for b in idx]
        g3.evals.append("map (fun p => 0 :: substr %s (fst p) (Some (snd p))) %s" % (coq_str(t), pairs))
        g3.cases += [("substr(%s, %d, %d)" % (str_lit(t), a, b), "str") for a in idx for b in idx]
        g4.evals.append("map (fun p => 0 :: substr %s (fst p) (Some (snd p))) %s" % (coq_list(t), pairs))
        g4.cases += [("sublist(%s, %d, %d)" % (list_lit(t), a, b), "list") for a in idx for b in idx]
    # find / find_last ------------------------------------------------
    h1 = fam("find(s, part)")
    h2 = fam("find_last(s, part)")
    h3 = fam("find(l, item) / find_last(l, item)")
    h4 = fam("find_last(s, part, start) / find_last(l, item, start)")
    parts = seqs(2) + [(0, 1, 2), (0, 0, 0), (1, 1, 1)]
    parts_lit = "[" + "; ".join(coq_str(p) for p in parts) + "]"
    S3 = seqs(4 if tier != "thorough" else 5) + extra
    for t in S3:
        h1.evals.append("map (fun p => [0; find_str %s p]) %s" % (coq_str(t), parts_lit))
        h1.cases += [("find(%s, %s)" % (str_lit(t), str_lit(p)), "int") for p in parts]
        h2.evals.append("map (fun p => [0; find_last_str %s p None]) %s" % (coq_str(t), parts_lit))
        h2.cases += [("find_last(%s, %s)" % (str_lit(t), str_lit(p)), "int") for p in parts]
        h3.evals.append("map (fun x => [0; find_list Z.eqb %s x; find_last_list Z.eqb %s x None]) [1;2;3;4]" % (coq_list(t), coq_list(t)))
        h3.cases += [("[find(%s, %d), find_last(%s, %d)]" % (list_lit(t), x, list_lit(t), x), "list") for x in (1, 2, 3, 4)]
    starts = list(range(0, 9))
    for t in S3[:200] if tier != "thorough" else S3:
        for p in parts[1:5]:
            h4.evals.append("map (fun st => [0; find_last_str %s %s (Some st)]) %s" % (coq_str(t), coq_str(p), zlist(starts)))
            h4.cases += [("find_last(%s, %s, start=%d)" % (str_lit(t), str_lit(p), st), "int") for st in starts]
        h4.evals.append("map (fun st => [0; find_last_list Z.eqb %s 2 (Some st)]) %s" % (coq_list(t), zlist(starts)))
        h4.cases += [("find_last(%s, 2, start=%d)" % (list_lit(t), st), "int") for st in starts]
    return fams


def impl_value(I, impl, prog, kind):
    out = impl.run_src(I, prog)
    if out[0] == "val":
        v = out[1]
        if kind == "del":
            # (list (list (i 0)) | (list (i 1) r), l)
            import re
            nums = [int(x) for x in re.findall(r"\(i (-?\d+)\)", v)]
            return [0] + nums
        if kind in ("str", "char"):
            if v.startswith("(s"):
                return [0] + [int(x) for x in v[2:-1].split()]
        if kind in ("list",):
            import re
            if v.startswith("(list"):
                return [0] + [int(x) for x in re.findall(r"\(i (-?\d+)\)", v)]
        if kind == "int" and v.startswith("(i "):
            return [0, int(v[3:-1])]
        return ["?", v]
    if out[0] == "err":
        return [1]
    if out[0] == "host":
        return [2, out[1]]
    return ["?"] + list(out)


def identities(rep, I, impl, rnd, tier):
    """cheap laws evaluated on the implementation alone (failing-input search)"""
    n = 0
    for t in seqs(4):
        for k in range(-9, 10):
            for lit in (str_lit(t), list_lit(t)):
                prog = "def s = %s; s[0 to %d] + s[%d to length(s)] == s and length(s[0 to %d]) + length(s[%d to length(s)]) == length(s)" % (lit, k, k, k, k)
                out = impl.run_src(I, prog)
                n += 1
                if out != ("val", "(b 1)"):
                    rep.violation("input", "s[0 to k] + s[k to *] == s fails: %s gives %s" % (prog, out), check="identity",
                                  program=prog, want="(b 1)")
    big = 2 ** 70
    for _ in range(300 if tier != "thorough" else 3000):
        L = rnd.randint(0, 30)
        s = "".join(rnd.choice(SYM) for _ in range(L))
        a = rnd.choice([rnd.randint(-40, 40), big, -big, rnd.randint(-L - 1, L + 1)])
        b = rnd.choice([rnd.randint(-40, 40), big, -big, rnd.randint(-L - 1, L + 1)])
        na = max(0, min(L, a + L if a < 0 else a))
        nb = max(0, min(L, b + L if b < 0 else b))
        want = s[na:nb] if nb > na else ""
        for prog in ("'%s'[%d to %d]" % (s, a, b), "substr('%s', %d, %d)" % (s, a, b),
                     "join(sublist(split('%s', ''), %d, %d), '')" % (s, a, b) if False else None):
            if prog is None:
                continue
            out = impl.run_src(I, prog)
            n += 1
            w = "(s" + "".join(" %d" % ord(c) for c in want) + ")"
            if out != ("val", w):
                rep.violation("input", "%s gives %s, the sequence model gives %r" % (prog, out, want), check="identity",
                              program=prog, want=w)
    rep.count(n)
    rep.cov["identity_and_long_sequence_cases"] = n


def main(tier, seed, replay=None):
    rep = Report("C15", tier, seed)
    core.setup_impl_path()
    from vlib import impl
    rnd = core.rng(seed, "C15")
    rep.rule = ("model-vs-implementation on (sequence, index) cases: strings/lists over 3 symbols (all of length <= 3, "
                "thorough <= 4, plus a random sample up to length 6) x every index in [-9, 9] (two-index forms: every "
                "pair) for s[i], s[a to b], substr, sublist, insert_at, delete_at; find/find_last over all sequences of "
                "length <= 4 (thorough 5) x parts; identities and long sequences/huge indices on the implementation; a case "
                "is distinct by its program text and non-trivial when the sequence is non-empty")
    rep.trusted += ["coq/Model/SeqModel.v is a hand model of the Python kernels: faithful only as far as the correspondence run shows"]
    I = impl.new_interpreter(False, False)
    if replay:
        return do_replay(rep, replay, I, impl)
    ok = core.standard_coq(rep, ["Proofs/SeqProofs.vo", "Prelude/Enc.vo"], "Props/C15.v")
    if ok:
        fams = build(tier, rnd)
        evals = [e for f in fams for e in f.evals]
        ok2, blocks, err = core.coq_eval_many("c15", IMPORTS, evals, per_file=30, timeout=900)
        rep.checker_cmds.append("coqc .work/c15_*.v (vm_compute of Model/SeqModel.v on the generated cases)")
        if not ok2:
            rep.oblige("correspondence: model evaluates on the generated cases", False, err)
        else:
            k = 0
            total = 0
            dis = 0
            for f in fams:
                got = []
                for _ in f.evals:
                    got += blocks[k]
                    k += 1
                if len(got) != len(f.cases):
                    rep.oblige("correspondence %s" % f.name, False, "case count mismatch %d vs %d" % (len(got), len(f.cases)))
                    continue
                fdis = 0
                for (prog, kind), m in zip(f.cases, got):
                    iv = impl_value(I, impl, prog, kind)
                    mv = norm_model(list(m))
                    total += 1
                    if "''" not in prog and "[]" not in prog:
                        rep.nontriv(prog)
                    if iv != mv:
                        fdis += 1
                        rep.violation("input", "%s: implementation %s, sequence model %s" % (prog, iv, mv),
                                      check="correspondence", family=f.name, program=prog, rkind=kind, want=mv)
                dis += fdis
                rep.sample({"family": f.name, "program": f.cases[len(f.cases) // 2][0], "model": got[len(got) // 2]})
                rep.oblige("correspondence %s: %d cases agree" % (f.name, len(f.cases)), fdis == 0, "%d disagreements" % fdis)
            rep.count(total)
            rep.cov["correspondence_cases"] = total
    identities(rep, I, impl, rnd, tier)
    if tier == "thorough":
        core.coqchk(rep, "Ckl.Props.C15")
    # elements and parts of other kinds than the model's symbols: NULL, strings, booleans, decimals, nested lists in lists
    import itertools
    ELEMS = [("NULL", None), ("1", 1), ("'a'", "a"), ("TRUE", True), ("2.5", 2.5), ("[1]", (1,))]
    nb = 0
    for n in range(0, 4):
        for combo in itertools.product(range(len(ELEMS)), repeat=n):
            if n == 3 and sum(combo) % 3:
                continue
            lit = "[" + ", ".join(ELEMS[i][0] for i in combo) + "]"
            vals = [ELEMS[i][1] for i in combo]
            for psrc, pv in ELEMS:
                first = next((i for i, v in enumerate(vals) if v == pv and type(v) is type(pv)), -1)
                last = next((i for i in range(len(vals) - 1, -1, -1) if vals[i] == pv and type(vals[i]) is type(pv)), -1)
                out = impl.run_src(I, "[find(%s, %s), find_last(%s, %s)]" % (lit, psrc, lit, psrc))
                rep.count()
                if out != ("val", "(list (i %d) (i %d))" % (first, last)):
                    nb += 1
                    rep.violation("input", "[find(%s, %s), find_last(%s, %s)] gives %s, the first / last positions are %d / %d" % (lit, psrc, lit, psrc, out[:2], first, last),
                                  check="find-kinds", program="find(%s, %s)" % (lit, psrc))
    rep.oblige("find / find_last on lists of NULL, ints, strings, booleans, decimals and lists return the first / last position or -1", nb == 0, "%d wrong" % nb)
    # "insert_at / delete_at change exactly one position" of ONE sequence: a slice or sublist of a list is a sequence of its own - changing it
    # in place leaves the list it was taken from as it was, and the other way round (every bound, also those that cover the whole list)
    na = 0
    idx = ["0", "1", "2", "3", "4", "9", "-1", "-2", "-3", "-4", "-9", "*"]
    for L in ["[]", "['a']", "['a', 'b']", "['a', 'b', 'c']", "['a', 'b', 'a', 'c']"]:
        forms = ["s[%s to %s]" % (a, b) for a in idx if a != "*" for b in idx] + ["sublist(s, %s)" % a for a in idx if a != "*"] + \
                ["sublist(s, %s, %s)" % (a, b) for a in idx if a != "*" for b in idx if b != "*"] + ["s + []", "[] + s", "s * 1", "s - []", "[x for x in s]", "sorted(s)", "reverse(s)"]
        for f in forms:
            pre = "require List unqualified; " if f.startswith("reverse") else ""
            prog = pre + "def s = %s; def t = do %s catch all [] end; def n = length(t); insert_at(t, 0, 'q'); def ok1 = s == %s and length(t) == n + 1; " \
                         "delete_at(t, 0); if length(s) > 0 then delete_at(s, 0); [ok1, length(t) == n, length(s) == max(length(%s) - 1, 0)]" % (L, f, L, L)
            out = impl.run_src(I, prog)
            rep.count()
            if out[:2] != ("val", "(list (b 1) (b 1) (b 1))"):
                na += 1
                rep.violation("input", "%s gives %s: a change in place of the slice shows in the list it was taken from (or the other way round)" % (prog, out[:2]),
                              check="slice-alias", program=prog, want="(list (b 1) (b 1) (b 1))")
    rep.oblige("slices, sublists and the other non-mutating list operations give sequences of their own: in-place changes of one do not show in the other", na == 0, "%d wrong" % na)
    return rep.finish()


def do_replay(rep, path, I, impl):
    import json
    body = json.load(open(path))
    rep.no_evidence = True
    n = 0
    for v in body.get("violations", []):
        prog = v.get("program")
        if not prog:
            continue
        if v.get("check") == "correspondence":
            iv = impl_value(I, impl, prog, v["rkind"])
            if iv != v["want"]:
                print("REPRODUCED: %s gives %s, sequence model says %s" % (prog, iv, v["want"]))
                rep.violation("input", "%s gives %s" % (prog, iv), check="correspondence", program=prog, rkind=v["rkind"], want=v["want"])
                n += 1
        else:
            out = impl.run_src(I, prog)
            if out != ("val", v["want"]):
                print("REPRODUCED: %s gives %s, want %s" % (prog, out, v["want"]))
                rep.violation("input", "%s gives %s" % (prog, out), check="identity", program=prog, want=v["want"])
                n += 1
        rep.count()
    if not n:
        print("replay: nothing reproduced")
    rep.oblige("replay ran", True)
    return rep.finish()
