"""C03 - names resolve lexically and calls bind arguments as declared.
Deciding method: theorems in coq/Props/C03.v about Environment (put/set/find), call_closure and the steps of
Args.setArgs, tied to the code by the evaluator correspondence on generated programs of nested definitions,
closures, shadowing and every mix of positional / named / default / rest / spread / pipeline / method calls,
plus scoping scenarios on the implementation."""
from checks import evalcheck


def oracle(rep, rnd, tier, impl):
    cases = [
        ("def x = 1; def f() x; def g() do def x = 2; f() end; g()", "(i 1)"),
        ("def x = 1; def f() do x = x + 1; x end; def g() do def x = 10; f() end; [g(), x]", "(list (i 2) (i 2))"),
        ("def mk(n) fn() do n = n + 1; n end; def a = mk(0); def b = mk(10); [a(), a(), b(), a()]", "(list (i 1) (i 2) (i 11) (i 3))"),
        ("def f(a, b = a * 2, c = a + b) [a, b, c]; [f(1), f(1, 5), f(1, c = 0), f(b = 1, a = 3)]",
         "(list (list (i 1) (i 2) (i 3)) (list (i 1) (i 5) (i 6)) (list (i 1) (i 2) (i 0)) (list (i 3) (i 1) (i 4)))"),
        ("def a = 100; def f(x, y = a) [x, y]; def g(a) f(1); g(5)", "(list (i 1) (i 100))"),
        ("def f(a, b, r...) [a, b, r...]; [f(1, 2), f(1, 2, 3, 4), f(...[1, 2, 3])]",
         "(list (list (i 1) (i 2) (list)) (list (i 1) (i 2) (list (i 3) (i 4))) (list (i 1) (i 2) (list (i 3))))"),
        ("def f(a, b) [a, b]; [f(...<<<'b' => 1, 'a' => 2>>>), 5 !> f(6), [7] !> f(8)]",
         "(list (list (i 2) (i 1)) (list (i 5) (i 6)) (list (list (i 7)) (i 8)))"),
        ("def f(a, b) a - b; do f(b = 1, 2) catch all 'err' end", "(s 101 114 114)"),
        ("def f(a) a; do f(1, 2) catch all 'err' end", "(s 101 114 114)"),
        ("def f(a) a; do f(zz = 1) catch all 'err' end", "(s 101 114 114)"),
        ("def f(a, b) a; do f(1) catch all 'err' end", "(s 101 114 114)"),
        ("def y = 1; def f() do y = 5 end; do zq = 1 catch all 'nodef' end", "(s 110 111 100 101 102)"),
        ("def f() do def loc = 1; loc end; f(); do loc catch all 'gone' end", "(s 103 111 110 101)"),
        ("def base = <*greet = fn(self, x) [self->name, x], name = 'base'*>; def o = <*_proto_ = base, name = 'o'*>; o->greet(3)",
         "(list (s 111) (i 3))"),
        ("def p1 = <*m = fn(self) 1*>; def p2 = <*_proto_ = p1, m = fn(self) 2*>; def o = <*_proto_ = p2*>; o->m()", "(i 2)"),
        ("def fact(n) if n <= 1 then 1 else n * fact(n - 1); def twice(f) fn(x) f(f(x)); [fact(10), twice(fn(x) x * 3)(2)]", "(list (i 3628800) (i 18))"),
        ("def a = 1; def f(a) do def g() a; a = a + 1; g() end; [f(10), a]", "(list (i 11) (i 1))"),
        ("def fs = []; for i in [1, 2, 3] do def j = i; append(fs, fn() j) end; [f() for f in fs]", "(list (i 3) (i 3) (i 3))"),
    ]
    n = evalcheck.programs_oracle(rep, impl, cases, "scenario")
    rep.cov["scenario_cases"] = n


def main(tier, seed, replay=None):
    return evalcheck.run(
        "C03", "C03", "Props/C03.v", tier, seed, replay,
        rule=("generated programs of nested function definitions, closures returned from functions (counters), shadowing, calls mixing "
              "positional, named, default, rest and spread arguments, the pipeline form, too few / too many / unknown arguments; "
              "fixed scoping scenarios (dynamic-scope discriminators, defaults in callee scope, prototype chains); distinct by source text"),
        trusted=["the declarative binding rule is proved step by step (C03_setargs_partial_*), not as one closed-form statement"], oracle=oracle)
