"""C10 - interpreter sessions keep definitions and survive failed calls unchanged.
Deciding method: theorems in coq/Props/C10.v about the session / module-loader state machine Model/Session.v (load stack
restored on every outcome, every reached state clean, failed calls keep definitions, instances separate), tied to
Interpreter.interpret and NodeRequire.evaluate by a correspondence run: exhaustive short histories and random long
ones over the property's command alphabet, executed on real interpreters (one or two instances) with module files
on disk, compared with the model outcome by outcome and in their final observable state."""
import itertools

from checks import sesscheck
from vlib import core
from vlib.core import Report

# the fixed module graph of the C10 histories: ma good (requires mb2... no: ma good), mb broken after a definition and a nested good require,
# mc does not parse, md <-> me circular, mmissing absent
PROG = {
    1: (True, [("log",), ("def", 0, 11), ("def", -1, 5), ("def", 1, 12)]),
    2: (True, [("log",), ("def", 0, 21), ("req", ("qual", None), 1), ("fail",), ("def", 1, 22)]),
    3: (False, [("log",), ("def", 0, 31)]),
    4: (True, [("log",), ("def", 0, 41), ("req", ("unqual",), 5)]),
    5: (True, [("log",), ("req", ("import", [(0, 2)]), 4), ("def", 0, 51)]),
}
ALPHA = [("def", 0, 1), ("assign", 0, 2), ("read", 0), ("bump", 1001), ("fail",), ("syntax",), ("defthenfail", 1, 7), ("loopabort", 0), ("loopshadow", 0), ("compabort", 0, 0), ("callabort", 0, 0), ("fnassignd", 0, 4),
         ("req", ("qual", None), 1), ("req", ("qual", None), 6), ("req", ("unqual",), 2), ("req", ("qual", None), 3), ("req", ("qual", 10), 4)]


def scope_residue(rep):
    """a module that is loaded for the first time by a call or a module load that then fails does not keep the failed scope: its own code
    sees the names of that scope as little as it does in an interpreter that never made the failing call (stated results, implementation only)"""
    import os
    import shutil
    import tempfile
    from vlib import impl
    from ckl.values import ValueList, ValueString
    d = tempfile.mkdtemp(prefix="c10r_", dir=core.WORK if os.path.isdir(core.WORK) else None)
    bad = 0
    try:
        open(os.path.join(d, "c10peek.ckl"), "w").write("def peek() do do leak_q catch all -1 end end;\ndef seen = do leak_q catch all -1 end;\n")
        open(os.path.join(d, "c10outer.ckl"), "w").write("def leak_q = 5;\nrequire c10peek;\nerror 'boom';\n")
        open(os.path.join(d, "c10outer2.ckl"), "w").write("def w_q = 1;\ndef leak_q = 6;\nrequire c10peek as pk;\ndef again = pk->peek();\nundefined_zz;\n")
        scen = [(["(fn(leak_q) do require c10peek; error 'boom' end)(41)"], "require c10peek; [c10peek->peek(), c10peek->seen]", "(list (i -1) (i -1))"),
                (["def job(leak_q) do require c10peek unqualified; error 'boom' end; job(7)", "job(8)"], "require c10peek; [c10peek->peek(), c10peek->seen]", "(list (i -1) (i -1))"),
                (["require c10outer"], "require c10peek; [c10peek->peek(), c10peek->seen]", "(list (i -1) (i -1))"),
                (["require c10outer", "require c10outer"], "def leak_q = 9; require c10peek; [c10peek->peek(), c10peek->seen, leak_q]", "(list (i -1) (i -1) (i 9))"),
                (["require c10outer2", "require c10outer2"], "require c10peek as z; [z->peek(), z->seen]", "(list (i -1) (i -1))"),
                (["for leak_q in [1, 2] do require c10peek; error 'boom' end"], "require c10peek; c10peek->peek()", "(i -1)"),
                (["[do require c10peek; error 'boom' end for leak_q in [3]]"], "require c10peek; c10peek->peek()", "(i -1)")]
        for failing, probe, want in scen:
            I = impl.new_interpreter(False, False)
            I.base_environment.put("checkerlang_module_path", ValueList().addItem(ValueString(d)))
            errs = []
            for f in failing:
                out = impl.run_src(I, f)
                errs.append(out[:2])
                if out[0] != "err":
                    bad += 1
                    rep.violation("input", "the failing command %r gave %s" % (f, out[:2]), check="scope-residue", program=f)
            out = impl.run_src(I, probe)
            rep.count()
            if out[:2] != ("val", want) or (len(errs) == 2 and failing[0] == failing[1] and errs[0] != errs[1]):
                bad += 1
                rep.violation("input", "after the failed %r: %s gives %s (expected %s; errors %s)" % (failing, probe, out[:2], want, errs), check="scope-residue", program="; ".join(failing) + " ;; " + probe, want=want)
    finally:
        shutil.rmtree(d, ignore_errors=True)
    rep.oblige("a module first loaded by a call / module load that fails keeps nothing of the failed scope (7 scenarios)", bad == 0, "%d wrong" % bad)


def main(tier, seed, replay=None):
    rep = Report("C10", tier, seed)
    core.setup_impl_path()
    rnd = core.rng(seed, "C10")
    big = tier == "thorough"
    L = 4 if big else 3
    rep.rule = ("all histories up to length %d over the %d-command alphabet (define, assign, read, call into a module, failing expression, syntax error, definition followed by "
                "a failure, loop aborted by an error, require of a good / missing / broken / unparsable / circular module) on one interpreter (exhaustive; length 5 and beyond "
                "are sampled), random histories up to length 30 over the same alphabet with varied names and import forms on two interleaved instances, random module "
                "graphs; every failed call is repeated at once; distinct by (module graph, history)") % (L, len(ALPHA))
    rep.trusted += ["hand model Model/Session.v of the session and the module loader, faithful as far as the correspondence run shows",
                    "the evaluator proper (expressions, loops) is modelled only through the commands' net effect; C03-C05 cover it",
                    "the model's fuel (40 nested requires) is never exhausted in the run; the real loader has no such outcome"]
    if replay:
        rep.no_evidence = True
        rep.oblige("replay: re-run the check (cases are regenerated from the seed)", True)
        return rep.finish()
    ok = core.standard_coq(rep, sesscheck.TARGETS, "Props/C10.v")
    if not ok:
        return rep.finish()
    cases = []
    for n in range(1, L + 1):
        for seq in itertools.product(ALPHA, repeat=n):
            cases.append((PROG, [(False, c) for c in seq]))
    nr = 300 if not big else 3000
    for _ in range(nr):
        prog = PROG if rnd.random() < 0.5 else sesscheck.gen_program(rnd)
        h = []
        for _ in range(rnd.randint(5, 30)):
            inst = rnd.random() < 0.4
            k = rnd.random()
            if k < 0.45:
                c = rnd.choice(ALPHA)
            elif k < 0.6:
                c = ("req", sesscheck.gen_form(rnd), rnd.choice(list(prog) + [6]))
            elif k < 0.7:
                c = (rnd.choice(["def", "assign", "defthenfail"]), rnd.choice(sesscheck.PUB + sesscheck.ALIASES), rnd.randint(0, 50))
                if rnd.random() < 0.25:
                    c = ("loopshadow", rnd.choice(sesscheck.PUB + sesscheck.ALIASES + [1001]))
                elif rnd.random() < 0.3:
                    c = ("compabort", rnd.choice(sesscheck.PUB + sesscheck.ALIASES), rnd.randint(0, 6))
                elif rnd.random() < 0.3:
                    c = ("fnassignd", rnd.choice(sesscheck.PUB + sesscheck.ALIASES), rnd.randint(0, 50))
                elif rnd.random() < 0.4:
                    c = ("callabort", rnd.choice(sesscheck.PUB + sesscheck.ALIASES), rnd.randint(0, 5))
            elif k < 0.8:
                c = ("read", rnd.choice(sesscheck.PUB + sesscheck.ALIASES + [1001, 1002, 1004]))
            elif k < 0.9:
                c = (rnd.choice(["bump", "cell"]), rnd.choice([1001, 1002, 1004, 1005, 10, 11, 0]))
            else:
                c = ("member", rnd.choice([1001, 1004, 10, 11]), rnd.choice(sesscheck.PUB + sesscheck.PRIV))
            h.append((inst, c))
        cases.append((prog, h))
    for p, h in cases[-nr:]:
        rep.nontriv(repr(h))
    rep.sample({"history": [sesscheck.cmd_src(c) for _, c in cases[-1][1]][:10]})
    sesscheck.correspondence(rep, cases, "c10", per_file=80)
    scope_residue(rep)
    if big:
        core.coqchk(rep, "Ckl.Props.C10")
    return rep.finish()
