"""C10 - interpreter sessions keep definitions and survive failed calls unchanged.
Deciding method: theorems in coq/Props/C10.v about the session / module-loader state machine Model/Session.v (load stack
restored on every outcome, every reached state clean, failed calls keep definitions, instances separate), tied to
Interpreter.interpret and NodeRequire.evaluate by a correspondence run: exhaustive short histories and random long
ones over the property's command alphabet, executed on real interpreters (one or two instances) with module files
on disk, compared with the model outcome by outcome and in their final observable state."""
import itertools

from checks import sesscheck
from vlib import core
from vlib.core import Report

# the fixed module graph of the C10 histories: ma good (requires mb2... no: ma good), mb broken after a definition and a nested good require,
# mc does not parse, md <-> me circular, mmissing absent
PROG = {
    1: (True, [("log",), ("def", 0, 11), ("def", -1, 5), ("def", 1, 12)]),
    2: (True, [("log",), ("def", 0, 21), ("req", ("qual", None), 1), ("fail",), ("def", 1, 22)]),
    3: (False, [("log",), ("def", 0, 31)]),
    4: (True, [("log",), ("def", 0, 41), ("req", ("unqual",), 5)]),
    5: (True, [("log",), ("req", ("import", [(0, 2)]), 4), ("def", 0, 51)]),
}
ALPHA = [("def", 0, 1), ("assign", 0, 2), ("read", 0), ("bump", 1001), ("fail",), ("syntax",), ("defthenfail", 1, 7), ("loopabort", 0), ("loopshadow", 0), ("compabort", 0, 0), ("callabort", 0, 0),
         ("req", ("qual", None), 1), ("req", ("qual", None), 6), ("req", ("unqual",), 2), ("req", ("qual", None), 3), ("req", ("qual", 10), 4)]


def main(tier, seed, replay=None):
    rep = Report("C10", tier, seed)
    core.setup_impl_path()
    rnd = core.rng(seed, "C10")
    big = tier == "thorough"
    L = 4 if big else 3
    rep.rule = ("all histories up to length %d over the %d-command alphabet (define, assign, read, call into a module, failing expression, syntax error, definition followed by "
                "a failure, loop aborted by an error, require of a good / missing / broken / unparsable / circular module) on one interpreter (exhaustive; length 5 and beyond "
                "are sampled), random histories up to length 30 over the same alphabet with varied names and import forms on two interleaved instances, random module "
                "graphs; every failed call is repeated at once; distinct by (module graph, history)") % (L, len(ALPHA))
    rep.trusted += ["hand model Model/Session.v of the session and the module loader, faithful as far as the correspondence run shows",
                    "the evaluator proper (expressions, loops) is modelled only through the commands' net effect; C03-C05 cover it",
                    "the model's fuel (40 nested requires) is never exhausted in the run; the real loader has no such outcome"]
    if replay:
        rep.no_evidence = True
        rep.oblige("replay: re-run the check (cases are regenerated from the seed)", True)
        return rep.finish()
    ok = core.standard_coq(rep, sesscheck.TARGETS, "Props/C10.v")
    if not ok:
        return rep.finish()
    cases = []
    for n in range(1, L + 1):
        for seq in itertools.product(ALPHA, repeat=n):
            cases.append((PROG, [(False, c) for c in seq]))
    nr = 300 if not big else 3000
    for _ in range(nr):
        prog = PROG if rnd.random() < 0.5 else sesscheck.gen_program(rnd)
        h = []
        for _ in range(rnd.randint(5, 30)):
            inst = rnd.random() < 0.4
            k = rnd.random()
            if k < 0.45:
                c = rnd.choice(ALPHA)
            elif k < 0.6:
                c = ("req", sesscheck.gen_form(rnd), rnd.choice(list(prog) + [6]))
            elif k < 0.7:
                c = (rnd.choice(["def", "assign", "defthenfail"]), rnd.choice(sesscheck.PUB + sesscheck.ALIASES), rnd.randint(0, 50))
                if rnd.random() < 0.25:
                    c = ("loopshadow", rnd.choice(sesscheck.PUB + sesscheck.ALIASES + [1001]))
                elif rnd.random() < 0.3:
                    c = ("compabort", rnd.choice(sesscheck.PUB + sesscheck.ALIASES), rnd.randint(0, 6))
                elif rnd.random() < 0.4:
                    c = ("callabort", rnd.choice(sesscheck.PUB + sesscheck.ALIASES), rnd.randint(0, 5))
            elif k < 0.8:
                c = ("read", rnd.choice(sesscheck.PUB + sesscheck.ALIASES + [1001, 1002, 1004]))
            elif k < 0.9:
                c = (rnd.choice(["bump", "cell"]), rnd.choice([1001, 1002, 1004, 1005, 10, 11, 0]))
            else:
                c = ("member", rnd.choice([1001, 1004, 10, 11]), rnd.choice(sesscheck.PUB + sesscheck.PRIV))
            h.append((inst, c))
        cases.append((prog, h))
    for p, h in cases[-nr:]:
        rep.nontriv(repr(h))
    rep.sample({"history": [sesscheck.cmd_src(c) for _, c in cases[-1][1]][:10]})
    sesscheck.correspondence(rep, cases, "c10", per_file=80)
    if big:
        core.coqchk(rep, "Ckl.Props.C10")
    return rep.finish()
