"""C06 - equality is an equivalence that set membership and map lookup respect.

Deciding method: theorems in coq/Props/C06.v about the hand model of __eq__ and of
the host's hash containers (Model/Values.v, Model/Containers.v), tied to the code
by a vm_compute correspondence on generated pairs of data values and on
add/remove/put/remove operation sequences (values built through ckl.values in a
chosen insertion order), plus the laws themselves evaluated on the implementation
(failing-input search: reflexivity, symmetry, transitivity, hash agreement,
representative independence, insertion-order independence)."""
import itertools

from vlib import core, gal, datagen
from vlib.core import Report

IMPORTS = "From Coq Require Import PrimFloat.\nFrom Ckl Require Import Prelude.PyPrelude Prelude.Enc Model.Values Model.Containers Model.Arith Model.EncVal.\n"


def pool(rnd, tier):
    vals = list(datagen.scalars())
    n = 120 if tier != "thorough" else 600
    for _ in range(n):
        vals.append(datagen.value(rnd, rnd.choice([1, 2, 2, 3])))
    # equal values with different representations / insertion orders
    extra = []
    for v in list(vals):
        if isinstance(v, gal.SetV) and len(v) >= 2:
            extra.append(gal.SetV(tuple(reversed(v))))
            extra.append(datagen.mkset([1.0 if (isinstance(x, int) and not isinstance(x, bool) and x == 1) else x for x in v]))
        if isinstance(v, gal.MapV) and len(v) >= 2:
            extra.append(gal.MapV(tuple(reversed(v))))
        if isinstance(v, list) and v:
            extra.append(list(v))
            extra.append(v[:-1])
    # equal values whose numbers are written differently (1 / 1.0, 0.0 / -0.0) at any depth: lists, and lists inside sets and as map keys
    def numvariant(v):
        if isinstance(v, bool) or isinstance(v, (gal.Pat, gal.Date)):
            return v
        if isinstance(v, int) and abs(v) < 2 ** 53:
            return float(v)
        if isinstance(v, float) and v == 0.0:
            return -v
        if isinstance(v, list):
            return [numvariant(x) for x in v]
        if isinstance(v, gal.SetV):
            return gal.SetV(tuple(numvariant(x) for x in v))
        if isinstance(v, gal.MapV):
            return gal.MapV(tuple((numvariant(k), numvariant(x)) for k, x in v))
        return v
    for v in list(vals) + [[1], [1, [2, 3]], [0.0], [[1]], [2, 3.0]]:
        if isinstance(v, list) and v:
            w = numvariant(v)
            if repr(w) != repr(v):
                extra += [v, w, gal.SetV((v,)), gal.SetV((w,)), gal.MapV(((v, "a"),)), gal.MapV(((w, "a"),)), [v, 0], [w, 0]]
    # nested: equal maps / sets in different insertion orders inside sets and as map keys
    m1 = gal.MapV(((1, "a"), (2, "b"), (3, "c")))
    m2 = gal.MapV(((3, "c"), (2, "b"), (1, "a")))
    s1 = gal.SetV(("x", "y", 2 ** 53))
    s2 = gal.SetV((9007199254740992.0, "y", "x"))
    extra += [m1, m2, s1, s2, gal.SetV((m1,)), gal.SetV((m2,)), gal.SetV((s1,)), gal.SetV((s2,)),
              gal.MapV(((m1, 1),)), gal.MapV(((m2, 1),)), gal.MapV(((s1, m1),)), gal.MapV(((s2, m2),)),
              gal.SetV((gal.SetV((m1,)),)), gal.SetV((gal.SetV((m2,)),)), [m1, s1], [m2, s2]]
    return vals + extra


def api_eq(a, b):
    try:
        return bool(a == b)
    except Exception as e:
        return "host:" + type(e).__name__


def main(tier, seed, replay=None):
    rep = Report("C06", tier, seed)
    core.setup_impl_path()
    from vlib import impl
    rnd = core.rng(seed, "C06")
    rep.rule = ("pairs and triples of generated data values (NULL, booleans, ints to 2^80 and around 2^53/2^63, decimals incl. integral, "
                "strings, dates, patterns, nested lists/sets/maps to depth 3, equal values built in different insertion orders, maps/sets "
                "nested in sets and as map keys); operation sequences add/remove and put/remove on sets and maps; all insertion orders "
                "of <= 5 elements; a case is distinct by its canonical text, non-trivial when at least one value is a container or the pair mixes int/decimal")
    rep.trusted += ["coq/Model/Values.v (veq) and Model/Containers.v are hand models of values.py __eq__/__hash__ and of the host's set/dict: "
                    "faithful only as far as the correspondence run shows; set equality is modelled as mutual inclusion (CPython: equal sizes "
                    "and one inclusion), equivalent for duplicate-free sets (C06_set_nodup)",
                    "NaN decimals are excluded by the guard nan_free (recorded finding C06-F1)"]
    if replay:
        return do_replay(rep, replay, impl)
    ok = core.standard_coq(rep, ["Proofs/EqProofs.vo", "Model/EncVal.vo"], "Props/C06.v")
    vals = pool(rnd, tier)
    ivals = [datagen.to_impl(v) for v in vals]
    npairs = 6000 if tier != "thorough" else 60000
    pairs = []
    for _ in range(npairs):
        i = rnd.randrange(len(vals))
        if rnd.random() < 0.5:
            k = datagen.kind(vals[i])
            js = [j for j in range(len(vals)) if datagen.kind(vals[j]) == k]
            j = rnd.choice(js)
        else:
            j = rnd.randrange(len(vals))
        pairs.append((i, j))
    # every pair of the scalar part
    ns = len(datagen.scalars())
    pairs += [(i, j) for i in range(ns) for j in range(ns)]
    if ok:
        evals = []
        per = 150
        defs = "Definition pool : list dval := [%s].\nDefinition pv (i : nat) := nth i pool DNull.\n" % ";\n ".join(gal.dval(v) for v in vals)
        for k in range(0, len(pairs), per):
            ch = pairs[k:k + per]
            evals.append("[map (fun p => if veq (pv (fst p)) (pv (snd p)) then 1 else 0) [%s]]" % "; ".join("(%d, %d)%%nat" % p for p in ch))
        ok2, blocks, err = core.coq_eval_many("c06", IMPORTS + defs, evals, per_file=6, timeout=900)
        rep.checker_cmds.append("coqc .work/c06_*.v (vm_compute of veq / set_step / map_step on the generated cases)")
        if not ok2:
            rep.oblige("correspondence: model evaluates", False, err)
        else:
            got = [x for b in blocks for x in b[0]]
            dis = 0
            for (i, j), m in zip(pairs, got):
                ie = api_eq(ivals[i], ivals[j])
                rep.count()
                if datagen.kind(vals[i]) in ("list", "set", "map") or (isinstance(vals[i], float) != isinstance(vals[j], float)):
                    rep.nontriv((datagen.canon(vals[i]), datagen.canon(vals[j])))
                if ie != bool(m):
                    dis += 1
                    rep.violation("input", "%s == %s: implementation %s, model %s" % (gal.src_safe(vals[i]), gal.src_safe(vals[j]), ie, bool(m)),
                                  check="eq", a=datagen.canon(vals[i]), b=datagen.canon(vals[j]), want=bool(m))
            rep.oblige("correspondence: == agrees with veq on %d pairs" % len(pairs), dis == 0, "%d disagreements" % dis)
            rep.sample({"kind": "pair", "a": gal.src_safe(vals[pairs[0][0]]), "b": gal.src_safe(vals[pairs[0][1]]), "model_eq": got[0]})
        # operation sequences -----------------------------------------------
        nseq = 300 if tier != "thorough" else 3000
        small = [v for v in vals if datagen.kind(v) not in ("pat",)][:60] + [1, 1.0, 2, 2.0, "1", True]
        seqs = []
        for _ in range(nseq):
            ops = []
            for _ in range(rnd.randint(1, 8)):
                ops.append((rnd.choice("aaar"), rnd.randrange(len(small))))
            seqs.append(ops)
        sdefs = "Definition small : list dval := [%s].\nDefinition sv (i : nat) := nth i small DNull.\n" % ";\n ".join(gal.dval(v) for v in small)
        evals = []
        for ops in seqs:
            evals.append("[enc_dval (DSet (fold_left set_step [%s] [])); enc_dval (DMap (fold_left map_step [%s] []))]" % (
                "; ".join(("SAdd (sv %d)" if o == "a" else "SRemove (sv %d)") % i for o, i in ops),
                "; ".join(("MPut (sv %d) (DInt %d)" % (i, n) if o == "a" else "MRemove (sv %d)" % i) for n, (o, i) in enumerate(ops))))
        ok3, blocks, err = core.coq_eval_many("c06s", IMPORTS + sdefs, evals, per_file=40, timeout=900)
        if not ok3:
            rep.oblige("correspondence: operation sequences evaluate", False, err)
        else:
            from ckl import values as V
            dis = 0
            ismall = [datagen.to_impl(v) for v in small]
            for ops, b in zip(seqs, blocks):
                s = V.ValueSet()
                m = V.ValueMap()
                for n, (o, i) in enumerate(ops):
                    if o == "a":
                        s.addItem(ismall[i])
                        m.addItem(ismall[i], V.ValueInt(n))
                    else:
                        if s.hasItem(ismall[i]):
                            s.removeItem(ismall[i])
                        if m.hasItem(ismall[i]):
                            m.removeItem(ismall[i])
                want_s, _ = gal.decode_dval(b[0])
                want_m, _ = gal.decode_dval(b[1])
                got_s, got_m = impl.canon(s), impl.canon(m)
                rep.count(2)
                rep.nontriv(("ops", tuple(ops)))
                # numeric representatives: the model keeps the first inserted one, as the host does
                if got_s != want_s or got_m != want_m:
                    dis += 1
                    rep.violation("input", "set/map after %s: implementation %s / %s, model %s / %s" % (
                        [(o, gal.src_safe(small[i])) for o, i in ops], got_s, got_m, want_s, want_m), check="ops",
                        ops=[[o, datagen.canon(small[i])] for o, i in ops])
            rep.oblige("correspondence: %d add/remove/put sequences agree with set_step/map_step" % len(seqs), dis == 0, "%d disagreements" % dis)
            rep.sample({"kind": "ops", "ops": [(o, gal.src_safe(small[i])) for o, i in seqs[0]], "model": blocks[0]})
    laws(rep, rnd, tier, vals, ivals, impl)
    if tier == "thorough":
        core.coqchk(rep, "Ckl.Props.C06")
    return rep.finish()


def laws(rep, rnd, tier, vals, ivals, impl):
    """the laws themselves on the implementation (failing-input search)"""
    from ckl import values as V
    n = 0
    N = len(vals)
    # reflexivity + hash agreement with equal representatives
    classes = {}
    for i in range(N):
        n += 1
        if api_eq(ivals[i], ivals[i]) is not True:
            rep.violation("input", "%s == itself is %s" % (gal.src_safe(vals[i]), api_eq(ivals[i], ivals[i])), check="refl", a=datagen.canon(vals[i]))
    eqm = {}
    idx = list(range(N))
    trip = 4000 if tier != "thorough" else 40000
    for _ in range(trip):
        i, j, k = rnd.choice(idx), rnd.choice(idx), rnd.choice(idx)
        if rnd.random() < 0.7:
            kd = datagen.kind(vals[i])
            same = [x for x in idx if datagen.kind(vals[x]) == kd]
            j, k = rnd.choice(same), rnd.choice(same)
        a, b, c = ivals[i], ivals[j], ivals[k]
        ab, ba, bc, ac = api_eq(a, b), api_eq(b, a), api_eq(b, c), api_eq(a, c)
        n += 1
        if ab != ba:
            rep.violation("input", "symmetry: %s == %s is %s but reversed %s" % (gal.src_safe(vals[i]), gal.src_safe(vals[j]), ab, ba),
                          check="sym", a=datagen.canon(vals[i]), b=datagen.canon(vals[j]))
        if ab is True and bc is True and ac is not True:
            rep.violation("input", "transitivity fails on %s, %s, %s" % (gal.src_safe(vals[i]), gal.src_safe(vals[j]), gal.src_safe(vals[k])),
                          check="trans", a=datagen.canon(vals[i]), b=datagen.canon(vals[j]), c=datagen.canon(vals[k]))
        if ab is True:
            try:
                if hash(a) != hash(b):
                    rep.violation("input", "%s == %s but their hashes differ (sets/maps will treat them as different)" % (
                        gal.src_safe(vals[i]), gal.src_safe(vals[j])), check="hash", a=datagen.canon(vals[i]), b=datagen.canon(vals[j]))
            except Exception as e:
                rep.violation("input", "hash raises %s" % type(e).__name__, check="hash", a=datagen.canon(vals[i]), b=datagen.canon(vals[j]))
            # representative independence
            s = V.ValueSet().addItem(a).addItem(c)
            m = V.ValueMap().addItem(a, V.ValueInt(1)).addItem(c, V.ValueInt(2))
            if s.hasItem(a) != s.hasItem(b) or m.hasItem(a) != m.hasItem(b) or \
                    (m.hasItem(b) and m.getItem(a) != m.getItem(b)) or len(V.ValueSet().addItem(a).addItem(b).value) != 1:
                rep.violation("input", "equal values %s and %s are not interchangeable as set elements / map keys" % (
                    gal.src_safe(vals[i]), gal.src_safe(vals[j])), check="repr", a=datagen.canon(vals[i]), b=datagen.canon(vals[j]))
            if api_eq(V.ValueSet().addItem(a).addItem(c), V.ValueSet().addItem(c).addItem(b)) is not True or \
                    api_eq(V.ValueList().addItem(a), V.ValueList().addItem(b)) is not True or \
                    api_eq(V.ValueMap().addItem(a, c), V.ValueMap().addItem(b, c)) is not True:
                rep.violation("input", "containers built from the equal values %s and %s are not ==" % (
                    gal.src_safe(vals[i]), gal.src_safe(vals[j])), check="repr", a=datagen.canon(vals[i]), b=datagen.canon(vals[j]))
    # all insertion orders of up to 5 elements
    perms = 0
    for _ in range(40 if tier != "thorough" else 400):
        k = rnd.choice([2, 3, 3, 4, 5])
        items = []
        while len(items) < k:
            x = rnd.randrange(N)
            if not any(api_eq(ivals[x], ivals[y]) is True for y in items):
                items.append(x)
        base_s = None
        for perm in itertools.permutations(items):
            s = V.ValueSet()
            m = V.ValueMap()
            for x in perm:
                s.addItem(ivals[x])
                m.addItem(ivals[x], ivals[(x + 1) % N])
            perms += 1
            if base_s is None:
                base_s, base_m = s, m
                continue
            bad = None
            if api_eq(s, base_s) is not True or api_eq(m, base_m) is not True:
                bad = "not =="
            elif hash(s) != hash(base_s) or hash(m) != hash(base_m):
                bad = "hash differently"
            elif len(V.ValueSet().addItem(s).addItem(base_s).value) != 1 or len(V.ValueSet().addItem(m).addItem(base_m).value) != 1:
                bad = "are two elements of a set"
            if bad:
                rep.violation("input", "sets/maps of %s built in two insertion orders %s" % ([gal.src_safe(vals[x]) for x in items], bad),
                              check="order", items=[datagen.canon(vals[x]) for x in items])
                break
    n += perms
    # ... and of keys of different kinds whose cross-kind order (by text) does not agree with the numeric order among the numbers
    import datetime as _dt
    mixed = [[V.ValueDate(_dt.datetime(2024, 1, 1)), V.ValueInt(3), V.ValueInt(100)], [V.ValueDate(_dt.datetime(2020, 1, 1)), V.ValueDecimal(2.5), V.ValueInt(1000), V.ValueString("a")],
             [V.ValueDate(_dt.datetime(2024, 1, 1)), V.ValueInt(9), V.ValueInt(10), V.ValueInt(-1)], [V.ValueBoolean.fromval(True), V.ValueInt(1), V.ValueString("TRUE")],
             [V.ValueString("10"), V.ValueInt(10), V.ValueInt(9), V.ValueDecimal(9.5)]]
    for combo in mixed:
        base_s = None
        for perm in itertools.permutations(range(len(combo))):
            s, m = V.ValueSet(), V.ValueMap()
            for x in perm:
                s.addItem(combo[x])
                m.addItem(combo[x], V.ValueInt(x))
            n += 1
            if base_s is None:
                base_s, base_m = s, m
                continue
            bad = None
            if api_eq(s, base_s) is not True or api_eq(m, base_m) is not True or api_eq(base_m, m) is not True:
                bad = "not =="
            elif hash(s) != hash(base_s) or hash(m) != hash(base_m):
                bad = "hash differently"
            elif len(V.ValueSet().addItem(s).addItem(base_s).value) != 1 or len(V.ValueSet().addItem(m).addItem(base_m).value) != 1:
                bad = "are two elements of a set"
            elif V.ValueMap().addItem(m, V.ValueInt(1)).value.get(base_m) is None:
                bad = "are not found as each other's map key"
            if bad:
                rep.violation("input", "sets/maps of the mixed keys %s built in two insertion orders %s" % ([str(x) for x in combo], bad), check="order-mixed", items=[str(x) for x in combo])
                break
    # through the interpreter
    I = impl.new_interpreter(False, False)
    lits = [v for v in vals if datagen.kind(v) not in ("date",) and not (isinstance(v, float) and v != v)]
    for _ in range(600 if tier != "thorough" else 6000):
        a, b = rnd.choice(lits), rnd.choice(lits)
        if rnd.random() < 0.5:
            b = rnd.choice([x for x in lits if datagen.kind(x) == datagen.kind(a)])
        sa, sb = gal.src(a), gal.src(b)
        prog = "def a = %s; def b = %s; def s = <<a>>; def m = <<<'@@' => 1>>>; m[a] = 1; [a == b, b == a, a != b, a in <<b>>, b in s, a in [b], b in m, length(<<a, b>>)]" % (sa, sb)
        out = impl.run_src(I, prog)
        n += 1
        e = datagen.py_eq(a, b)
        t, f = "(b 1)", "(b 0)"
        want = "(list %s %s %s %s %s %s %s (i %d))" % (t if e else f, t if e else f, f if e else t, t if e else f, t if e else f,
                                                      t if e else f, t if e else f, 1 if e else 2)
        if out != ("val", want):
            rep.violation("input", "%s gives %s, the stated equality gives %s" % (prog, out, want), check="program", program=prog, want=want)
    # equal representatives with different histories: b is written as a literal, a reaches the same value by in-place changes made
    # after it (or a container holding it) has been used as a set element / map key / membership operand
    hist = 0
    conts = [v for v in lits if datagen.kind(v) in ("list", "map", "set", "string") and len(v) > 0]
    for _ in range(300 if tier != "thorough" else 3000):
        v = rnd.choice(conts)
        k = datagen.kind(v)
        sb = gal.src(v)
        use = rnd.choice(["def h_ = a in <<>>", "def h_ = <<a>>", "def h_ = <<<a => 1>>>", "def h_ = [a] in <<[a]>>", "def h_ = a in <<<a => 1>>>", "def h_ = <<[a, 1]>>"])
        if k == "list":
            i = rnd.randrange(len(v))
            how = rnd.choice(["assign", "append", "nested", "delins"])
            if how == "assign":
                build = "def a = %s; a[%d] = 'other_q'; %s; a[%d] = %s" % (sb, i, use, i, gal.src(v[i]))
            elif how == "append":
                build = "def a = %s; %s; append(a, %s)" % (gal.src(v[:-1]), use, gal.src(v[-1]))
            elif how == "delins":
                build = "def a = %s; %s; delete_at(a, %d); insert_at(a, %d, %s)" % (sb, use, i, i, gal.src(v[i]))
            else:
                build = "def in_ = ['other_q']; def a = %s; a[%d] = in_; %s; def w_ = [a, 2] in <<[a, 2]>>; in_[0] = 7; a[%d] = %s" % (sb, i, use, i, gal.src(v[i]))
        elif k == "map":
            key = rnd.choice(list(v.keys())) if hasattr(v, "keys") else None
            if key is None:
                continue
            build = "def a = %s; a[%s] = 'other_q'; %s; a[%s] = %s" % (sb, gal.src(key), use, gal.src(key), gal.src(v[key]))
        elif k == "set":
            el = rnd.choice(sorted(v, key=repr))
            build = "def a = %s; remove(a, %s); %s; append(a, %s)" % (sb, gal.src(el), use, gal.src(el))
        else:
            i = rnd.randrange(len(v))
            build = "def a = %s; a[%d] = 'Q'; %s; a[%d] = %s" % (sb, i, use, i, gal.src(v[i]))
        prog = build + "; def b = %s; def mb = <<<>>>; mb[b] = 1; def ma = <<<>>>; ma[[a]] = 2; [a == b, b == a, a in <<b>>, b in <<a>>, a in mb, mb[a], length(<<a, b>>), " \
                       "<<a>> == <<b>>, length(remove(<<b, 0>>, a)), [a] in <<[b]>>, ma[[b]], length(<<[a, 1], [b, 1]>>), <<a, 5>> - <<b>>]" % sb
        out = impl.run_src(I, prog)
        n += 1
        hist += 1
        want = "(list (b 1) (b 1) (b 1) (b 1) (b 1) (i 1) (i 1) (b 1) (i 1) (b 1) (i 2) (i 1) (set (i 5)))"
        if out != ("val", want):
            rep.violation("input", "%s gives %s, interchangeable equal representatives give %s" % (prog, out, want), check="history", program=prog, want=want)
    # representatives that were read from text: parse_json, eval of the rendering
    for jtxt, lit in [("true", "TRUE"), ("false", "FALSE"), ("1", "1"), ("1.0", "1.0"), ("\"a\"", "'a'"), ("[true, 1]", "[TRUE, 1]"), ("[]", "[]"),
                      ("{\"a\": [true, false]}", "<<<'a' => [TRUE, FALSE]>>>"), ("[[false]]", "[[FALSE]]"), ("{\"k\": [1.5]}", "<<<'k' => [1.5]>>>")]:
        for how in ["parse_json('%s')" % jtxt, "eval(string(%s))" % lit, "parse_json('[%s]')[0]" % jtxt]:
            prog = ("def a = %s; def b = %s; def mb = <<<>>>; mb[b] = 1; def ma = <<<>>>; ma[a] = 1; [a == b, b == a, a in <<b>>, b in <<a>>, a in mb, length(<<a, b>>) == 1, <<a>> == <<b>>, [a] == [b], "
                    "a in [b], length(<<a>> - <<b>>) == 0, not (a != b), ma == mb]" % (how, lit))
            out = impl.run_src(I, prog)
            n += 1
            hist += 1
            want = "(list" + " (b 1)" * 12 + ")"
            if out != ("val", want):
                rep.violation("input", "%s gives %s, interchangeable equal representatives give %s" % (prog, out[:2], want), check="history", program=prog, want=want)
    rep.cov["representatives_with_history"] = hist
    # dates that differ by less than the second their text shows (reached by arithmetic with fractions of a day): whatever == says
    # about two of them, sets, maps, membership, removal and the order must say the same
    dexprs = ["date('20200101')", "(date('20200101') + 0.000002)", "(date('20200101') + 0.000004)", "(date('20191231') + 1)", "(date('20200101') + 0.0000116)",
              "(date('20200102') - 0.999998)", "date('20200101000001')", "(date('20200101') + 0.5)", "(date('20200101') + 0.500001)"]
    for da in dexprs:
        for db in dexprs:
            prog = ("def a = %s; def b = %s; def m = <<<>>>; m[a] = 1; [a == b, b == a, not (a != b), a in <<b>>, b in <<a>>, length(<<a, b>>) == 1, b in m, "
                    "length(<<a>> - <<b>>) == 0, <<a>> == <<b>>, [a] == [b], a in [b], not (a < b or b < a), compare(a, b) == 0]" % (da, db))
            out = impl.run_src(I, prog)
            n += 1
            if out[0] != "val" or out[1] not in ("(list" + " (b 1)" * 13 + ")", "(list" + " (b 0)" * 13 + ")"):
                rep.violation("input", "%s gives %s: equality, containers and order disagree about two dates" % (prog, out[:2]), check="date-fraction", program=prog,
                              want="thirteen equal booleans")
    # NaN (recorded finding C06-F1: a NaN decimal is not equal to itself)
    out = impl.run_src(I, "def n = decimal('nan'); [n == n, n in [n], length(<<n, decimal('nan')>>)]")
    n += 1
    if out != ("val", "(list (b 1) (b 1) (i 1))"):
        rep.violation("input", "def n = decimal('nan'); [n == n, n in [n], length(<<n, decimal('nan')>>)] gives %s" % (out,), check="nan",
                      program="def n = decimal('nan'); [n == n, n in [n], length(<<n, decimal('nan')>>)]", want="(list (b 1) (b 1) (i 1))")
    rep.count(n)
    rep.cov["law_cases"] = n
    rep.cov["insertion_orders_tried"] = perms


def do_replay(rep, path, impl):
    import json
    body = json.load(open(path))
    rep.no_evidence = True
    I = impl.new_interpreter(False, False)
    n = 0
    for v in body.get("violations", []):
        if v.get("check") == "program":
            out = impl.run_src(I, v["program"])
            if out != ("val", v["want"]):
                print("REPRODUCED: %s gives %s, want %s" % (v["program"], out, v["want"]))
                rep.violation("input", "%s gives %s" % (v["program"], out), check="program", program=v["program"], want=v["want"])
                n += 1
        else:
            print("recorded (API-level case, canonical values): %s" % v.get("what"))
        rep.count()
    if not n:
        print("replay: no interpreter-level case reproduced")
    rep.oblige("replay ran", True)
    return rep.finish()
