"""Shared by C01 / C14 / C20: regeneration of Gen/LexGen.v from src/ckl/lexer.py (T), the proof side, and the
T-correspondence of the generated scanner against Lexer.scan (values, types, lines, columns, syntax errors)."""
import os

from vlib import core, lexrender

IMPORTS = "From Ckl Require Import Prelude.PyPrelude Prelude.LexPrelude Gen.LexGen Model.LexRun.\n"
TARGETS = ["Proofs/LexProofs.vo"]


def regen(rep):
    from tools.translate import lexer_gen, pykernel
    try:
        text = lexer_gen.generate(core.SRC)
    except pykernel.Unsupported as e:
        rep.oblige("translate Lexer.scan -> Gen/LexGen.v", False, "translator failed closed: %s" % e)
        return False
    except Exception as e:
        rep.oblige("translate Lexer.scan -> Gen/LexGen.v", False, "translator error: %r" % e)
        return False
    with core.CoqLock():
        core.write_if_changed(os.path.join(core.COQ, "Gen", "LexGen.v"), text)
    rep.oblige("translate Lexer.scan -> Gen/LexGen.v", True)
    return True


def impl_lex(s):
    from ckl.lexer import Lexer
    from ckl.errors import CklSyntaxError
    try:
        ts = Lexer(s, "f").scan().tokens
    except CklSyntaxError:
        return [1]
    except Exception as e:
        return ["host", type(e).__name__]
    out = [0, len(ts)]
    for t in ts:
        out += [lexrender.TYPES[t.type], t.pos.line, t.pos.column, len(t.value)] + [ord(c) for c in t.value]
    return out


def t_correspondence(rep, texts, tag):
    """generated scanner (vm_compute) vs Lexer.scan on the given texts"""
    per = 12
    evals = ["[%s]" % "; ".join("enc_lex (lex %s)" % core.zlist([ord(c) for c in s]) for s in texts[i:i + per]) for i in range(0, len(texts), per)]
    ok, blocks, err = core.coq_eval_many(tag, IMPORTS, evals, per_file=6, timeout=900)
    rep.checker_cmds.append("coqc .work/%s_*.v (vm_compute of the generated scanner on %d texts)" % (tag, len(texts)))
    if not ok:
        rep.oblige("T-correspondence: generated scanner evaluates", False, err)
        return
    got = [x for b in blocks for x in b]
    dis = 0
    for s, m in zip(texts, got):
        i = impl_lex(s)
        mm = m if m[0] != 1 else [1]
        rep.count()
        if mm != i:
            dis += 1
            rep.violation("correspondence", "generated scanner and Lexer.scan disagree on %r: %s vs %s" % (s, mm[:40], i[:40]),
                          check="lexer", text=s)
    rep.oblige("T-correspondence: generated scanner = Lexer.scan on %d texts (values, types, lines, columns, errors)" % len(texts),
               dis == 0, "%d disagreements" % dis)
