"""C12 - results do not depend on hash seeds, process or construction order.
Deciding method: theorems in coq/Props/C12.v (the ascending enumeration of a duplicate-free set of comparable
values is the same for every internal order; equality ignores internal order; the seeded generator is a
function of its seed), and a correspondence run: generated programs that build sets and maps of strings and
mixed scalars and push them through every iteration, conversion, spread, destructuring and rendering path and
the collection library are executed in fresh processes under 8 (thorough: 32) PYTHONHASHSEED values and with
permuted construction orders; all values, outputs and errors must be identical, and identical to the model
evaluator's answer where the program is inside the modelled fragment."""
import json
import os
import subprocess

from vlib import core, gal, evalrun
from vlib.core import Report

WORDS = ["pear", "apple", "fig", "kiwi", "plum", "lime", "date", "nut", "yam", "oat", "Zed", "a b", "é", "10", "9"]
MIXED = ["1", "2.5", "'x'", "TRUE", "NULL", "'1'", "7", "0.5", "FALSE", "'TRUE'"]


def lit(x):
    return "'%s'" % x


def gen(rnd):
    """(program, program with the same sets/maps built in another order)"""
    n = rnd.randint(2, 6)
    elems = [lit(w) for w in rnd.sample(WORDS, n)]
    if rnd.random() < 0.3:
        elems = rnd.sample(MIXED, min(n, len(MIXED)))
    vals = [str(rnd.randint(0, 9)) for _ in elems]

    def build(order):
        es = [elems[i] for i in order]
        s = "<< " + ", ".join(es) + " >>"
        m = "<<< " + ", ".join("%s => %s" % (elems[i], vals[i]) for i in order) + " >>>"
        return s, m
    order1 = list(range(len(elems)))
    order2 = order1[:]
    rnd.shuffle(order2)
    t = rnd.choice(TEMPLATES)
    (s1, m1), (s2, m2) = build(order1), build(order2)
    other = "<< " + ", ".join(rnd.sample(elems, max(1, len(elems) // 2)) + [lit("zzz")]) + " >>"
    return t.replace("$S", s1).replace("$M", m1).replace("$O", other), t.replace("$S", s2).replace("$M", m2).replace("$O", other)


TEMPLATES = [
    "def s = $S; def r = []; for x in s do append(r, x) end; r",
    "def s = $S; [x for x in s]",
    "def s = $S; list(s)",
    "def s = $S; [...s]",
    "def s = $S; def f(a...) a...; f(...s)",
    "def s = $S; def [a, b] = s; [a, b]",
    "def s = $S; def a = 0; def b = 0; [a, b] = s; [a, b]",
    "def s = $S; string(s)",
    "def s = $S; 'set: ' + s",
    "def s = $S; println(s); print(list(s)); 1",
    "def m = $M; string(m)",
    "def m = $M; [[k for k in keys m], [v for v in values m], [e for e in entries m], [x for x in m]]",
    "def m = $M; def r = []; for [k, v] in entries m do append(r, k + v) end; for v in m do append(r, v) end; for k in keys m do append(r, k) end; r",
    "def m = $M; [list(m), set(m), string(object(m))]",
    "def m = $M; def f(args...) args...; do f(...m) catch all 'named' end",
    "def m = $M; enumerate(m)",
    "def m = $M; println(m); string([m, <<m>>])",
    "def s = $S; [list(s + $O), list(s - $O), list($O - s)]",
    "def s = $S; require Set; [list(Set->union(s, $O)), list(Set->intersection(s, $O)), list(Set->diff(s, $O)), list(Set->symmetric_diff(s, $O))]",
    "def s = $S; require List; [List->unique(list(s) + list(s)), List->reverse(list(s)), sorted(s), List->first(list(s)), List->last(list(s))]",
    "def s = $S; [min(list(s)), max(list(s)), length(s), sum([length(string(x)) for x in s])]",
    "def s = $S; require String; String->join([string(x) for x in s], ',')",
    "def s = $S; def t = <<s, $O>>; [string(t), [list(x) for x in t]]",
    "def s = $S; def m2 = <<< s => 1, $O => 2 >>>; [string(m2), [list(k) for k in keys m2]]",
    "def s = $S; s == $O or list(s) == list($O)",
    "def s = $S; def l = list(s); remove(s, l[0]); append(s, 'added'); [list(s), l]",
    "def s = $S; << x + '!' for x in [string(e) for e in s] >> !> list()",
    "def m = $M; <<< v => k for k in keys m >>> !> string()",
    "def m = $M; zip_map(list(set(m)), [1, 2, 3, 4, 5, 6])  !> string()",
    "def s = $S; sprintf('{0} / {1}', s, list(s))",
    "def s = $S; s('set {s} list {l}')" .replace("{l}", "{s}"),
    "require Random; Random->set_seed(42); def a = [Random->random(1000), Random->random(1000)]; Random->set_seed(42); [a, [Random->random(1000), Random->random(1000)]]",
    "def s = $S; require Random; Random->set_seed(7); [Random->choice(s), Random->sample(list(s), 2)]",
    "def s = $S; def o = object(<<<'b' => s, 'a' => 1>>>); [string(o), [k for k in keys o]]",
    "def s = $S; def r = []; for x in s do for y in $O do if x == y then append(r, x) end end; r",
    "def s = $S; error s",
    "def m = $M; error [m, <<m>>]",
]


def library_programs():
    """every function of the base environment and bundled modules, and the binary operator forms, applied to
    arguments from a pool that contains a set and a map of strings: results must not depend on the hash seed"""
    from checks import C13
    fns = C13.function_names()
    pool = ["<< 'pear', 'apple', 'fig', 'kiwi', 'plum', 'lime' >>", "<<< 'pear' => 1, 'apple' => 2, 'fig' => 3, 'kiwi' => 4 >>>",
            "['nut', 'date', 'oat']", "<< 'oat', 'pear', 'yam', 2, 1.5 >>", "2", "fn(x) x", "'fig'",
            # a key under which distinct elements tie: a stable sort / first-minimum then shows the order the elements were enumerated in
            "fn(x) length(string(x))"]
    tie_args = ["key = fn(x) length(string(x))", "key = fn(x) string(x)[0]", "cmp = fn(p, q) compare(length(string(p)), length(string(q)))",
                "fn(x) length(string(x)) > 3", "fn(p, q) length(string(p)) < length(string(q))"]
    skip = {"random", "choice", "choices", "sample", "set_seed", "date", "now", "timestamp", "file_output", "file_input", "make_dir", "file_copy",
            "file_move", "file_delete", "list_dir", "file_info", "file_exists", "get_env", "which", "ls", "info", "read_file", "close"}
    progs = []
    for name, call in fns.items():
        if name in skip:
            continue
        pre = "" if "->" not in call else "require %s; " % call.split("->")[0]
        for a in pool[:4]:
            progs.append((pre + "def r = %s(%s); [string(r), r]" % (call, a), "->" not in call))
            for t in tie_args:
                progs.append((pre + "def r = %s(%s, %s); [string(r), r]" % (call, a, t), "->" not in call))
            for b in pool:
                progs.append((pre + "def r = %s(%s, %s); [string(r), r]" % (call, a, b), "->" not in call))
                if b is not a:
                    progs.append((pre + "def r = %s(%s, %s); [string(r), r]" % (call, b, a), "->" not in call))
    for f in ["$a + $b", "$a - $b", "$a * $b", "def c = $a; c += $b; c", "def c = $a; c -= $b; c", "$a == $b", "$a < $b", "$a in $b",
              "[x for x in $a for y in $b]", "[[x, y] for x in $a also for y in $b]", "<<< $a => $b >>>", "<< $a, $b >>", "[$a, $b]",
              "def f(p...) p...; f($a, ...$b)", "string($a) + $b", "$a !> add($b)"]:
        for a in pool:
            for b in pool:
                progs.append(("def r = do %s end; [string(r), r]" % f.replace("$a", a).replace("$b", b), False))
    # destructuring and nested enumeration: loop variables / targets bound from sets (of strings, of sets) and map entries
    nested = ["[<< 'pear', 'fig', 'apple' >>, << 'kiwi', 'lime', 'plum' >>, << 10, 3, 17 >>]", "<< << 'pear', 'fig', 'apple' >>, << 'kiwi', 'lime', 'plum' >> >>",
              "<<< << 'b', 'a', 'c' >> => << 'z', 'y', 'x' >>, << 'e', 'd', 'f' >> => << 'w', 'v', 'u' >> >>>", "[['b', 'a'], << 'd', 'c', 'e' >>]"]
    dforms = ["def r = []; for [p, q] in $a do append(r, [p, q]) end; r", "def r = []; for [p, q, t] in $a do append(r, [p, q, t]) end; r",
              "def r = []; for x in $a do for y in x do append(r, y) end end; r", "def r = []; for [k, v] in entries $a do append(r, [k, v]) end; r",
              "def r = []; for k in keys $a do def [p, q] = k; append(r, [p, q]) end; r", "def r = []; for x in $a do def [p, q] = x; append(r, [p, q]) end; r",
              "def r = []; for x in $a do def p = 0; def q = 0; [p, q] = x; append(r, [p, q]) end; r", "[[y for y in x] for x in $a]", "[string(x) for x in $a]",
              "def r = []; for x in $a do append(r, [...x]) end; r", "def f(p, q, t...) [p, q]; [f(...x) for x in $a]", "[list(x) for x in $a]", "[sorted(x) for x in $a]",
              "[x[0] for x in [list(y) for y in $a]]", "def r = []; for x in values $a do append(r, list(x)) end; r"]
    # enumeration whose ORDER is observable although the result is unordered: colliding map keys (the last entry wins),
    # equal-but-distinguishable elements (1 / 1.0), effects of the element expression
    sets = ["<< 'apple', 'avocado', 'apricot', 'banana', 'blueberry', 'cherry', 'cranberry', 'damson', 'dewberry', 'fig' >>",
            "<<< 'pear' => 1, 'plum' => 2, 'peach' => 3, 'kiwi' => 4, 'lime' => 5 >>>"]
    oforms = ["<<<substr(w, 0, 1) => w for w in $a >>>", "<<<length(w) => w for w in $a >>>", "<<<1 => w for w in $a >>>", "<<<w => 1 for w in $a if length(w) > 4>>>",
              "def seen = []; def m = <<<w => append(seen, w) for w in $a >>>; seen", "def seen = []; def t = <<length(append(seen, w)) for w in $a >>; seen",
              "def seen = []; def t = [append(seen, w) for w in $a ]; seen", "<<if length(w) > 4 then 1 else 1.0 for w in $a >>", "<<<length(w) % 2 => w for w in keys $a >>>",
              "def last = NULL; for w in $a do last = w end; last", "def n = ''; for w in $a do if length(n) < 12 then n = n + w end; n",
              "<<<length(w) => w for w in $a also for v in $a >>>", "first_q($a)".replace("first_q", "def f(s) do for w in s do return w end end; f")]
    for a in sets:
        for f in oforms:
            progs.append(("def r0 = do %s end; [string(r0), r0]" % f.replace("$a", a), False))
    for a in nested:
        for f in dforms:
            progs.append(("def r0 = do %s end; [string(r0), r0]" % f.replace("$a", a), False))
    return progs


ASC = [["-10", "-2", "3", "9", "10", "25", "100"], ["-1.5", "-1", "2", "2.5", "10", "100.25"], ["''", "'a'", "'a b'", "'a!'", "'a\\''", "'ab'", "'b'", "'ba'"],
       ["[1, 9]", "[1, 10]", "[2]", "[10]"], ["'A'", "'B'", "'a'", "'b'"], ["9", "10"], ["1"]]
SETFORMS = ["[x for x in c]", "def r = []; for x in c do append(r, x) end; r", "list(c)", "[...c]", "def [p, q] = c; [p, q]", "[[x, y] for x in c also for y in c]",
            "[[x, y] for x in c for y in c]", "[x for x in c if x == x]", "def seen = []; def t = <<append(seen, x)[0] for x in c>>; seen",
            "def seen = []; def t = <<<x => append(seen, x) for x in c>>>; seen",
            "def seen = []; def t = <<append(seen, x) for x in c also for y in c>>; seen", "def f(p, q = 0, t...) [p, q, t]; f(...c)", "sorted(c)", "[x for x in set(c)]",
            "def r = []; for x in c do for y in c do append(r, [x, y]) end end; r", "def r = []; def i = 0; while i < 1 do for x in c do append(r, x) end; i += 1 end; r"]
MAPFORMS = [("[k for k in keys m]", "[k for k in $K]"), ("[v for v in values m]", "[v for v in $V]"), ("[v for v in m]", "[v for v in $V]"),
            ("[e for e in entries m]", "[e for e in $E]"),
            ("def r = []; for k in keys m do append(r, k) end; r", "$K"), ("def r = []; for v in values m do append(r, v) end; r", "$V"),
            ("def r = []; for v in m do append(r, v) end; r", "$V"), ("def r = []; for e in entries m do append(r, e) end; r", "$E"),
            ("[[a, b] for a in keys m for b in values m]", "[[a, b] for a in $K for b in $V]"), ("[[a, b] for a in keys m also for b in values m]", "[[a, b] for a in $K also for b in $V]"),
            ("[[a, b] for a in [1, 2] for b in keys m]", "[[a, b] for a in [1, 2] for b in $K]"), ("[[a, b] for a in $K also for b in entries m]", "[[a, b] for a in $K also for b in $E]"),
            ("def seen = []; def t = <<append(seen, k)[0] for k in keys m>>; seen", "$K"), ("def seen = []; def t = <<<k => append(seen, k) for k in keys m>>>; seen", "$K"),
            ("def seen = []; def t = <<<1 => append(seen, v) for v in values m>>>; seen", "$V"), ("def seen = []; def t = <<append(seen, e)[0] for e in entries m also for z in $K>>; seen", "$E"),
            ("def f(a...) a...; do f(...m) catch all 'named' end", "do def f(a...) a...; def v = $V; def k = $K; if type(k[0]) == 'string' then 'named' else f(...v) catch all 'named' end"),
            ("def f(a...) a...; do f(0, ...m) catch all 'named' end", "do def f(a...) a...; def v = $V; def k = $K; if type(k[0]) == 'string' then 'named' else f(0, ...v) catch all 'named' end"),
            ("sorted(list(set(m)))", "$K"), ("def [p, q] = set(m); [p, q]", "def [p, q] = $K; [p, q]")]


def ascending(rep, rnd):
    """set / map enumeration forms against the same form over the ascending list"""
    from vlib import impl
    I = impl.new_interpreter(False, False)
    bad = n = 0
    for asc in ASC:
        L = "[" + ", ".join(asc) + "]"
        for i in range(len(asc) - 1):      # the listing is ascending under the language's own <
            rep.count()
            if impl.run_src(I, "%s < %s" % (asc[i], asc[i + 1]))[1] != "(b 1)":
                bad += 1
                rep.violation("input", "%s < %s is not TRUE" % (asc[i], asc[i + 1]), check="ascending", program="%s < %s" % (asc[i], asc[i + 1]))
        for trial in range(3):
            perm = list(asc)
            rnd.shuffle(perm)
            C = "<<" + ", ".join(perm) + ">>"
            vals = ["'v%d'" % (i * 7 % 5) for i in range(len(asc))]
            order = list(range(len(asc)))
            rnd.shuffle(order)
            M = "<<<" + ", ".join("%s => %s" % (asc[i], vals[i]) for i in order) + ">>>"
            K, V, E = L, "[" + ", ".join(vals) + "]", "[" + ", ".join("[%s, %s]" % (asc[i], vals[i]) for i in range(len(asc))) + "]"
            cases = [("def c = %s; %s" % (C, f), "def c = %s; %s" % (L, f)) for f in SETFORMS]
            cases += [("def m = %s; " % M + f.replace("$K", K).replace("$V", V).replace("$E", E), g.replace("$K", K).replace("$V", V).replace("$E", E)) for f, g in MAPFORMS]
            for a, b in cases:
                ra, rb = impl.run_src(I, "do %s end" % a), impl.run_src(I, "do %s end" % b)
                rep.count()
                n += 1
                if rb[0] != "val":
                    raise RuntimeError("C12 ascending: the reference form %r is not a value: %r" % (b, rb))
                if ra[:2] != rb[:2]:
                    bad += 1
                    rep.violation("input", "%s gives %s, but over the ascending listing (%s) the same path gives %s" % (a, ra[:2], b, rb[:2]), check="ascending", program=a, other=b)
    rep.oblige("%d enumeration paths over sets and maps (comprehensions of all kinds, loops, conversion, spread, destructuring) give what the same path gives over the ascending list" % n,
               bad == 0, "%d differences" % bad)
    return n


def run_seed(progs, seed, legacy=False):
    env = dict(os.environ, PYTHONHASHSEED=str(seed), PYTHONPATH=core.SRC)
    p = subprocess.run([core.PY, os.path.join(core.VERIF, "tools", "seedworker.py")] + (["legacy"] if legacy else []),
                       input=json.dumps(progs), capture_output=True, text=True, env=env, timeout=600)
    if p.returncode != 0:
        raise RuntimeError("worker failed under seed %s: %s" % (seed, p.stderr[-500:]))
    return json.loads(p.stdout)


def main(tier, seed, replay=None):
    rep = Report("C12", tier, seed)
    core.setup_impl_path()
    rnd = core.rng(seed, "C12")
    rep.rule = ("programs from %d templates (iteration, comprehension, list()/set()/object() conversion, spread in lists and calls, both "
                "destructuring forms, rendering and concatenation, println output, set algebra operators and library functions, nested sets and "
                "sets as map keys, seeded random functions, error values) instantiated with sets and maps of 2-6 strings or mixed scalars; each "
                "program run in a fresh process under 8 (thorough: 32) PYTHONHASHSEED values and once more with the same containers built in a "
                "permuted order; distinct by program text; non-trivial when the enumerated container has at least 3 elements") % len(TEMPLATES)
    rep.trusted += ["the behaviour of CPython's hash randomisation is observed (fresh subprocesses per seed), not modelled",
                    "Model/Eval.v: all enumerating kernels of the model go through the sorted view by construction; there is no simulation "
                    "theorem for the whole evaluator (C12_eval_partial)"]
    seeds = [0, 1, 2, 3, 17, 99, 12345, 4294967295] if tier != "thorough" else list(range(24)) + [99, 1000, 65535, 2 ** 31, 2 ** 32 - 1, 777, 31337, 5]
    if replay:
        return do_replay(rep, replay, seeds)
    ok = core.standard_coq(rep, ["Proofs/PermProofs.vo", "Model/EncEval.vo"], "Props/C12.v")
    n = 220 if tier != "thorough" else 1500
    pairs = [gen(rnd) for _ in range(n)]
    progs = [p for p, _ in pairs] + [q for _, q in pairs]
    results = {}
    for sd in seeds:
        results[sd] = run_seed(progs, sd)
    # the library enumeration (legacy and non-legacy environments)
    lib = library_programs()
    lib_leg = [p for p, lg in lib if lg]
    lib_non = [p for p, lg in lib if not lg]
    libres = {sd: run_seed(lib_leg, sd, True) + run_seed(lib_non, sd, False) for sd in seeds}
    libprogs = lib_leg + lib_non
    ldis = 0
    for k, prog in enumerate(libprogs):
        rep.count(len(seeds))
        for sd in seeds[1:]:
            if libres[sd][k] != libres[seeds[0]][k]:
                ldis += 1
                rep.violation("input", "%s gives %s under PYTHONHASHSEED=%s but %s under PYTHONHASHSEED=%s" % (
                    prog, libres[sd][k], sd, libres[seeds[0]][k], seeds[0]), check="seed", program=prog, seeds=[seeds[0], sd])
                break
    rep.oblige("library enumeration: %d calls / operator forms on sets and maps of strings give identical results under %d hash seeds" % (
        len(libprogs), len(seeds)), ldis == 0, "%d disagreements" % ldis)
    rep.cov["library_calls"] = len(libprogs)
    # sets mixing numbers with dates: a date is compared with a number as text, numbers among themselves by value - the order is
    # not transitive, so the enumeration depends on the (seeded) hash of the date  [recorded finding C12-F3]
    mixed = ["list(<<3, 100, date('20200101')>>)", "string(<<3, 100, date('20200101'), 2.5>>)", "[k for k in keys <<<3 => 1, 100 => 2, date('20200101') => 3>>>]"]
    mres_ = {sd: run_seed(mixed, sd, False) for sd in seeds}
    for k, prog in enumerate(mixed):
        rep.count(len(seeds))
        for sd in seeds[1:]:
            if mres_[sd][k] != mres_[seeds[0]][k]:
                rep.violation("input", "%s gives %s under PYTHONHASHSEED=%s but %s under PYTHONHASHSEED=%s" % (prog, mres_[sd][k], sd, mres_[seeds[0]][k], seeds[0]),
                              check="mixed-date-number", program=prog, seeds=[seeds[0], sd])
                break
    # "all enumerate them in sorted order": every enumeration path over a set / map gives what the same path gives over the ascending list
    # (elements whose ascending order differs from the order of their texts, of their hashes and of their insertion)
    asc_n = ascending(rep, rnd)
    # module objects: the order of their members (the definition order of the module) shows in rendering, iteration and in which of two
    # imports under one name wins
    modprogs = ["require Set; string(Set)", "require Set; [k for k in keys Set]", "require Set; def r = []; for x in Set do append(r, string(x)) end; r",
                "require List; [k for k in keys List]", "require String as S; string([e[0] for e in entries S])", "require List import [first as pick, last as pick]; pick([1, 2, 3])",
                "require Stat; string(Stat)", "require Math; [k for k in keys Math]", "require Set; require List; string([Set, List])", "require Type; def r = []; for k in keys Type do append(r, k) end; r",
                "require Set unqualified; string([union, diff])", "require Date; length(string(Date))", "require Set; string(object(Set))", "require Set; string(map(Set))"]
    # equal sets of strings built in two orders, used as elements and keys one level up (their hash must not depend on the iteration order)
    for words in (["pear", "fig"], ["pear", "fig", "apple"], ["kiwi", "lime", "plum", "date"], ["a", "b", "c"], ["x1", "x2", "x3", "x4"], ["ab", "ba"]):
        a = "<<" + ", ".join("'%s'" % w for w in words) + ">>"
        b = "<<" + ", ".join("'%s'" % w for w in reversed(words)) + ">>"
        modprogs.append("def a = %s; def b = %s; def m = <<<>>>; m[a] = 'found'; [a == b, length(<<a, b>>), b in <<a>>, m[b, 'missing'], string(<<a, b>>), length(set([a, b, a]))]" % (a, b))
    modres = {sd: run_seed(modprogs, sd, False) for sd in seeds}
    mdis = 0
    for k, prog in enumerate(modprogs):
        rep.count(len(seeds))
        for sd in seeds[1:]:
            if modres[sd][k] != modres[seeds[0]][k]:
                mdis += 1
                rep.violation("input", "%s gives %s under PYTHONHASHSEED=%s but %s under PYTHONHASHSEED=%s" % (prog, modres[sd][k], sd, modres[seeds[0]][k], seeds[0]),
                              check="seed", program=prog, seeds=[seeds[0], sd])
                break
    rep.oblige("module objects and nested sets: %d programs that look at the members of module objects / use equal string sets as elements and keys give identical results under %d hash seeds" % (len(modprogs), len(seeds)), mdis == 0, "%d disagreements" % mdis)
    base = results[seeds[0]]
    dis = 0
    three = 0
    for k, prog in enumerate(progs):
        rep.count(len(seeds))
        if prog.count("'") >= 6:
            three += 1
            rep.nontriv(prog)
        for sd in seeds[1:]:
            if results[sd][k] != base[k]:
                dis += 1
                rep.violation("input", "%s gives %s under PYTHONHASHSEED=%s but %s under PYTHONHASHSEED=%s" % (
                    prog, results[sd][k], sd, base[k], seeds[0]), check="seed", program=prog, seeds=[seeds[0], sd])
                break
    for k, (p, q) in enumerate(pairs):
        a, b = base[k], base[len(pairs) + k]
        if a != b:
            dis += 1
            rep.violation("input", "construction order matters: %s gives %s but %s gives %s" % (p, a, q, b), check="order", program=p, other=q)
    rep.oblige("correspondence: %d programs x %d hash seeds and a permuted construction order give identical values, outputs and errors" % (
        len(progs), len(seeds)), dis == 0, "%d disagreements" % dis)
    rep.cov["programs_with_3_or_more_string_elements"] = three
    rep.cov["hash_seeds"] = seeds
    rep.sample({"program": progs[0], "outcome": base[0]})
    rep.sample({"program": progs[5], "permuted": progs[len(pairs) + 5], "outcome": base[5]})
    # model evaluator on the same programs (where inside the fragment)
    if ok:
        okm, err, mres = evalrun.run_model(progs[:len(pairs)], tag="c12")
        if not okm:
            rep.oblige("correspondence: model evaluator runs", False, err)
        else:
            md = sk = 0
            for k, m in enumerate(mres):
                if m in (("unmodelled",), ("syntax",)):
                    sk += 1
                    continue
                i = tuple(base[k][0])
                if tuple(m) != i:
                    md += 1
                    rep.violation("input", "%s: implementation %s, model evaluator %s" % (progs[k], i, m), check="program", program=progs[k], want=list(m))
            rep.oblige("correspondence: %d of the programs are inside the modelled fragment and agree with the model evaluator" % (len(mres) - sk),
                       md == 0, "%d disagreements" % md)
            rep.cov["skipped_unmodelled"] = sk
    if tier == "thorough":
        core.coqchk(rep, "Ckl.Props.C12")
    return rep.finish()


def do_replay(rep, path, seeds):
    body = json.load(open(path))
    rep.no_evidence = True
    n = 0
    for v in body.get("violations", []):
        prog = v.get("program")
        if not prog:
            continue
        if v.get("check") == "order":
            r = run_seed([prog, v["other"]], 0)
            if r[0] != r[1]:
                print("REPRODUCED: construction order: %s -> %s vs %s -> %s" % (prog, r[0], v["other"], r[1]))
                rep.violation("input", "construction order matters", check="order", program=prog, other=v["other"])
                n += 1
        else:
            outs = {sd: run_seed([prog], sd)[0] for sd in seeds}
            if len({json.dumps(o) for o in outs.values()}) > 1:
                print("REPRODUCED: %s differs across hash seeds: %s" % (prog, outs))
                rep.violation("input", "differs across hash seeds", check="seed", program=prog)
                n += 1
        rep.count()
    if not n:
        print("replay: nothing reproduced")
    rep.oblige("replay ran", True)
    return rep.finish()
