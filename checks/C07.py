"""C07 - comparison is a total order per kind and sorting agrees with it.

Deciding method: theorems in coq/Props/C07.v about the hand model of __lt__/__eq__ with the
total_ordering derivations and of FuncSorted (insertion sort), tied to the code by a vm_compute
correspondence on same-kind pairs (through the ckl.values operators and through interpreted
programs) and on sorted() with and without key/cmp, plus the order laws and a reference stable
sort evaluated on the implementation (failing-input search)."""
import functools
import itertools

from vlib import core, gal, datagen
from vlib.core import Report

IMPORTS = ("From Coq Require Import PrimFloat.\nFrom Ckl Require Import Prelude.PyPrelude Prelude.Enc Model.Values Model.Containers "
           "Model.Sorting Model.Arith Model.EncVal.\n"
           "Definition lt_of (a b : dval) : bool := match vlt a b with Some true => true | _ => false end.\n"
           "Definition key0 (v : dval) : dval := match v with DList (k :: _) => k | _ => v end.\n"
           "Definition cmpz (a b : dval) : Z := match vcompare a b with Some z => z | None => 99 end.\n")

STRS = datagen.STRS + ["a c", "a&", "a!", "aa", "ab ", "~", "\n", "a\n", "B", "é!", "z"]


def kinds_pool(rnd, tier):
    pools = {
        "num": list(datagen.INTS) + list(datagen.DECS) + [2 ** 53 - 1, 2 ** 53 + 2, -0.5, 1e300, 5e-324],
        "str": list(STRS),
        "bool": [True, False],
        "date": [datagen.date_val(d) for d in datagen.DATES],
        "pat": [gal.Pat(p) for p in datagen.PATS],
    }
    lists = []
    for k in ("num", "str", "bool"):
        p = pools[k]
        for _ in range(40 if tier != "thorough" else 200):
            lists.append([rnd.choice(p) for _ in range(rnd.choice([0, 1, 1, 2, 2, 3]))])
    nested = [[rnd.choice(lists[:40]) for _ in range(rnd.choice([1, 2]))] for _ in range(25)]
    pools["list-num"] = [l for l in lists[:40 if tier != "thorough" else 200]]
    pools["list-str"] = lists[40 if tier != "thorough" else 200: 80 if tier != "thorough" else 400]
    pools["list-list-num"] = nested
    return pools


def py_cmp(a, b):
    """reference: the stated order on same-kind representations"""
    if isinstance(a, list):
        for x, y in zip(a, b):
            if not datagen.py_eq(x, y):
                return py_cmp(x, y)
        return (len(a) > len(b)) - (len(a) < len(b))
    if isinstance(a, gal.Date):
        a, b = int(a), int(b)
    if isinstance(a, (gal.Pat, str)):
        a, b = [ord(c) for c in a], [ord(c) for c in b]
    return (a > b) - (a < b)


def api_ops(a, b):
    try:
        lt, le, gt, ge = a < b, a <= b, a > b, a >= b
        return [int(bool(lt)), int(bool(le)), int(bool(gt)), int(bool(ge)), int(bool(a == b))]
    except Exception as e:
        return ["host:" + type(e).__name__]


def main(tier, seed, replay=None):
    rep = Report("C07", tier, seed)
    core.setup_impl_path()
    from vlib import impl
    rnd = core.rng(seed, "C07")
    rep.rule = ("all pairs (and sampled triples) of same-kind values: ints and decimals mixed (around 2^53, 2^63, subnormal, 1e300), strings "
                "over an alphabet with characters below and above the quote and the backslash, booleans, dates, patterns, lists and nested lists of "
                "these; sorted() on lists of length <= 7 with duplicate keys, with and without key and cmp; set and map-key enumeration; min/max; "
                "distinct by canonical text; non-trivial when the two values differ")
    rep.trusted += ["coq/Model/Values.v (vlt/veq and the total_ordering derivations) and Model/Sorting.v (insertion sort of FuncSorted) are hand "
                    "models: faithful only as far as the correspondence run shows",
                    "the order of values of different kinds (rendered-text comparison in the code) is outside the property and not modelled"]
    if replay:
        return do_replay(rep, replay, impl)
    ok = core.standard_coq(rep, ["Proofs/OrdProofs.vo", "Proofs/SortProofs.vo", "Model/EncVal.vo"], "Props/C07.v")
    pools = kinds_pool(rnd, tier)
    I = impl.new_interpreter(False, False)
    # ---- pairs: model vs implementation vs reference -------------------
    cases = []
    for k, p in pools.items():
        prs = [(a, b) for a in p for b in p]
        if len(prs) > (1200 if tier != "thorough" else 20000):
            prs = rnd.sample(prs, 1200 if tier != "thorough" else 20000)
        cases += [(k, a, b) for a, b in prs]
    if ok:
        evals = []
        per = 100
        for i in range(0, len(cases), per):
            ch = cases[i:i + per]
            evals.append("map (fun p => [enc_ob (vlt (fst p) (snd p)); enc_ob (vle (fst p) (snd p)); enc_ob (vgt (fst p) (snd p)); "
                         "enc_ob (vge (fst p) (snd p)); [if veq (fst p) (snd p) then 1 else 0]; enc_oz (vcompare (fst p) (snd p))]) [%s]"
                         % "; ".join("(%s, %s)" % (gal.dval(a), gal.dval(b)) for _, a, b in ch))
        # results are list (list (list Z)): flatten one level in Coq
        evals = ["map (fun r => concat r) (%s)" % e for e in evals]
        ok2, blocks, err = core.coq_eval_many("c07", IMPORTS, evals, per_file=6, timeout=900)
        rep.checker_cmds.append("coqc .work/c07_*.v (vm_compute of vlt/vle/vgt/vge/veq/vcompare and sorted on the generated cases)")
        if not ok2:
            rep.oblige("correspondence: model evaluates", False, err)
        else:
            got = [x for b in blocks for x in b]
            dis = 0
            for (k, a, b), m in zip(cases, got):
                ia, ib = datagen.to_impl(a), datagen.to_impl(b)
                iv = api_ops(ia, ib)
                c = py_cmp(a, b)
                e = datagen.py_eq(a, b)
                ref = [int(c < 0), int(c < 0 or e), int(c > 0 and not e), int(not c < 0), int(e)]
                mv = list(m[:5])
                mc = m[6] if m[5] == 0 else None
                rep.count()
                if not e:
                    rep.nontriv((datagen.canon(a), datagen.canon(b)))
                prog = "def a = %s; def b = %s; [a < b, a <= b, a > b, a >= b, a == b, compare(a, b)]" % (gal.src(a), gal.src(b))
                if iv != mv or mv != ref:
                    dis += 1
                    rep.violation("input", "%s: implementation [<,<=,>,>=,==] = %s, model %s, stated order %s" % (prog, iv, mv, ref),
                                  check="pair", program=prog,
                                  want="(list %s (i %d))" % (" ".join("(b %d)" % x for x in ref), (-1 if c < 0 else (0 if e else 1))))
                elif rnd.random() < 0.15:
                    out = impl.run_src(I, prog)
                    want = "(list %s (i %d))" % (" ".join("(b %d)" % x for x in ref), (-1 if c < 0 else (0 if e else 1)))
                    if out != ("val", want) or mc != (-1 if c < 0 else (0 if e else 1)):
                        dis += 1
                        rep.violation("input", "%s gives %s, stated order gives %s (model compare %s)" % (prog, out, want, mc), check="pair",
                                      program=prog, want=want)
            rep.oblige("correspondence: < <= > >= == compare agree with the model and the stated order on %d same-kind pairs" % len(cases),
                       dis == 0, "%d disagreements" % dis)
            rep.sample({"kind": "pair", "program": "def a = %s; def b = %s; [a < b, ...]" % (gal.src(cases[7][1]), gal.src(cases[7][2])), "model": got[7]})
    # ---- sorted ------------------------------------------------------------
    sort_cases = []
    ns = 250 if tier != "thorough" else 3000
    for _ in range(ns):
        k = rnd.choice(["num", "str", "num", "list-num"])
        p = pools[k]
        n = rnd.randint(0, 7)
        keys = [rnd.choice(p) for _ in range(rnd.choice([1, 2, 3, 3]))]
        items = [[rnd.choice(keys), i] for i in range(n)]    # [key, distinguishing tag]
        mode = rnd.choice(["plain", "key", "key", "cmp", "keycmp"])
        sort_cases.append((mode, items))
    if ok:
        evals = []
        for mode, items in sort_cases:
            l = "[%s]" % "; ".join(gal.dval(x) for x in items)
            if mode == "plain":
                e = "sorted lt_of %s" % l
            elif mode == "key":
                e = "sorted (fun x y => lt_of (key0 x) (key0 y)) %s" % l
            elif mode == "cmp":
                e = "sorted (fun x y => cmpz y x <? 0) %s" % l
            else:
                e = "sorted (fun x y => cmpz (key0 y) (key0 x) <? 0) %s" % l
            evals.append("[enc_dval (DList (%s))]" % e)
        ok3, blocks, err = core.coq_eval_many("c07s", IMPORTS, evals, per_file=40, timeout=900)
        if not ok3:
            rep.oblige("correspondence: sorted evaluates", False, err)
        else:
            dis = 0
            for (mode, items), b in zip(sort_cases, blocks):
                want, _ = gal.decode_dval(b[0])
                # the comparator contract is the sign of the result: the same order spelled with results of other magnitudes
                cmpf = rnd.choice(["fn(a, b) compare(b, a)", "fn(a, b) 3 * compare(b, a)", "fn(a, b) compare(b, a) * 1000000000000000000000",
                                   "fn(a, b) do def c = compare(b, a); if c < 0 then -7 elif c > 0 then 5 else 0 end", "fn(a, b) 0 - compare(a, b) * 2"])
                args = {"plain": "", "key": ", key = fn(x) x[0]", "cmp": ", cmp = " + cmpf,
                        "keycmp": ", key = fn(x) x[0], cmp = " + cmpf}[mode]
                prog = "sorted(%s%s)" % (gal.src(items), args)
                out = impl.run_src(I, prog)
                # reference: stable sort by the stated order
                if mode == "plain":
                    ref = sorted(items, key=functools.cmp_to_key(py_cmp))
                elif mode == "key":
                    ref = sorted(items, key=functools.cmp_to_key(lambda x, y: py_cmp(x[0], y[0])))
                elif mode == "cmp":
                    ref = sorted(items, key=functools.cmp_to_key(lambda x, y: py_cmp(y, x)))
                else:
                    ref = sorted(items, key=functools.cmp_to_key(lambda x, y: py_cmp(y[0], x[0])))
                rep.count()
                rep.nontriv(prog)
                if out != ("val", want) or want != datagen.canon(ref):
                    dis += 1
                    rep.violation("input", "%s gives %s, model %s, stable reference sort %s" % (prog, out, want, datagen.canon(ref)),
                                  check="sorted", program=prog, want=datagen.canon(ref))
            rep.oblige("correspondence: sorted() agrees with the model and a stable reference sort on %d lists" % len(sort_cases),
                       dis == 0, "%d disagreements" % dis)
            rep.sample({"kind": "sorted", "program": "sorted(%s, key = fn(x) x[0])" % gal.src(sort_cases[0][1]), "model": blocks[0]})
    laws(rep, rnd, tier, pools, impl, I)
    if tier == "thorough":
        core.coqchk(rep, "Ckl.Props.C07")
    return rep.finish()


def laws(rep, rnd, tier, pools, impl, I):
    n = 0
    for k, p in pools.items():
        ip = [datagen.to_impl(v) for v in p]
        for _ in range(1500 if tier != "thorough" else 15000):
            i, j, l = rnd.randrange(len(p)), rnd.randrange(len(p)), rnd.randrange(len(p))
            a, b, c = ip[i], ip[j], ip[l]
            n += 1
            try:
                bad = None
                if a < a:
                    bad = "irreflexivity: a < a"
                elif (a < b) and (b < a):
                    bad = "asymmetry: a < b and b < a"
                elif (a < b) and (b < c) and not (a < c):
                    bad = "transitivity"
                elif sum([bool(a < b), bool(a == b), bool(b < a)]) != 1:
                    bad = "trichotomy: not exactly one of a<b, a==b, b<a"
                elif bool(a <= b) != (bool(a < b) or bool(a == b)) or bool(a > b) != bool(b < a) or bool(a >= b) != (not bool(a < b)):
                    bad = "derived operators inconsistent"
            except Exception as e:
                bad = "host exception %s" % type(e).__name__
            if bad:
                rep.violation("input", "%s on a = %s, b = %s, c = %s" % (bad, gal.src(p[i]), gal.src(p[j]), gal.src(p[l])), check="law",
                              a=gal.src(p[i]), b=gal.src(p[j]), c=gal.src(p[l]), law=bad)
    # enumeration order of sets and map keys; min / max
    for _ in range(300 if tier != "thorough" else 3000):
        k = rnd.choice(["num", "str", "bool", "list-num", "date"])
        p = pools[k]
        items = datagen.mkset([rnd.choice(p) for _ in range(rnd.randint(1, 6))])
        ref = sorted(list(items), key=functools.cmp_to_key(py_cmp))
        lst = list(items)
        rnd.shuffle(lst)
        s_src = gal.src(gal.SetV(tuple(lst)))
        m_src = gal.src(gal.MapV(tuple((x, i) for i, x in enumerate(lst))))
        # every way of enumerating a set or the keys of a map: statements, comprehensions, spread, conversion
        prog = ("def s = %s; def m = %s; def l = %s; def r1 = []; for x in s do append(r1, x) end; def r2 = []; for k in keys m do append(r2, k) end; "
                "def r3 = []; for e in entries m do append(r3, e[0]) end; def r4 = []; for [k, v] in entries m do append(r4, k) end; "
                "def r5 = []; for v in values m do append(r5, v) end; def r6 = []; for v in m do append(r6, v) end; "
                "[list(s), [x for x in s], [k for k in keys m], min(l), max(l), r1, r2, r3, r4, [e[0] for e in entries m], [...s], <<x for x in s>> == s, "
                "r5, r6, [v for v in values m], [v for v in m], [[a, b] for a in keys m also for b in entries m][0][1][0], <<<k => 1 for k in keys m>>> == <<<k => 1 for k in s>>>]") % (
                    s_src, m_src, gal.src(lst))
        out = impl.run_src(I, prog)
        mn = functools.reduce(lambda x, y: y if py_cmp(y, x) < 0 else x, lst)
        mx = functools.reduce(lambda x, y: y if py_cmp(y, x) > 0 else x, lst)
        vals = [lst.index(x) for x in ref]
        want = datagen.canon([ref, ref, ref, mn, mx, ref, ref, ref, ref, ref, ref, True, vals, vals, vals, vals, ref[0], True])
        n += 1
        rep.nontriv(prog)
        if out != ("val", want):
            rep.violation("input", "%s gives %s, ascending order / min / max by the stated order give %s" % (prog, out, want),
                          check="program", program=prog, want=want)
    # min / max with a key: the element whose key is least / greatest under <, the first of several
    keyfs = [("fn(x) x * x", lambda x: x * x), ("fn(x) 0 - x", lambda x: -x), ("fn(x) x % 3", lambda x: x % 3), ("fn(x) x", lambda x: x),
             ("fn(x) [x % 2, x]", lambda x: [x % 2, x])]
    for _ in range(300 if tier != "thorough" else 3000):
        lst = [rnd.choice([-7, -2, 0, 3, 5, -3, 2, 10, -10]) for _ in range(rnd.randint(1, 6))]
        ks, kf = rnd.choice(keyfs)
        key = functools.cmp_to_key(lambda x, y: py_cmp(kf(x), kf(y)))
        prog = "[max(%s, key = %s), min(%s, key = %s)]" % (gal.src(lst), ks, gal.src(lst), ks)
        out = impl.run_src(I, prog)
        want = datagen.canon([max(lst, key=key), min(lst, key=key)])
        n += 1
        rep.nontriv(prog)
        if out != ("val", want):
            rep.violation("input", "%s gives %s, the elements with the greatest / least key are %s" % (prog, out, want), check="minmax-key", program=prog, want=want)
    # sorted with a key that tells apart elements that are equal under == (1 / 1.0, [1] / [1.0]): ordered by the keys, stable
    pool2 = ["1", "1.0", "2", "2.0", "[1]", "[1.0]", "0", "0.0", "'1'", "3"]
    keyfs2 = ["fn(x) string(x)", "fn(x) type(x)", "fn(x) [type(x) == 'decimal', x]", "fn(x) if type(x) == 'decimal' then 100 else 0", "fn(x) length(string(x))"]
    for _ in range(200 if tier != "thorough" else 2000):
        items = [rnd.choice(pool2) for _ in range(rnd.randint(2, 6))]
        ks = rnd.choice(keyfs2)
        lst = "[" + ", ".join(items) + "]"
        # the keys, one element at a time, through the interpreter; then: the result is the stable arrangement of the indices by key
        prog = ("def l = %s; def k = %s; def ks = [k(x) for x in l]; def r = sorted(l, key = k); def kr = [k(x) for x in r]; "
                "def ordered = TRUE; for i in range(length(kr) - 1) do if kr[i + 1] < kr[i] then ordered = FALSE end; "
                "def idx = sorted(range(length(l)), key = fn(i) [ks[i], i]); [ordered, [string(x) for x in r] == [string(l[i]) for i in idx]]") % (lst, ks)
        out = impl.run_src(I, prog)
        n += 1
        rep.nontriv(prog)
        if out != ("val", "(list (b 1) (b 1))"):
            rep.violation("input", "%s gives %s: sorted with a key is not the stable arrangement by key" % (prog, out[:2]), check="sorted-key-kinds", program=prog, want="(list (b 1) (b 1))")
    # NaN (recorded finding C07-F3: a NaN decimal is neither less than, equal to nor greater than a number)
    prog = "def n = decimal('nan'); [n < 1 or n == 1 or 1 < n, n > 1 and 1 > n]"
    out = impl.run_src(I, prog)
    n += 1
    if out != ("val", "(list (b 1) (b 0))"):
        rep.violation("input", "%s gives %s" % (prog, out), check="nan", program=prog, want="(list (b 1) (b 0))")
    rep.count(n)
    rep.cov["law_cases"] = n


def do_replay(rep, path, impl):
    import json
    body = json.load(open(path))
    rep.no_evidence = True
    I = impl.new_interpreter(False, False)
    n = 0
    for v in body.get("violations", []):
        prog = v.get("program")
        if v.get("check") == "law":
            prog = "def a = %s; def b = %s; def c = %s; [a < a, a < b, b < a, b < c, a < c, a == b, a <= b, a > b, a >= b]" % (v["a"], v["b"], v["c"])
            out = impl.run_src(I, prog)
            print("RECORDED LAW CASE (%s): %s gives %s" % (v["law"], prog, out))
            continue
        if not prog:
            continue
        out = impl.run_src(I, prog)
        if out != ("val", v["want"]):
            print("REPRODUCED: %s gives %s, want %s" % (prog, out, v["want"]))
            rep.violation("input", "%s gives %s" % (prog, out), check=v.get("check"), program=prog, want=v["want"])
            n += 1
        rep.count()
    if not n:
        print("replay: nothing reproduced")
    rep.oblige("replay ran", True)
    return rep.finish()
