"""C01 - parsing is total: every text yields a program or a syntax error (message + position); no host exception,
no hang, deterministic.
Deciding method: the scanner half is a theorem about the scanner step regenerated from Lexer.scan on every run
(coq/Props/C01.v: every text yields tokens or a lexical error within 3 steps per character), T-correspondence of
that step with Lexer.scan; the parser half (no Gallina model of the 1600-line recursive-descent parser: labelled
partial) is decided by enumeration over the property's quantifier on the implementation."""
import ast
import json
import multiprocessing
import os

from checks import lexcheck
from vlib import core, lexrender, progen
from vlib.core import Report

LITERALS = ["//a{99999999999999999999}//", "//(?P<n>a)(?P<n>b)//", "//a**//", "x", "y1", "_", "self", "class", "xor", "checkerlang_x", "12", "0", "0x1f", "0x", "0xg", "0b101", "0b", "0b2", "1_0", "1__0", "2.5", "1e3", "1e", "1.e", ".5",
            "'s'", "\"d\"", "'a\\nb'", "'\\x41'", "'\\xZZ'", "'\\x4'", "'\\q'", "'unterminated", "//a+//", "//[//", "//(//", "//unterminated", "TRUE", "FALSE", "NULL",
            "(", ")", "[", "]", ",", ";", "<<", ">>", "<<<", ">>>", "<*", "*>", "=>", "...", ":", ".", "!", "&", "|", "@", "$", "?", "\\", "`", "{", "}", "~", "^"]
NOISE = list(" \t\n\r()[]<>*=+-/%!.,;:#'\"\\_xX0123456789abefnNdioTR") + ["//", "<<<", ">>>", "0x", "0b", "\\x", "def ", "fn", " is ", " in ", "do ", " end", "é", " ", "\x00"]


def alphabet():
    """keywords and operators of the lexer, every short word the parser compares a token with (read from the source), literals"""
    from ckl import lexer
    words = set(lexer.KEYWORDS) | set(lexer.OPERATORS)
    tree = ast.parse(open(os.path.join(core.SRC, "ckl", "parser.py")).read())
    for n in ast.walk(tree):
        if isinstance(n, ast.Constant) and isinstance(n.value, str) and 0 < len(n.value) <= 14 and " " not in n.value and n.value.isprintable():
            words.add(n.value)
    return sorted(words | set(LITERALS))


def spaced(tokens):
    return " ".join(tokens)


def token_texts(src):
    """the source texts of the tokens of a program (by position), so that a re-joined text lexes to the same tokens"""
    toks = lexrender.real_tokens(src)
    out = []
    for v, ty, _, _ in toks:
        out.append(lexrender.spell(v, ty, None, literal_spelling=False))
    return out


def depth_ok(text):
    d = m = 0
    for c in text:
        if c in "([<":
            d += 1
            m = max(m, d)
        elif c in ")]>":
            d = max(0, d - 1)
    return m <= 40


def main(tier, seed, replay=None):
    rep = Report("C01", tier, seed)
    core.setup_impl_path()
    rnd = core.rng(seed, "C01")
    from tools import c01worker
    if replay:
        rep.no_evidence = True
        r = json.load(open(replay))
        for v in r.get("violations", []):
            t = v.get("text")
            if t is not None:
                print("replay %r -> %s" % (t, c01worker.run_chunk([t])[0]))
        rep.oblige("replay printed", True)
        return rep.finish()
    rep.rule = ("grammatical programs (the tests' parseable texts, a hand-written list covering every statement form, generated programs): every "
                "character prefix (short programs) and token prefix, every single-token deletion, single-token insertion and substitution over the token "
                "alphabet (keywords, operators, every word parser.py compares a token with, literals incl. malformed hex/binary/escape/pattern forms); "
                "random token sequences of length <= 12; raw character noise; nesting depth <= 40; each text parsed twice; distinct by text")
    rep.trusted += ["tools/translate/lexer_gen.py (fail-closed symbolic execution of the scanner loop body)",
                    "the parser is not modelled: its totality rests on the enumeration (partial)"]
    ok = core.standard_coq(rep, lexcheck.TARGETS, "Props/C01.v", regen=lexcheck.regen)
    alpha = alphabet()
    big = tier == "thorough"
    progs = json.load(open(os.path.join(core.VERIF, "corpus", "grammar_programs.json")))
    for _ in range(60 if not big else 400):
        progs.append(progen.generate(rnd, "mix", 300)[0])
    texts = set()
    classes = {"prefix-char": 0, "prefix-token": 0, "delete": 0, "insert": 0, "substitute": 0, "random-tokens": 0, "noise": 0, "grammatical": 0}

    def add(t, cls):
        if t not in texts and depth_ok(t):
            texts.add(t)
            classes[cls] += 1
    for p in progs:
        add(p, "grammatical")
        try:
            tt = token_texts(p)
        except Exception:
            continue
        if len(p) <= 120 or big:
            for i in range(len(p)):
                add(p[:i], "prefix-char")
        for i in range(len(tt)):
            add(spaced(tt[:i]), "prefix-token")
            add(spaced(tt[:i] + tt[i + 1:]), "delete")
        n_edit = (6 if len(tt) > 25 else 25) if not big else 80
        for i in range(len(tt) + 1):
            for a in rnd.sample(alpha, min(n_edit, len(alpha))):
                add(spaced(tt[:i] + [a] + tt[i:]), "insert")
                if i < len(tt):
                    add(spaced(tt[:i] + [a] + tt[i + 1:]), "substitute")
    # exhaustive insertion/substitution over the whole alphabet on the short programs
    short = [p for p in progs if len(p) <= 40][: (60 if not big else 400)]
    for p in short:
        tt = token_texts(p)
        for i in range(len(tt) + 1):
            for a in alpha:
                add(spaced(tt[:i] + [a] + tt[i:]), "insert")
                if i < len(tt):
                    add(spaced(tt[:i] + [a] + tt[i + 1:]), "substitute")
    for a in alpha:                      # all sequences of length 1 and 2 over the alphabet
        add(a, "random-tokens")
        for b in alpha:
            add(a + " " + b, "random-tokens")
    for _ in range(40000 if not big else 400000):
        add(spaced([rnd.choice(alpha) for _ in range(rnd.randint(3, 12))]), "random-tokens")
    for _ in range(20000 if not big else 200000):
        add("".join(rnd.choice(NOISE) for _ in range(rnd.randint(1, 30))), "noise")
    classes["long"] = 0
    for n in (100, 4300, 4301, 5000, 20000):      # literals beyond the host's conversion limits
        for t in ("1" * n, "0x" + "f" * n, "0b" + "1" * n, "1." + "1" * n, "1" * n + ".5", "'" + "a" * n + "'", "x" * n, "1_" * n + "1",
                  "//a{" + "9" * (n // 100) + "}//", "//" + "(" * (n // 10) + ")" * (n // 10) + "//", "#" * n, " " * n + "1", "- " * (n // 400) + "1"):
            texts.add(t)
            classes["long"] += 1
    texts = sorted(texts)
    rnd.shuffle(texts)
    chunks = [texts[i:i + 400] for i in range(0, len(texts), 400)]
    with multiprocessing.Pool(16, maxtasksperchild=20) as pool:
        res = pool.map_async(c01worker.run_chunk, chunks).get(timeout=3000)
    kinds = {}
    bad = 0
    msgs = set()
    for ch, rs in zip(chunks, res):
        for t, r in zip(ch, rs):
            rep.count()
            kinds[r[0]] = kinds.get(r[0], 0) + 1
            if r[0] == "syntax":
                msgs.add(r[1].split("'")[0][:40])
            if r[0] not in ("node", "syntax"):
                bad += 1
                rep.violation("input", "parsing %r: %s" % (t, " ".join(str(x) for x in r)), check="parse", text=t, outcome=r[0],
                              detail=" ".join(str(x) for x in r[1:]))
    rep.nontriv_extra = None
    for m in msgs:
        rep.nontriv(m)
    rep.sample({"classes": classes, "outcomes": kinds, "alphabet": len(alpha), "distinct syntax messages": len(msgs)})
    rep.oblige("%d texts (%s): each yields a program or a syntax error with message and position, twice the same; no host exception, no hang" % (
        len(texts), ", ".join("%s %d" % kv for kv in sorted(classes.items()))), bad == 0, "%d other outcomes: %s" % (bad, kinds))
    rep.oblige("both outcomes occur in number (programs %d, syntax errors %d)" % (kinds.get("node", 0), kinds.get("syntax", 0)),
               kinds.get("node", 0) > 1000 and kinds.get("syntax", 0) > 1000)
    if ok:
        lexcheck.t_correspondence(rep, [t for t in texts if len(t) <= 60][:600], "c01")
    if big:
        core.coqchk(rep, "Ckl.Props.C01")
    return rep.finish()
