"""Shared machinery of the evaluator-based checks (C03, C04, C05, C16): the proof side, then a
correspondence run of the model evaluator (Model/Eval.v, vm_compute) against the implementation
on generated programs (the real parser's tree is converted by tools/ast2model.py), corpus first."""
import os

from vlib import core, gal, evalrun, progen
from vlib.core import Report

TARGETS = ["Proofs/EvalProofs.vo", "Proofs/NativeFrame.vo", "Proofs/ArgsProofs.vo", "Model/EncEval.vo"]


def corpus():
    p = os.path.join(core.VERIF, "corpus", "eval_programs.txt")
    return [l.rstrip("\n") for l in open(p) if l.strip()]


def correspondence(rep, rnd, profile, n, extra_programs=()):
    progs = corpus() + list(extra_programs)
    feats = {}
    for _ in range(n):
        src, f = progen.generate(rnd, profile)
        progs.append(src)
        for x in f:
            feats[x] = feats.get(x, 0) + 1
    try:
        ok, err, mres = evalrun.run_model(progs, tag=rep.prop.lower())
    except Exception as e:   # ast2model fails closed on unknown node classes / fields
        rep.oblige("correspondence: the real parser's trees convert to the model AST", False, repr(e))
        return
    rep.checker_cmds.append("coqc .work/%s_*.v (vm_compute of Model/Eval.v run_program on the converted trees)" % rep.prop.lower())
    if not ok:
        rep.oblige("correspondence: model evaluator runs", False, err)
        return
    ires = evalrun.run_impl(progs)
    dis = skipped = 0
    kinds = {}
    for p, m, i in zip(progs, mres, ires):
        rep.count()
        if m == ("unmodelled",):
            skipped += 1
            continue
        kinds[i[0]] = kinds.get(i[0], 0) + 1
        if len(p) > 60:
            rep.nontriv(p)
        if m != i:
            dis += 1
            rep.violation("input", "program %s: implementation %s, model evaluator %s" % (p, i, m), check="program",
                          program=p, want=list(m))
    rep.oblige("correspondence: %d programs agree with the model evaluator (%d outside the modelled fragment skipped)" % (
        len(progs) - skipped, skipped), dis == 0, "%d disagreements" % dis)
    rep.cov["programs"] = len(progs)
    rep.cov["skipped_unmodelled"] = skipped
    rep.cov["outcome_kinds"] = kinds
    rep.cov["generator_features"] = dict(sorted(feats.items()))
    rep.sample({"program": progs[len(corpus()) + 1] if len(progs) > len(corpus()) + 1 else progs[0],
                "model": list(mres[len(corpus()) + 1] if len(progs) > len(corpus()) + 1 else mres[0])})
    rep.sample({"program": progs[3], "model": list(mres[3])})


def programs_oracle(rep, impl_mod, cases, check="oracle"):
    """cases: (program, wanted canonical value text) evaluated on the implementation only"""
    I = impl_mod.new_interpreter(False, False)
    n = 0
    for prog, want in cases:
        I.environment = I.base_environment.newEnv()
        out = impl_mod.run_src(I, prog)
        n += 1
        rep.nontriv(prog)
        if out[:2] != ("val", want):
            rep.violation("input", "%s gives %s, expected %s" % (prog, out[:2], want), check=check, program=prog, want=want)
    rep.count(n)
    return n


def do_replay(rep, path):
    import json
    from vlib import impl
    body = json.load(open(path))
    rep.no_evidence = True
    n = 0
    for v in body.get("violations", []):
        prog = v.get("program")
        if not prog:
            continue
        I = impl.new_interpreter(False, False)
        out = impl.run_src(I, prog)
        if v.get("check") == "program":
            got = list(gal.impl_result(out))
            if got != list(v["want"]):
                print("REPRODUCED: %s gives %s, model evaluator says %s" % (prog, got, v["want"]))
                rep.violation("input", "%s gives %s" % (prog, got), check="program", program=prog, want=v["want"])
                n += 1
        else:
            if out[:2] != ("val", v["want"]):
                print("REPRODUCED: %s gives %s, expected %s" % (prog, out[:2], v["want"]))
                rep.violation("input", "%s gives %s" % (prog, out[:2]), check=v.get("check"), program=prog, want=v["want"])
                n += 1
        rep.count()
    if not n:
        print("replay: nothing reproduced")
    rep.oblige("replay ran", True)
    return rep.finish()


def run(prop, profile, props_file, tier, seed, replay, rule, trusted, oracle=None, n_quick=500, n_thorough=6000):
    rep = Report(prop, tier, seed)
    core.setup_impl_path()
    from vlib import impl
    rnd = core.rng(seed, prop)
    rep.rule = rule
    rep.trusted += ["coq/Model/Eval.v is a hand model of the evaluator for a core fragment (listed in DESIGN.md): faithful only as far as the "
                    "correspondence run shows; programs outside the fragment are skipped and counted",
                    "tools/ast2model.py (fails closed on unknown node classes and fields)"] + list(trusted)
    if replay:
        return do_replay(rep, replay)
    ok = core.standard_coq(rep, TARGETS, props_file)
    if ok:
        correspondence(rep, rnd, profile, n_quick if tier != "thorough" else n_thorough)
    if oracle:
        oracle(rep, rnd, tier, impl)
    if tier == "thorough":
        core.coqchk(rep, "Ckl.Props." + prop)
    return rep.finish()
