"""C11 - require binds exactly the requested names and evaluates each module once.
Deciding method: theorems in coq/Props/C11.v about the module loader of Model/Session.v (completed loads = cached modules,
each once; nothing on the load stack is loaded again underneath; a require changes only the names it introduces; private
names are never exported), tied to NodeRequire.evaluate by a correspondence run on generated module graphs written to
disk (up to 5 modules, public and private definitions, nested requires of every form, missing / failing / unparsable /
cyclic dependencies) and importer histories using every import form in random order and repetition; the interpreter's
scope, load log (how often each module's top-level code started), cache and module state are compared with the model."""
from checks import sesscheck
from vlib import core
from vlib.core import Report


def main(tier, seed, replay=None):
    rep = Report("C11", tier, seed)
    core.setup_impl_path()
    rnd = core.rng(seed, "C11")
    big = tier == "thorough"
    rep.rule = ("random module graphs of 1..5 modules (0..5 statements each: public / private definitions, nested require of every form, failing statement; a third of the "
                "graphs cyclic, some modules unparsable or missing) x importer histories of 3..14 commands: require in the forms M, M as X, M import [a, b as c, _private], "
                "M unqualified, repeated and in random order, member reads, calls into the shared module state, reads of every public and private name; plus the implementation "
                "facts the model abstracts: module code cannot see the importer's variables, ls() of the scope before/after; distinct by (graph, history)")
    rep.trusted += ["hand model Model/Session.v of the module loader, faithful as far as the correspondence run shows",
                    "module search path, file reading and parsing of module sources are not modelled (the run uses real files)"]
    if replay:
        rep.no_evidence = True
        rep.oblige("replay: re-run the check (cases are regenerated from the seed)", True)
        return rep.finish()
    ok = core.standard_coq(rep, sesscheck.TARGETS, "Props/C11.v")
    if not ok:
        return rep.finish()
    cases = []
    n = 900 if not big else 9000
    for _ in range(n):
        prog = sesscheck.gen_program(rnd)
        mods = list(prog)
        h = []
        for _ in range(rnd.randint(3, 14)):
            inst = rnd.random() < 0.15
            k = rnd.random()
            if k < 0.5:
                c = ("req", sesscheck.gen_form(rnd), rnd.choice(mods + mods + [6]))
            elif k < 0.62:
                c = ("read", rnd.choice(sesscheck.PUB + sesscheck.PRIV + sesscheck.ALIASES + [1000 + m for m in mods]))
            elif k < 0.78:
                c = ("member", rnd.choice([1000 + m for m in mods] + sesscheck.ALIASES), rnd.choice(sesscheck.PUB + sesscheck.PRIV))
            elif k < 0.92:
                c = (rnd.choice(["bump", "cell"]), rnd.choice([1000 + m for m in mods] + sesscheck.ALIASES))
            else:
                c = ("def", rnd.choice(sesscheck.PUB + sesscheck.ALIASES), rnd.randint(0, 9))
            h.append((inst, c))
        cases.append((prog, h))
        rep.nontriv(repr((sorted(prog.items()), h)))
    rep.sample({"modules": sesscheck.program_coq(cases[-1][0])[:300], "history": [sesscheck.cmd_src(c) for _, c in cases[-1][1]]})
    sesscheck.correspondence(rep, cases, "c11", per_file=60, repeat_failures=False)
    # ---- facts below the model's abstraction, on the implementation
    import os
    import shutil
    import tempfile
    from vlib import impl
    from ckl.values import ValueList, ValueString
    from ckl.errors import CklRuntimeError
    d = tempfile.mkdtemp(prefix="c11_", dir=core.WORK)
    bad = []
    try:
        open(os.path.join(d, "c11peek.ckl"), "w").write("def seen = do importer_secret catch all 0 end;\ndef peek() do do importer_secret catch all 0 end end;\n")
        open(os.path.join(d, "c11ctr.ckl"), "w").write("append(loadlog, 1);\ndef _hidden = 1;\ndef shown = 2;\ndef f() do _hidden + shown end;\n")
        open(os.path.join(d, "c11user.ckl"), "w").write("require c11ctr;\ndef g() do c11ctr->f() end;\n")
        I = impl.new_interpreter(False, False)
        I.base_environment.put("checkerlang_module_path", ValueList().addItem(ValueString(d)))
        log = ValueList()
        I.base_environment.put("loadlog", log)

        def ev(src):
            try:
                return str(I.interpret(src, "imp"))
            except CklRuntimeError as e:
                return "ERR " + str(e)[:60]
        rep.count(8)
        if ev("def importer_secret = 42; require c11peek; [c11peek->seen, c11peek->peek()]") != "[0, 0]":
            bad.append("module code sees the importer's variable")
        before = set(I.environment.map)
        ev("require c11ctr; require c11user; require c11ctr as again; require c11ctr import [shown as s2]; require c11user unqualified")
        after = set(I.environment.map)
        if after - before != {"c11ctr", "c11user", "again", "s2", "g"}:
            bad.append("names bound by the requires: %s" % sorted(after - before))
        # an import list names what the MODULE defines: names of the base environment, unknown names and private names bind nothing
        b2 = set(I.environment.map)
        ev("require c11ctr import [shown as s3, length as len2, sprintf, nosuchthing as nst, _hidden as hid, MAXINT as mx, f]")
        a2 = set(I.environment.map)
        if a2 - b2 != {"s3", "f"}:
            bad.append("import list bound %s, the module defines only shown and f of the listed names" % sorted(a2 - b2))
        for nm in ("s3", "f"):
            I.environment.map.pop(nm, None)
        # one require statement evaluated several times with a module spec that changes (a loop over names, a helper function)
        J = impl.new_interpreter(False, False)
        J.base_environment.put("checkerlang_module_path", ValueList().addItem(ValueString(d)))
        J.base_environment.put("loadlog", ValueList())
        try:
            J.interpret("for mname in ['c11ctr', 'c11user', 'c11peek'] do require mname end", "imp")
            got = {k: sorted(m for m in v.value if not m.startswith("_")) for k, v in J.environment.map.items() if k.startswith("c11")}
        except CklRuntimeError as e:
            got = "ERR " + str(e)[:80]
        rep.count()
        if got != {"c11ctr": ["f", "shown"], "c11user": ["g"], "c11peek": ["peek", "seen"]}:
            bad.append("for mname in [..] do require mname end bound %s" % (got,))
        if [x.value for x in log.value] != [1]:
            bad.append("c11ctr ran %d times" % len(log.value))
        if ev("[c11ctr->shown, c11ctr->f(), again->f(), g(), s2]") != "[2, 3, 3, 3, 2]":
            bad.append("module members: " + ev("[c11ctr->shown, c11ctr->f(), again->f(), g(), s2]"))
        if not ev("c11ctr->_hidden").startswith(("ERR", "NULL")):
            bad.append("private member readable: " + ev("c11ctr->_hidden"))
        if "_hidden" in I.environment.map or ev("do _hidden catch all 'undefined' end") != "'undefined'":
            bad.append("private name bound")
    finally:
        shutil.rmtree(d, ignore_errors=True)
    for b in bad:
        rep.violation("input", b, check="hygiene")
    rep.oblige("module code cannot see the importer's variables; the requires bind exactly {module, alias, listed alias, public names}; one evaluation for five requires; "
               "private names neither bound nor readable", not bad, "; ".join(bad))
    if big:
        core.coqchk(rep, "Ckl.Props.C11")
    return rep.finish()
