"""C13 - only language-level errors escape evaluation.
Deciding method: theorems in coq/Props/C13.v over the model (the kernels and natives of the modelled fragment
return a value or the language's error, never a host exception, and terminate: they are structural or fuelled with
proved-sufficient fuel), tied to the code by the evaluator correspondence, plus the exhaustive enumeration of the
quantifier on the implementation: every syntactic operator / indexing / iteration / spread / destructuring form and
every function of the base environment (legacy and non-legacy) and of the bundled modules, applied to all argument
tuples (arity <= 2 exhaustive, arity 3 sampled; thorough: all) from a pool of 24 values, each call under a
2 s wall-clock bound in a throw-away directory."""
import itertools
import multiprocessing
import os

from checks import evalcheck
from vlib import core
from vlib.core import Report

POOL = ["NULL", "TRUE", "FALSE", "0", "1", "(-1)", "7", "0.0", "2.5", "(-1.5)", "''", "'abc'", "'a b'", "'1'", "[]", "[1, 2]", "['a', 'b']",
        "<<>>", "<<1, 2>>", "<<<>>>", "<<<'a' => 1>>>", "<**>", "<*x = 1*>", "fn(x) x", "//a.*//", "date('20200131')",
        # values whose rendering is long (error messages and stack traces abbreviate them)
        "'" + "long string " * 6 + "'", "['the first long element', 'the second long element', 'the third long element']",
        "<<< " + ", ".join("'key%d' => %d" % (i, i) for i in range(20)) + " >>>",
        # collections with repeated elements (fewer distinct elements than elements), and a count between the two
        "[1, 1]", "[1, 1, 1, 1, 1, 1, 1]", "'aaaaaaa'", "2",

        # objects that say how they are rendered - also when that fails
        "<*_str_ = fn(self) 'OBJ'*>", "<*_str_ = fn(self) error 'S'*>", "<*_str_ = fn(self) 5*>", "<*_str_ = 5*>"]
PRELUDE = ""
# cyclic (self-containing) data is not part of the pool: rendering, hashing and comparing it recurses without bound
# (recorded finding C13-F11, probed by one program below)
CYCLIC_PROBE = "def l = [1]; append(l, l); do <<<1 => 2>>>[l] catch all 'caught' end"
# never called: they act on the real process / terminal rather than on values
EXCLUDE = {"run", "exit", "execute", "bind_native", "process_lines", "readln", "read", "read_all", "timestamp"}

FORMS2 = ["$a + $b", "$a - $b", "$a * $b", "$a / $b", "$a % $b", "$a == $b", "$a != $b", "$a < $b", "$a <= $b", "$a > $b", "$a >= $b",
          "$a and $b", "$a or $b", "$a in $b", "$a not in $b", "$a is not in $b", "$a[$b]", "$a[$b to *]", "$a[0 to $b]", "$a[$b, 0]",
          "def c = $a; c[$b] = 1; c", "def c = $a; c[$b] += 1; c", "def c = $a; c += $b; c", "def c = $a; c -= $b; c", "def c = $a; c->x = $b; c",
          "[x for x in $a for y in $b]", "[[x, y] for x in $a also for y in $b]", "do error $a catch $b 1 end", "$a !> add($b)",
          "$a starts with $b", "$a ends with $b", "$a contains $b", "$a matches $b", "def f(p, q = $b) p; f($a)", "<<< $a => $b >>>", "<< $a, $b >>",
          "def f(p...) p...; f($a, ...$b)", "if $a then $b", "$a < $b < $a"]
FORMS1 = ["not $a", "-$a", "$a is empty", "$a is not empty", "$a is zero", "$a is negative", "$a is numerical", "$a is alphanumerical",
          "$a is date", "$a is date with hour", "$a is time", "$a is string", "$a is not list", "for x in $a do x end", "for [x, y] in $a do x end",
          "for x in keys $a do x end", "for x in entries $a do x end", "[x for x in $a]", "<<x for x in $a>>", "<<<x => x for x in $a>>>",
          "[x for x in keys $a]", "[x for x in entries $a]", "def c = $a; [...c]", "def c = $a; def f(p...) p...; f(...c)", "def [p, q] = $a; [p, q]",
          "def p = 0; def q = 0; [p, q] = $a; [p, q]", "$a->x", "$a->m()", "$a !> string()", "if $a then 1", "def n = 0; while $a do n += 1; if n > 2 then break end",
          "error $a", "do error $a catch $a 1 end", "for [x, x] in [$a] do x end", "def [p, p] = $a; p", "$a in [$a]", "[stdout, $a] == [stdout, $a]",
          "stdout in [$a, stdout]", "<<<stdout => $a>>>[stdout]", "<<stdin, $a>>", "$a()", "$a(1)", "def c = $a; c[0]", "def c = $a; c[-1]", "string($a) + $a", "require $a",
          "def o = <*_proto_ = $a*>; o->x", "def o = <*_proto_ = $a*>; o->m()", "return $a", "[$a]", "eval(string($a))"]
FORMS3 = ["$a[$b to $c]", "def c = $a; c[$b] = $c; c", "$a[$b, $c]", "if $a then $b else $c", "def c = $a; c[$b] += $c; c", "$a < $b <= $c"]


def function_names():
    core.setup_impl_path()
    from vlib import impl
    from ckl import values as V
    names = {}
    for legacy in (True, False):
        I = impl.new_interpreter(False, legacy)
        for s in I.environment.getSymbols():
            v = I.environment.get(s)
            if isinstance(v, V.ValueFunc):
                names.setdefault(s, s)
    # members of the bundled modules that are not bound unqualified
    I = impl.new_interpreter(False, False)
    for mod in I.interpret("checkerlang_modules", "t").value:
        m = mod.value
        I.interpret("require %s" % m, "t")
        obj = I.environment.get(m)
        for k, v in obj.value.items():
            if isinstance(v, V.ValueFunc) and k not in names:
                names[k] = "%s->%s" % (m, k)
    return {k: v for k, v in sorted(names.items()) if k not in EXCLUDE}


def build(tier, rnd):
    fns = function_names()
    cases = []   # (target, program, legacy)
    P = POOL
    for name, call in fns.items():
        pre = "" if "->" not in call else "require %s; " % call.split("->")[0]
        legacy = "->" not in call
        cases.append((name, pre + "%s()" % call, legacy))
        for a in P:
            cases.append((name, pre + "%s(%s)" % (call, a), legacy))
            # the error a native raises must be a value of the language: handlers compare it with values of several kinds
            cases.append((name, pre + "do %s(%s) catch 1 0 catch 'ERROR' 1 catch [2] 2 catch all 3 end" % (call, a), legacy))
        for a in P:
            for b in P:
                cases.append((name, pre + "%s(%s, %s)" % (call, a, b), legacy))
        k3 = 200 if tier != "thorough" else 2500
        for _ in range(k3):
            a, b, c = rnd.choice(P), rnd.choice(P), rnd.choice(P)
            cases.append((name, pre + "%s(%s, %s, %s)" % (call, a, b, c), legacy))
    # prototype chains of every small shape (straight, self-cycle, 2-cycle, a lead-in of 1..2 objects into a cycle) x access forms:
    # finite object graphs on which member lookup, calls, rendering, comparison and iteration must end
    SHAPES = {"straight": "def a = <*x = 1*>; def b = <*_proto_ = a*>; def c = <*_proto_ = b*>",
              "self": "def c = <*x = 1*>; c->_proto_ = c",
              "two": "def a = <*x = 1*>; def c = <*_proto_ = a*>; a->_proto_ = c",
              "lead1": "def a = <*x = 1*>; def b = <*_proto_ = a*>; a->_proto_ = b; def c = <*_proto_ = a*>",
              "lead2": "def a = <*x = 1*>; def b = <*_proto_ = a*>; a->_proto_ = b; def d = <*_proto_ = b*>; def c = <*_proto_ = d*>",
              "nonobject": "def c = <*_proto_ = 5*>", "listproto": "def c = <*_proto_ = [1]*>"}
    ACCESS = ["c->x", "c->missing", "c['x']", "c['missing']", "c['missing', 42]", "c->missing()", "c->x()", "string(c)", "c == c", "c in [c]", "[k for k in c]",
              "for k in c do k end", "c->missing = 1; c->missing", "length(c)", "c !> string()", "keys(c)", "<<c>>", "<<<c => 1>>>[c]", "c is empty", "def d = c; d->x",
              "c->_proto_->missing", "type(c)", "c < c", "sorted([c, c])", "object(c)", "map(c)", "list(c)"]
    for sn, sh in SHAPES.items():
        for ac in ACCESS:
            cases.append(("proto:" + sn, "%s; %s" % (sh, ac), False))
            cases.append(("proto:" + sn, "%s; do %s catch all 0 end" % (sh, ac), False))
    # failures of the host in forms that are no function calls (found as C13-F22): huge ints rendered for messages / ordered next to text,
    # keys changed in place after insertion, recursion through prototype cycles and _str_
    BIG = "def x = 1; for i in range(5000) do x = x * 10 end; "
    for prog in [BIG + "def m = <<<>>>; m[x]", BIG + "length(<<x, 'a'>>)", BIG + "[1][x]", BIG + "for e in <<x, 'a'>> do e end", BIG + "def [p, q] = <<x, 'a'>>; q", BIG + "x in <<'a', x>>",
                 BIG + "<<<x => 1, 'a' => 2>>>['b', 0]", BIG + "[e for e in <<x, 'a', 2.5>>] !> length()", BIG + "x == x + 0 and x + 1 > x",
                 "def k = 'ab'; def m = <<<>>>; m[k] = 1; k[0] = 'x'; for v in m do v end", "def k = [1]; def m = <<<>>>; m[k] = 1; append(k, 2); [v for v in m]",
                 "def k = [1]; def s = <<k>>; append(k, 2); [k in s, length(s), [e for e in s]]", "def a = <*x = 1*>; def b = <*x = 1*>; a->_proto_ = b; b->_proto_ = a; a in [b]",
                 "def o = <*_str_ = string*>; for x in <<o, 1>> do x end", "def o = <*a = 1*>; o->s = o; def m = <<<>>>; m[o] = 1; length(m)"]:
        cases.append(("raw-escape", prog, False))
        cases.append(("raw-escape", "do %s catch all 'caught' end" % prog, False))
        cases.append(("raw-escape", "def l_ = []; do %s catch 'ERROR' append(l_, 1) finally append(l_, 2) end; l_" % prog, False))
    # string interpolation whose substituted values contain placeholders themselves (with widths, alignments, each other): one pass, it ends
    for prog in ["def a = '{a#12}'; s('x{a#12}y')", "def a = '{a}'; s('{a#5}{a}')", "def a = '{b#9}'; def b = '{a#9}'; s('{a#12} {b#-12}')", "def a = '{'; s('{a#3}}')",
                 "def a = '{a#012}'; s('{a#012}')", "def a = '{a#-12}'; s('{a#-12}|{a#20}')", "def a = '{{a#8}#8}'; s('{a#8}')", "def a = '}{a#4}{'; s('{a#9}{a#2}')",
                 "def n = 5; def a = '{n#3}'; s('{a#2}{a#7}{n#04}')", "def a = 'x'; s('{a#100000}') !> length()"]:
        cases.append(("s-braces", prog, False))
        cases.append(("s-braces", "do %s catch all 'caught' end" % prog, False))
    # loops over an input value (lines of a text) with every way of leaving an iteration
    for body in ["if line == 'skip' then continue; append(seen, line)", "if line == 'skip' then break; append(seen, line)", "append(seen, line); continue", "continue",
                 "if line == 'b' then return seen; append(seen, line)", "do if line == 'skip' then continue end; append(seen, line)", "for c in line do if c == 'k' then continue end; append(seen, line)"]:
        for text in ["a\\nskip\\nb", "skip", "", "skip\\nskip\\na"]:
            cases.append(("input-loop", "require IO; def seen = []; def f() do for line in IO->str_input('%s') do %s end; seen end; f()" % (text, body), False))
    # element assignment whose right-hand side shrinks, grows or replaces the very container it assigns to
    for coll in ["[1, 2, 3]", "[1]", "<<<1 => 2, 3 => 4>>>", "'abc'", "<*a = 1*>"]:
        for tgt in ["c[2]", "c[-1]", "c[0]", "c[1]", "c['a']", "c->a"]:
            for rhs in ["delete_at(c, 0)", "do delete_at(c, 0); delete_at(c, 0) end", "remove(c, 1)", "append(c, 7)", "do c = NULL; 5 end", "do c = [9]; 5 end", "length(append(c, 1))"]:
                for op in ["=", "+="]:
                    cases.append(("assign-rhs-mutates", "def c = %s; %s %s %s; c" % (coll, tgt, op, rhs), False))
                    cases.append(("assign-rhs-mutates", "def c = %s; do %s %s %s catch all 0 end; c" % (coll, tgt, op, rhs), False))
    for prog in ["def f() do return; end; f()", "def f() do return end; f()", "def f() return; f()", "def f() do 1; return; end; f()", "return", "return;",
                 "for x in [1] do return end", "def f() do if TRUE then return; 5 end; f()", "(fn() do return end)()", "def o = <*m = fn(self) do return; end*>; o->m()"]:
        cases.append(("bare-return", prog, False))
    # a collection changed by the body of the loop / comprehension that runs over it (bounded: it must end)
    for coll in ["<*a = 1, b = 2*>", "<<<1 => 2, 3 => 4>>>", "<<1, 2, 3>>", "[1, 2, 3]", "'abc'"]:
        for body in ["c->zz = 1", "c['zz'] = 1", "c[9] = 1", "remove(c, k)", "append(c, 9)", "delete_at(c, 0)", "put(c, 99, 1)", "c = NULL", "if length(c) < 6 then append(c, k)",
                     "if length(c) < 6 then c[length(c) + 10] = 1"]:
            if coll.startswith("[") and body == "append(c, 9)":
                continue          # appending to the list a for statement runs over never ends, by the language's definition (as in the host language)
            for loop in ["for k in c do %s end; c", "for k in keys c do %s end; c", "for [k, v] in entries c do %s end; c", "[do %s end for k in c]", "<<do %s; 1 end for k in c>>"]:
                cases.append(("mutate-in-loop", "def c = %s; %s" % (coll, loop % body), False))
                cases.append(("mutate-in-loop", "def c = %s; do %s catch all 0 end" % (coll, loop % body), False))
    for f in FORMS1:
        for a in P:
            cases.append((f, f.replace("$a", a), False))
    # an int beyond the range of a binary64 next to every value of the pool, in the forms that compare, order and hash (not as a count:
    # a result of 10^400 elements is not asked for)
    H = "1" + "0" * 400
    for f in ["$a in [H]", "H in [$a]", "for x in <<H, $a>> do x end", "def [p, q] = <<H, $a>>; [p, q]", "def s = <<H, $a>>; [...s]", "<<<H => 1, $a => 2>>>", "[x for x in <<H, $a>>]",
              "[k for k in keys <<<H => 1, $a => 2>>>]", "H == $a", "H < $a", "$a <= H", "sorted([H, $a])", "H + $a", "H - $a", "H * $a", "$a / H", "H % $a", "decimal(H)", "string(H * $a)",
              "<<H>> == <<$a>>", "compare(H, $a)", "def f(p...) p; def s = <<H, $a>>; f(...s)", "[H, $a] < [$a, H]", "<<<H => 1>>>[$a, 0]", "-H < $a < H"]:
        for a in P:
            cases.append(("huge:" + f, f.replace("$a", a).replace("H", H), False))
    for f in FORMS2:
        for a in P:
            for b in P:
                cases.append((f, f.replace("$a", a).replace("$b", b), False))
    for f in FORMS3:
        trip = list(itertools.product(P, repeat=3))
        if tier != "thorough":
            trip = rnd.sample(trip, 1500)
        for a, b, c in trip:
            cases.append((f, f.replace("$a", a).replace("$b", b).replace("$c", c), False))
    return fns, cases


def main(tier, seed, replay=None):
    rep = Report("C13", tier, seed)
    core.setup_impl_path()
    from vlib import impl
    rnd = core.rng(seed, "C13")
    rep.rule = ("every function of the base environment (legacy and non-legacy) and of the bundled modules (except: %s) and %d syntactic forms "
                "(operators, indexing, slicing, membership, predicates, iteration, comprehensions, spread, destructuring, member access, calls, "
                "catch, require) x all argument tuples of arity <= 2 from a pool of %d values (every kind; 0, negative, empty, NULL) and a sample "
                "of arity 3 (thorough: 2500 per function, all for the forms); outcome classes value / runtime error / host exception / timeout; "
                "distinct by program text, non-trivial when the call has at least one argument") % (", ".join(sorted(EXCLUDE)), len(FORMS1) + len(FORMS2) + len(FORMS3), len(POOL))
    rep.trusted += ["Model/Eval.v + its natives cover a fragment only; containment for the rest of the library is decided by the enumeration",
                    "termination of functions written in the language is decided by the 2 s bound only (partial)"]
    if replay:
        return do_replay(rep, replay, impl)
    ok = core.standard_coq(rep, evalcheck.TARGETS + ["Proofs/SeqProofs.vo"], "Props/C13.v")
    if ok:
        evalcheck.correspondence(rep, rnd, "mix", 300 if tier != "thorough" else 3000)
    fns, cases = build(tier, rnd)
    os.makedirs(core.WORK, exist_ok=True)
    chunks = {}
    for k, (target, prog, legacy) in enumerate(cases):
        chunks.setdefault((legacy, k % 64), []).append(k)
    jobs = [([PRELUDE + cases[k][1] for k in ks], legacy) for (legacy, _), ks in chunks.items()]
    import sys
    sys.path.insert(0, os.path.join(core.VERIF, "tools"))
    import c13worker
    import concurrent.futures
    with concurrent.futures.ThreadPoolExecutor(max_workers=16) as ex:
        outs = list(ex.map(lambda j: c13worker.run_robust(j[0], j[1]), jobs))
    res = [None] * len(cases)
    for ((legacy, _), ks), out in zip(chunks.items(), outs):
        for k, o in zip(ks, out):
            res[k] = o
    classes = {}
    bad = {}
    for (target, prog, _), o in zip(cases, res):
        rep.count()
        classes[o.split(":")[0]] = classes.get(o.split(":")[0], 0) + 1
        if "(" in prog and not prog.endswith("()"):
            rep.nontriv(prog)
        if o.startswith("host") or o in ("timeout", "err-uncanon", "crash", "hang"):
            bad.setdefault((target, o), prog)
    for (target, o), prog in sorted(bad.items()):
        rep.violation("input", "%s: %s escapes from %s" % (target, o, prog), check="escape", target=target, outcome=o, program=prog)
    rep.oblige("enumeration: %d calls of %d functions and %d forms end in a value or the language's runtime error" % (
        len(cases), len(fns), len(FORMS1) + len(FORMS2) + len(FORMS3)), not bad, "%d (target, escape) classes" % len(bad))
    o = c13worker.run_robust([CYCLIC_PROBE], False, hard_timeout=30)[0]
    rep.count()
    if o != "val":
        rep.violation("input", "%s -> %s" % (CYCLIC_PROBE, o), check="cyclic", target="self-containing list", outcome=o, program=CYCLIC_PROBE)
    rep.cov["outcome_classes"] = classes
    rep.cov["functions"] = len(fns)
    rep.cov["calls"] = len(cases)
    rep.sample({"program": cases[1000][1], "outcome": res[1000]})
    rep.sample({"program": cases[-5][1], "outcome": res[-5]})
    if tier == "thorough":
        core.coqchk(rep, "Ckl.Props.C13")
    return rep.finish()


def do_replay(rep, path, impl):
    import json
    import sys
    sys.path.insert(0, os.path.join(core.VERIF, "tools"))
    import c13worker
    body = json.load(open(path))
    rep.no_evidence = True
    n = 0
    os.makedirs(core.WORK, exist_ok=True)
    for v in body.get("violations", []):
        prog = v.get("program")
        if not prog or v.get("check") != "escape":
            continue
        for legacy in (True, False):
            o = c13worker.run_robust([PRELUDE + prog], legacy, hard_timeout=20)[0]
            if o.startswith("host") or o in ("timeout", "crash", "hang"):
                print("REPRODUCED: %s -> %s" % (prog, o))
                rep.violation("input", "%s: %s" % (prog, o), check="escape", target=v["target"], outcome=o, program=prog)
                n += 1
                break
        rep.count()
    if not n:
        print("replay: nothing reproduced")
    rep.oblige("replay ran", True)
    return rep.finish()
