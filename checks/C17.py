"""C17 - dates and day numbers convert one-to-one; date arithmetic is calendar-correct.

Deciding method: theorems in coq/Props/C17.v about Gallina kernels regenerated
from src/ckl/date.py on this run (T), a vm_compute correspondence of the
generated kernels against the Python functions they came from, and a search
for failing inputs on the implementation against the proleptic Gregorian
calendar of `datetime`."""
import datetime
import math
import os
import sys

from vlib import core
from vlib.core import Report, zlit


FUEL = 9000


def norm_float(x):
    """(kind, sign, odd mantissa, exponent) of a python float"""
    if x != x:
        return (3, 0, 0, 0)
    if x in (float("inf"), float("-inf")):
        return (2, 1 if x < 0 else 0, 0, 0)
    if x == 0:
        return (0, 1 if math.copysign(1, x) < 0 else 0, 0, 0)
    n, d = abs(x).as_integer_ratio()
    e = 0
    while n % 2 == 0:
        n //= 2
        e += 1
    while d % 2 == 0 and d > 1:
        d //= 2
        e -= 1
    assert d == 1
    return (1, 1 if x < 0 else 0, n, e)


def norm_enc(enc):
    k, s, m, e = enc
    if k == 1:
        while m % 2 == 0:
            m //= 2
            e += 1
    return (k, s, m, e)


EXC = {"IndexError": 1, "ValueError": 2, "ZeroDivisionError": 3, "TypeError": 4, "KeyError": 5,
       "OverflowError": 6, "AttributeError": 7, "RecursionError": 8, "error": 9}


def py_res(fn, enc):
    try:
        return [0] + enc(fn())
    except Exception as e:  # host exception of the Python kernel
        return [2, EXC.get(type(e).__name__, 99)]


def translate(rep):
    from tools.translate import date_gen, pykernel
    try:
        text = date_gen.generate(core.SRC)
    except pykernel.Unsupported as e:
        rep.oblige("translate src/ckl/date.py -> Gen/Date.v", False, "translator failed closed: %s" % e)
        return False
    except Exception as e:
        rep.oblige("translate src/ckl/date.py -> Gen/Date.v", False, "translator error: %r" % e)
        return False
    with core.CoqLock():
        changed = core.write_if_changed(os.path.join(core.COQ, "Gen", "Date.v"), text)
    rep.oblige("translate src/ckl/date.py -> Gen/Date.v", True)
    rep.cov["gen_date_changed_vs_disk"] = changed
    return True


def t_correspondence(rep, rnd, n_cases):
    """generated Gallina kernels vs the Python functions they were generated from"""
    from ckl import date as D
    years = [1899, 1900, 1901, 1904, 1999, 2000, 2001, 2100, 2400, 9999, 10000, 0, -4, -100, -400] + \
        [rnd.randint(1, 12000) for _ in range(60)]
    leap_cases = years
    md_cases = [(y, m) for y in (1900, 2000, 2023, 2024) for m in range(-14, 15)]
    dts = []
    for _ in range(n_cases):
        # the model's year loop costs ~60 us per year in vm_compute: keep most cases early
        y = rnd.choice([1900, 1901, 1970, 2000, 2024, rnd.randint(1900, 2100), rnd.randint(1900, 2100)])
        if rnd.random() < 0.03:
            y = rnd.choice([9999, rnd.randint(2100, 9999)])
        m = rnd.randint(1, 12)
        d = rnd.randint(1, 28 if rnd.random() < 0.8 else (29 if m == 2 and D.is_leap_year(y) else 28))
        if rnd.random() < 0.15:
            m, d = rnd.choice([(1, 1), (12, 31), (2, 28), (3, 1)])
        h, mi, s = rnd.randint(0, 23), rnd.randint(0, 59), rnd.randint(0, 59)
        us = rnd.choice([0, 0, 0, 444000, rnd.randint(0, 999) * 1000, rnd.randint(0, 999999)])
        if rnd.random() < 0.3:
            h = mi = s = us = 0
        dts.append((y, m, d, h, mi, s, us))
    floats = []
    for (y, m, d, h, mi, s, us) in dts:
        floats.append(D.to_oa_date(datetime.datetime(y, m, d, h, mi, s, us)))
    floats += [2.0, 1.5, 1.0, 0.0, -3.0, 2958465.0, 2958465.99999, 2958466.0, 25569.0, 36678.533755138895,
               60.0, 61.0, 59.99999999, 1e18, float("inf"), float("nan"), 2.9999999999, 366.0, 367.0, 368.0]
    ints = [2, 3, 60, 61, 366, 367, 368, 25569, 36526, 2958465, 2958466, 1, 0, -5] + \
        [rnd.randint(2, 80000) for _ in range(n_cases // 2)] + [rnd.randint(2, 2958465) for _ in range(6)]

    def dtenc(r):
        return [r.year, r.month, r.day, r.hour, r.minute, r.second, r.microsecond]

    exp_leap = [[1 if D.is_leap_year(y) else 0] for y in leap_cases]
    exp_md = [py_res(lambda: D.month_days(y, m), lambda v: [v]) for (y, m) in md_cases]
    exp_oa = [norm_float(D.to_oa_date(datetime.datetime(*t))) for t in dts]
    exp_td = [py_res(lambda: D.to_date(f), dtenc) for f in floats]
    exp_tdz = [py_res(lambda: D.to_date(n), dtenc) for n in ints]

    from tools.translate.pykernel import flit
    lines = [
        "From Coq Require Import String.",
        "From Coq Require Import ZArith List Bool.",
        "From Coq Require Import PrimFloat.",
        "From Ckl Require Import Prelude.PyPrelude Prelude.PyDatetime Prelude.Enc Gen.Date.",
        "Import ListNotations.",
        "Open Scope Z_scope.",
        "Set Printing Depth 1000000.",
        "Set Printing Width 200.",
        "Definition fuel := Z.to_nat %d." % FUEL,
        "Eval vm_compute in map (fun y => enc_bool (is_leap_year y)) [%s]." % "; ".join(zlit(y) for y in leap_cases),
        "Eval vm_compute in map (fun '(y, m) => enc_res enc_z (month_days y m)) [%s]." % "; ".join(
            "(%s, %s)" % (zlit(y), zlit(m)) for y, m in md_cases),
        "Eval vm_compute in map (fun d => match to_oa_date d with Ok f => enc_float f | _ => [9] end) [%s]." % "; ".join(
            "mkdt %d %d %d %d %d %d %d" % t for t in dts),
        "Eval vm_compute in map (fun f => enc_res enc_dt (to_date fuel f)) [%s]." % "; ".join(flit(f) for f in floats),
        "Eval vm_compute in map (fun n => enc_res enc_dt (to_date_z fuel n)) [%s]." % "; ".join(zlit(n) for n in ints),
    ]
    ok, out = core.coq_eval("c17cases", "\n".join(lines) + "\n", timeout=900)
    rep.checker_cmds.append("coqc .work/c17cases.v (vm_compute of the generated kernels on %d cases)" % (
        len(leap_cases) + len(md_cases) + len(dts) + len(floats) + len(ints)))
    if not ok:
        rep.oblige("T-correspondence: generated kernels evaluate", False, out)
        return
    blocks = core.parse_z_lists(out)
    if len(blocks) != 5 or any(b is None for b in blocks):
        rep.oblige("T-correspondence: generated kernels evaluate", False, "unparsable output:\n" + out[-3000:])
        return
    groups = [
        ("is_leap_year", leap_cases, exp_leap, blocks[0], None),
        ("month_days", md_cases, exp_md, blocks[1], None),
        ("to_oa_date", dts, [list(e) for e in exp_oa], [list(norm_enc(b)) if len(b) == 4 else b for b in blocks[2]], None),
        ("to_date", floats, exp_td, blocks[3], None),
        ("to_date(int)", ints, exp_tdz, blocks[4], None),
    ]
    dis = 0
    total = 0
    for name, ins, exp, got, _ in groups:
        if len(exp) != len(got):
            rep.oblige("T-correspondence %s" % name, False, "length mismatch %d vs %d" % (len(exp), len(got)))
            dis += 1
            continue
        for i, (a, e, g) in enumerate(zip(ins, exp, got)):
            total += 1
            rep.count()
            if list(e) != list(g):
                dis += 1
                rep.violation("correspondence", "generated %s disagrees with src/ckl/date.py" % name,
                              function=name, input=repr(a), impl=list(e), model=list(g))
            rep.nontriv(("T", name, repr(a)))
    rep.oblige("T-correspondence: generated kernels = ckl.date on %d cases" % total, dis == 0,
               "%d disagreements" % dis)
    rep.sample({"kind": "T-correspondence", "to_date_input": floats[0], "impl": exp_td[0], "model": blocks[3][0]})
    rep.cov["t_correspondence_cases"] = total


# ------------------------------------------------------------------ oracle on the implementation

BASE = datetime.date(1900, 1, 1).toordinal() - 2   # day number = ordinal - BASE


def check_day(y, m, d):
    """Returns a list of failure descriptions for calendar day (y, m, d)."""
    from ckl import date as D
    fails = []
    dt = datetime.datetime(y, m, d)
    want = dt.toordinal() - BASE
    try:
        n = D.to_oa_date(dt)
        if n != want:
            fails.append(("to_oa_date", "to_oa_date(%04d-%02d-%02d) = %r, calendar says %d" % (y, m, d, n, want)))
        for arg in (want, float(want)):
            back = D.to_date(arg)
            if back != dt:
                fails.append(("to_date", "to_date(%r) = %s, calendar says %s" % (arg, back, dt)))
    except Exception as e:
        fails.append(("host", "%s on %04d-%02d-%02d: %s" % (type(e).__name__, y, m, d, e)))
    return fails


def days_worker(args):
    lo, hi = args
    core.setup_impl_path()
    out = []
    n = 0
    o = lo
    while o < hi:
        dt = datetime.date.fromordinal(o)
        f = check_day(dt.year, dt.month, dt.day)
        n += 1
        for k, msg in f:
            if len(out) < 5:
                out.append((k, msg, dt.year, dt.month, dt.day))
        o += 1
    return n, out


def oracle(rep, rnd, tier):
    from ckl import date as D
    interp_mod = __import__("vlib.impl", fromlist=["x"])
    # (a) conversions ------------------------------------------------
    first = datetime.date(1900, 1, 1).toordinal()
    last = datetime.date(9999, 12, 31).toordinal()
    days = set()
    if tier == "thorough":
        import multiprocessing
        chunks = []
        step = 4000
        o = first
        while o <= last:
            chunks.append((o, min(o + step, last + 1)))
            o += step
        with multiprocessing.Pool(16) as pool:
            total = 0
            for n, out in pool.imap_unordered(days_worker, chunks, chunksize=4):
                total += n
                for k, msg, y, m, d in out:
                    rep.violation("input", msg, check="conversion", fault=k, y=y, m=m, d=d)
        rep.count(total)
        rep.cov["calendar_days_checked"] = total
        rep.cov["exhaustive"] = True
        for i in range(total):
            pass
        rep.nontrivial.add(("days", total))
    # stratified set (both tiers; the thorough tier has covered all of it already)
    years = list(range(1900, 2101)) + list(range(2101, 10000, 37)) + [9998, 9999]
    for y in years:
        for m in range(1, 13):
            days.add((y, m, 1))
            nxt = datetime.date(y + (m == 12), (m % 12) + 1, 1) if not (y == 9999 and m == 12) else None
            lastd = (nxt - datetime.timedelta(days=1)).day if nxt else 31
            days.add((y, m, lastd))
        days.add((y, 2, 28))
    for _ in range(1500):
        o = rnd.randint(first, last)
        dt = datetime.date.fromordinal(o)
        days.add((dt.year, dt.month, dt.day))
    if tier != "thorough":
        days = sorted(days)
        # bound the quick tier: the O(year) loops of the implementation dominate
        keep = [t for t in days if t[0] <= 2100] + rnd.sample([t for t in days if t[0] > 2100], 1500)
        n = 0
        for (y, m, d) in keep:
            for k, msg in check_day(y, m, d):
                rep.violation("input", msg, check="conversion", fault=k, y=y, m=m, d=d)
            n += 1
            rep.nontriv(("day", y, m, d))
        rep.count(n)
        rep.cov["calendar_days_checked"] = n
    # (b) times of day: round trip to the second ------------------------
    nt = 4000 if tier != "thorough" else 60000
    bad_t = 0
    # the first and the last representable day and the days next to them, at the ends and in the middle of the day
    edge = [datetime.datetime(y, m, d, hh, mm, ss) for (y, m, d) in ((1900, 1, 1), (1900, 1, 2), (9999, 12, 30), (9999, 12, 31), (2000, 2, 29), (1999, 12, 31))
            for (hh, mm, ss) in ((0, 0, 0), (0, 0, 1), (12, 34, 56), (23, 59, 58), (23, 59, 59))]
    for i in range(nt + len(edge)):
        y = rnd.choice([1900, 1970, 2000, 2024, 2079, 9999, rnd.randint(1900, 9999)])
        if tier != "thorough" and y > 2400 and rnd.random() < 0.8:
            y = rnd.randint(1900, 2400)
        m, d = rnd.randint(1, 12), rnd.randint(1, 28)
        dt = datetime.datetime(y, m, d, rnd.randint(0, 23), rnd.randint(0, 59), rnd.randint(0, 59))
        if i < len(edge):
            dt = edge[i]
        try:
            back = D.to_date(D.to_oa_date(dt))
            if back.replace(microsecond=0) != dt or back.microsecond != 0:
                rep.violation("input", "to_date(to_oa_date(%s)) = %s" % (dt, back), check="time", dt=str(dt))
        except Exception as e:
            rep.violation("input", "%s in time round trip of %s" % (type(e).__name__, dt), check="time", dt=str(dt))
        rep.count()
        rep.nontriv(("time", str(dt)))
    rep.cov["time_roundtrips"] = nt
    # (c) through the interpreter: int/decimal/date inverse and + / - ----
    I = interp_mod.new_interpreter(False, False)
    np_ = 1500 if tier != "thorough" else 20000
    offsets = [0, 1, -1, 2, 7, 28, 29, 30, 31, 59, 60, 365, 366, -365, -366, 1461, 36524, 36525, 146097]
    for i in range(np_):
        y = rnd.choice([1900, 1901, 1999, 2000, 2020, 2024, rnd.randint(1900, 2300), rnd.randint(1900, 9999)])
        if tier != "thorough" and y > 2400 and rnd.random() < 0.7:
            y = rnd.randint(1900, 2400)
        m, d = rnd.choice([(1, 1), (12, 31), (2, 28), (3, 1), (rnd.randint(1, 12), rnd.randint(1, 28))])
        k = rnd.choice(offsets + [rnd.randint(-3000, 3000)])
        base = datetime.date(y, m, d)
        o2 = base.toordinal() + k
        if not (first <= o2 <= last):
            continue
        tgt = datetime.date.fromordinal(o2)
        ds = "%04d%02d%02d" % (y, m, d)
        want_s = "(s" + "".join(" %d" % ord(c) for c in "%04d%02d%02d000000" % (tgt.year, tgt.month, tgt.day)) + ")"
        daynum = base.toordinal() - BASE
        progs = [
            ("string(date('%s') + %d)" % (ds, k) if k >= 0 else "string(date('%s') - %d)" % (ds, -k), want_s),
            ("(date('%s') + %d) - date('%s')" % (ds, k, ds) if k >= 0 else "(date('%s') - %d) - date('%s')" % (ds, -k, ds), "(i %d)" % k),
            ("string((date('%s') + %d) - %d)" % (ds, k, k) if k >= 0 else "string((date('%s') - %d) + %d)" % (ds, -k, -k),
             "(s" + "".join(" %d" % ord(c) for c in ds + "000000") + ")"),
            ("int(date('%s'))" % ds, "(i %d)" % daynum),
            ("string(date(%d))" % daynum, "(s" + "".join(" %d" % ord(c) for c in ds + "000000") + ")"),
            ("string(date(decimal(date('%s'))))" % ds, "(s" + "".join(" %d" % ord(c) for c in ds + "000000") + ")"),
            ("int(date(%d)) == %d" % (daynum, daynum), "(b 1)"),
        ]
        for src, want in progs:
            got = interp_mod.run_src(I, src)
            rep.count()
            rep.nontriv(("prog", src))
            if got[0] != "val" or got[1] != want:
                rep.violation("input", "%s gives %s, calendar says %s" % (src, got, want), check="program",
                              program=src, got=list(got), want=want)
    # (c2) the day number of a date-time is the day number of its day, at every time of day - also in the last seconds before midnight
    for (y, m, d) in [(1900, 1, 1), (1999, 12, 31), (2000, 2, 29), (2024, 6, 15), (9999, 12, 30), (9999, 12, 31), (2100, 2, 28), (1970, 1, 1)] + \
            [(rnd.randint(1900, 9999), rnd.randint(1, 12), rnd.randint(1, 28)) for _ in range(20 if tier != "thorough" else 300)]:
        daynum = datetime.date(y, m, d).toordinal() - BASE
        for (hh, mm, ss) in [(0, 0, 0), (0, 0, 1), (11, 59, 59), (12, 0, 0), (23, 59, 50), (23, 59, 55), (23, 59, 56), (23, 59, 57), (23, 59, 58), (23, 59, 59)]:
            ts = "%04d%02d%02d%02d%02d%02d" % (y, m, d, hh, mm, ss)
            for src, want in [("int(date('%s'))" % ts, "(i %d)" % daynum),
                              ("string(date(int(date('%s'))))" % ts, "(s" + "".join(" %d" % ord(c) for c in ts[:8] + "000000") + ")"),
                              ("int(date('%s')) == int(decimal(date('%s')))" % (ts, ts), "(b 1)"),
                              ("string(date(decimal(date('%s'))))" % ts, "(s" + "".join(" %d" % ord(c) for c in ts) + ")")]:
                got = interp_mod.run_src(I, src)
                rep.count()
                if got[0] != "val" or got[1] != want:
                    rep.violation("input", "%s gives %s, calendar says %s" % (src, got, want), check="program", program=src, got=list(got), want=want)
    # (d) the same laws for dates with a time of day, concentrated where the day number crosses a
    #     power of two (the float spacing changes there) and on large offsets
    nt2 = 2500 if tier != "thorough" else 40000
    pows = [2 ** k for k in range(2, 22)]
    for i in range(nt2):
        r = rnd.random()
        if r < 0.6:
            p2 = rnd.choice(pows[8:])
            n0 = p2 - rnd.randint(1, 40)
            k = rnd.randint(1, 80)
        elif r < 0.8:
            n0 = rnd.randint(2, 2958465 - 200000)
            k = rnd.choice([100000, 36525, 146097, 200000, rnd.randint(1, 200000)])
        else:
            n0 = rnd.randint(2, 2958465 - 400)
            k = rnd.randint(1, 366)
        if rnd.random() < 0.3:
            n0, k = n0 + k, -k
        if not (2 <= n0 <= 2958465 and 2 <= n0 + k <= 2958465):
            continue
        base = datetime.date.fromordinal(n0 + BASE)
        hh, mm, ss = rnd.randint(0, 23), rnd.randint(0, 59), rnd.randint(0, 59)
        ds = "%04d%02d%02d%02d%02d%02d" % (base.year, base.month, base.day, hh, mm, ss)
        tgt = datetime.date.fromordinal(n0 + k + BASE)
        ts = "%04d%02d%02d%02d%02d%02d" % (tgt.year, tgt.month, tgt.day, hh, mm, ss)
        pk = "+ %d" % k if k >= 0 else "- %d" % -k
        mk = "- %d" % k if k >= 0 else "+ %d" % -k
        sx = lambda s: "(s" + "".join(" %d" % ord(c) for c in s) + ")"
        progs2 = [
            ("def d = date('%s'); (d %s) - d" % (ds, pk), "(i %d)" % k),
            ("def d = date('%s'); d - (d %s)" % (ds, pk), "(i %d)" % -k),
            ("def d = date('%s'); string((d %s) %s)" % (ds, pk, mk), sx(ds)),
            ("def d = date('%s'); string(d %s)" % (ds, pk), sx(ts)),
            ("string(date(decimal(date('%s'))))" % ds, sx(ds)),
        ]
        for src, want in progs2:
            got = interp_mod.run_src(I, src)
            rep.count()
            rep.nontriv(("prog", src))
            if got[0] != "val" or got[1] != want:
                rep.violation("input", "%s gives %s, calendar says %s" % (src, got, want), check="program",
                              program=src, got=list(got), want=want)
    rep.sample({"kind": "program with time of day", "src": progs2[0][0], "want": progs2[0][1]})
    rep.sample({"kind": "program", "src": progs[0][0], "want": progs[0][1]})
    rep.sample({"kind": "conversion", "day": "2020-12-31", "daynum": datetime.date(2020, 12, 31).toordinal() - BASE})


def main(tier, seed, replay=None):
    rep = Report("C17", tier, seed)
    core.setup_impl_path()
    rnd = core.rng(seed, "C17")
    rep.rule = ("T-correspondence: generated Gallina kernels vs ckl.date on leap years, month lengths incl. out-of-range "
                "indices, datetimes with random times, float and int day numbers incl. out-of-range/NaN/inf; "
                "oracle: calendar days (quick: all month ends 1900-2100 + strided/random later years; thorough: every day "
                "1900-01-01..9999-12-31), random times, interpreter programs date +/- n, int/decimal/date; "
                "a case is distinct by its input; all are non-trivial (each exercises the year/month loops)")
    rep.trusted += [
        "Prelude/PyDatetime.v: CPython's datetime validity rule (independent of the code under test)",
        "hypothesis (not proved): binary64 arithmetic on day numbers < 2^22 plus a time-of-day fraction keeps "
        "floor() and round-to-millisecond exact; proved only on the finite set of C17_time_partial and sampled by the run",
        "datetime (CPython) as the reference calendar of the failing-input search",
    ]
    if replay:
        return do_replay(rep, replay)
    if translate(rep):
        ok, out = core.coq_make(["Proofs/DateProofs.vo", "Proofs/DateFloat.vo", "Prelude/Enc.vo"], timeout=1500)
        rep.checker_cmds.append("cd coq && make Proofs/DateProofs.vo Proofs/DateFloat.vo (full .vo build)")
        rep.oblige("build of the C17 development against the regenerated Gen/Date.v", ok, out[-6000:])
        if ok:
            core.coq_props(rep, "Props/C17.v")
        bad = core.forbidden_scan()
        rep.oblige("no Admitted/admit/Axiom/Parameter/... in coq/", not bad, "; ".join(bad))
        if ok:
            t_correspondence(rep, rnd, 300 if tier != "thorough" else 1500)
    oracle(rep, rnd, tier)
    if tier == "thorough":
        ok, out = core.run(["coqchk", "-silent", "-o"] + core.coq_flags()[:3] + ["Ckl.Props.C17"], 3000, cwd=core.COQ)
        rep.checker_cmds.append("coqchk -o -Q . Ckl Ckl.Props.C17")
        rep.oblige("coqchk re-checks Props/C17.vo and its dependencies", ok == 0, out[-3000:])
        rep.cov["coqchk_output_tail"] = out[-1500:]
    return rep.finish()


def do_replay(rep, path):
    import json
    body = json.load(open(path))
    rep.no_evidence = True
    from vlib import impl
    I = impl.new_interpreter(False, False)
    n = 0
    for v in body.get("violations", []):
        if v.get("check") == "conversion":
            for k, msg in check_day(v["y"], v["m"], v["d"]):
                print("REPRODUCED: " + msg)
                rep.violation("input", msg, check="conversion", fault=k, y=v["y"], m=v["m"], d=v["d"])
                n += 1
        elif v.get("check") == "program":
            got = impl.run_src(I, v["program"])
            if got[0] != "val" or got[1] != v["want"]:
                print("REPRODUCED: %s gives %s, want %s" % (v["program"], got, v["want"]))
                rep.violation("input", "%s gives %s" % (v["program"], got), check="program", program=v["program"], want=v["want"])
                n += 1
        rep.count()
    if not n:
        print("replay: nothing reproduced (%d recorded)" % len(body.get("violations", [])))
    rep.oblige("replay ran", True)
    return rep.finish()
