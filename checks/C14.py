"""C14 - program meaning is independent of layout, comments and literal spelling.
Deciding method: theorems in coq/Props/C14.v about the scanner step regenerated from Lexer.scan on every run
(positions never influence scanning; gaps of blanks/tabs/CR/LF/comments in the blank state change nothing but
positions), a T-correspondence of the generated scanner with Lexer.scan on re-rendered programs, and the
quantifier itself on the implementation: every generated program is re-rendered at least 10 times over all layout
and spelling choices and must give the same value, output and error value."""
import io

from checks import lexcheck
from vlib import core, lexrender, progen
from vlib.core import Report

EXTRA = ["def a = 0x1F + 0b101 - 1_000; a", "'it\\'s' + \"q\\\"q\" + 'tab\\tnl\\nx\\x41'", "1 != 2 and 2 <> 3", "def f(x) do x * 2; end; f(3);",
         "[1, 2, 3] !> length()", "<<<'a' => 1, 'b' => 2>>>['a']", "def s = 'a\nb'; length(s)", "-5 + 3 * (2 - 1)", "if TRUE then 'y' else 'n'",
         "def o = <*x = 1*>; o->x", "[x * 2 for x in [1, 2, 3] if x != 2]", "do error 'e' catch 'e' 1 finally 2 end", "def r = []; def p(n) do if n != 0 then error n; 'f' catch 1 do r = r + [n]; 'one' end catch 2 'two' catch all do 'any' end finally r = r + [0] end; [p(0), p(1), p(2), p(3), r]",
         "def class K do def a = 1; def get(self) self->a end; K->get()", "def f(x) do if x > 1 then return; x end; [f(1), f(2)]", "def r = do 1 end; r + 1", "def x = 1; x = x + do x * 10 end; x = x + 100; x",
         "def g(a) do def r = do a * 2 end; r end; g(21)", "def l = [do 1; 2 end, 3]; def m = max(do 4 end, 2); [length(l), m]", "def g(x) do if x > 1 then do return; end; return; end; def h() do return end; [g(1), g(2), h()]",
         "def l = []; def k(x) do if x > 1 then do append(l, x); return x * 2; end; append(l, 0); return; end; [k(1), k(5), l]", "//a.*// !> string()",
         "def x = 3; x += 0x10; x %= 7; x", "println('out'); print(1); 2", "-0.5 * 2", "1.50 + 2.25"]


def run(I, impl, src):
    I.environment = I.base_environment.newEnv()
    buf = io.StringIO()
    I.setStandardOutput(buf)
    out = impl.run_src(I, src)
    return (out[0], out[1] if len(out) > 1 else None, buf.getvalue())


def main(tier, seed, replay=None):
    rep = Report("C14", tier, seed)
    core.setup_impl_path()
    from vlib import impl
    rnd = core.rng(seed, "C14")
    rep.rule = ("every generated program (the generator of C02-C05) and a fixed set of literal-heavy programs is tokenised and re-rendered 10 "
                "times (thorough 25): random gaps at every token boundary (blanks, tabs, LF, CRLF, comments, or nothing next to brackets, commas "
                "and semicolons), int literals as decimal / hex (both cases) / binary / underscored, strings in either quote with equivalent "
                "escapes (\\n or raw LF, \\xHH), != versus <>, redundant parentheses around literals, a trailing semicolon, and in every other rendering each optional `;` (before the end / catch / finally that closes a statement sequence, so also after a catch handler of either form) put in or left out and do-blocks in operand position parenthesised; the value, output "
                "and error value must equal those of the canonical rendering; distinct by rendered text")
    rep.trusted += ["tools/translate/lexer_gen.py (fail-closed symbolic execution of the scanner loop body)",
                    "coq/Prelude/LexPrelude.v (meaning of int(s, 16|2), str.replace('_',''), chr under the guards of the source)"]
    I = impl.new_interpreter(False, False)
    if replay:
        return do_replay(rep, replay, I, impl)
    ok = core.standard_coq(rep, lexcheck.TARGETS, "Props/C14.v", regen=lexcheck.regen)
    nprog = 120 if tier != "thorough" else 800
    reps = 10 if tier != "thorough" else 25
    progs = list(EXTRA)
    for _ in range(nprog):
        progs.append(progen.generate(rnd, rnd.choice(["mix", "C04", "C03", "C05"]), 700)[0])
    texts = []
    dis = 0
    for p in progs:
        try:
            toks = lexrender.real_tokens(p)
        except Exception:
            continue
        base = run(I, impl, p)
        for k in range(reps):
            txt, _ = lexrender.render(lexrender.paren_blocks(lexrender.optional_semicolons(toks, rnd), rnd) if k % 2 else toks, rnd)
            got = run(I, impl, txt)
            rep.count()
            rep.nontriv(txt)
            if len(texts) < 400 and k < 3:
                texts.append(txt)
            if got != base:
                dis += 1
                rep.violation("input", "re-rendering changes the outcome: %r gives %s but %r gives %s" % (p, base, txt, got), check="layout",
                              program=p, rendering=txt)
    # recorded finding C14-F1: redundant parentheses after a unary minus (the renderer never puts parentheses there)
    for a, b in (("string(-0.0)", "string(-(0.0))"), ("require Math; -2 !> Math->abs()", "require Math; -(2) !> Math->abs()")):
        ra, rb = run(I, impl, a), run(I, impl, b)
        rep.count()
        if ra != rb:
            rep.violation("input", "redundant parentheses after unary minus change the result: %s gives %s but %s gives %s" % (a, ra[:2], b, rb[:2]),
                          check="paren-minus", program=a, rendering=b)
    rep.oblige("%d programs x %d re-renderings give the same value, output and error value" % (len(progs), reps), dis == 0, "%d differences" % dis)
    rep.sample({"program": progs[3], "rendering": texts[10] if len(texts) > 10 else ""})
    rep.sample({"program": progs[len(EXTRA) + 1][:200]})
    if ok:
        lexcheck.t_correspondence(rep, texts, "c14")
    if tier == "thorough":
        core.coqchk(rep, "Ckl.Props.C14")
    return rep.finish()


def do_replay(rep, path, I, impl):
    import json
    body = json.load(open(path))
    rep.no_evidence = True
    n = 0
    for v in body.get("violations", []):
        if v.get("check") == "layout":
            a, b = run(I, impl, v["program"]), run(I, impl, v["rendering"])
            if a != b:
                print("REPRODUCED: %r -> %s but %r -> %s" % (v["program"], a, v["rendering"], b))
                rep.violation("input", "re-rendering changes the outcome", check="layout", program=v["program"], rendering=v["rendering"])
                n += 1
        elif v.get("check") == "lexer":
            print("recorded scanner disagreement on %r" % v.get("text"))
        rep.count()
    if not n:
        print("replay: nothing reproduced")
    rep.oblige("replay ran", True)
    return rep.finish()
